language demo(go);

package = "demo"
eventBased = true
minimizeDFA = true

:: lexer

'a': /a/
'b': /b/

:: parser

%input A no-eoi;
A : A 'a' | 'b' 'a' ;
