language demo(go);

package = "demo"
eventBased = true
fixWhitespace = true
minimizeDFA = true

:: lexer

'x': /x/
'y': /y/
'z': /z/
WhiteSpace: /[ \t\r\n]/ (space)

:: parser

%input input;
input -> Input: A+ ;
A -> T: 'y' 'z' | 'x' E ;
E: %empty ;
