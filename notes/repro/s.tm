language s(go);

package = "example.com/c"
tokenStream = true

:: lexer

x: /x/
y: /y/

:: parser

%input file;

file: x y;
