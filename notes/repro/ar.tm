language demo(go);

package = "demo"
eventBased = true
tokenLine = false
tokenColumn = true

:: lexer

a: /a/
b: /b/
ws: /[ \n]+/ (space)

:: parser

%input X;
X -> X : a b? ;
