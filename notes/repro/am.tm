language demo(go);

package = "demo"
eventBased = true
eventFields = true
eventAST = true

:: lexer

id: /[a-z]+/
'+': /\+/

:: parser

%inject id -> Ident;

%input S;
S -> Root : x '+' x ;
x -> TokenSet : id ;
