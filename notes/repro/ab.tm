language demo(go);

package = "demo"
eventBased = true

:: lexer

'a': /a/
'b': /b/
'c' {int}: /c/ { $$ = 5 }
'd' {string}: /d/ { $$ = "s" }
'x': /x/

:: parser

%flag F;

%input S;
S {string} : A<+F> | 'b' Z ;
A<F> {string} : Y[y] { println("y", $y) } | [F] 'a' ;
Y {int} : 'c' { $$ = 5 } ;
Z {string} : 'd' ;
