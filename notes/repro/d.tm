language d(go);

package = "example.com/c"

:: lexer

x: /x/
y: /y/

:: parser

%input file;

file: x y;
