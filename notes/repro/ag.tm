language demo(go);

package = "demo"
eventBased = true
fixWhitespace = true

:: lexer

'a': /a/
'b': /b/
space: /[ \t\n]+/ (space)

:: parser

%input S;
S -> File : item+ ;
item -> Item : 'a' B ;
B : 'b'? ;
