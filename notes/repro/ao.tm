language demo(go);

package = "demo"
eventBased = true

:: lexer

a: /a/
b: /b/
x_1: /x/

:: parser

%input X;
X : a { foo() } b x_1 ;
