language b(go);

package = "example.com/b"
eventBased = true

:: lexer

a: /a/
b: /b/
c: /c/

:: parser

%input input;

%generate A = set(B | a);
%generate B = set(A | b);

input: x;
x -> X: set(A);
