language demo(go);

package = "demo"
eventBased = true

:: lexer

'b': /b/
'c': /c/
'd': /d/

:: parser

%input S;
S : 'd' 'c' | A 'c' ;
A : S | 'd' A 'b' ;
