language r(go);

package = "example.com/r"
eventBased = true

:: lexer

a: /a/
b: /b/
c: /c/
d: /d/

:: parser

%generate A = set(first y);
%generate B = set(A | d);

%input input;
input: w;
w: x+ y z;
x: a;
y: b;
z: c;
