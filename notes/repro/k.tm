language k(go);

package = "example.com/c"
eventBased = true
optimizeTables = true

:: lexer

x: /x/
y: /y/
z: /z/

:: parser lalr(2)

%input input;
input: z XX z x | z YY z y;
XX: z;
YY: z;
