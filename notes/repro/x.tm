language demo(go);

package = "demo"
eventBased = true

:: lexer

'a': /a/
FOO (FOO-BAR): /f/

:: parser

%input S;
S : _ 'a' ;
_ : 'a' FOO ;
