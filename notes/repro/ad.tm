language demo(go);

package = "demo"
eventBased = true
tokenStream = true
cancellable = true
cancellableFetch = true

:: lexer

'a': /a/
'b': /b/
'c': /c/

:: parser

%input S;
S -> Root : (?= LA) A | (?= !LA) B ;
A : 'a' 'b' ;
B : 'a' 'c' ;
LA : 'a' 'b' ;
