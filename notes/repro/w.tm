language demo(go);

package = "demo"
eventBased = true

:: lexer

'a': /a/
'b': /b/
'c': /c/
'e': /e/

:: parser lalr(2)

%input S;
S : T 'b' | B 'a' 'c' ;
T : A 'a' ;
A : 'e' ;
B : 'e' ;
