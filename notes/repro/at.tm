language demo(go);

package = "demo"
eventBased = true

:: lexer

a: /a/
nl: /\nabc/
b: /b/

:: parser

%input X;
X -> X : a nl? b? ;
