language j(go);

package = "example.com/c"
eventBased = true

:: lexer

a: /a/
b: /b/

:: parser

%lookahead flag A = false;
%lookahead flag B = false;

%input input;
input: x y;
x: [A] a | b;
y: [B] a | b;
