language demo(go);

package = "demo"
eventBased = true

:: lexer

'a' {int}: /a/ { $$ = 7 }
'b' {int}: /b/ { $$ = 8 }
'c': /c/

:: parser

%input S;
S {int} : A | B ;
A {int} : 'a'[x] { println("mid", $x) } 'b' ;
B {int} : 'a'[x] (?= LA) { println("mid", $x) } 'c' ;
LA : 'c' ;
