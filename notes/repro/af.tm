language demo(go);

package = "demo"
eventBased = true

:: lexer

'a': /a/
E: /()/

:: parser

%input S;
S : 'a' ;
