language demo(go);

package = "demo"
eventBased = true
eventAST = true

:: lexer

'a': /a/

:: parser

%input S;
S -> Root : 'a' ;
