language demo(go);

package = "demo"
eventBased = true
writeBison = true

:: lexer

'a': /a/
'b': /b/

:: parser

%input S;
S : 'a' { println("mid") } 'b' { println("end") } ;
