language demo(go);

package = "demo"
eventBased = true
recursiveLookaheads = true
minimizeDFA = true

:: lexer

'a': /a/
'b': /b/
'c': /c/

:: parser

%input input;
input : A | B | C ;
A : (?= S1 & !S2) 'a' 'b' ;
B : (?= !S1 & S2) 'a' 'c' ;
C : (?= !S1 & !S2) 'a' 'a' ;
S1 : 'a' 'b' ;
S2 : 'a' 'c' ;
