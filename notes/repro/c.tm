language c(go);

package = "example.com/c"
minimizeDFA = false
debugParser = false

:: lexer

x: /x/
y: /y/
z: /z/
plus: /\+/
eval: /eval/

:: parser

%input file, expr;

file: stmt+;

stmt:
    eval (?= expr) expr y
  | eval (?= !expr) x z
;

expr: expr plus x | x;
