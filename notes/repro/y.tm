language demo(go);

package = "demo"
eventBased = true

:: lexer

'a': /a/
'': /x/

:: parser

%input S;
S : 'a' '' ;
