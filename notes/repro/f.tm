language f(go);

package = "example.com/c"
scanBytes = true

:: lexer

ident: /[a-z\x80-\xff]+/ (class)
'é': /é/
'if': /if/
space: /[ ]+/ (space)
