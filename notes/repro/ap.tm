language demo(go);

package = "demo"
eventBased = true

:: lexer

a: /a{eoi}*/
b: /b/

:: parser

%input X;
X : a b? ;
