language m(go);

package = "example.com/c"
scanBytes = true
caseInsensitive = true

:: lexer

kelvin: /\u212a/
