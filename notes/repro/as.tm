language demo(go);

package = "demo"
eventBased = true
eventFields = true
eventAST = true
nodePrefix = "Nd"
fileNode = "File"

:: lexer

a: /a/
b: /b/

:: parser

%input X;
X -> File : a (b -> Bee)? ;
%interface Cat;
Y -> Cat : b ;
