language i(go);

package = "example.com/c"
aliasIncludesOptSuffix = false

:: lexer

foo {int}: /a/
b: /b/

:: parser

%input input;
input {int}: foo b fooopt { $$ = $foo };
