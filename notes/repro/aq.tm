language demo(go);

package = "demo"
eventBased = true
tokenStream = true
tokenLine = false

:: lexer

a: /a/
b: /b/

:: parser

%input X;
X -> X : a b? ;
