language g(go);

package = "demo"
eventBased = true

:: lexer

a: /a/
b: /b/
c: /c/

:: parser

%generate early = set(later);
%generate later = set(a | b);
%generate late2 = set(later);

%input input;
input: a b c;
