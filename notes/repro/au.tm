language demo(go);

package = "demo"
eventBased = true
cancellable = true

:: lexer

a: /a/
b: /b/
c: /c/
d: /d/
x: /x/

:: parser

%input input;
input -> Input: pad item ;
pad: x* ;
item -> Item:
    (?= PA) a a a b
  | (?= !PA & PB) a a a c
  | (?= !PA & !PB) a a a d
;
PA: a a a b ;
PB: a a a c ;
