language g(go);

package = "demo"
eventBased = true
writeBison = true

:: lexer

foo_bar: /a/
b: /b/

:: parser

%input input;
input: FOO_BAR b;
FOO_BAR: foo_bar foo_bar;
