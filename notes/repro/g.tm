language g(go);

package = "example.com/c"
eventBased = true

:: lexer

a: /a/
b: /b/

:: parser

%flag T = false;
%generate A = set(B | a);
%generate B = set(A | b);

%input input;
input: x<+T>;
x<T>: [T] a | b ;
