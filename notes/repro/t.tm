language g(go);

package = "example.com/g"
eventBased = true

:: lexer

b: /b/
space: /[ \n]+/ (space)

:: parser

%input S;
S -> SS: S F b | ;
F -> FF: ;
