language a(go);

package = "example.com/a"
eventBased = true

:: lexer

a: /a/
b: /b/
c: /c/
d: /d/
hexesc: /\xGZ/

:: parser

%input input;

%generate S1 = set(~d & (a | b | d));

input: x y;
x -> X: a | b;
y -> Y: set(~d & (a | b | d));
