#!/bin/bash
# usage: ./check.sh <property id> [quick|thorough]
# Decides the property's structural conditions from /repo's current source (nothing in /repo
# is executed). Exit 0 = held, exit 1 + "VIOLATION property=<id> replay=<path>" = violated.
set -u
cd "$(dirname "$0")"
VERIF="$PWD"
. tmsa/env.sh
ID="${1:?property id}"
TIER="${2:-${VERIF_TIER:-quick}}"
REPO="${REPO:-/repo}"
need_build=0
if [ ! -x bin/tmsa ]; then need_build=1; else
  for f in tmsa/*.go tmsa/go.mod; do [ "$f" -nt bin/tmsa ] && need_build=1; done
fi
if [ "$need_build" = 1 ]; then
  mkdir -p bin
  (cd tmsa && go build -o ../bin/tmsa.$$ . && mv ../bin/tmsa.$$ ../bin/tmsa) || { echo "tmsa: build failed" >&2; exit 2; }
fi
exec bin/tmsa check -p "$ID" -tier "$TIER" -repo "$REPO" -verif "$VERIF"
