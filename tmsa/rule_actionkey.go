package main

import (
	"sort"
	"strings"

	"golang.org/x/tools/go/ssa"
)

// FIELDCOV(action-key): compiler.(*commandExtractor).extract shares one extracted nonterminal
// between mid-rule actions whose key {code, vars.String()} is equal. Every field of
// grammar.ActionVars that extract itself consults when it builds the nonterminal (SymRefCount
// becomes the stack offset, CmdArgs the reference table) must take part in ActionVars.String();
// a field outside the key lets two actions with different stack layouts share generated code.
func ruleACTIONKEY(c *Ctx) {
	const rule = "FIELDCOV(action-key)"
	ex := c.SSAFunc("compiler", "(*commandExtractor).extract")
	str := c.SSAFunc("grammar", "(*ActionVars).String")
	if ex == nil || str == nil {
		c.Lost(rule, "compiler.commandExtractor.extract", "extract or ActionVars.String not found")
		return
	}
	fieldsRead := func(f *ssa.Function, recv ssa.Value) map[string]bool {
		out := map[string]bool{}
		for _, b := range f.Blocks {
			for _, ins := range b.Instrs {
				switch y := ins.(type) {
				case *ssa.FieldAddr:
					if y.X == recv && isNamedType(y.X.Type(), "grammar", "ActionVars") {
						out[fieldName(y.X.Type(), y.Field)] = true
					}
				case *ssa.Field:
					if isNamedType(y.X.Type(), "grammar", "ActionVars") {
						out[fieldName(y.X.Type(), y.Field)] = true
					}
				}
			}
		}
		return out
	}
	var vars ssa.Value
	for _, p := range ex.Params {
		if isNamedType(p.Type(), "grammar", "ActionVars") {
			vars = p
		}
	}
	if vars == nil || len(str.Params) == 0 {
		c.Lost(rule, "compiler.commandExtractor.extract:vars", "the *ActionVars parameter was not found")
		return
	}
	used := fieldsRead(ex, vars)
	keyed := fieldsRead(str, str.Params[0])
	var names []string
	for n := range used {
		names = append(names, n)
	}
	sort.Strings(names)
	if len(names) == 0 {
		c.Lost(rule, "compiler.commandExtractor.extract:vars", "extract reads no field of its ActionVars")
		return
	}
	for _, n := range names {
		key := "compiler.commandExtractor.extract:vars." + n
		if keyed[n] {
			c.Ok(rule, key, ex.Pos(), "ActionVars.%s is consulted by extract and is part of the sharing key (ActionVars.String)", n)
		} else {
			var ks []string
			for k := range keyed {
				ks = append(ks, k)
			}
			sort.Strings(ks)
			c.Bad(rule, key, ex.Pos(), "extract builds the shared nonterminal from ActionVars.%s, which ActionVars.String() (the sharing key; fields %s) does not include: two mid-rule actions that differ only in it share one nonterminal and one of them reads the wrong stack slots", n, strings.Join(ks, ","))
		}
	}
}
