# sourced by check.sh and during development: one fixed, offline toolchain for everything
export PATH=/opt/veriftools/go1.26.8/bin:$PATH
export GOTOOLCHAIN=local GOFLAGS=-mod=mod GOPROXY=off GOSUMDB=off GONOSUMDB='*' GONOSUMCHECK=1 GOFLAGS=-mod=mod
unset GOWORK
