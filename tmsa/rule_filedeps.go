package main

import (
	"fmt"
	"go/ast"
	"go/token"
	"path"
	"regexp"
	"sort"
	"strconv"
	"strings"

	"golang.org/x/tools/go/ssa"
)

// AGREE(file-deps): gen.(*language).templates decides from the options which groups of files
// are written (Lexer, Parser, Stream, Types, Selector, AST, TypedAST). A group's templates may
// import another generated package ({{pkg "selector"}}); the group that writes that package must
// then be selected on every path on which the importing group is. All paths of templates() are
// enumerated (every branch both ways, repeated conditions kept consistent) and, per path, every
// package a selected Go group imports must be written by some selected group.
func ruleFILEDEPS(c *Ctx) {
	const rule = "AGREE(file-deps)"
	p := c.Pkg("gen")
	f := c.SSAFunc("gen", "(*language).templates")
	tf, err := c.templates()
	if p == nil || f == nil || err != nil {
		c.Lost(rule, "gen.language.templates", "package gen, (*language).templates or the templates not found")
		return
	}
	// 1. the Go language table: group -> [(file name, template)]
	type gfile struct{ name, tmpl string }
	groups := map[string][]gfile{}
	for _, file := range p.Syntax {
		ast.Inspect(file, func(n ast.Node) bool {
			kv, ok := n.(*ast.KeyValueExpr)
			if !ok {
				return true
			}
			if bl, ok := kv.Key.(*ast.BasicLit); !ok || bl.Value != `"go"` {
				return true
			}
			cl, ok := kv.Value.(*ast.CompositeLit)
			if !ok {
				return false
			}
			for _, el := range cl.Elts {
				gkv, ok := el.(*ast.KeyValueExpr)
				if !ok {
					continue
				}
				gname, ok := gkv.Key.(*ast.Ident)
				if !ok {
					continue
				}
				list, ok := gkv.Value.(*ast.CompositeLit)
				if !ok {
					continue
				}
				for _, fe := range list.Elts {
					fl, ok := fe.(*ast.CompositeLit)
					if !ok || len(fl.Elts) != 2 {
						continue
					}
					nm, ok1 := fl.Elts[0].(*ast.BasicLit)
					call, ok2 := fl.Elts[1].(*ast.CallExpr)
					if !ok1 || !ok2 || len(call.Args) != 1 {
						continue
					}
					tn, ok := call.Args[0].(*ast.BasicLit)
					if !ok {
						continue
					}
					fn, _ := strconv.Unquote(nm.Value)
					tt, _ := strconv.Unquote(tn.Value)
					groups[gname.Name] = append(groups[gname.Name], gfile{fn, tt + ".go.tmpl"})
				}
			}
			return false
		})
	}
	if len(groups) < 5 {
		c.Lost(rule, "gen.languages[go]", "only %d file groups found in the Go language table", len(groups))
		return
	}
	// 2. per group: directories written, packages imported
	pkgRe := regexp.MustCompile(`pkg "([a-z]+)"`)
	callRe := regexp.MustCompile(`\{\{-? *(?:template|block) "([A-Za-z_]+)"`)
	// packages named by each {{define}} of the Go templates, closed over {{template}} calls
	defPkgs := map[string]map[string]bool{}
	defCalls := map[string][]string{}
	for name, t := range tf {
		if !strings.HasPrefix(name, "go_") {
			continue
		}
		for dn, tree := range t.Trees {
			if tree == nil || tree.Root == nil {
				continue
			}
			txt := tree.Root.String()
			if defPkgs[dn] == nil {
				defPkgs[dn] = map[string]bool{}
			}
			for _, m := range pkgRe.FindAllStringSubmatch(txt, -1) {
				defPkgs[dn][m[1]] = true
			}
			for _, m := range callRe.FindAllStringSubmatch(txt, -1) {
				defCalls[dn] = append(defCalls[dn], m[1])
			}
		}
	}
	for changed := true; changed; {
		changed = false
		for dn, calls := range defCalls {
			for _, cl := range calls {
				for pk := range defPkgs[cl] {
					if !defPkgs[dn][pk] {
						defPkgs[dn][pk] = true
						changed = true
					}
				}
			}
		}
	}
	writes := map[string]map[string]bool{}
	imports := map[string]map[string]bool{}
	for g, files := range groups {
		writes[g], imports[g] = map[string]bool{}, map[string]bool{}
		for _, gf := range files {
			d := path.Dir(gf.name)
			if d == "." {
				d = "main"
			}
			writes[g][d] = true
			for pk := range defPkgs[gf.tmpl] {
				imports[g][pk] = true
			}
		}
		for d := range writes[g] {
			delete(imports[g], d)
		}
		delete(imports[g], "main") // the root package always has the lexer or parser files
	}
	// 3. enumerate paths
	type pathState struct {
		b     *ssa.BasicBlock
		atoms map[string]bool
		sel   map[string]bool
	}
	clone := func(m map[string]bool) map[string]bool {
		o := map[string]bool{}
		for k, v := range m {
			o[k] = v
		}
		return o
	}
	var bad []string
	npaths := 0
	var walk func(st pathState, depth int)
	walk = func(st pathState, depth int) {
		if depth > 200 || npaths > 20000 {
			return
		}
		for _, ins := range st.b.Instrs {
			call, ok := ins.(*ssa.Call)
			if !ok {
				continue
			}
			bi, ok := call.Call.Value.(*ssa.Builtin)
			if !ok || bi.Name() != "append" || len(call.Call.Args) != 2 {
				continue
			}
			// l.<Group>... or a literal built from l.<Group>[0]
			s := vpath(call.Call.Args[1])
			for g := range groups {
				if s == "l."+g || strings.HasPrefix(s, "l."+g+"[") {
					st.sel[g] = true
				}
			}
			if sl, ok := call.Call.Args[1].(*ssa.Slice); ok {
				if al, ok := sl.X.(*ssa.Alloc); ok {
					for _, ref := range *al.Referrers() {
						if ia, ok := ref.(*ssa.IndexAddr); ok {
							for _, r2 := range *ia.Referrers() {
								if sto, ok := r2.(*ssa.Store); ok {
									sv := vpath(sto.Val)
									for g := range groups {
										if strings.HasPrefix(sv, "l."+g+"[") {
											st.sel[g] = true
										}
									}
								}
							}
						}
					}
				}
			}
		}
		last := st.b.Instrs[len(st.b.Instrs)-1]
		switch t := last.(type) {
		case *ssa.Return:
			npaths++
			for g := range st.sel {
				for dep := range imports[g] {
					okDep := false
					for h := range st.sel {
						if writes[h][dep] {
							okDep = true
						}
					}
					if !okDep {
						var on []string
						for a, v := range st.atoms {
							if v && strings.Contains(a, "Options.") {
								on = append(on, a[strings.LastIndex(a, ".")+1:])
							}
						}
						sort.Strings(on)
						bad = append(bad, fmt.Sprintf("with options {%s} the %s files are written and import package %q, which no selected group writes", strings.Join(on, ","), g, dep))
					}
				}
			}
		case *ssa.Jump:
			walk(pathState{st.b.Succs[0], st.atoms, st.sel}, depth+1)
		case *ssa.If:
			atom := vpath(t.Cond)
			pol := true
			if strings.HasPrefix(atom, "!") {
				atom, pol = atom[1:], false
			}
			if v, known := st.atoms[atom]; known {
				idx := 0
				if v != pol {
					idx = 1
				}
				walk(pathState{st.b.Succs[idx], st.atoms, st.sel}, depth+1)
				return
			}
			for _, v := range []bool{true, false} {
				a := clone(st.atoms)
				a[atom] = v
				idx := 0
				if v != pol {
					idx = 1
				}
				walk(pathState{st.b.Succs[idx], a, clone(st.sel)}, depth+1)
			}
		}
	}
	walk(pathState{f.Blocks[0], map[string]bool{}, map[string]bool{}}, 0)
	key := "gen.language.templates:go"
	if npaths < 16 {
		c.Lost(rule, key, "only %d paths through templates() enumerated", npaths)
		return
	}
	bad = uniqStrings(bad)
	if len(bad) > 0 {
		sort.Strings(bad)
		if len(bad) > 3 {
			bad = append(bad[:3], fmt.Sprintf("... and %d more option sets", len(bad)-3))
		}
		c.Bad(rule, key, f.Pos(), "%s: the generated code does not build", strings.Join(bad, "; "))
	} else {
		var deps []string
		for g, m := range imports {
			for d := range m {
				deps = append(deps, g+"->"+d)
			}
		}
		sort.Strings(deps)
		c.Ok(rule, key, f.Pos(), "on all %d paths of templates() every generated package imported by a selected group (%s) is written by a selected group", npaths, strings.Join(deps, ", "))
	}
	_ = token.NoPos
}
