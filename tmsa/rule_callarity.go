package main

import (
	"fmt"
	"regexp"
	"strings"
	"text/template/parse"
)

// AGREE(call-arity): in the Go templates some generated functions take a parameter only under
// an option guard, e.g.
//     func (s *TokenStream) next({{if and $.Options.Cancellable $.Options.CancellableFetch}}ctx "context".Context, {{end}}stack ...
// Every call of such a function anywhere in the Go templates must add the argument under the
// same guard: the text `.next(` must be followed directly by an {{if}} with the same condition
// whose body is the argument. A call that spells the argument list out as plain text compiles
// only for the option combinations the committed parsers happen to use.
func ruleCALLARITY(c *Ctx) {
	const rule = "AGREE(call-arity)"
	tf, err := c.templates()
	if err != nil {
		c.Lost(rule, "gen/templates", "%v", err)
		return
	}
	type def struct {
		name, callRe, cond, arg string
	}
	// definitions with a guarded first parameter, found in the template sources
	defRe := regexp.MustCompile(`func \([a-z]+ \*?([A-Za-z]+)\) ([a-zA-Z]+)\(\{\{ ?if ([^}]+)\}\}([a-z]+) [^{]*\{\{ ?end ?\}\}`)
	var defs []def
	for name, t := range tf {
		if !strings.HasPrefix(name, "go_") {
			continue
		}
		for _, m := range defRe.FindAllStringSubmatch(t.Text, -1) {
			if m[1] != "TokenStream" {
				continue // methods of other types are called through differently named receivers; out of scope
			}
			defs = append(defs, def{name: m[1] + "." + m[2], callRe: `\b(?:stream|streamCopy|ts|s)\.` + m[2] + `\($`, cond: strings.TrimSpace(m[3]), arg: m[4]})
		}
	}
	if len(defs) == 0 {
		c.Lost(rule, "go_stream.go.tmpl:TokenStream.next", "no method of TokenStream with an option-guarded first parameter found")
		return
	}
	norm := func(s string) string { return strings.Join(strings.Fields(strings.ReplaceAll(s, "$.", ".")), " ") }
	total := 0
	for _, d := range defs {
		re := regexp.MustCompile(d.callRe)
		mid := regexp.MustCompile(`\b(?:stream|streamCopy)\.` + d.name[strings.Index(d.name, ".")+1:] + `\([^{]`)
		n := 0
		for _, fname := range sortedKeysT(tf) {
			if !strings.HasPrefix(fname, "go_") {
				continue
			}
			t := tf[fname]
			for _, tn := range sortedTreeKeys(t.Trees) {
				var visitList func(l *parse.ListNode)
				visitList = func(l *parse.ListNode) {
					if l == nil {
						return
					}
					for i, nd := range l.Nodes {
						switch x := nd.(type) {
						case *parse.TextNode:
							txt := string(x.Text)
							// a call whose argument list continues as plain text
							for _, loc := range mid.FindAllStringIndex(txt, -1) {
								if strings.Contains(txt[:loc[0]], "func (") && strings.HasSuffix(strings.TrimSpace(txt[:loc[0]]), ")") {
									continue
								}
								n++
								key := fmt.Sprintf("%s#%s:%s#%d", fname, tn, d.name, n)
								c.addT(rule, key, tmplPos(t, nd), Violation, "call of %s with a plain-text argument list: under {{if %s}} the method takes %s first, so this call does not compile for that option combination", d.name, d.cond, d.arg)
							}
							if re.MatchString(txt) && !strings.HasSuffix(strings.TrimSpace(txt), "func (s *TokenStream) next(") {
								n++
								key := fmt.Sprintf("%s#%s:%s#%d", fname, tn, d.name, n)
								ok := false
								if i+1 < len(l.Nodes) {
									if in, isIf := l.Nodes[i+1].(*parse.IfNode); isIf && norm(in.Pipe.String()) == norm(d.cond) && in.List != nil && strings.HasPrefix(strings.TrimSpace(in.List.String()), d.arg) {
										ok = true
									}
								}
								if ok {
									c.addT(rule, key, tmplPos(t, nd), OK, "the call adds %s under the guard of the definition (%s)", d.arg, d.cond)
								} else {
									c.addT(rule, key, tmplPos(t, nd), Violation, "call of %s does not add %s under {{if %s}} as the definition does", d.name, d.arg, d.cond)
								}
							}
						case *parse.IfNode:
							visitList(x.List)
							visitList(x.ElseList)
						case *parse.RangeNode:
							visitList(x.List)
							visitList(x.ElseList)
						case *parse.WithNode:
							visitList(x.List)
							visitList(x.ElseList)
						}
					}
				}
				visitList(t.Trees[tn].Root)
			}
		}
		total += n
	}
	if total < 10 {
		c.addT(rule, "count:", "", CountDropped, "only %d calls of option-dependent TokenStream methods found in the Go templates (14 confirmed by hand)", total)
	}
}

func sortedKeysT(m map[string]*tmplFile) []string {
	var out []string
	for k := range m {
		out = append(out, k)
	}
	sortStrings(out)
	return out
}

func sortStrings(s []string) {
	for i := 1; i < len(s); i++ {
		for j := i; j > 0 && s[j] < s[j-1]; j-- {
			s[j], s[j-1] = s[j-1], s[j]
		}
	}
}
