package main

import (
	"fmt"
	"go/token"
	"regexp"
	"strings"

	"golang.org/x/tools/go/ssa"
)

// registerExceptions: symbol creation sites that do not register an identifier, with reason.
var registerExceptions = map[string]string{}

// REGISTER: every creation of a grammar symbol with a target-language identifier looks the
// identifier up in resolver.ids, reports a clash whenever it is taken, and registers it.
func ruleREGISTER(c *Ctx) {
	const rule = "REGISTER"
	n := 0
	for _, f := range c.SrcFuncs("compiler") {
		// creation sites: stores into the ID field of a grammar.Symbol literal
		creates := false
		var cpos token.Pos
		for _, b := range f.Blocks {
			for _, ins := range b.Instrs {
				if st, ok := ins.(*ssa.Store); ok {
					if fa, ok := st.Addr.(*ssa.FieldAddr); ok && strings.HasSuffix(strings.TrimPrefix(fa.X.Type().String(), "*"), "grammar.Symbol") && fieldName(fa.X.Type(), fa.Field) == "ID" {
						creates = true
						cpos = st.Pos()
					}
				}
			}
		}
		if !creates {
			continue
		}
		n++
		key := ssaFuncKey(f)
		if why, ok := registerExceptions[key]; ok {
			c.Ok(rule, key, cpos, "audited exception: %s", why)
			continue
		}
		if key == "compiler.commandExtractor.extract" {
			registerMidRule(c, f, key, cpos)
			continue
		}
		var reg *ssa.MapUpdate
		var look *ssa.Lookup
		var looks []*ssa.Lookup
		for _, b := range f.Blocks {
			for _, ins := range b.Instrs {
				switch x := ins.(type) {
				case *ssa.MapUpdate:
					if strings.HasSuffix(vpath(x.Map), ".ids") {
						reg = x
					}
				case *ssa.Lookup:
					if x.CommaOk && strings.HasSuffix(vpath(x.X), ".ids") {
						look = x
						looks = append(looks, x)
					}
				}
			}
		}
		// a function may consult the registry under other keys too (a nonterminal's name against
		// token IDs for the Bison export); the lookup that matters is the one of the registered key
		if reg != nil {
			for _, l := range looks {
				if reg.Key == l.Index || vpath(reg.Key) == vpath(l.Index) {
					look = l
				}
			}
		}
		switch {
		case look == nil:
			c.Bad(rule, key, cpos, "%s creates a symbol with an identifier but never looks it up in resolver.ids: two symbols can silently receive the same identifier", f.Name())
			continue
		case reg == nil:
			c.Bad(rule, key, cpos, "%s creates a symbol with an identifier but never registers it in resolver.ids: a later symbol with the same identifier is not detected", f.Name())
			continue
		case reg.Key != look.Index && vpath(reg.Key) != vpath(look.Index):
			c.Bad(rule, key, reg.Pos(), "the identifier that is looked up (%s) is not the one that is registered (%s)", normalizePhi(vpath(look.Index)), normalizePhi(vpath(reg.Key)))
			continue
		}
		// the clash report: an Errorf governed by exactly `exists`
		var exists ssa.Value
		if look.Referrers() != nil {
			for _, r := range *look.Referrers() {
				if ex, ok := r.(*ssa.Extract); ok && ex.Index == 1 {
					exists = ex
				}
			}
		}
		base := map[ssa.Value]bool{}
		for _, g := range flattenConds(governing(look.Block())) {
			base[g.V] = true
		}
		reported := false
		var extra []string
		for _, b := range f.Blocks {
			for _, ins := range b.Instrs {
				call, ok := ins.(*ssa.Call)
				if !ok || !strings.Contains(vpath(call), "Errorf(") || !strings.Contains(firstStringArg(call), "same ID") {
					continue
				}
				hasExists := false
				extra = nil
				for _, g := range flattenConds(governing(b)) {
					if base[g.V] {
						continue
					}
					if g.V == exists && g.Pol {
						hasExists = true
						continue
					}
					extra = append(extra, normalizePhi(vpath(g.V)))
				}
				if hasExists && len(extra) == 0 {
					reported = true
				}
			}
		}
		if reported {
			c.Ok(rule, key, look.Pos(), "looks the identifier up, reports a clash whenever it is already taken, and registers it")
		} else {
			c.Bad(rule, key, look.Pos(), "the 'get the same ID' error is not raised for every taken identifier (extra conditions: %v): two distinct symbols can receive the same identifier without an error", extra)
		}
	}
	if n < 3 {
		c.add(rule, "count:", token.NoPos, CountDropped, true, "only %d symbol creation sites with identifiers found in package compiler (3 confirmed by hand)", n)
	}
	_ = fmt.Sprint
}

// GUARD(leading-digit): ident.Produce decides "the identifier would start with a digit" from
// what has been written so far, not from the input name.
func ruleLEADINGDIGIT(c *Ctx) {
	const rule = "GUARD(leading-digit)"
	f := c.SSAFunc("util/ident", "Produce")
	if f == nil {
		c.Lost(rule, "util/ident.Produce", "function not found")
		return
	}
	// the store of '_' guarded by a digit test: the test must be conjoined with buf.Len() == 0 inside the rune loop
	ok := false
	var extra []string
	var pos token.Pos = f.Pos()
	loops := naturalLoops(f)
	for _, b := range f.Blocks {
		if len(b.Instrs) == 0 {
			continue
		}
		ifi, isIf := b.Instrs[len(b.Instrs)-1].(*ssa.If)
		if !isIf {
			continue
		}
		l, op, r, isC := cmpNorm(ifi.Cond, true)
		if !isC {
			continue
		}
		// r <= '9' on the loop's rune, in the loop, under buf.Len() == 0
		if op == "<=" && r == "57" && innermostLoop(loops, b) != nil && !strings.Contains(l, "name[0]") {
			if hasCond(governing(b), func(p string, pol bool) bool {
				return pol && strings.Contains(p, "Builder.Len(") && strings.HasSuffix(p, "== 0)")
			}) {
				ok = true
				pos = ifi.Cond.Pos()
				// ... and under nothing else inside the loop: the digit disjunct consists of
				// buf.Len() == 0 and the two range tests of the rune only
				lp := innermostLoop(loops, b)
				for _, g := range flattenConds(governing(b)) {
					if !lp.Body[g.If.Block()] || g.If.Block() == lp.Header {
						continue
					}
					gp := vpath(g.V)
					_, _, gr, isCmp := cmpNorm(g.V, g.Pol)
					_, _, gl2, _ := cmpNorm(g.V, g.Pol)
					_ = gl2
					isRune := isCmp && (regexp.MustCompile(`^\d+$`).MatchString(gr) || regexp.MustCompile(`^\d+$`).MatchString(func() string { l, _, _, _ := cmpNorm(g.V, g.Pol); return l }()))
					if strings.Contains(gp, "Builder.Len(") || isRune {
						continue
					}
					extra = append(extra, normalizePhi(gp))
				}
			}
		}
	}
	key := "util/ident.Produce:leading-digit"
	if ok && len(extra) > 0 {
		c.Bad(rule, key, pos, "the leading-digit test is additionally conditioned on %v: for names where that does not hold (unquoted _1, __2nd) an identifier starting with a digit is produced", extra)
	} else if ok {
		c.Ok(rule, key, pos, "an underscore is inserted when the first rune actually written (buf.Len() == 0) is a digit")
	} else {
		c.Bad(rule, key, pos, "the 'identifier cannot start with a digit' test must look at the first rune that is written (inside the rune loop, under buf.Len() == 0); names whose leading characters are dropped (_1, __7a) otherwise yield identifiers starting with a digit")
	}
}

// registerMidRule: extracted mid-rule nonterminals do not go through resolver.ids; the
// extractor picks the first candidate name <nt>$<k> that is free. "Free" has to include the
// identifier: the candidate's identifier (ident.Produce(name, CamelCase), e.g. X_1 for X$1) is
// looked up in a set seeded with the identifiers of all existing symbols, the candidate is
// accepted only on a miss, and the identifier is then recorded.
func registerMidRule(c *Ctx, f *ssa.Function, key string, cpos token.Pos) {
	const rule = "REGISTER"
	isProduce := func(v ssa.Value) bool {
		call, ok := v.(*ssa.Call)
		if !ok {
			return false
		}
		g := call.Call.StaticCallee()
		return g != nil && g.Name() == "Produce"
	}
	var look *ssa.Lookup
	var upd *ssa.MapUpdate
	for _, b := range f.Blocks {
		for _, ins := range b.Instrs {
			switch x := ins.(type) {
			case *ssa.Lookup:
				if strings.HasSuffix(vpath(x.X), ".takenID") && isProduce(x.Index) {
					look = x
				}
			case *ssa.MapUpdate:
				if strings.HasSuffix(vpath(x.Map), ".takenID") && isProduce(x.Key) {
					upd = x
				}
			}
		}
	}
	// the symbol literal is created only after a miss
	missGoverns := false
	if look != nil {
		for _, b := range f.Blocks {
			for _, ins := range b.Instrs {
				if st, ok := ins.(*ssa.Store); ok {
					if fa, ok := st.Addr.(*ssa.FieldAddr); ok && strings.HasSuffix(strings.TrimPrefix(fa.X.Type().String(), "*"), "grammar.Symbol") && fieldName(fa.X.Type(), fa.Field) == "ID" {
						// every path from the lookup's hit edge returns to the loop, never to the creation
						for _, ref := range *look.Referrers() {
							if ifi, ok := ref.(*ssa.If); ok {
								_ = ifi
							}
						}
						if look.Block().Dominates(b) {
							missGoverns = true
						}
					}
				}
			}
		}
		// the lookup result must decide a branch whose "taken" edge goes back into the loop
		decides := false
		var uses func(v ssa.Value, d int)
		uses = func(v ssa.Value, d int) {
			if d > 3 || v.Referrers() == nil {
				return
			}
			for _, r := range *v.Referrers() {
				switch y := r.(type) {
				case *ssa.If:
					decides = true
				case *ssa.UnOp:
					uses(y, d+1)
				case *ssa.Extract:
					uses(y, d+1)
				case *ssa.Phi:
					uses(y, d+1)
				case *ssa.BinOp:
					uses(y, d+1)
				}
			}
		}
		uses(look, 0)
		missGoverns = missGoverns && decides
	}
	// the set is seeded from the identifiers of the existing symbols
	seeded := false
	if nf := c.SSAFunc("compiler", "newCommandExtractor"); nf != nil {
		for _, b := range nf.Blocks {
			for _, ins := range b.Instrs {
				if mu, ok := ins.(*ssa.MapUpdate); ok && strings.HasSuffix(normalizePhi(vpath(mu.Key)), ".ID") {
					seeded = true
				}
			}
		}
	}
	switch {
	case look == nil:
		c.Bad(rule, key, cpos, "an extracted mid-rule nonterminal is named <nt>$<k> with the first free *name*, but its identifier (ident.Produce(name), e.g. X_1) is never looked up: a token x_1 and the mid-rule nonterminal X$1 both get the identifier X_1 and no error is reported")
	case !missGoverns:
		c.Bad(rule, key, look.Pos(), "the identifier of a mid-rule nonterminal is looked up but the result does not decide whether the candidate is accepted")
	case upd == nil:
		c.Bad(rule, key, look.Pos(), "the identifier chosen for a mid-rule nonterminal is not recorded: the next one can get the same identifier")
	case !seeded:
		c.Bad(rule, key, look.Pos(), "the set of taken identifiers is not seeded with the identifiers of the existing symbols")
	default:
		c.Ok(rule, key, look.Pos(), "a candidate name is accepted only if its identifier is not taken (set seeded from all existing symbols), and the identifier is then recorded")
	}
}
