package main

import (
	"go/token"
	"regexp"
	"sort"
	"strings"

	"golang.org/x/tools/go/ssa"
)

// SIBLING(gotoState): the generated default-encoding gotoState (linear scan for short rows,
// binary search over (from,to) pairs otherwise) is structurally the same function as
// lalr.(*DefaultEnc).gotoState, which the table builders and the tests exercise: same
// comparisons, same index arithmetic, same returns, modulo names and integer conversions.
func ruleGOTOSIBLING(c *Ctx) {
	const rule = "SIBLING(gotoState)"
	ref := c.SSAFunc("lalr", "(*DefaultEnc).gotoState")
	if ref == nil {
		c.Lost(rule, "lalr.DefaultEnc.gotoState", "function not found")
		return
	}
	nameRe := regexp.MustCompile(`\b(enc\.Goto|[a-z]+\.tmGoto|tmGoto)\b`)
	nameRe2 := regexp.MustCompile(`\b(enc\.FromTo|[a-z]+\.tmFromTo|tmFromTo)\b`)
	canon := func(s string) string {
		s = normalizePhi(s)
		s = nameRe.ReplaceAllString(s, "GOTO")
		s = nameRe2.ReplaceAllString(s, "FROMTO")
		return s
	}
	shape := func(f *ssa.Function) []string {
		var out []string
		for _, b := range f.Blocks {
			for _, ins := range b.Instrs {
				switch x := ins.(type) {
				case *ssa.If:
					if l, op, r, ok := cmpNorm(x.Cond, true); ok {
						out = append(out, "if "+canon(l)+" "+op+" "+canon(r))
					}
				case *ssa.Return:
					for _, r := range x.Results {
						out = append(out, "return "+canon(vpath(r)))
					}
				case *ssa.BinOp:
					switch x.Op {
					case token.ADD, token.SUB, token.SHR, token.AND_NOT, token.SHL:
						if _, isC := stripConv(x.Y).(*ssa.Const); isC {
							out = append(out, "op "+canon(vpath(x)))
						}
					}
				}
			}
		}
		sort.Strings(out)
		return out
	}
	want := shape(ref)
	n := 0
	for _, rel := range parserPkgs {
		sp := c.SSAPkg(rel)
		if sp == nil || sp.Members["tmFromTo"] == nil {
			continue
		}
		f := c.SSAFunc(rel, "gotoState")
		if f == nil {
			continue
		}
		n++
		got := shape(f)
		key := rel + ".gotoState"
		if strings.Join(got, "\n") == strings.Join(want, "\n") {
			c.Ok(rule, key, f.Pos(), "%d comparisons/returns/index steps identical to lalr.(*DefaultEnc).gotoState", len(got))
		} else {
			onlyG, onlyW := diffStrings(got, want)
			c.Bad(rule, key, f.Pos(), "generated gotoState differs from lalr.(*DefaultEnc).gotoState: only in generated code %v; only in the reference %v (the binary-search branch is reached only for symbols with 16+ transitions, which no test grammar has)", onlyG, onlyW)
		}
	}
	if n < 2 {
		c.add(rule, "count:", token.NoPos, CountDropped, true, "only %d generated default-encoding parsers found (test and simple expected)", n)
	}
}

func diffStrings(a, b []string) (onlyA, onlyB []string) {
	ma, mb := map[string]int{}, map[string]int{}
	for _, x := range a {
		ma[x]++
	}
	for _, x := range b {
		mb[x]++
	}
	for x, n := range ma {
		if mb[x] < n {
			onlyA = append(onlyA, x)
		}
	}
	for x, n := range mb {
		if ma[x] < n {
			onlyB = append(onlyB, x)
		}
	}
	sort.Strings(onlyA)
	sort.Strings(onlyB)
	return
}
