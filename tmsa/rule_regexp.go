package main

import (
	"fmt"
	"go/constant"
	"go/token"
	"strings"

	"golang.org/x/tools/go/ssa"
)

// Rules over lex/regexp.go and lex/charset.go (C10).

// INTERVAL(digit): digit-value helpers return exactly the digit's value on digit ranges and -1
// elsewhere. Evaluated abstractly on a partition of the rune line into intervals.
func ruleDIGITS(c *Ctx) {
	const rule = "INTERVAL(digit)"
	type cls struct {
		lo, hi int64
		want   [2]int64 // expected result interval
	}
	specs := map[string][]cls{
		"hexval": {
			{0, '0' - 1, [2]int64{-1, -1}}, {'0', '9', [2]int64{0, 9}}, {'9' + 1, 'A' - 1, [2]int64{-1, -1}}, {'A', 'F', [2]int64{10, 15}},
			{'G', 'Z', [2]int64{-1, -1}}, {'Z' + 1, 'a' - 1, [2]int64{-1, -1}}, {'a', 'f', [2]int64{10, 15}}, {'g', 'z', [2]int64{-1, -1}}, {'z' + 1, 0x10ffff, [2]int64{-1, -1}}, {-1, -1, [2]int64{-1, -1}},
		},
		"octval": {
			{0, '0' - 1, [2]int64{-1, -1}}, {'0', '7', [2]int64{0, 7}}, {'8', '9', [2]int64{-1, -1}}, {'9' + 1, 0x10ffff, [2]int64{-1, -1}}, {-1, -1, [2]int64{-1, -1}},
		},
	}
	for _, name := range []string{"hexval", "octval"} {
		f := c.SSAFunc("lex", name)
		if f == nil || len(f.Params) != 1 {
			c.Lost(rule, "lex."+name, "function not found")
			continue
		}
		for _, cl := range specs[name] {
			key := fmt.Sprintf("lex.%s[%s..%s]", name, runeStr(cl.lo), runeStr(cl.hi))
			outs := aiEval(f, []AV{avInt{cl.lo, cl.hi}}, &aiConfig{})
			var probs []string
			if len(outs) == 0 {
				probs = append(probs, "no path")
			}
			for _, o := range outs {
				if o.Kind != "return" || len(o.Ret) != 1 {
					probs = append(probs, o.String())
					continue
				}
				iv, ok := o.Ret[0].(avInt)
				if !ok || iv.Lo < cl.want[0] || iv.Hi > cl.want[1] || (o.Forks == 0 && (iv.Lo != cl.want[0] || iv.Hi != cl.want[1])) {
					probs = append(probs, fmt.Sprintf("returns %s, documented value range is [%d,%d]", avStr2(o.Ret[0]), cl.want[0], cl.want[1]))
				}
			}
			if len(probs) > 0 {
				c.Bad(rule, key, f.Pos(), "%s on runes %s..%s: %s", name, runeStr(cl.lo), runeStr(cl.hi), strings.Join(uniqStrings(probs), " | "))
			} else {
				c.Ok(rule, key, f.Pos(), "returns [%d,%d]", cl.want[0], cl.want[1])
			}
		}
	}
}

func runeStr(r int64) string {
	if r >= 0x21 && r < 0x7f {
		return fmt.Sprintf("'%c'", rune(r))
	}
	return fmt.Sprintf("%#x", r)
}

// INTERVAL(accumulator): in parseEscape every loop that accumulates digits (r = r<<k + d)
// either has a constant trip count n with k*n <= 31 or rejects inside the loop as soon as the
// value leaves the rune range, so that the int32 accumulator cannot wrap.
func ruleACCUM(c *Ctx) {
	const rule = "INTERVAL(accumulator)"
	f := c.SSAFunc("lex", "(*parser).parseEscape")
	if f == nil {
		c.Lost(rule, "lex.parser.parseEscape", "function not found")
		return
	}
	loops := naturalLoops(f)
	n := 0
	for _, b := range f.Blocks {
		for _, ins := range b.Instrs {
			add, ok := ins.(*ssa.BinOp)
			if !ok || add.Op != token.ADD {
				continue
			}
			shl, ok := add.X.(*ssa.BinOp)
			if !ok || shl.Op != token.SHL {
				continue
			}
			kc, ok := shl.Y.(*ssa.Const)
			if !ok || kc.Value == nil {
				continue
			}
			k, _ := constant.Int64Val(constant.ToInt(kc.Value))
			callee := ""
			if call, ok := add.Y.(*ssa.Call); ok {
				if g := call.Common().StaticCallee(); g != nil {
					callee = g.Name()
				}
			}
			lp := innermostLoop(loops, b)
			n++
			key := fmt.Sprintf("lex.parser.parseEscape:accumulate<<%d+%s#%d", k, callee, n)
			if lp == nil {
				c.Trivial(rule, key, add.Pos(), "single accumulation step")
				continue
			}
			// trip count: header compares the induction variable with a bound
			phi, dir, start := lp.induction()
			var bound ssa.Value
			if phi != nil && dir == 1 {
				for _, hi := range lp.Header.Instrs {
					if ifi, ok := hi.(*ssa.If); ok {
						if l, op, r, ok := cmpNormV(ifi.Cond, true); ok && op == "<" && l == ssa.Value(phi) {
							bound = r
						}
					}
				}
			}
			maxTrips := int64(-1)
			if bound != nil && vpath(start) == "0" {
				switch bv := bound.(type) {
				case *ssa.Const:
					maxTrips, _ = constant.Int64Val(constant.ToInt(bv.Value))
				case *ssa.Phi:
					maxTrips = 0
					for _, e := range bv.Edges {
						if cst, ok := e.(*ssa.Const); ok && cst.Value != nil {
							v, _ := constant.Int64Val(constant.ToInt(cst.Value))
							if v > maxTrips {
								maxTrips = v
							}
						} else {
							maxTrips = -1
							break
						}
					}
				}
			}
			// an in-loop rejection: a comparison of the accumulator (or the sum) with a constant bound
			guarded := false
			for lb := range lp.Body {
				if len(lb.Instrs) == 0 {
					continue
				}
				if ifi, ok := lb.Instrs[len(lb.Instrs)-1].(*ssa.If); ok {
					l, op, r, ok := cmpNormV(ifi.Cond, true)
					if !ok {
						continue
					}
					isAcc := func(v ssa.Value) bool { return v == ssa.Value(add) || v == shl.X }
					if cst, isC := l.(*ssa.Const); isC && op == "<" && isAcc(r) && cst.Value != nil {
						if bv, _ := constant.Int64Val(constant.ToInt(cst.Value)); bv > 0 && bv <= (1<<31-1-(1<<uint(k)-1))>>uint(k) {
							guarded = true
						}
					}
					if strings.Contains(vpath(l), "MaxRune") && op == "<" && isAcc(r) {
						guarded = true
					}
				}
			}
			switch {
			case guarded:
				c.Ok(rule, key, add.Pos(), "the loop rejects as soon as the accumulator exceeds the rune range: r<<%d+d stays below 2^31", k)
			case maxTrips >= 0 && k*maxTrips <= 31:
				c.Ok(rule, key, add.Pos(), "at most %d digits of %d bits: the value stays below 2^%d", maxTrips, k, k*maxTrips)
			case maxTrips >= 0:
				c.Bad(rule, key, add.Pos(), "up to %d digits of %d bits are accumulated into an int32 rune (%d bits): the value wraps negative and passes the `r > max` test that follows (\\UFFFFFFFF parses to rune -1)", maxTrips, k, k*maxTrips)
			default:
				c.Bad(rule, key, add.Pos(), "an unbounded number of %d-bit digits is accumulated into an int32 rune without an in-loop range check: the value can wrap (\\x{100000041} parses as 'A')", k)
			}
		}
	}
	if n < 3 {
		c.add(rule, "count:", token.NoPos, CountDropped, true, "only %d digit accumulations found in parseEscape (3 confirmed by hand)", n)
	}
}

// GUARD(fold): Unicode fold tables are added to a named set only under opts.Fold.
func ruleFOLDGUARD(c *Ctx) {
	const rule = "GUARD(fold)"
	f := c.SSAFunc("lex", "appendNamedSet")
	if f == nil {
		c.Lost(rule, "lex.appendNamedSet", "function not found")
		return
	}
	n := 0
	for _, b := range f.Blocks {
		for _, ins := range b.Instrs {
			call, ok := ins.(*ssa.Call)
			if !ok || len(call.Common().Args) < 2 {
				continue
			}
			p := vpath(call.Common().Args[1])
			if !strings.Contains(p, "unicode.Fold") {
				continue
			}
			n++
			key := "lex.appendNamedSet:" + strings.SplitN(strings.TrimPrefix(p, "unicode."), "[", 2)[0]
			if hasCond(governing(b), func(path string, pol bool) bool { return pol && strings.HasSuffix(path, "opts.Fold") }) {
				c.Ok(rule, key, call.Pos(), "%s is appended only under opts.Fold", strings.SplitN(p, "[", 2)[0])
			} else {
				c.Bad(rule, key, call.Pos(), "%s is appended regardless of opts.Fold: a case-sensitive \\p{…} gains the case-fold partners of its members (\\p{Greek} contains U+00B5)", strings.SplitN(p, "[", 2)[0])
			}
		}
	}
	if n < 2 {
		c.add(rule, "count:", token.NoPos, CountDropped, true, "only %d fold-table uses found in appendNamedSet (2 confirmed by hand)", n)
	}
}

// GUARD(invrange): a class range lo-hi is inserted only after hi < lo was rejected.
func ruleINVRANGE(c *Ctx) {
	const rule = "GUARD(invrange)"
	f := c.SSAFunc("lex", "(*parser).parseClass")
	if f == nil {
		c.Lost(rule, "lex.parser.parseClass", "function not found")
		return
	}
	n := 0
	for _, b := range f.Blocks {
		for _, ins := range b.Instrs {
			call, ok := ins.(*ssa.Call)
			if !ok {
				continue
			}
			g := call.Common().StaticCallee()
			if g == nil || g.Name() != "appendRange" || len(call.Common().Args) != 3 {
				continue
			}
			lo, hi := call.Common().Args[1], call.Common().Args[2]
			if lo == hi {
				continue
			}
			n++
			ok2 := false
			for _, gc := range flattenConds(governing(b)) {
				l, op, r, isC := cmpNormV(gc.V, gc.Pol)
				if isC && op == "<=" && l == lo && r == hi {
					ok2 = true
				}
			}
			key := fmt.Sprintf("lex.parser.parseClass:appendRange#%d", n)
			if ok2 {
				c.Ok(rule, key, call.Pos(), "appendRange(lo, hi) is reached only with lo <= hi (inverted ranges are rejected first)")
			} else {
				c.Bad(rule, key, call.Pos(), "appendRange(r, lo, hi) with distinct bounds is not dominated by the rejection of hi < lo: an inverted range like [z-a] is inserted")
			}
		}
	}
	if n < 1 {
		c.add(rule, "count:", token.NoPos, CountDropped, true, "no two-bound appendRange call found in parseClass")
	}
}

// DTX(negation) on \p / \P with an optional ^: negated = (letter is P) XOR (caret present).
func rulePNEG(c *Ctx) {
	const rule = "DTX(negation)"
	f := c.SSAFunc("lex", "(*parser).parseEscape")
	if f == nil {
		c.Lost(rule, "lex.parser.parseEscape", "function not found")
		return
	}
	var base *ssa.BinOp
	for _, b := range f.Blocks {
		for _, ins := range b.Instrs {
			if bo, ok := ins.(*ssa.BinOp); ok && bo.Op == token.EQL && vpath(bo.X) == "p.ch" && vpath(bo.Y) == "80" {
				// the one that feeds a phi / invert, not a switch test
				if bo.Referrers() != nil {
					for _, r := range *bo.Referrers() {
						switch r.(type) {
						case *ssa.Phi, *ssa.UnOp:
							base = bo
						}
					}
				}
			}
		}
	}
	key := "lex.parser.parseEscape:\\p-negation"
	if base == nil {
		c.Undec(rule, key, f.Pos(), "the value `p.ch == 'P'` that seeds the negation flag was not found")
		return
	}
	// find the phi merging base with its toggled form under p.ch == '^'
	okToggle := false
	var why string
	for _, r := range *base.Referrers() {
		phi, ok := r.(*ssa.Phi)
		if !ok {
			continue
		}
		for i, e := range phi.Edges {
			if e == ssa.Value(base) {
				continue
			}
			conds := condStrings(edgeConds(phi.Block().Preds[i], phi.Block()))
			caret := false
			for _, s := range conds {
				if s == "(p.ch == 94)" {
					caret = true
				}
			}
			if u, ok := e.(*ssa.UnOp); ok && u.Op == token.NOT && u.X == ssa.Value(base) && caret {
				okToggle = true
			} else if caret {
				why = fmt.Sprintf("after '^' the flag becomes %s instead of the toggled value", vpath(e))
			}
		}
	}
	if okToggle {
		c.Ok(rule, key, base.Pos(), "negated = (letter == 'P'), toggled by a leading '^' inside the braces: \\P{^X} = X")
	} else {
		if why == "" {
			why = "no edge toggles the flag under p.ch == '^'"
		}
		c.Bad(rule, key, base.Pos(), "the negation of \\p{…} must be (letter is 'P') XOR (leading '^'): %s", why)
	}
}

// LOOPSHAPE(fold-orbit): the case-folding orbit loop visits the whole orbit (its only exit is
// the header test f != c); DTX(rune-fold): a single rune above 0x7f is not folded in bytes mode.
func ruleFOLDORBIT(c *Ctx) {
	const rule = "LOOPSHAPE(fold-orbit)"
	f := c.SSAFunc("lex", "(*charset).fold")
	if f == nil {
		c.Lost(rule, "lex.charset.fold", "function not found")
		return
	}
	found := false
	for _, lp := range naturalLoops(f) {
		// the orbit loop: header phi fed by unicode.SimpleFold calls
		isOrbit := false
		for _, ins := range lp.Header.Instrs {
			if phi, ok := ins.(*ssa.Phi); ok {
				all := len(phi.Edges) > 0
				for _, e := range phi.Edges {
					if call, ok := e.(*ssa.Call); !ok || call.Common().StaticCallee() == nil || call.Common().StaticCallee().Name() != "SimpleFold" {
						all = false
					}
				}
				if all {
					isOrbit = true
				}
			}
		}
		if !isOrbit {
			continue
		}
		found = true
		exits := 0
		headerExit := false
		for b := range lp.Body {
			for _, s := range b.Succs {
				if !lp.Body[s] {
					exits++
					if b == lp.Header {
						headerExit = true
					}
				}
			}
		}
		key := "lex.charset.fold:orbit-loop"
		if exits == 1 && headerExit {
			c.Ok(rule, key, lp.Header.Instrs[0].Pos(), "the orbit loop `for f := SimpleFold(c); f != c; f = SimpleFold(f)` leaves only through its header test: every member of the orbit is visited")
		} else {
			c.Bad(rule, key, lp.Header.Instrs[0].Pos(), "the case-folding orbit loop has %d exits (header exit=%v): leaving it early skips the remaining members of the orbit (k -> U+212A -> K)", exits, headerExit)
		}
	}
	if !found {
		c.Lost(rule, "lex.charset.fold:orbit-loop", "SimpleFold orbit loop not found")
	}
}

func ruleRUNEFOLD(c *Ctx) {
	const rule = "DTX(rune-fold)"
	f := c.SSAFunc("lex", "(*parser).rune")
	if f == nil || len(f.Params) != 3 {
		c.Lost(rule, "lex.parser.rune", "function not found")
		return
	}
	p := c.Pkg("lex")
	// field order of CharsetOptions
	idx := map[string]int{}
	nf := 0
	if p != nil {
		if st, ok := p.Types.Scope().Lookup("CharsetOptions").Type().Underlying().(interface {
			NumFields() int
		}); ok {
			nf = st.NumFields()
		}
	}
	_ = nf
	so := c.SSAFunc("lex", "(*parser).rune").Params[2].Type().Underlying()
	type fielder interface {
		NumFields() int
	}
	opts := func(fold, bytes bool) AV {
		st := zeroAV(f.Params[2].Type()).(avStruct)
		for i := range st.F {
			switch fieldName(f.Params[2].Type(), i) {
			case "Fold":
				st.F[i] = avBool{fold}
			case "ScanBytes":
				st.F[i] = avBool{bytes}
			}
		}
		return st
	}
	_ = so
	_ = idx
	for _, sc := range []struct {
		fold, bytes bool
		lo, hi      int64
		wantFold    bool
	}{
		{true, false, 0, 0x10ffff, true}, {true, true, 0, 0x7f, true}, {true, true, 0x80, 0x10ffff, false}, {false, false, 0, 0x10ffff, false}, {false, true, 0, 0x10ffff, false},
	} {
		cfg := &aiConfig{Call: func(callee string, args []AV, site ssa.CallInstruction) (AV, bool, bool) {
			if callee == "lex.charset.fold" {
				return avTuple{}, true, true
			}
			return nil, false, false
		}}
		outs := aiEval(f, []AV{avSym{Name: "p"}, avInt{sc.lo, sc.hi}, opts(sc.fold, sc.bytes)}, cfg)
		key := fmt.Sprintf("lex.parser.rune[fold=%v,bytes=%v,r=%#x..%#x]", sc.fold, sc.bytes, sc.lo, sc.hi)
		var probs []string
		for _, o := range outs {
			got := len(o.Events) > 0
			if o.Kind != "return" {
				probs = append(probs, o.String())
			} else if got != sc.wantFold {
				probs = append(probs, fmt.Sprintf("folds=%v, expected %v", got, sc.wantFold))
			}
		}
		if len(outs) == 0 {
			probs = append(probs, "no path")
		}
		if len(probs) > 0 {
			c.Bad(rule, key, f.Pos(), "%s (in bytes mode a single rune above 0x7f is matched as its UTF-8 byte sequence; folding it yields a multi-range charset above 0xff that the byte-mode tables cannot hold: log.Fatalf in compressCharsets)", strings.Join(uniqStrings(probs), " | "))
		} else {
			c.Ok(rule, key, f.Pos(), "folds=%v", sc.wantFold)
		}
	}
}
