package main

import (
	"fmt"
	"go/types"
	"regexp"
	"sort"
	"strings"
	"text/template/parse"

	"golang.org/x/tools/go/ssa"
)

// AGREE(session): go_parser.go.tmpl keeps per-parse state that lookahead() shares with parse()
// in a `session` struct whose members are declared under option guards (shiftCounter under
// Cancellable, cache under RecursiveLookaheads). Every use site selects `s.member` or a bare
// local by .NeedsSession. The Go predicate (*Grammar).NeedsSession must therefore be true
// exactly when the grammar has runtime lookaheads and at least one member guard holds; it is
// evaluated abstractly for every assignment of the options involved and compared with the
// disjunction read from the template.
func ruleSESSION(c *Ctx) {
	const rule = "AGREE(session)"
	tf, err := c.templates()
	if err != nil {
		c.Lost(rule, "gen/templates", "templates not readable: %v", err)
		return
	}
	f := tf["go_parser.go.tmpl"]
	var tree *parse.Tree
	if f != nil {
		tree = f.Trees["session"]
	}
	if tree == nil {
		c.Lost(rule, "go_parser.go.tmpl#session", "define \"session\" not found")
		return
	}
	optRe := regexp.MustCompile(`^\$?\.Options\.([A-Za-z]+)$`)
	members := map[string]bool{}
	walkTmpl(tree.Root, nil, func(n parse.Node, gs []tguard) {
		if _, ok := n.(*parse.TextNode); !ok {
			return
		}
		// a text node inside the struct body: its innermost guard names the member's option
		inStruct := false
		for _, g := range gs {
			if strings.Contains(g.Pipe, "NeedsSession") {
				inStruct = true
			}
		}
		if !inStruct || len(gs) < 2 {
			return
		}
		if m := optRe.FindStringSubmatch(gs[len(gs)-1].Pipe); m != nil && gs[len(gs)-1].Pol {
			members[m[1]] = true
		}
	})
	if len(members) == 0 {
		c.Lost(rule, "go_parser.go.tmpl#session", "no option-guarded member found in the session struct")
		return
	}
	var opts []string
	for m := range members {
		opts = append(opts, m)
	}
	sort.Strings(opts)
	fn := c.SSAFunc("grammar", "(*Grammar).NeedsSession")
	if fn == nil {
		c.Lost(rule, "grammar.Grammar.NeedsSession", "function not found")
		return
	}
	// all option fields the predicate may read: members plus anything else it loads
	for mask := 0; mask < 1<<len(opts); mask++ {
		for _, la := range []bool{false, true} {
			val := map[string]bool{}
			var desc []string
			any := false
			for i, o := range opts {
				val[o] = mask&(1<<i) != 0
				any = any || val[o]
				desc = append(desc, fmt.Sprintf("%s=%v", o, val[o]))
			}
			var unknown []string
			cfg := &aiConfig{
				Load: func(path string, t types.Type) (AV, bool) {
					if strings.HasPrefix(path, "g.Options.") {
						o := strings.TrimPrefix(path, "g.Options.")
						if v, ok := val[o]; ok {
							return avBool{v}, true
						}
						unknown = append(unknown, o)
						return nil, false
					}
					if path == "g.Parser.Tables.Lookaheads" {
						if la {
							return avSym{Name: "lookaheads", Len: avInt{1, 1 << 20}}, true
						}
						return avSym{Name: "lookaheads", Len: avInt{0, 0}}, true
					}
					return nil, false
				},
				Call: func(callee string, args []AV, site ssa.CallInstruction) (AV, bool, bool) { return nil, false, false },
			}
			outs := aiEval(fn, []AV{avSym{Name: "g"}}, cfg)
			want := la && any
			key := fmt.Sprintf("grammar.Grammar.NeedsSession[lookaheads=%v,%s]", la, strings.Join(desc, ","))
			var probs []string
			if len(unknown) > 0 {
				probs = append(probs, "the predicate reads options that guard no session member: "+strings.Join(uniqStrings(unknown), ","))
			}
			if len(outs) == 0 {
				probs = append(probs, "no path")
			}
			for _, o := range outs {
				if o.Kind != "return" || len(o.Ret) != 1 {
					probs = append(probs, "path: "+o.String())
					continue
				}
				b, ok := o.Ret[0].(avBool)
				if !ok {
					probs = append(probs, "result not decided: "+avStr2(o.Ret[0]))
				} else if b.V != want {
					probs = append(probs, fmt.Sprintf("returns %v, but the template's session struct has %s under these options (a use site would name a session member that parse() declared as a local, or the reverse)", b.V, map[bool]string{true: "a member", false: "no member"}[want]))
				}
			}
			if len(probs) > 0 {
				c.Bad(rule, key, fn.Pos(), "%s", strings.Join(uniqStrings(probs), " | "))
			} else {
				c.Ok(rule, key, fn.Pos(), "NeedsSession=%v, as the session struct of go_parser.go.tmpl requires (members guarded by %s)", want, strings.Join(opts, ", "))
			}
		}
	}
}
