package main

import (
	"fmt"
	"go/ast"
	"go/token"
	"go/types"
	"strings"

	"golang.org/x/tools/go/ssa"
)

// Rules over util/diff (C27). Structural necessary conditions only; minimality of the edit
// script and applicability of the hunks on all inputs are not decided.

// GUARD(equal-empty): LineDiff returns "" for equal texts before anything is computed.
func ruleDIFFEQUAL(c *Ctx) {
	const rule = "GUARD(equal-empty)"
	f := c.SSAFunc("util/diff", "LineDiff")
	key := "util/diff.LineDiff:equal"
	if f == nil || len(f.Params) != 2 {
		c.Lost(rule, key, "function not found")
		return
	}
	for _, b := range f.Blocks {
		if len(b.Instrs) == 0 {
			continue
		}
		ret, ok := b.Instrs[len(b.Instrs)-1].(*ssa.Return)
		if !ok || len(ret.Results) != 1 {
			continue
		}
		k, ok := ret.Results[0].(*ssa.Const)
		if !ok || k.Value == nil || k.Value.ExactString() != `""` {
			continue
		}
		for _, g := range flattenConds(governing(b)) {
			if bo, ok := g.V.(*ssa.BinOp); ok && bo.Op == token.EQL && g.Pol {
				if (bo.X == ssa.Value(f.Params[0]) && bo.Y == ssa.Value(f.Params[1])) || (bo.Y == ssa.Value(f.Params[0]) && bo.X == ssa.Value(f.Params[1])) {
					if g.If.Block() == f.Blocks[0] {
						c.Ok(rule, key, ret.Pos(), "equal texts return the empty diff in the entry block")
						return
					}
				}
			}
		}
	}
	c.Bad(rule, key, f.Pos(), "no `return \"\"` governed by left == right in the entry block: equal texts may render a non-empty diff")
}

// DTX(hunk-sizes): a unified-diff hunk header `@@ -l,ls +r,rs @@` must count context (' ') and
// removed ('-') lines on the left, context and added ('+') lines on the right. In hunk.add the
// increments of leftSize are governed by c != '+' and those of rightSize by c != '-'.
func ruleHUNKSIZES(c *Ctx) {
	const rule = "DTX(hunk-sizes)"
	f := c.SSAFunc("util/diff", "(*hunk).add")
	if f == nil {
		c.Lost(rule, "util/diff.hunk.add", "function not found")
		return
	}
	n := 0
	ord := map[string]int{}
	for _, b := range f.Blocks {
		for _, ins := range b.Instrs {
			st, ok := ins.(*ssa.Store)
			if !ok {
				continue
			}
			fa, ok := st.Addr.(*ssa.FieldAddr)
			if !ok {
				continue
			}
			fld := fieldName(fa.X.Type(), fa.Field)
			if fld != "leftSize" && fld != "rightSize" {
				continue
			}
			n++
			key := ordKey(ord, "util/diff.hunk.add:"+fld)
			want := map[string]string{"leftSize": "43", "rightSize": "45"}[fld] // '+' = 43, '-' = 45
			ok2 := false
			for _, g := range flattenConds(governing(b)) {
				if l, op, r, isCmp := cmpNorm(g.V, g.Pol); isCmp && op == "!=" && ((l == "c" && r == want) || (r == "c" && l == want)) {
					ok2 = true
				}
			}
			if ok2 {
				c.Ok(rule, key, st.Pos(), "%s grows exactly for lines that are not %s", fld, map[string]string{"leftSize": "added", "rightSize": "removed"}[fld])
			} else {
				c.Bad(rule, key, st.Pos(), "%s is incremented under the wrong line kind (it must count every line except %s ones): the hunk header does not describe the hunk and the hunk does not apply", fld, map[string]string{"leftSize": "'+'", "rightSize": "'-'"}[fld])
			}
		}
	}
	if n < 4 {
		c.add(rule, "count:", token.NoPos, CountDropped, true, "only %d size updates found in hunk.add (4 confirmed by hand)", n)
	}
}

// LOCKSTEP(chunk-merge): merging two chunks adds each of del, ins and eq (an edit script keeps
// its totals: sum(del+eq) = len(a), sum(ins+eq) = len(b)).
func ruleCHUNKMERGE(c *Ctx) {
	const rule = "LOCKSTEP(chunk-merge)"
	f := c.SSAFunc("util/diff", "(*chunk).merge")
	if f == nil {
		c.Lost(rule, "util/diff.chunk.merge", "function not found")
		return
	}
	got := map[string]bool{}
	for _, b := range f.Blocks {
		for _, ins := range b.Instrs {
			st, ok := ins.(*ssa.Store)
			if !ok {
				continue
			}
			fa, ok := st.Addr.(*ssa.FieldAddr)
			if !ok {
				continue
			}
			fld := fieldName(fa.X.Type(), fa.Field)
			bo, ok := st.Val.(*ssa.BinOp)
			if !ok || bo.Op != token.ADD {
				continue
			}
			// c.F = c.F + oth.F
			if strings.HasSuffix(vpath(bo.X), "."+fld) && strings.HasSuffix(vpath(bo.Y), "."+fld) {
				got[fld] = true
			}
		}
	}
	for _, fld := range []string{"del", "ins", "eq"} {
		key := "util/diff.chunk.merge:" + fld
		if got[fld] {
			c.Ok(rule, key, f.Pos(), "merge adds oth.%s to c.%s", fld, fld)
		} else {
			c.Bad(rule, key, f.Pos(), "merge does not add oth.%s to c.%s: the merged script no longer covers both texts", fld, fld)
		}
	}
}

// SIBLING(trace-mirror): trace's base cases for len(a) == 1 and len(b) == 1 are mirror images
// (a <-> b, del <-> ins); the forward and reverse passes of middle use the same recurrence on
// their own furthest-reaching arrays. The mirrored ASTs must be equal.
func ruleTRACEMIRROR(c *Ctx) {
	const rule = "SIBLING(trace-mirror)"
	p, fd := c.FuncDecl("util/diff", "trace")
	key := "util/diff.trace:len1-cases"
	if fd == nil {
		c.Lost(rule, key, "function not found")
		return
	}
	var caseA, caseB *ast.CaseClause
	ast.Inspect(fd.Body, func(n ast.Node) bool {
		cc, ok := n.(*ast.CaseClause)
		if !ok || len(cc.List) != 1 {
			return true
		}
		switch types.ExprString(cc.List[0]) {
		case "len(a) == 1":
			caseA = cc
		case "len(b) == 1":
			caseB = cc
		}
		return true
	})
	if caseA == nil || caseB == nil {
		c.Lost(rule, key, "the cases len(a) == 1 / len(b) == 1 were not found")
		return
	}
	render := func(cc *ast.CaseClause, swap bool) string {
		var sb strings.Builder
		for _, s := range cc.Body {
			ast.Inspect(s, func(n ast.Node) bool {
				switch x := n.(type) {
				case *ast.Ident:
					name := x.Name
					if swap {
						switch name {
						case "a":
							name = "b"
						case "b":
							name = "a"
						case "del":
							name = "ins"
						case "ins":
							name = "del"
						}
					}
					sb.WriteString(name + " ")
				case *ast.BasicLit:
					sb.WriteString(x.Value + " ")
				case *ast.BinaryExpr:
					sb.WriteString(x.Op.String() + " ")
				case *ast.KeyValueExpr:
					sb.WriteString(": ")
				}
				return true
			})
		}
		return sb.String()
	}
	// composite literals list their keys in source order; normalise `del: len(a), ins: len(b)` by sorting is
	// not needed: the two cases are written in mirrored order
	ra, rb := render(caseA, false), render(caseB, true)
	_ = p
	if normKV(ra) == normKV(rb) {
		c.Ok(rule, key, caseA.Pos(), "the two single-element cases are mirror images (a<->b, del<->ins)")
	} else {
		c.Bad(rule, key, caseB.Pos(), "the len(a) == 1 and len(b) == 1 cases of trace are not mirror images of each other: one direction of the edit script is computed differently from the other\n  a-case: %s\n  mirrored b-case: %s", ra, rb)
	}
}

// normKV sorts the `k : v` pairs inside chunk literals so that `del: x, ins: y` and `ins: y, del: x` compare equal.
func normKV(s string) string {
	fields := strings.Fields(s)
	return strings.Join(sortedCopy(fields), " ")
}

func sortedCopy(in []string) []string {
	out := append([]string(nil), in...)
	sortStrings(out)
	return out
}

var _ = fmt.Sprint
