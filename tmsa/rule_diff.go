package main

import (
	"fmt"
	"go/ast"
	"go/token"
	"go/types"
	"strings"

	"golang.org/x/tools/go/ssa"
)

// Rules over util/diff (C27). Structural necessary conditions only; minimality of the edit
// script and applicability of the hunks on all inputs are not decided.

// GUARD(equal-empty): LineDiff returns "" for equal texts before anything is computed.
func ruleDIFFEQUAL(c *Ctx) {
	const rule = "GUARD(equal-empty)"
	f := c.SSAFunc("util/diff", "LineDiff")
	key := "util/diff.LineDiff:equal"
	if f == nil || len(f.Params) != 2 {
		c.Lost(rule, key, "function not found")
		return
	}
	for _, b := range f.Blocks {
		if len(b.Instrs) == 0 {
			continue
		}
		ret, ok := b.Instrs[len(b.Instrs)-1].(*ssa.Return)
		if !ok || len(ret.Results) != 1 {
			continue
		}
		k, ok := ret.Results[0].(*ssa.Const)
		if !ok || k.Value == nil || k.Value.ExactString() != `""` {
			continue
		}
		for _, g := range flattenConds(governing(b)) {
			if bo, ok := g.V.(*ssa.BinOp); ok && bo.Op == token.EQL && g.Pol {
				if (bo.X == ssa.Value(f.Params[0]) && bo.Y == ssa.Value(f.Params[1])) || (bo.Y == ssa.Value(f.Params[0]) && bo.X == ssa.Value(f.Params[1])) {
					if g.If.Block() == f.Blocks[0] {
						c.Ok(rule, key, ret.Pos(), "equal texts return the empty diff in the entry block")
						return
					}
				}
			}
		}
	}
	c.Bad(rule, key, f.Pos(), "no `return \"\"` governed by left == right in the entry block: equal texts may render a non-empty diff")
}

// DTX(hunk-sizes): a unified-diff hunk header `@@ -l,ls +r,rs @@` must count context (' ') and
// removed ('-') lines on the left, context and added ('+') lines on the right. In hunk.add the
// increments of leftSize are governed by c != '+' and those of rightSize by c != '-'.
func ruleHUNKSIZES(c *Ctx) {
	const rule = "DTX(hunk-sizes)"
	f := c.SSAFunc("util/diff", "(*hunk).add")
	if f == nil {
		c.Lost(rule, "util/diff.hunk.add", "function not found")
		return
	}
	n := 0
	ord := map[string]int{}
	for _, b := range f.Blocks {
		for _, ins := range b.Instrs {
			st, ok := ins.(*ssa.Store)
			if !ok {
				continue
			}
			fa, ok := st.Addr.(*ssa.FieldAddr)
			if !ok {
				continue
			}
			fld := fieldName(fa.X.Type(), fa.Field)
			if fld != "leftSize" && fld != "rightSize" {
				continue
			}
			n++
			key := ordKey(ord, "util/diff.hunk.add:"+fld)
			want := map[string]string{"leftSize": "43", "rightSize": "45"}[fld] // '+' = 43, '-' = 45
			ok2 := false
			for _, g := range flattenConds(governing(b)) {
				if l, op, r, isCmp := cmpNorm(g.V, g.Pol); isCmp && op == "!=" && ((l == "c" && r == want) || (r == "c" && l == want)) {
					ok2 = true
				}
			}
			if ok2 {
				c.Ok(rule, key, st.Pos(), "%s grows exactly for lines that are not %s", fld, map[string]string{"leftSize": "added", "rightSize": "removed"}[fld])
			} else {
				c.Bad(rule, key, st.Pos(), "%s is incremented under the wrong line kind (it must count every line except %s ones): the hunk header does not describe the hunk and the hunk does not apply", fld, map[string]string{"leftSize": "'+'", "rightSize": "'-'"}[fld])
			}
		}
	}
	if n < 4 {
		c.add(rule, "count:", token.NoPos, CountDropped, true, "only %d size updates found in hunk.add (4 confirmed by hand)", n)
	}
}

// LOCKSTEP(chunk-merge): merging two chunks adds each of del, ins and eq (an edit script keeps
// its totals: sum(del+eq) = len(a), sum(ins+eq) = len(b)).
func ruleCHUNKMERGE(c *Ctx) {
	const rule = "LOCKSTEP(chunk-merge)"
	f := c.SSAFunc("util/diff", "(*chunk).merge")
	if f == nil {
		c.Lost(rule, "util/diff.chunk.merge", "function not found")
		return
	}
	got := map[string]bool{}
	for _, b := range f.Blocks {
		for _, ins := range b.Instrs {
			st, ok := ins.(*ssa.Store)
			if !ok {
				continue
			}
			fa, ok := st.Addr.(*ssa.FieldAddr)
			if !ok {
				continue
			}
			fld := fieldName(fa.X.Type(), fa.Field)
			bo, ok := st.Val.(*ssa.BinOp)
			if !ok || bo.Op != token.ADD {
				continue
			}
			// c.F = c.F + oth.F
			if strings.HasSuffix(vpath(bo.X), "."+fld) && strings.HasSuffix(vpath(bo.Y), "."+fld) {
				got[fld] = true
			}
		}
	}
	for _, fld := range []string{"del", "ins", "eq"} {
		key := "util/diff.chunk.merge:" + fld
		if got[fld] {
			c.Ok(rule, key, f.Pos(), "merge adds oth.%s to c.%s", fld, fld)
		} else {
			c.Bad(rule, key, f.Pos(), "merge does not add oth.%s to c.%s: the merged script no longer covers both texts", fld, fld)
		}
	}
}

// SIBLING(trace-mirror): trace's base cases for len(a) == 1 and len(b) == 1 are mirror images
// (a <-> b, del <-> ins); the forward and reverse passes of middle use the same recurrence on
// their own furthest-reaching arrays. The mirrored ASTs must be equal.
func ruleTRACEMIRROR(c *Ctx) {
	const rule = "SIBLING(trace-mirror)"
	p, fd := c.FuncDecl("util/diff", "trace")
	key := "util/diff.trace:len1-cases"
	if fd == nil {
		c.Lost(rule, key, "function not found")
		return
	}
	var caseA, caseB *ast.CaseClause
	ast.Inspect(fd.Body, func(n ast.Node) bool {
		cc, ok := n.(*ast.CaseClause)
		if !ok || len(cc.List) != 1 {
			return true
		}
		switch types.ExprString(cc.List[0]) {
		case "len(a) == 1":
			caseA = cc
		case "len(b) == 1":
			caseB = cc
		}
		return true
	})
	if caseA == nil || caseB == nil {
		c.Lost(rule, key, "the cases len(a) == 1 / len(b) == 1 were not found")
		return
	}
	render := func(cc *ast.CaseClause, swap bool) string {
		var sb strings.Builder
		for _, s := range cc.Body {
			ast.Inspect(s, func(n ast.Node) bool {
				switch x := n.(type) {
				case *ast.Ident:
					name := x.Name
					if swap {
						switch name {
						case "a":
							name = "b"
						case "b":
							name = "a"
						case "del":
							name = "ins"
						case "ins":
							name = "del"
						}
					}
					sb.WriteString(name + " ")
				case *ast.BasicLit:
					sb.WriteString(x.Value + " ")
				case *ast.BinaryExpr:
					sb.WriteString(x.Op.String() + " ")
				case *ast.KeyValueExpr:
					sb.WriteString(": ")
				}
				return true
			})
		}
		return sb.String()
	}
	// composite literals list their keys in source order; normalise `del: len(a), ins: len(b)` by sorting is
	// not needed: the two cases are written in mirrored order
	ra, rb := render(caseA, false), render(caseB, true)
	_ = p
	if normKV(ra) == normKV(rb) {
		c.Ok(rule, key, caseA.Pos(), "the two single-element cases are mirror images (a<->b, del<->ins)")
	} else {
		c.Bad(rule, key, caseB.Pos(), "the len(a) == 1 and len(b) == 1 cases of trace are not mirror images of each other: one direction of the edit script is computed differently from the other\n  a-case: %s\n  mirrored b-case: %s", ra, rb)
	}
}

// normKV sorts the `k : v` pairs inside chunk literals so that `del: x, ins: y` and `ins: y, del: x` compare equal.
func normKV(s string) string {
	fields := strings.Fields(s)
	return strings.Join(sortedCopy(fields), " ")
}

func sortedCopy(in []string) []string {
	out := append([]string(nil), in...)
	sortStrings(out)
	return out
}

var _ = fmt.Sprint

// LOCKSTEP(hunk-origin): the header of a hunk names the first line of the hunk in the old text
// (-l) and in the new text (+r). In LineDiff the old-text cursor advances by eq+del and the
// new-text cursor by eq+ins; every value stored in hunk.leftLine must be derived from the
// old-text cursor only and every value stored in hunk.rightLine from the new-text cursor only,
// by the same expression. A value derived from neither cursor (the leading-context case) is
// accepted only where no line was inserted or deleted before it (c.del == 0, c.ins == 0 govern).
func ruleHUNKORIGIN(c *Ctx) {
	const rule = "LOCKSTEP(hunk-origin)"
	f := c.SSAFunc("util/diff", "LineDiff")
	if f == nil {
		c.Lost(rule, "util/diff.LineDiff", "function not found")
		return
	}
	var curA, curB *ssa.Phi
	for _, b := range f.Blocks {
		for _, ins := range b.Instrs {
			phi, ok := ins.(*ssa.Phi)
			if !ok {
				continue
			}
			for _, e := range phi.Edges {
				s := vpath(e)
				if !strings.Contains(s, "φ"+phi.Name()) {
					continue
				}
				switch {
				case strings.Contains(s, ".del") && !strings.Contains(s, ".ins"):
					curA = phi
				case strings.Contains(s, ".ins") && !strings.Contains(s, ".del"):
					curB = phi
				}
			}
		}
	}
	if curA == nil || curB == nil {
		c.Lost(rule, "util/diff.LineDiff:cursors", "the old-text (eq+del) and new-text (eq+ins) cursors were not found")
		return
	}
	var deps func(v ssa.Value, d int, out map[*ssa.Phi]bool)
	deps = func(v ssa.Value, d int, out map[*ssa.Phi]bool) {
		if d > 8 {
			return
		}
		switch x := v.(type) {
		case *ssa.Phi:
			out[x] = true
		case *ssa.BinOp:
			deps(x.X, d+1, out)
			deps(x.Y, d+1, out)
		case *ssa.Convert:
			deps(x.X, d+1, out)
		}
	}
	norm := strings.NewReplacer("φ"+curA.Name(), "CUR", "φ"+curB.Name(), "CUR", ".del", ".D", ".ins", ".D")
	n := 0
	ord := map[string]int{}
	type stored struct {
		fld string
		val ssa.Value
		b   *ssa.BasicBlock
	}
	var all []stored
	for _, b := range f.Blocks {
		for _, ins := range b.Instrs {
			st, ok := ins.(*ssa.Store)
			if !ok {
				continue
			}
			fa, ok := st.Addr.(*ssa.FieldAddr)
			if !ok {
				continue
			}
			fld := fieldName(fa.X.Type(), fa.Field)
			if fld != "leftLine" && fld != "rightLine" {
				continue
			}
			if _, isConst := st.Val.(*ssa.Const); isConst {
				continue // the first hunk starts at line 1 on both sides
			}
			all = append(all, stored{fld, st.Val, b})
			n++
			key := ordKey(ord, "util/diff.LineDiff:"+fld)
			d := map[*ssa.Phi]bool{}
			deps(st.Val, 0, d)
			own, other := curA, curB
			if fld == "rightLine" {
				own, other = curB, curA
			}
			switch {
			case d[other]:
				c.Bad(rule, key, st.Pos(), "%s is computed from the cursor of the other text (%s): after an unbalanced earlier hunk the header names the wrong line and the hunk does not apply", fld, normalizePhi(vpath(st.Val)))
			case d[own]:
				c.Ok(rule, key, st.Pos(), "%s is derived from its own text's cursor", fld)
			default:
				// neither cursor: only where nothing was inserted or deleted so far
				del0, ins0 := false, false
				for _, g := range flattenConds(governing(b)) {
					if l, op, r, ok := cmpNorm(g.V, g.Pol); ok && op == "==" {
						if (strings.HasSuffix(l, ".del") && r == "0") || (strings.HasSuffix(r, ".del") && l == "0") {
							del0 = true
						}
						if (strings.HasSuffix(l, ".ins") && r == "0") || (strings.HasSuffix(r, ".ins") && l == "0") {
							ins0 = true
						}
					}
				}
				if del0 && ins0 {
					c.Ok(rule, key, st.Pos(), "%s is set without a cursor only where no line was inserted or deleted before it", fld)
				} else {
					c.Bad(rule, key, st.Pos(), "%s is set from a value that follows neither text cursor, on a path where lines may have been inserted or deleted before", fld)
				}
			}
		}
	}
	// pairwise: in one block the two sides use the same expression of their cursors
	for _, l := range all {
		if l.fld != "leftLine" {
			continue
		}
		for _, r := range all {
			if r.fld != "rightLine" || r.b != l.b {
				continue
			}
			dl, dr := map[*ssa.Phi]bool{}, map[*ssa.Phi]bool{}
			deps(l.val, 0, dl)
			deps(r.val, 0, dr)
			if !dl[curA] || !dr[curB] {
				continue
			}
			n++
			key := ordKey(ord, "util/diff.LineDiff:pair")
			if norm.Replace(vpath(l.val)) == norm.Replace(vpath(r.val)) {
				c.Ok(rule, key, l.val.Pos(), "leftLine and rightLine are the same expression of their cursors")
			} else {
				c.Bad(rule, key, l.val.Pos(), "leftLine (%s) and rightLine (%s) are different expressions of their cursors", normalizePhi(vpath(l.val)), normalizePhi(vpath(r.val)))
			}
		}
	}
	if n < 4 {
		c.add(rule, "count:", token.NoPos, CountDropped, true, "only %d hunk origin obligations found (4 stores and 1 pair confirmed by hand)", n)
	}
}

// MAXSEL(furthest-reaching): Myers' search keeps, per diagonal k, the furthest reaching point.
// Coming from diagonal k+1 gives x = v[k+1], coming from k-1 gives x = v[k-1]+1; the point kept
// must be the larger of the two, so v[k+1] may be chosen only when v[k-1] < v[k+1] *strictly*
// (on a tie, v[k-1]+1 is further). With `<=` the frontier is not furthest reaching and the edit
// script is no longer minimal. Checked for the forward and the reverse search.
func ruleFURTHEST(c *Ctx) {
	const rule = "MAXSEL(furthest-reaching)"
	f := c.SSAFunc("util/diff", "middle")
	if f == nil {
		c.Lost(rule, "util/diff.middle", "function not found")
		return
	}
	n := 0
	ord := map[string]int{}
	for _, b := range f.Blocks {
		for _, ins := range b.Instrs {
			phi, ok := ins.(*ssa.Phi)
			if !ok || len(phi.Edges) != 2 {
				continue
			}
			// one edge loads v[i1], the other is v[i2] + 1 of the same v
			var down *ssa.UnOp  // x = v[k+1]
			var right *ssa.UnOp // the load inside v[k-1] + 1
			downEdge := -1
			for i, e := range phi.Edges {
				if u, ok := e.(*ssa.UnOp); ok && u.Op == token.MUL {
					if _, ok := u.X.(*ssa.IndexAddr); ok {
						down, downEdge = u, i
					}
				}
				if bo, ok := e.(*ssa.BinOp); ok && bo.Op == token.ADD {
					if k, ok := bo.Y.(*ssa.Const); ok && k.Value != nil && k.Int64() == 1 {
						if u, ok := bo.X.(*ssa.UnOp); ok && u.Op == token.MUL {
							if _, ok := u.X.(*ssa.IndexAddr); ok {
								right = u
							}
						}
					}
				}
			}
			if down == nil || right == nil {
				continue
			}
			if vpath(down.X.(*ssa.IndexAddr).X) != vpath(right.X.(*ssa.IndexAddr).X) {
				continue
			}
			n++
			key := ordKey(ord, "util/diff.middle:select")
			dp, rp := vpath(down), vpath(right)
			verdict, pos := "", phi.Pos()
			for _, b2 := range f.Blocks {
				if len(b2.Instrs) == 0 {
					continue
				}
				ifi, ok := b2.Instrs[len(b2.Instrs)-1].(*ssa.If)
				if !ok {
					continue
				}
				l, op, r, ok := cmpNormV(ifi.Cond, true)
				if !ok {
					continue
				}
				lp, rpp := vpath(l), vpath(r)
				if !((lp == rp && rpp == dp) || (lp == dp && rpp == rp)) {
					continue
				}
				pos = ifi.Cond.Pos()
				// the true edge must be the one that takes v[k+1]
				if b2.Succs[0] != phi.Block().Preds[downEdge] {
					verdict = "the comparison of the two neighbouring diagonals does not select v[k+1] on its true edge"
					break
				}
				switch {
				case lp == rp && rpp == dp && op == "<":
					verdict = "ok"
				case lp == rp && rpp == dp && op == "<=":
					verdict = "v[k+1] is chosen when v[k-1] <= v[k+1]: on a tie v[k-1]+1 reaches further, so the kept point is not the furthest reaching one and the edit script is not minimal"
				default:
					verdict = fmt.Sprintf("v[k+1] is chosen under %s %s %s, which is not v[k-1] < v[k+1]", normalizePhi(lp), op, normalizePhi(rpp))
				}
			}
			switch verdict {
			case "ok":
				c.Ok(rule, key, pos, "x = v[k+1] is chosen only when v[k-1] < v[k+1] strictly; otherwise v[k-1]+1 (the kept point is the maximum)")
			case "":
				c.Bad(rule, key, pos, "no comparison of v[k-1] with v[k+1] selects between x = v[k+1] and x = v[k-1]+1")
			default:
				c.Bad(rule, key, pos, "%s", verdict)
			}
		}
	}
	if n < 2 {
		c.add(rule, "count:", token.NoPos, CountDropped, true, "only %d diagonal selections found (forward and reverse search confirmed by hand)", n)
	}
}

// ARITH(abbreviation): hunk.add abbreviates a long run to head lines, one marker line and tail
// lines. (1) The number printed in the marker is the number of lines left out:
// skipped = len - (head + tail). (2) A run is abbreviated only if that makes the hunk shorter:
// the guard is len > T with T >= head + 1 + tail; with a smaller T a run is replaced by an
// equally long text that no longer contains all its lines (and no longer applies).
func ruleABBREV(c *Ctx) {
	const rule = "ARITH(abbreviation)"
	f := c.SSAFunc("util/diff", "(*hunk).add")
	if f == nil {
		c.Lost(rule, "util/diff.hunk.add", "function not found")
		return
	}
	isLen := func(v ssa.Value) bool { return vpath(v) == "len(lines)" }
	thr, head, tail, skip := int64(-1), int64(-1), int64(-1), int64(-1)
	var thrIf *ssa.If
	for _, b := range f.Blocks {
		for _, ins := range b.Instrs {
			switch y := ins.(type) {
			case *ssa.If:
				l, op, r, ok := cmpNormV(y.Cond, true)
				if !ok {
					continue
				}
				if k, isK := l.(*ssa.Const); isK && isLen(r) && k.Value != nil && b == f.Blocks[0] {
					switch op {
					case "<":
						thr, thrIf = k.Int64(), y
					case "<=":
						thr, thrIf = k.Int64()-1, y
					}
				}
			case *ssa.Slice:
				if vpath(y.X) != "lines" {
					continue
				}
				if k, ok := y.High.(*ssa.Const); ok && y.Low == nil && k.Value != nil {
					head = k.Int64()
				}
				if bo, ok := y.Low.(*ssa.BinOp); ok && y.High == nil && bo.Op == token.SUB && isLen(bo.X) {
					if k, ok := bo.Y.(*ssa.Const); ok && k.Value != nil {
						tail = k.Int64()
					}
				}
			case *ssa.BinOp:
				if y.Op == token.SUB && isLen(y.X) {
					if k, ok := y.Y.(*ssa.Const); ok && k.Value != nil {
						if _, isSliceLow := sliceLowUser(y); !isSliceLow {
							skip = k.Int64()
						}
					}
				}
			}
		}
	}
	if thr < 0 || head < 0 || tail < 0 || skip < 0 || thrIf == nil {
		c.Lost(rule, "util/diff.hunk.add:abbreviation", "threshold/head/tail/skipped constants not found (thr=%d head=%d tail=%d skip=%d)", thr, head, tail, skip)
		return
	}
	if skip == head+tail {
		c.Ok(rule, "util/diff.hunk.add:skipped", thrIf.Cond.Pos(), "skipped = len - %d = len - (head %d + tail %d)", skip, head, tail)
	} else {
		c.Bad(rule, "util/diff.hunk.add:skipped", thrIf.Cond.Pos(), "the marker reports len - %d lines skipped but head %d + tail %d lines are printed", skip, head, tail)
	}
	if thr >= head+1+tail {
		c.Ok(rule, "util/diff.hunk.add:threshold", thrIf.Cond.Pos(), "runs are abbreviated only when longer than %d lines; the abbreviated form has %d", thr, head+1+tail)
	} else {
		c.Bad(rule, "util/diff.hunk.add:threshold", thrIf.Cond.Pos(), "a run of %d lines is abbreviated to %d lines (head %d + marker + tail %d): nothing is saved, but a line of the run is no longer in the hunk and the hunk does not apply", thr+1, head+1+tail, head, tail)
	}
}

func sliceLowUser(v *ssa.BinOp) (*ssa.Slice, bool) {
	if v.Referrers() == nil {
		return nil, false
	}
	for _, r := range *v.Referrers() {
		if s, ok := r.(*ssa.Slice); ok && s.Low == ssa.Value(v) {
			return s, true
		}
	}
	return nil, false
}

// SINK(diff-result): what LineDiff computed is what its callers deliver.
//   (a) a caller that returns a string returns the LineDiff result on every path; a constant ""
//       is accepted only under equality of the two texts handed to LineDiff (any other shortcut
//       answers "no difference" for texts that differ);
//   (b) the result never becomes (part of) the *format* argument of a fmt printf-style call:
//       a '%' on a diffed line would be interpreted and the printed hunk no longer applies.
func ruleDIFFSINK(c *Ctx) {
	const rule = "SINK(diff-result)"
	n := 0
	for _, rel := range []string{"util/dump", "cmd/textmapper", "gen", "compiler"} {
		for _, f := range c.SrcFuncs(rel) {
			var calls []*ssa.Call
			for _, b := range f.Blocks {
				for _, ins := range b.Instrs {
					if call, ok := ins.(*ssa.Call); ok {
						if g := call.Call.StaticCallee(); g != nil && g.Name() == "LineDiff" && g.Pkg != nil && strings.HasSuffix(g.Pkg.Pkg.Path(), "util/diff") {
							calls = append(calls, call)
						}
					}
				}
			}
			if len(calls) == 0 {
				continue
			}
			ld := calls[0]
			// (a)
			res := f.Signature.Results()
			if res.Len() == 1 && types.Identical(res.At(0).Type(), types.Typ[types.String]) {
				n++
				key := ssaFuncKey(f) + ":returns-diff"
				bad := token.NoPos
				for _, b := range f.Blocks {
					ret, ok := b.Instrs[len(b.Instrs)-1].(*ssa.Return)
					if !ok || len(ret.Results) != 1 {
						continue
					}
					v := ret.Results[0]
					if v == ssa.Value(ld) {
						continue
					}
					if k, ok := v.(*ssa.Const); ok && k.Value != nil && k.Value.ExactString() == `""` {
						eq := false
						for _, g := range flattenConds(governing(b)) {
							if bo, ok := g.V.(*ssa.BinOp); ok && bo.Op == token.EQL && g.Pol {
								x, y := vpath(bo.X), vpath(bo.Y)
								a0, a1 := vpath(ld.Call.Args[0]), vpath(ld.Call.Args[1])
								if (x == a0 && y == a1) || (x == a1 && y == a0) {
									eq = true
								}
							}
						}
						if eq {
							continue
						}
					}
					bad = ret.Pos()
				}
				if bad == token.NoPos {
					c.Ok(rule, key, ld.Pos(), "every return is the LineDiff result (or \"\" under equality of the two texts)")
				} else {
					c.Bad(rule, key, bad, "%s returns something else than the LineDiff result of its two texts: the diff can be empty although the texts differ", f.Name())
				}
			}
			// (b) taint into format arguments
			tainted := map[ssa.Value]bool{ld: true}
			for changed := true; changed; {
				changed = false
				for _, b := range f.Blocks {
					for _, ins := range b.Instrs {
						v, ok := ins.(ssa.Value)
						if !ok || tainted[v] {
							continue
						}
						switch x := ins.(type) {
						case *ssa.BinOp:
							if x.Op == token.ADD && (tainted[x.X] || tainted[x.Y]) {
								tainted[v], changed = true, true
							}
						case *ssa.Phi:
							for _, e := range x.Edges {
								if tainted[e] {
									tainted[v], changed = true, true
								}
							}
						}
					}
				}
			}
			for _, b := range f.Blocks {
				for _, ins := range b.Instrs {
					call, ok := ins.(*ssa.Call)
					if !ok {
						continue
					}
					g := call.Call.StaticCallee()
					if g == nil || g.Pkg == nil || g.Pkg.Pkg.Path() != "fmt" {
						continue
					}
					fi := -1
					switch g.Name() {
					case "Printf", "Sprintf", "Errorf":
						fi = 0
					case "Fprintf":
						fi = 1
					}
					if fi < 0 || fi >= len(call.Call.Args) {
						continue
					}
					uses := false
					for _, a := range call.Call.Args {
						if tainted[a] {
							uses = true
						}
						if sl, ok := a.(*ssa.Slice); ok { // variadic ...any
							if al, ok := sl.X.(*ssa.Alloc); ok && al.Referrers() != nil {
								for _, r := range *al.Referrers() {
									if ia, ok := r.(*ssa.IndexAddr); ok && ia.Referrers() != nil {
										for _, r2 := range *ia.Referrers() {
											if st, ok := r2.(*ssa.Store); ok {
												if mi, ok := st.Val.(*ssa.MakeInterface); ok && tainted[mi.X] {
													uses = true
												}
											}
										}
									}
								}
							}
						}
					}
					if !uses {
						continue
					}
					n++
					key := ssaFuncKey(f) + ":prints-diff"
					if tainted[call.Call.Args[fi]] {
						c.Bad(rule, key, call.Pos(), "the diff text is (part of) the format string of fmt.%s: '%%' on a diffed line is interpreted as a verb and the printed hunks no longer apply", g.Name())
					} else {
						c.Ok(rule, key, call.Pos(), "the diff text is printed as an operand of fmt.%s, not as its format", g.Name())
					}
				}
			}
		}
	}
	if n < 2 {
		c.add(rule, "count:", token.NoPos, CountDropped, true, "only %d delivery sites of LineDiff results found (dump.Diff and generate --diff confirmed by hand)", n)
	}
}
