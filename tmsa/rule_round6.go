package main

import (
	"fmt"
	"go/constant"
	"go/token"
	"regexp"
	"sort"
	"strings"
	"text/template/parse"

	"golang.org/x/tools/go/ssa"
)

// INVARIANT(flat-top): rhsRule.top is documented as "the top-level rule this rule is nested
// under"; maxPos/incPos dereference it once (r.top.pos). Positions of a rule nested two levels
// deep are therefore allocated from the top-level counter only if every value stored into .top
// is nil, a rule known to be top-level on that edge (isTopLevel() / .top == nil held), or the
// .top of another rule (which has the property by induction).
func ruleFLATTOP(c *Ctx) {
	const rule = "INVARIANT(flat-top)"
	n := 0
	ord := map[string]int{}
	for _, f := range c.SrcFuncs("compiler") {
		for _, b := range f.Blocks {
			for _, ins := range b.Instrs {
				st, ok := ins.(*ssa.Store)
				if !ok {
					continue
				}
				fa, ok := st.Addr.(*ssa.FieldAddr)
				if !ok || fieldName(fa.X.Type(), fa.Field) != "top" || !isNamedType(fa.X.Type(), "compiler", "rhsRule") {
					continue
				}
				n++
				key := ordKey(ord, ssaFuncKey(f)+":top")
				type leaf struct {
					v     ssa.Value
					conds []gcond
				}
				var leaves []leaf
				var expand func(v ssa.Value, conds []gcond, d int)
				expand = func(v ssa.Value, conds []gcond, d int) {
					if ph, ok := v.(*ssa.Phi); ok && d < 4 {
						for i, e := range ph.Edges {
							expand(e, edgeConds(ph.Block().Preds[i], ph.Block()), d+1)
						}
						return
					}
					leaves = append(leaves, leaf{v, conds})
				}
				expand(st.Val, governing(b), 0)
				bad := ""
				for _, l := range leaves {
					if k, ok := l.v.(*ssa.Const); ok && k.IsNil() {
						continue
					}
					if ld, ok := l.v.(*ssa.UnOp); ok && ld.Op == token.MUL {
						if fa2, ok := ld.X.(*ssa.FieldAddr); ok && fieldName(fa2.X.Type(), fa2.Field) == "top" {
							continue
						}
					}
					known := false
					for _, g := range flattenConds(l.conds) {
						if call, ok := g.V.(*ssa.Call); ok && g.Pol {
							if cal := call.Call.StaticCallee(); cal != nil && cal.Name() == "isTopLevel" && len(call.Call.Args) == 1 && call.Call.Args[0] == l.v {
								known = true
							}
						}
						if lv, op, rv, ok := cmpNormV(g.V, g.Pol); ok && op == "==" {
							for _, pr := range [][2]ssa.Value{{lv, rv}, {rv, lv}} {
								if k, isK := pr[1].(*ssa.Const); isK && k.IsNil() && vpath(pr[0]) == vpath(l.v)+".top" {
									known = true
								}
							}
						}
					}
					if !known {
						bad = vpath(l.v)
					}
				}
				if bad != "" {
					c.Bad(rule, key, st.Pos(), "rhsRule.top receives %s, which is not known to be a top-level rule here: for a group nested two levels deep maxPos/incPos (r.top.pos) then use the private counter of the enclosing group, and $-references in its actions resolve to the wrong stack slots", bad)
				} else {
					c.Ok(rule, key, st.Pos(), "the value stored into rhsRule.top is nil, a rule tested with isTopLevel(), or the .top of another rule (%d cases)", len(leaves))
				}
			}
		}
	}
	if n < 1 {
		c.Lost(rule, "compiler.rhsRule.top", "no store into rhsRule.top found")
	}
}

// TMPL(ctx-arity): the generated parser threads a context through its helpers with the idiom
// `name({{if G}}ctx, {{end}}...)` against `func name({{if G'}}ctx "context".Context, {{end}}...)`.
// For every option assignment under which a call site is emitted (a) the guard of the argument
// equals the guard of the parameter of the function called (arity), and (b) the argument is
// only emitted when the enclosing function declares ctx (scope). Guards are compared as boolean
// formulas over all assignments of their atoms; nothing is executed.
func ruleTMPLCTXARITY(c *Ctx) {
	const rule = "TMPL(ctx-arity)"
	tf, err := c.templates()
	if err != nil {
		c.Lost(rule, "gen/templates", "%v", err)
		return
	}
	type site struct {
		file   *tmplFile
		node   parse.Node
		def    string
		name   string
		decl   bool
		own    bform // the guard of the `ctx, ` fragment itself
		outer  bform // the guards around it
		encl   *bform
		enclFn string
	}
	var sites []*site
	// a define without a function of its own (resolveDeepLA) is in the scope of its includers
	type inclusion struct {
		decl *bform
		fn   string
	}
	inclCtx := map[string][]inclusion{}
	nameRe := regexp.MustCompile(`([\w*]+)\($`)
	declRe := regexp.MustCompile(`func (\([^)]*\) )?[\w*]*\($`)
	funcRe := regexp.MustCompile(`(?m)^func (\([^)]*\) )?(\w*)`)
	for _, fn := range []string{"go_parser.go.tmpl", "go_stream.go.tmpl", "go_lexer.go.tmpl"} {
		f := tf[fn]
		if f == nil {
			c.Lost(rule, fn, "template not found")
			continue
		}
		emitted := tmplEmitter(f)
		for _, dn := range sortedTreeKeys(f.Trees) {
			var curDecl *bform
			curFn := ""
			var visit func(list *parse.ListNode, gs []tguard)
			visit = func(list *parse.ListNode, gs []tguard) {
				if list == nil {
					return
				}
				for i, nd := range list.Nodes {
					switch x := nd.(type) {
					case *parse.TextNode:
						if ms := funcRe.FindAllStringSubmatch(string(x.Text), -1); len(ms) > 0 {
							curDecl = nil
							curFn = ms[len(ms)-1][2]
						}
					case *parse.IfNode:
						frag := ""
						if x.List != nil && len(x.List.Nodes) == 1 && x.ElseList == nil {
							if tn, ok := x.List.Nodes[0].(*parse.TextNode); ok {
								frag = string(tn.Text)
							}
						}
						if frag == "ctx, " || frag == `ctx "context".Context, ` {
							// the text in front of the fragment; an action ({{$sym.Name}}) reads as "*"
							prev := ""
							for j := i - 1; j >= 0 && j >= i-3; j-- {
								if tn, ok := list.Nodes[j].(*parse.TextNode); ok {
									prev = string(tn.Text) + prev
								} else if _, ok := list.Nodes[j].(*parse.ActionNode); ok {
									prev = "*" + prev
								} else {
									break
								}
							}
							s := &site{file: f, node: x, def: dn, own: parseGuard(x.Pipe.String()), outer: emitted(dn, gs, 0)}
							if m := nameRe.FindStringSubmatch(prev); m != nil {
								s.name = m[1]
							}
							s.decl = strings.HasPrefix(frag, `ctx "`)
							if s.decl {
								if !declRe.MatchString(prev) && s.name != "" {
									s.name = "" // a parameter of something that is not a plain func declaration
								}
								own := s.own
								curDecl = &own
								if s.name != "" {
									curFn = s.name
								}
							} else {
								s.encl, s.enclFn = curDecl, curFn
							}
							sites = append(sites, s)
							continue
						}
						visit(x.List, append(append([]tguard{}, gs...), tguard{x.Pipe.String(), true, "if"}))
						visit(x.ElseList, append(append([]tguard{}, gs...), tguard{x.Pipe.String(), false, "if"}))
					case *parse.TemplateNode:
						inclCtx[x.Name] = append(inclCtx[x.Name], inclusion{curDecl, curFn})
					case *parse.RangeNode:
						visit(x.List, append(append([]tguard{}, gs...), tguard{x.Pipe.String(), true, "range"}))
						visit(x.ElseList, gs)
					case *parse.WithNode:
						visit(x.List, append(append([]tguard{}, gs...), tguard{x.Pipe.String(), true, "with"}))
						visit(x.ElseList, gs)
					}
				}
			}
			visit(f.Trees[dn].Root, nil)
		}
	}
	decls := map[string][]*site{}
	for _, s := range sites {
		if s.decl && s.name != "" {
			decls[s.name] = append(decls[s.name], s)
		}
	}
	// all assignments of the atoms
	atoms := map[string]bool{}
	for _, s := range sites {
		s.own.atoms(atoms)
		s.outer.atoms(atoms)
	}
	names := sortedBoolKeys(atoms)
	if len(names) > 14 {
		c.Lost(rule, "atoms", "%d guard atoms: too many to enumerate", len(names))
		return
	}
	forAll := func(pred func(env map[string]bool) bool) (map[string]bool, bool) {
		for m := 0; m < 1<<len(names); m++ {
			env := map[string]bool{}
			for i, a := range names {
				env[a] = m&(1<<i) != 0
			}
			if !pred(env) {
				return env, false
			}
		}
		return nil, true
	}
	show := func(env map[string]bool, fs ...bform) string {
		used := map[string]bool{}
		for _, f := range fs {
			f.atoms(used)
		}
		var out []string
		for _, a := range sortedBoolKeys(used) {
			out = append(out, fmt.Sprintf("%s=%v", a, env[a]))
		}
		return strings.Join(out, ", ")
	}
	ord := map[string]int{}
	nUse := 0
	for _, s := range sites {
		if s.decl {
			continue
		}
		nUse++
		key := ordKey(ord, fmt.Sprintf("%s#%s:%s(ctx)", s.file.Name, s.def, s.name))
		pos := tmplPos(s.file, s.node)
		if s.name == "" {
			c.addT(rule, key, pos, Undecided, "a `ctx, ` argument whose callee name could not be read from the preceding text")
			continue
		}
		ds := decls[s.name]
		if len(ds) == 0 {
			c.addT(rule, key, pos, Undecided, "no declaration `func %s({{if ...}}ctx \"context\".Context, {{end}}` found for this call", s.name)
			continue
		}
		// (a) arity
		var cex map[string]bool
		var cexDecl *site
		okA := false
		for _, d := range ds {
			env, ok := forAll(func(env map[string]bool) bool {
				if !s.outer.eval(env) {
					return true
				}
				return s.own.eval(env) == d.own.eval(env)
			})
			if ok {
				okA = true
				break
			}
			cex, cexDecl = env, d
		}
		if !okA {
			c.addT(rule, key, pos, Violation, "the call passes ctx under `%s` but %s declares the parameter under `%s` (%s): with %s the generated call has the wrong number of arguments", s.node.(*parse.IfNode).Pipe.String(), s.name, cexDecl.node.(*parse.IfNode).Pipe.String(), tmplPos(cexDecl.file, cexDecl.node), show(cex, s.own, cexDecl.own))
			continue
		}
		// (b) scope
		encls := []inclusion{{s.encl, s.enclFn}}
		if s.encl == nil && s.enclFn == "" {
			encls = inclCtx[s.def]
			if len(encls) == 0 {
				c.addT(rule, key, pos, Undecided, "define %q has no function of its own and is not included anywhere: the scope of ctx is unknown", s.def)
				continue
			}
		}
		okB := true
		var fns []string
		for _, e := range encls {
			fns = append(fns, e.fn)
			if e.decl == nil {
				c.addT(rule, key, pos, Violation, "ctx is passed inside %s, which declares no ctx parameter", e.fn)
				okB = false
				break
			}
			env, ok := forAll(func(env map[string]bool) bool {
				if !s.outer.eval(env) || !s.own.eval(env) {
					return true
				}
				return e.decl.eval(env)
			})
			if !ok {
				c.addT(rule, key, pos, Violation, "ctx is passed under `%s`, but the enclosing %s declares ctx only under a stronger condition: with %s the generated code refers to an undefined ctx", s.node.(*parse.IfNode).Pipe.String(), e.fn, show(env, s.own, *e.decl))
				okB = false
				break
			}
		}
		if !okB {
			continue
		}
		c.addT(rule, key, pos, OK, "argument guard equals the parameter guard of %s for every option assignment, and implies the ctx parameter of the enclosing %s", s.name, strings.Join(fns, "/"))
	}
	if nUse < 38 {
		c.addT(rule, "count:", "", CountDropped, "only %d guarded ctx arguments found (40 confirmed by hand)", nUse)
	}
}

// GUARD(alias-elision): ExtractGoImports prints `alias "path"` and elides the alias when it is
// the default one. Eliding is only sound when the alias is the last segment of the path, and a
// decision about "the last segment" has to locate the segment boundary: the backward slice of the
// conditions under which the write of imp.alias is skipped must contain the separator "/" (as a
// string or byte constant) or a call of path.Base. A test on path and alias alone (HasSuffix(path,
// alias)) also elides `"path/filepath as path"`, and the generated file does not build. This is a
// necessary condition only: it does not decide that a condition which mentions "/" is right.
func ruleALIASELISION(c *Ctx) {
	const rule = "GUARD(alias-elision)"
	key := "gen.ExtractGoImports:alias"
	f := c.SSAFunc("gen", "ExtractGoImports")
	if f == nil {
		c.Lost(rule, key, "function not found")
		return
	}
	fieldOfLoad := func(v ssa.Value) string {
		ld, ok := v.(*ssa.UnOp)
		if !ok || ld.Op != token.MUL {
			return ""
		}
		fa, ok := ld.X.(*ssa.FieldAddr)
		if !ok {
			return ""
		}
		return fieldName(fa.X.Type(), fa.Field)
	}
	var write *ssa.Call
	for _, b := range f.Blocks {
		for _, ins := range b.Instrs {
			call, ok := ins.(*ssa.Call)
			if !ok {
				continue
			}
			g := call.Call.StaticCallee()
			if g == nil || g.Name() != "WriteString" || len(call.Call.Args) != 2 || fieldOfLoad(call.Call.Args[1]) != "alias" {
				continue
			}
			write = call
		}
	}
	if write == nil {
		c.Lost(rule, key, "no WriteString(imp.alias) found")
		return
	}
	lp := innermostLoop(naturalLoops(f), write.Block())
	var conds []gcond
	for _, g := range flattenConds(governing(write.Block())) {
		if lp != nil && g.If != nil && lp.Body[g.If.Block()] && g.If.Block() != lp.Header {
			conds = append(conds, g)
		}
	}
	if len(conds) == 0 {
		c.Ok(rule, key, write.Pos(), "the alias is always written")
		return
	}
	separator, other := false, ""
	seen := map[ssa.Value]bool{}
	var walk func(v ssa.Value, d int)
	walk = func(v ssa.Value, d int) {
		if v == nil || seen[v] || d > 14 {
			return
		}
		seen[v] = true
		switch x := v.(type) {
		case *ssa.Const:
			if x.Value != nil {
				switch x.Value.Kind() {
				case constant.String:
					if strings.Contains(constant.StringVal(x.Value), "/") {
						separator = true
					}
				case constant.Int:
					if x.Int64() == '/' {
						separator = true
					}
				}
			}
		case *ssa.UnOp:
			if fn := fieldOfLoad(x); fn != "" {
				if fn != "alias" && fn != "path" {
					other = fn
				}
				return
			}
			walk(x.X, d+1)
		case *ssa.BinOp:
			walk(x.X, d+1)
			walk(x.Y, d+1)
		case *ssa.Convert:
			walk(x.X, d+1)
		case *ssa.Slice:
			walk(x.X, d+1)
			walk(x.Low, d+1)
			walk(x.High, d+1)
		case *ssa.Phi:
			for _, e := range x.Edges {
				walk(e, d+1)
			}
		case *ssa.Extract:
			walk(x.Tuple, d+1)
		case *ssa.Call:
			if g := x.Call.StaticCallee(); g != nil && g.Pkg != nil && g.Name() == "Base" && (g.Pkg.Pkg.Path() == "path" || g.Pkg.Pkg.Path() == "path/filepath") {
				separator = true
			}
			for _, a := range x.Call.Args {
				walk(a, d+1)
			}
		}
	}
	for _, g := range conds {
		walk(g.V, 0)
	}
	switch {
	case separator:
		c.Ok(rule, key, write.Pos(), "the conditions under which the alias is elided locate the segment boundary (%d conditions, %d values in their slice)", len(conds), len(seen))
	case other != "":
		c.Undec(rule, key, write.Pos(), "the elision of the alias depends on the field %s, whose computation this rule does not follow", other)
	default:
		c.Bad(rule, key, write.Pos(), "the alias is elided by a test on path and alias that never looks at the separator: it cannot tell \"alias is the last path segment\" from \"path ends with the letters of alias\" (\"path/filepath as path\" is printed as a plain import of path/filepath; the generated file refers to path and does not build)")
	}
}

// AGREE(min-update): `if A < B { B = V }` states the belief that A is the new bound of B. When V
// is read from memory like A but is a different location, comparison and assignment disagree
// (Tarjan's low-link update in syntax/types.go compares lowLink[w] and must store lowLink[w]; a
// comparison against index[w] accepts updates the store then does not perform, or the reverse).
func ruleMINUPDATE(c *Ctx, pkgs ...string) {
	const rule = "AGREE(min-update)"
	n := 0
	ord := map[string]int{}
	loadPath := func(v ssa.Value) (string, bool) {
		ld, ok := v.(*ssa.UnOp)
		if !ok || ld.Op != token.MUL {
			return "", false
		}
		return vpath(ld.X), true
	}
	for _, rel := range pkgs {
		for _, f := range c.SrcFuncs(rel) {
			for _, b := range f.Blocks {
				if len(b.Instrs) == 0 {
					continue
				}
				ifi, ok := b.Instrs[len(b.Instrs)-1].(*ssa.If)
				if !ok {
					continue
				}
				for pol, succ := range map[bool]*ssa.BasicBlock{true: b.Succs[0], false: b.Succs[1]} {
					if len(succ.Preds) != 1 {
						continue
					}
					lv, op, rv, ok := cmpNormV(ifi.Cond, pol)
					if !ok || (op != "<" && op != "<=") {
						continue
					}
					lp, lok := loadPath(lv)
					rp, rok := loadPath(rv)
					if !lok || !rok {
						continue
					}
					for _, ins := range succ.Instrs {
						st, ok := ins.(*ssa.Store)
						if !ok {
							continue
						}
						ap := vpath(st.Addr)
						var other ssa.Value
						var otherPath string
						switch ap {
						case lp:
							other, otherPath = rv, rp
						case rp:
							other, otherPath = lv, lp
						default:
							continue
						}
						vp, isLoad := loadPath(st.Val)
						if !isLoad {
							continue // arithmetic on the bound, not a min/max update
						}
						n++
						key := ordKey(ord, ssaFuncKey(f)+":"+normalizePhi(ap))
						_ = other
						if vp == otherPath {
							c.Ok(rule, key, st.Pos(), "the bound %s is replaced by the value it was compared with", normalizePhi(ap))
						} else {
							c.Bad(rule, key, st.Pos(), "%s is compared with %s but then receives %s: the comparison decides about one quantity and the assignment stores another", normalizePhi(ap), normalizePhi(otherPath), normalizePhi(vp))
						}
					}
				}
			}
		}
	}
	if n < 1 {
		c.add(rule, "count:", token.NoPos, CountDropped, true, "no compare-and-replace update found (typeCollector.nontermPhrase low-link confirmed by hand)")
	}
}

// RESIDUE(with-quotient): the selector returned by OneOf tests membership in a bit array; the bit
// index is `t % bits`. A residue identifies the node type only together with its word index
// (`t / bits`) or a bound on t; a returned closure whose answer depends on t through the residue
// alone answers true for every type that is congruent to a member (type 32+k looks like k), and
// typed AST accessors then pick up foreign siblings.
func ruleRESIDUE(c *Ctx) {
	const rule = "RESIDUE(with-quotient)"
	n := 0
	for _, rel := range []string{"parsers/js/selector", "parsers/tm/selector", "parsers/test/selector"} {
		f := c.SSAFunc(rel, "OneOf")
		if f == nil {
			c.Lost(rule, rel+".OneOf", "function not found")
			continue
		}
		for i, cl := range f.AnonFuncs {
			if len(cl.Params) != 1 {
				continue
			}
			t := cl.Params[0]
			fromT := func(v ssa.Value) bool {
				for d := 0; d < 4; d++ {
					v = stripConv(v)
					if v == ssa.Value(t) {
						return true
					}
					if cv, ok := v.(*ssa.ChangeType); ok {
						v = cv.X
						continue
					}
					break
				}
				return false
			}
			var rem *ssa.BinOp
			bounded := false
			for _, b := range cl.Blocks {
				for _, ins := range b.Instrs {
					bo, ok := ins.(*ssa.BinOp)
					if !ok {
						continue
					}
					switch bo.Op {
					case token.REM, token.AND:
						if fromT(bo.X) && bo.Op == token.REM {
							rem = bo
						}
						if bo.Op == token.AND && fromT(bo.X) {
							if _, isK := bo.Y.(*ssa.Const); isK {
								rem = bo
							}
						}
					case token.QUO, token.SHR:
						if fromT(bo.X) {
							bounded = true
						}
					case token.LSS, token.LEQ, token.GTR, token.GEQ:
						if fromT(bo.X) || fromT(bo.Y) {
							bounded = true
						}
					}
				}
			}
			if rem == nil {
				continue
			}
			n++
			key := fmt.Sprintf("%s.OneOf$%d", rel, i+1)
			if bounded {
				c.Ok(rule, key, rem.Pos(), "the bit index t %% bits is used together with the word index or a bound on t")
			} else {
				c.Bad(rule, key, rem.Pos(), "the selector depends on the node type only through t %% bits: a type that is congruent to a member modulo the word size is accepted as a member (with more than 32 node types a category accessor returns, and asserts, a foreign sibling)")
			}
		}
	}
	if n < 3 {
		c.add(rule, "count:", token.NoPos, CountDropped, true, "only %d selector closures with a bit index found (one per generated selector package: js, tm, test)", n)
	}
}

func sortedBoolKeys(m map[string]bool) []string {
	var out []string
	for k := range m {
		out = append(out, k)
	}
	sort.Strings(out)
	return out
}
