package main

import (
	"fmt"
	"go/constant"
	"go/token"
	"go/types"
	"regexp"
	"sort"
	"strings"
	"text/template/parse"

	"golang.org/x/tools/go/ssa"
)

// INVARIANT(flat-top): rhsRule.top is documented as "the top-level rule this rule is nested
// under"; maxPos/incPos dereference it once (r.top.pos). Positions of a rule nested two levels
// deep are therefore allocated from the top-level counter only if every value stored into .top
// is nil, a rule known to be top-level on that edge (isTopLevel() / .top == nil held), or the
// .top of another rule (which has the property by induction).
func ruleFLATTOP(c *Ctx) {
	const rule = "INVARIANT(flat-top)"
	n := 0
	ord := map[string]int{}
	for _, f := range c.SrcFuncs("compiler") {
		for _, b := range f.Blocks {
			for _, ins := range b.Instrs {
				st, ok := ins.(*ssa.Store)
				if !ok {
					continue
				}
				fa, ok := st.Addr.(*ssa.FieldAddr)
				if !ok || fieldName(fa.X.Type(), fa.Field) != "top" || !isNamedType(fa.X.Type(), "compiler", "rhsRule") {
					continue
				}
				n++
				key := ordKey(ord, ssaFuncKey(f)+":top")
				type leaf struct {
					v     ssa.Value
					conds []gcond
				}
				var leaves []leaf
				var expand func(v ssa.Value, conds []gcond, d int)
				expand = func(v ssa.Value, conds []gcond, d int) {
					if ph, ok := v.(*ssa.Phi); ok && d < 4 {
						for i, e := range ph.Edges {
							expand(e, edgeConds(ph.Block().Preds[i], ph.Block()), d+1)
						}
						return
					}
					leaves = append(leaves, leaf{v, conds})
				}
				expand(st.Val, governing(b), 0)
				bad := ""
				for _, l := range leaves {
					if k, ok := l.v.(*ssa.Const); ok && k.IsNil() {
						continue
					}
					if ld, ok := l.v.(*ssa.UnOp); ok && ld.Op == token.MUL {
						if fa2, ok := ld.X.(*ssa.FieldAddr); ok && fieldName(fa2.X.Type(), fa2.Field) == "top" {
							continue
						}
					}
					known := false
					for _, g := range flattenConds(l.conds) {
						if call, ok := g.V.(*ssa.Call); ok && g.Pol {
							if cal := call.Call.StaticCallee(); cal != nil && cal.Name() == "isTopLevel" && len(call.Call.Args) == 1 && call.Call.Args[0] == l.v {
								known = true
							}
						}
						if lv, op, rv, ok := cmpNormV(g.V, g.Pol); ok && op == "==" {
							for _, pr := range [][2]ssa.Value{{lv, rv}, {rv, lv}} {
								if k, isK := pr[1].(*ssa.Const); isK && k.IsNil() && vpath(pr[0]) == vpath(l.v)+".top" {
									known = true
								}
							}
						}
					}
					if !known {
						bad = vpath(l.v)
					}
				}
				if bad != "" {
					c.Bad(rule, key, st.Pos(), "rhsRule.top receives %s, which is not known to be a top-level rule here: for a group nested two levels deep maxPos/incPos (r.top.pos) then use the private counter of the enclosing group, and $-references in its actions resolve to the wrong stack slots", bad)
				} else {
					c.Ok(rule, key, st.Pos(), "the value stored into rhsRule.top is nil, a rule tested with isTopLevel(), or the .top of another rule (%d cases)", len(leaves))
				}
			}
		}
	}
	if n < 1 {
		c.Lost(rule, "compiler.rhsRule.top", "no store into rhsRule.top found")
	}
}

// TMPL(ctx-arity): the generated parser threads a context through its helpers with the idiom
// `name({{if G}}ctx, {{end}}...)` against `func name({{if G'}}ctx "context".Context, {{end}}...)`.
// For every option assignment under which a call site is emitted (a) the guard of the argument
// equals the guard of the parameter of the function called (arity), and (b) the argument is
// only emitted when the enclosing function declares ctx (scope). Guards are compared as boolean
// formulas over all assignments of their atoms; nothing is executed.
func ruleTMPLCTXARITY(c *Ctx) {
	const rule = "TMPL(ctx-arity)"
	tf, err := c.templates()
	if err != nil {
		c.Lost(rule, "gen/templates", "%v", err)
		return
	}
	type site struct {
		file   *tmplFile
		node   parse.Node
		def    string
		name   string
		decl   bool
		own    bform // the guard of the `ctx, ` fragment itself
		outer  bform // the guards around it
		encl   *bform
		enclFn string
	}
	var sites []*site
	// a define without a function of its own (resolveDeepLA) is in the scope of its includers
	type inclusion struct {
		decl *bform
		fn   string
	}
	inclCtx := map[string][]inclusion{}
	nameRe := regexp.MustCompile(`([\w*]+)\($`)
	declRe := regexp.MustCompile(`func (\([^)]*\) )?[\w*]*\($`)
	funcRe := regexp.MustCompile(`(?m)^func (\([^)]*\) )?(\w*)`)
	for _, fn := range []string{"go_parser.go.tmpl", "go_stream.go.tmpl", "go_lexer.go.tmpl"} {
		f := tf[fn]
		if f == nil {
			c.Lost(rule, fn, "template not found")
			continue
		}
		emitted := tmplEmitter(f)
		for _, dn := range sortedTreeKeys(f.Trees) {
			var curDecl *bform
			curFn := ""
			var visit func(list *parse.ListNode, gs []tguard)
			visit = func(list *parse.ListNode, gs []tguard) {
				if list == nil {
					return
				}
				for i, nd := range list.Nodes {
					switch x := nd.(type) {
					case *parse.TextNode:
						if ms := funcRe.FindAllStringSubmatch(string(x.Text), -1); len(ms) > 0 {
							curDecl = nil
							curFn = ms[len(ms)-1][2]
						}
					case *parse.IfNode:
						frag := ""
						if x.List != nil && len(x.List.Nodes) == 1 && x.ElseList == nil {
							if tn, ok := x.List.Nodes[0].(*parse.TextNode); ok {
								frag = string(tn.Text)
							}
						}
						if frag == "ctx, " || frag == `ctx "context".Context, ` {
							// the text in front of the fragment; an action ({{$sym.Name}}) reads as "*"
							prev := ""
							for j := i - 1; j >= 0 && j >= i-3; j-- {
								if tn, ok := list.Nodes[j].(*parse.TextNode); ok {
									prev = string(tn.Text) + prev
								} else if _, ok := list.Nodes[j].(*parse.ActionNode); ok {
									prev = "*" + prev
								} else {
									break
								}
							}
							s := &site{file: f, node: x, def: dn, own: parseGuard(x.Pipe.String()), outer: emitted(dn, gs, 0)}
							if m := nameRe.FindStringSubmatch(prev); m != nil {
								s.name = m[1]
							}
							s.decl = strings.HasPrefix(frag, `ctx "`)
							if s.decl {
								if !declRe.MatchString(prev) && s.name != "" {
									s.name = "" // a parameter of something that is not a plain func declaration
								}
								own := s.own
								curDecl = &own
								if s.name != "" {
									curFn = s.name
								}
							} else {
								s.encl, s.enclFn = curDecl, curFn
							}
							sites = append(sites, s)
							continue
						}
						visit(x.List, append(append([]tguard{}, gs...), tguard{x.Pipe.String(), true, "if"}))
						visit(x.ElseList, append(append([]tguard{}, gs...), tguard{x.Pipe.String(), false, "if"}))
					case *parse.TemplateNode:
						inclCtx[x.Name] = append(inclCtx[x.Name], inclusion{curDecl, curFn})
					case *parse.RangeNode:
						visit(x.List, append(append([]tguard{}, gs...), tguard{x.Pipe.String(), true, "range"}))
						visit(x.ElseList, gs)
					case *parse.WithNode:
						visit(x.List, append(append([]tguard{}, gs...), tguard{x.Pipe.String(), true, "with"}))
						visit(x.ElseList, gs)
					}
				}
			}
			visit(f.Trees[dn].Root, nil)
		}
	}
	decls := map[string][]*site{}
	for _, s := range sites {
		if s.decl && s.name != "" {
			decls[s.name] = append(decls[s.name], s)
		}
	}
	// all assignments of the atoms
	atoms := map[string]bool{}
	for _, s := range sites {
		s.own.atoms(atoms)
		s.outer.atoms(atoms)
	}
	names := sortedBoolKeys(atoms)
	if len(names) > 14 {
		c.Lost(rule, "atoms", "%d guard atoms: too many to enumerate", len(names))
		return
	}
	forAll := func(pred func(env map[string]bool) bool) (map[string]bool, bool) {
		for m := 0; m < 1<<len(names); m++ {
			env := map[string]bool{}
			for i, a := range names {
				env[a] = m&(1<<i) != 0
			}
			if !pred(env) {
				return env, false
			}
		}
		return nil, true
	}
	show := func(env map[string]bool, fs ...bform) string {
		used := map[string]bool{}
		for _, f := range fs {
			f.atoms(used)
		}
		var out []string
		for _, a := range sortedBoolKeys(used) {
			out = append(out, fmt.Sprintf("%s=%v", a, env[a]))
		}
		return strings.Join(out, ", ")
	}
	ord := map[string]int{}
	nUse := 0
	for _, s := range sites {
		if s.decl {
			continue
		}
		nUse++
		key := ordKey(ord, fmt.Sprintf("%s#%s:%s(ctx)", s.file.Name, s.def, s.name))
		pos := tmplPos(s.file, s.node)
		if s.name == "" {
			c.addT(rule, key, pos, Undecided, "a `ctx, ` argument whose callee name could not be read from the preceding text")
			continue
		}
		ds := decls[s.name]
		if len(ds) == 0 {
			c.addT(rule, key, pos, Undecided, "no declaration `func %s({{if ...}}ctx \"context\".Context, {{end}}` found for this call", s.name)
			continue
		}
		// (a) arity
		var cex map[string]bool
		var cexDecl *site
		okA := false
		for _, d := range ds {
			env, ok := forAll(func(env map[string]bool) bool {
				if !s.outer.eval(env) {
					return true
				}
				return s.own.eval(env) == d.own.eval(env)
			})
			if ok {
				okA = true
				break
			}
			cex, cexDecl = env, d
		}
		if !okA {
			c.addT(rule, key, pos, Violation, "the call passes ctx under `%s` but %s declares the parameter under `%s` (%s): with %s the generated call has the wrong number of arguments", s.node.(*parse.IfNode).Pipe.String(), s.name, cexDecl.node.(*parse.IfNode).Pipe.String(), tmplPos(cexDecl.file, cexDecl.node), show(cex, s.own, cexDecl.own))
			continue
		}
		// (b) scope
		encls := []inclusion{{s.encl, s.enclFn}}
		if s.encl == nil && s.enclFn == "" {
			encls = inclCtx[s.def]
			if len(encls) == 0 {
				c.addT(rule, key, pos, Undecided, "define %q has no function of its own and is not included anywhere: the scope of ctx is unknown", s.def)
				continue
			}
		}
		okB := true
		var fns []string
		for _, e := range encls {
			fns = append(fns, e.fn)
			if e.decl == nil {
				c.addT(rule, key, pos, Violation, "ctx is passed inside %s, which declares no ctx parameter", e.fn)
				okB = false
				break
			}
			env, ok := forAll(func(env map[string]bool) bool {
				if !s.outer.eval(env) || !s.own.eval(env) {
					return true
				}
				return e.decl.eval(env)
			})
			if !ok {
				c.addT(rule, key, pos, Violation, "ctx is passed under `%s`, but the enclosing %s declares ctx only under a stronger condition: with %s the generated code refers to an undefined ctx", s.node.(*parse.IfNode).Pipe.String(), e.fn, show(env, s.own, *e.decl))
				okB = false
				break
			}
		}
		if !okB {
			continue
		}
		c.addT(rule, key, pos, OK, "argument guard equals the parameter guard of %s for every option assignment, and implies the ctx parameter of the enclosing %s", s.name, strings.Join(fns, "/"))
	}
	if nUse < 38 {
		c.addT(rule, "count:", "", CountDropped, "only %d guarded ctx arguments found (40 confirmed by hand)", nUse)
	}
}

// DTX(alias-elision): ExtractGoImports prints `alias "path"` and elides the alias when it is
// the default one. Eliding is only sound when the alias is the last segment of the path; in every
// other case the alias must be written (writing it is always harmless). The condition that
// governs the write of imp.alias is read from the SSA and evaluated - by a small evaluator of
// string predicates, not by running the function - on a table of (path, alias) pairs whose alias
// is not the last path segment; it must be true for each of them.
func ruleALIASELISION(c *Ctx) {
	const rule = "DTX(alias-elision)"
	key := "gen.ExtractGoImports:alias"
	f := c.SSAFunc("gen", "ExtractGoImports")
	if f == nil {
		c.Lost(rule, key, "function not found")
		return
	}
	isField := func(v ssa.Value, name string) bool {
		ld, ok := v.(*ssa.UnOp)
		if !ok || ld.Op != token.MUL {
			return false
		}
		fa, ok := ld.X.(*ssa.FieldAddr)
		return ok && fieldName(fa.X.Type(), fa.Field) == name
	}
	var write *ssa.Call
	for _, b := range f.Blocks {
		for _, ins := range b.Instrs {
			call, ok := ins.(*ssa.Call)
			if !ok {
				continue
			}
			g := call.Call.StaticCallee()
			if g == nil || g.Name() != "WriteString" || len(call.Call.Args) != 2 || !isField(call.Call.Args[1], "alias") {
				continue
			}
			write = call
		}
	}
	if write == nil {
		c.Lost(rule, key, "no WriteString(imp.alias) found")
		return
	}
	loops := naturalLoops(f)
	lp := innermostLoop(loops, write.Block())
	var conds []gcond
	for _, g := range flattenConds(governing(write.Block())) {
		if lp != nil && g.If != nil && lp.Body[g.If.Block()] && g.If.Block() != lp.Header {
			conds = append(conds, g)
		}
	}
	type sv struct {
		s    string
		i    int64
		b    bool
		kind byte // s i b
	}
	var eval func(v ssa.Value, env map[string]string, d int) (sv, bool)
	eval = func(v ssa.Value, env map[string]string, d int) (sv, bool) {
		if d > 12 {
			return sv{}, false
		}
		switch x := v.(type) {
		case *ssa.Const:
			if x.Value == nil {
				return sv{}, false
			}
			switch x.Value.Kind() {
			case constant.String:
				return sv{s: constant.StringVal(x.Value), kind: 's'}, true
			case constant.Int:
				return sv{i: x.Int64(), kind: 'i'}, true
			case constant.Bool:
				return sv{b: constant.BoolVal(x.Value), kind: 'b'}, true
			}
		case *ssa.UnOp:
			if x.Op == token.MUL {
				for _, n := range []string{"alias", "path"} {
					if isField(x, n) {
						return sv{s: env[n], kind: 's'}, true
					}
				}
				return sv{}, false
			}
			if x.Op == token.NOT {
				a, ok := eval(x.X, env, d+1)
				return sv{b: !a.b, kind: 'b'}, ok && a.kind == 'b'
			}
		case *ssa.Convert:
			return eval(x.X, env, d+1)
		case *ssa.BinOp:
			a, ok1 := eval(x.X, env, d+1)
			b, ok2 := eval(x.Y, env, d+1)
			if !ok1 || !ok2 || a.kind != b.kind {
				return sv{}, false
			}
			if a.kind == 's' {
				switch x.Op {
				case token.EQL:
					return sv{b: a.s == b.s, kind: 'b'}, true
				case token.NEQ:
					return sv{b: a.s != b.s, kind: 'b'}, true
				case token.ADD:
					return sv{s: a.s + b.s, kind: 's'}, true
				}
			}
			if a.kind == 'i' {
				switch x.Op {
				case token.EQL:
					return sv{b: a.i == b.i, kind: 'b'}, true
				case token.NEQ:
					return sv{b: a.i != b.i, kind: 'b'}, true
				case token.LSS:
					return sv{b: a.i < b.i, kind: 'b'}, true
				case token.LEQ:
					return sv{b: a.i <= b.i, kind: 'b'}, true
				case token.GTR:
					return sv{b: a.i > b.i, kind: 'b'}, true
				case token.GEQ:
					return sv{b: a.i >= b.i, kind: 'b'}, true
				case token.ADD:
					return sv{i: a.i + b.i, kind: 'i'}, true
				case token.SUB:
					return sv{i: a.i - b.i, kind: 'i'}, true
				}
			}
		case *ssa.Slice:
			s, ok := eval(x.X, env, d+1)
			if !ok || s.kind != 's' {
				return sv{}, false
			}
			lo, hi := int64(0), int64(len(s.s))
			if x.Low != nil {
				l, ok := eval(x.Low, env, d+1)
				if !ok {
					return sv{}, false
				}
				lo = l.i
			}
			if x.High != nil {
				h, ok := eval(x.High, env, d+1)
				if !ok {
					return sv{}, false
				}
				hi = h.i
			}
			if lo < 0 || hi > int64(len(s.s)) || lo > hi {
				return sv{}, false
			}
			return sv{s: s.s[lo:hi], kind: 's'}, true
		case *ssa.Call:
			if bi, ok := x.Call.Value.(*ssa.Builtin); ok && bi.Name() == "len" {
				a, ok := eval(x.Call.Args[0], env, d+1)
				return sv{i: int64(len(a.s)), kind: 'i'}, ok && a.kind == 's'
			}
			g := x.Call.StaticCallee()
			if g == nil || g.Pkg == nil {
				return sv{}, false
			}
			var as []sv
			for _, a := range x.Call.Args {
				r, ok := eval(a, env, d+1)
				if !ok {
					return sv{}, false
				}
				as = append(as, r)
			}
			switch g.Pkg.Pkg.Path() + "." + g.Name() {
			case "strings.HasSuffix":
				return sv{b: strings.HasSuffix(as[0].s, as[1].s), kind: 'b'}, true
			case "strings.HasPrefix":
				return sv{b: strings.HasPrefix(as[0].s, as[1].s), kind: 'b'}, true
			case "strings.TrimSuffix":
				return sv{s: strings.TrimSuffix(as[0].s, as[1].s), kind: 's'}, true
			case "strings.TrimPrefix":
				return sv{s: strings.TrimPrefix(as[0].s, as[1].s), kind: 's'}, true
			case "strings.Contains":
				return sv{b: strings.Contains(as[0].s, as[1].s), kind: 'b'}, true
			case "strings.LastIndex":
				return sv{i: int64(strings.LastIndex(as[0].s, as[1].s)), kind: 'i'}, true
			case "strings.LastIndexByte":
				return sv{i: int64(strings.LastIndexByte(as[0].s, byte(as[1].i))), kind: 'i'}, true
			case "path.Base":
				s := as[0].s
				if i := strings.LastIndex(s, "/"); i >= 0 {
					s = s[i+1:]
				}
				return sv{s: s, kind: 's'}, true
			}
		}
		return sv{}, false
	}
	// (path, alias) pairs in which the alias is NOT the last path segment
	table := [][2]string{
		{"encoding/json", "enc"},
		{"path/filepath", "path"},
		{"example.com/xpath", "path"},
		{"fmt", "f"},
		{"a/b/context", "text"},
		{"strings", "s"},
		{"go/ast", "go"},
	}
	if len(conds) == 0 {
		c.Ok(rule, key, write.Pos(), "the alias is always written")
		return
	}
	for _, row := range table {
		env := map[string]string{"path": row[0], "alias": row[1]}
		written := true
		for _, g := range conds {
			r, ok := eval(g.V, env, 0)
			if !ok || r.kind != 'b' {
				c.Undec(rule, key, g.V.Pos(), "the condition %s that governs the write of the import alias uses an operation the string evaluator does not know", vpath(g.V))
				return
			}
			if r.b != g.Pol {
				written = false
			}
		}
		if !written {
			c.Bad(rule, key, write.Pos(), "for the import \"%s as %s\" the alias is elided although it is not the last segment of the path: the generated file imports %q under its default name while the code refers to %s (imported and not used / undefined: %s)", row[0], row[1], row[0], row[1], row[1])
			return
		}
	}
	c.Ok(rule, key, write.Pos(), "the alias is written for each of %d (path, alias) pairs whose alias is not the last path segment (%d governing conditions evaluated)", len(table), len(conds))
}

// AGREE(min-update): `if A < B { B = V }` states the belief that A is the new bound of B. When V
// is read from memory like A but is a different location, comparison and assignment disagree
// (Tarjan's low-link update in syntax/types.go compares lowLink[w] and must store lowLink[w]; a
// comparison against index[w] accepts updates the store then does not perform, or the reverse).
func ruleMINUPDATE(c *Ctx, pkgs ...string) {
	const rule = "AGREE(min-update)"
	n := 0
	ord := map[string]int{}
	loadPath := func(v ssa.Value) (string, bool) {
		ld, ok := v.(*ssa.UnOp)
		if !ok || ld.Op != token.MUL {
			return "", false
		}
		return vpath(ld.X), true
	}
	for _, rel := range pkgs {
		for _, f := range c.SrcFuncs(rel) {
			for _, b := range f.Blocks {
				if len(b.Instrs) == 0 {
					continue
				}
				ifi, ok := b.Instrs[len(b.Instrs)-1].(*ssa.If)
				if !ok {
					continue
				}
				for pol, succ := range map[bool]*ssa.BasicBlock{true: b.Succs[0], false: b.Succs[1]} {
					if len(succ.Preds) != 1 {
						continue
					}
					lv, op, rv, ok := cmpNormV(ifi.Cond, pol)
					if !ok || (op != "<" && op != "<=") {
						continue
					}
					lp, lok := loadPath(lv)
					rp, rok := loadPath(rv)
					if !lok || !rok {
						continue
					}
					for _, ins := range succ.Instrs {
						st, ok := ins.(*ssa.Store)
						if !ok {
							continue
						}
						ap := vpath(st.Addr)
						var other ssa.Value
						var otherPath string
						switch ap {
						case lp:
							other, otherPath = rv, rp
						case rp:
							other, otherPath = lv, lp
						default:
							continue
						}
						vp, isLoad := loadPath(st.Val)
						if !isLoad {
							continue // arithmetic on the bound, not a min/max update
						}
						n++
						key := ordKey(ord, ssaFuncKey(f)+":"+normalizePhi(ap))
						_ = other
						if vp == otherPath {
							c.Ok(rule, key, st.Pos(), "the bound %s is replaced by the value it was compared with", normalizePhi(ap))
						} else {
							c.Bad(rule, key, st.Pos(), "%s is compared with %s but then receives %s: the comparison decides about one quantity and the assignment stores another", normalizePhi(ap), normalizePhi(otherPath), normalizePhi(vp))
						}
					}
				}
			}
		}
	}
	if n < 1 {
		c.add(rule, "count:", token.NoPos, CountDropped, true, "no compare-and-replace update found (typeCollector.nontermPhrase low-link confirmed by hand)")
	}
}

// RESIDUE(with-quotient): the selector returned by OneOf tests membership in a bit array; the bit
// index is `t % bits`. A residue identifies the node type only together with its word index
// (`t / bits`) or a bound on t; a returned closure whose answer depends on t through the residue
// alone answers true for every type that is congruent to a member (type 32+k looks like k), and
// typed AST accessors then pick up foreign siblings.
func ruleRESIDUE(c *Ctx) {
	const rule = "RESIDUE(with-quotient)"
	n := 0
	for _, rel := range []string{"parsers/js/selector", "parsers/tm/selector", "parsers/test/selector"} {
		f := c.SSAFunc(rel, "OneOf")
		if f == nil {
			c.Lost(rule, rel+".OneOf", "function not found")
			continue
		}
		for i, cl := range f.AnonFuncs {
			if len(cl.Params) != 1 {
				continue
			}
			t := cl.Params[0]
			fromT := func(v ssa.Value) bool {
				for d := 0; d < 4; d++ {
					v = stripConv(v)
					if v == ssa.Value(t) {
						return true
					}
					if cv, ok := v.(*ssa.ChangeType); ok {
						v = cv.X
						continue
					}
					break
				}
				return false
			}
			var rem *ssa.BinOp
			bounded := false
			for _, b := range cl.Blocks {
				for _, ins := range b.Instrs {
					bo, ok := ins.(*ssa.BinOp)
					if !ok {
						continue
					}
					switch bo.Op {
					case token.REM, token.AND:
						if fromT(bo.X) && bo.Op == token.REM {
							rem = bo
						}
						if bo.Op == token.AND && fromT(bo.X) {
							if _, isK := bo.Y.(*ssa.Const); isK {
								rem = bo
							}
						}
					case token.QUO, token.SHR:
						if fromT(bo.X) {
							bounded = true
						}
					case token.LSS, token.LEQ, token.GTR, token.GEQ:
						if fromT(bo.X) || fromT(bo.Y) {
							bounded = true
						}
					}
				}
			}
			if rem == nil {
				continue
			}
			n++
			key := fmt.Sprintf("%s.OneOf$%d", rel, i+1)
			if bounded {
				c.Ok(rule, key, rem.Pos(), "the bit index t %% bits is used together with the word index or a bound on t")
			} else {
				c.Bad(rule, key, rem.Pos(), "the selector depends on the node type only through t %% bits: a type that is congruent to a member modulo the word size is accepted as a member (with more than 32 node types a category accessor returns, and asserts, a foreign sibling)")
			}
		}
	}
	if n < 3 {
		c.add(rule, "count:", token.NoPos, CountDropped, true, "only %d selector closures with a bit index found (one per generated selector package: js, tm, test)", n)
	}
}

func sortedBoolKeys(m map[string]bool) []string {
	var out []string
	for k := range m {
		out = append(out, k)
	}
	sort.Strings(out)
	return out
}
var _ types.Type
