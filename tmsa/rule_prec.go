package main

import (
	"fmt"
	"go/types"
	"os"
	"strings"

	"golang.org/x/tools/go/ssa"
)

// DTX(resolvePrec), DTX(ruleAction), GUARD(lastterminal): the compile-time precedence decision
// is a finite table; it is extracted by abstract evaluation and compared with the documented
// one (C04). GUARD(conflict-accounting) and DTX(reportConflicts) decide the last clause of C03.

func (c *Ctx) resolutionConsts() (map[string]int64, bool) {
	out := map[string]int64{}
	for _, n := range []string{"none", "doShift", "doReduce", "doError", "conflict"} {
		v, ok := c.enumConst("lalr", n)
		if !ok {
			return nil, false
		}
		out[n] = v
	}
	for _, n := range []string{"Left", "Right", "NonAssoc"} {
		v, ok := c.enumConst("lalr", n)
		if !ok {
			return nil, false
		}
		out[n] = v
	}
	return out, true
}

func ruleRESOLVEPREC(c *Ctx) {
	const rule = "DTX(resolvePrec)"
	f := c.SSAFunc("lalr", "(*compiler).resolvePrec")
	k, ok := c.resolutionConsts()
	if f == nil || !ok || len(f.Params) != 3 {
		c.Lost(rule, "lalr.compiler.resolvePrec", "function or resolution constants not found")
		return
	}
	name := map[int64]string{k["doShift"]: "shift", k["doReduce"]: "reduce", k["doError"]: "error", k["conflict"]: "conflict", k["none"]: "none"}
	type scen struct {
		ok1, ok2 bool
		cmp      int // rank(reduce) - rank(shift)
		assoc    string
	}
	expect := func(s scen) string {
		switch {
		case !s.ok1 || !s.ok2:
			return "conflict"
		case s.cmp > 0:
			return "reduce"
		case s.cmp < 0:
			return "shift"
		}
		switch s.assoc {
		case "Left":
			return "reduce"
		case "Right":
			return "shift"
		case "NonAssoc":
			return "error"
		}
		return "conflict"
	}
	eval := func(s scen, rulePrec, term AV) []aiOutcome {
		cfg := &aiConfig{
			Load: func(path string, t types.Type) (AV, bool) {
				switch {
				case strings.HasSuffix(path, ".Precedence") && strings.Contains(path, ".Rules["):
					return rulePrec, true
				case strings.HasSuffix(path, ".Associativity"):
					if v, ok := k[s.assoc]; ok {
						return avInt{v, v}, true
					}
					return avInt{77, 77}, true
				case strings.HasSuffix(path, ".RHS"):
					return avSym{Name: "rhs", Len: avInt{0, 0}}, true
				}
				return nil, false
			},
			Lookup: func(path string, key AV, commaOk bool, t types.Type) (AV, bool) {
				if !strings.HasSuffix(path, "precGroup") {
					return nil, false
				}
				if key == rulePrec {
					return avTuple{E: []AV{avOrd{"reduce", s.cmp}, avBool{s.ok1}}}, true
				}
				return avTuple{E: []AV{avOrd{"shift", 0}, avBool{s.ok2}}}, true
			},
		}
		return aiEval(f, []AV{avSym{Name: "c"}, avSym{Name: "rule"}, term}, cfg)
	}
	for _, ok1 := range []bool{true, false} {
		for _, ok2 := range []bool{true, false} {
			for _, cmp := range []int{-1, 0, 1} {
				for _, assoc := range []string{"Left", "Right", "NonAssoc", "other"} {
					if cmp != 0 && assoc != "Left" {
						continue
					}
					s := scen{ok1, ok2, cmp, assoc}
					key := fmt.Sprintf("lalr.compiler.resolvePrec[ok1=%v,ok2=%v,cmp=%+d,assoc=%s]", ok1, ok2, cmp, assoc)
					outs := eval(s, avInt{5, 5}, avInt{7, 7})
					got := map[string]bool{}
					for _, o := range outs {
						if o.Kind != "return" || len(o.Ret) != 1 {
							got[o.String()] = true
							continue
						}
						if iv, ok := o.Ret[0].(avInt); ok && iv.Lo == iv.Hi {
							got[name[iv.Lo]] = true
						} else {
							got[o.String()] = true
						}
					}
					want := expect(s)
					if len(got) == 1 && got[want] {
						c.Ok(rule, key, f.Pos(), "decides %s", want)
					} else {
						var g []string
						for x := range got {
							g = append(g, x)
						}
						c.Bad(rule, key, f.Pos(), "rule precedence vs lookahead precedence: documented decision is %s, the code decides %v", want, g)
					}
				}
			}
		}
	}
	// no precedence on either side -> conflict
	for _, sc := range []struct {
		name       string
		prec, term AV
	}{{"rule has no precedence and no terminal", avInt{0, 0}, avInt{7, 7}}, {"lookahead is the end-of-input terminal", avInt{5, 5}, avInt{0, 0}}} {
		outs := eval(scen{true, true, 1, "Left"}, sc.prec, sc.term)
		key := "lalr.compiler.resolvePrec[" + sc.name + "]"
		ok := len(outs) > 0
		for _, o := range outs {
			if o.Kind != "return" || len(o.Ret) != 1 || o.Ret[0] != AV(avInt{k["conflict"], k["conflict"]}) {
				ok = false
			}
		}
		if ok {
			c.Ok(rule, key, f.Pos(), "undecidable by precedence: conflict")
		} else {
			c.Bad(rule, key, f.Pos(), "must be reported as a conflict, got %v", outcomeSet(outs))
		}
	}
	c.MinCount(rule, "", 20)

	// GUARD(lastterminal): the fallback scans the RHS backwards and takes the first symbol that is a terminal
	const rule2 = "GUARD(lastterminal)"
	loops := naturalLoops(f)
	found := false
	for _, lp := range loops {
		_, dir, start := lp.induction()
		if dir == 0 {
			continue
		}
		found = true
		key := "lalr.compiler.resolvePrec:fallback-loop"
		var probs []string
		if dir != -1 || !strings.HasPrefix(vpath(start), "(len(") || !strings.HasSuffix(vpath(start), " - 1)") {
			probs = append(probs, fmt.Sprintf("the scan must run backwards from len(rhs)-1 (direction %+d from %s)", dir, vpath(start)))
		}
		// the block that leaves the loop with the found symbol: governed by 0 < sym and sym < Terminals
		okLo, okHi, okBreak := false, false, false
		for b := range lp.Body {
			for _, s := range b.Succs {
				if lp.Body[s] {
					continue
				}
				// exit edge from b
				cs := edgeConds(b, s)
				lo, hi := false, false
				for _, g := range flattenConds(cs) {
					l, op, r, isCmp := cmpNorm(g.V, g.Pol)
					if !isCmp {
						continue
					}
					if op == "<" && l == "0" && strings.Contains(r, "[") {
						lo = true
					}
					if op == "<" && strings.Contains(l, "[") && strings.Contains(r, "Terminals") {
						hi = true
					}
				}
				if lo && hi {
					okLo, okHi, okBreak = true, true, true
				} else if lo || hi {
					okLo, okHi = okLo || lo, okHi || hi
					okBreak = true
				}
			}
		}
		if !okBreak {
			probs = append(probs, "the scan does not stop at the first terminal found")
		}
		if !okLo {
			probs = append(probs, "the symbol taken as rule precedence is not tested with sym > 0 (negative symbols are state markers, 0 is EOI)")
		}
		if !okHi {
			probs = append(probs, "the symbol taken as rule precedence is not tested with sym < Terminals (it could be a nonterminal)")
		}
		if len(probs) > 0 {
			c.Bad(rule2, key, lp.Header.Instrs[0].Pos(), "%s", strings.Join(probs, "; "))
		} else {
			c.Ok(rule2, key, lp.Header.Instrs[0].Pos(), "backward scan from len(rhs)-1, stops at the first sym with 0 < sym < Terminals")
		}
	}
	if !found {
		c.Bad(rule2, "lalr.compiler.resolvePrec:fallback-loop", f.Pos(), "no fallback to the rule's last terminal when the rule has no %%prec")
	}
}

func ruleRULEACTION(c *Ctx) {
	const rule = "DTX(ruleAction)"
	f := c.SSAFunc("lalr", "(*compiler).ruleAction")
	k, ok := c.resolutionConsts()
	if f == nil || !ok || len(f.Params) != 5 {
		c.Lost(rule, "lalr.compiler.ruleAction", "function not found")
		return
	}
	type scen struct {
		hasConflict bool
		action      int64 // -1 shift, -3 nonassoc error, 4 = another rule
		res         string
	}
	run := func(s scen) []aiOutcome {
		cfg := &aiConfig{
			RecordStores: false,
			Call: func(callee string, args []AV, site ssa.CallInstruction) (AV, bool, bool) {
				switch callee {
				case "lalr.conflictBuilder.hasConflict":
					return avBool{s.hasConflict}, true, false
				case "lalr.compiler.resolvePrec":
					v := k[s.res]
					return avInt{v, v}, true, false
				case "lalr.conflictBuilder.addRule":
					return avTuple{}, true, true
				case "lalr.lookaheadPlanner.addRule":
					return avSym{Name: "planner.addRule()"}, true, true
				}
				return nil, false, false
			},
		}
		return aiEval(f, []AV{avSym{Name: "c"}, avInt{s.action, s.action}, avSym{Name: "term"}, avInt{9, 9}, avSym{Name: "b"}}, cfg)
	}
	addRuleSig := func(e aiEvent) string {
		if e.Callee != "lalr.conflictBuilder.addRule" || len(e.Args) != 5 {
			return e.Callee
		}
		return fmt.Sprintf("addRule(res=%s,rule=%s,canShift=%s)", avStr2(e.Args[2]), avStr2(e.Args[3]), avStr2(e.Args[4]))
	}
	check := func(key string, s scen, wantRet string, wantEvents []string) {
		outs := run(s)
		var probs []string
		if len(outs) == 0 {
			probs = append(probs, "no path")
		}
		for _, o := range outs {
			if o.Kind != "return" || len(o.Ret) != 1 {
				probs = append(probs, "path: "+o.String())
				continue
			}
			if avStr2(o.Ret[0]) != wantRet {
				probs = append(probs, fmt.Sprintf("returns %s, documented: %s", avStr2(o.Ret[0]), wantRet))
			}
			var ev []string
			for _, e := range o.Events {
				ev = append(ev, addRuleSig(e))
			}
			if strings.Join(ev, ";") != strings.Join(wantEvents, ";") {
				probs = append(probs, fmt.Sprintf("records %v, expected %v", ev, wantEvents))
			}
		}
		if len(probs) > 0 {
			c.Bad(rule, key, f.Pos(), "%s", strings.Join(uniqStrings(probs), " | "))
		} else {
			c.Ok(rule, key, f.Pos(), "returns %s and records %v", wantRet, wantEvents)
		}
	}
	cf := fmt.Sprint(k["conflict"])
	// already an unresolved conflict / nonassoc error on this terminal: keep the action, add the rule
	check("lalr.compiler.ruleAction[hasConflict]", scen{true, -1, "doShift"}, "-1", []string{"addRule(res=" + cf + ",rule=9,canShift=true)"})
	check("lalr.compiler.ruleAction[prior=nonassoc-error]", scen{false, -3, "doShift"}, "-3", []string{"addRule(res=" + cf + ",rule=9,canShift=true)"})
	for _, r := range []struct{ res, ret string }{{"doReduce", "9"}, {"doError", "-3"}, {"doShift", "-1"}, {"conflict", "-1"}} {
		check("lalr.compiler.ruleAction[prior=shift,res="+r.res+"]", scen{false, -1, r.res}, r.ret,
			[]string{fmt.Sprintf("addRule(res=%d,rule=9,canShift=true)", k[r.res])})
	}
	// reduce/reduce with runtime lookaheads: the planner is asked with the *existing* action (a
	// grammar rule, or the resolution rule that already groups earlier alternatives) and the new rule
	const ruleBase = 100
	for _, sc := range []struct {
		name         string
		action       int64
		idxNew       int64 // planner.index[rule]
		idxOther     int64 // planner.index[action] (grammar rules only)
		wantPlanner  bool
		wantFirstArg string
	}{
		{"prior=lookahead-rule,new=lookahead-rule", 4, 0, 1, true, "4"},
		{"prior=resolution-rule,new=lookahead-rule", 150, 0, -1, true, "150"},
		{"prior=lookahead-rule,new=plain-rule", 4, -1, 1, false, ""},
		{"prior=plain-rule,new=lookahead-rule", 4, 0, -1, false, ""},
		{"prior=resolution-rule,new=plain-rule", 150, -1, -1, false, ""},
	} {
		sc := sc
		cfg := &aiConfig{
			Load: func(path string, t types.Type) (AV, bool) {
				switch path {
				case "c.planner.ruleBase":
					return avInt{ruleBase, ruleBase}, true
				case "c.planner.index[9]":
					return avInt{sc.idxNew, sc.idxNew}, true
				case "c.planner.index[4]":
					return avInt{sc.idxOther, sc.idxOther}, true
				}
				if os.Getenv("DBG_RA") != "" {
					fmt.Fprintln(os.Stderr, "load", path)
				}
				return nil, false
			},
			Call: func(callee string, args []AV, site ssa.CallInstruction) (AV, bool, bool) {
				switch callee {
				case "lalr.conflictBuilder.hasConflict":
					return avBool{false}, true, false
				case "lalr.conflictBuilder.addRule":
					return avTuple{}, true, true
				case "lalr.lookaheadPlanner.addRule":
					return avSym{Name: "planner.addRule()"}, true, true
				}
				return nil, false, false
			},
		}
		outs := aiEval(f, []AV{avSym{Name: "c"}, avInt{sc.action, sc.action}, avSym{Name: "term"}, avInt{9, 9}, avSym{Name: "b"}}, cfg)
		key := "lalr.compiler.ruleAction[" + sc.name + "]"
		var probs []string
		if len(outs) != 1 {
			probs = append(probs, fmt.Sprintf("%d paths", len(outs)))
		}
		for _, o := range outs {
			if o.Kind != "return" || len(o.Ret) != 1 {
				probs = append(probs, "path: "+o.String())
				continue
			}
			var planner []aiEvent
			nReport := 0
			for _, e := range o.Events {
				switch e.Callee {
				case "lalr.lookaheadPlanner.addRule":
					planner = append(planner, e)
				case "lalr.conflictBuilder.addRule":
					nReport++
				}
			}
			if sc.wantPlanner {
				if len(planner) != 1 || avStr2(o.Ret[0]) != "planner.addRule()" {
					probs = append(probs, "the planner must be asked once and its answer returned; got "+o.String())
				} else if a := planner[0].Args; len(a) != 3 || avStr2(a[1]) != sc.wantFirstArg || avStr2(a[2]) != "9" {
					probs = append(probs, fmt.Sprintf("planner.addRule called with %v, expected (%s, 9): a third alternative must extend the existing resolution rule, not start a new pair", planner[0], sc.wantFirstArg))
				}
			} else {
				if len(planner) != 0 || nReport != 2 || avStr2(o.Ret[0]) != fmt.Sprint(sc.action) {
					probs = append(probs, "both rules must be reported as a reduce/reduce conflict and the earlier action kept; got "+o.String())
				}
			}
		}
		if len(probs) > 0 {
			c.Bad(rule, key, f.Pos(), "%s", strings.Join(uniqStrings(probs), " | "))
		} else if sc.wantPlanner {
			c.Ok(rule, key, f.Pos(), "planner.addRule(%s, 9) decides", sc.wantFirstArg)
		} else {
			c.Ok(rule, key, f.Pos(), "reported as an unresolved reduce/reduce conflict, earlier action kept")
		}
	}
	// reduce/reduce: either a lookahead resolution rule, or the earlier rule is kept and both are reported
	outs := run(scen{false, 4, "doShift"})
	okRR := len(outs) > 0
	var seen []string
	for _, o := range outs {
		seen = append(seen, o.String())
		if o.Kind != "return" || len(o.Ret) != 1 {
			okRR = false
			continue
		}
		r := avStr2(o.Ret[0])
		var ev []string
		for _, e := range o.Events {
			ev = append(ev, addRuleSig(e))
		}
		switch {
		case r == "planner.addRule()":
		case r == "4" && len(ev) == 2 && strings.HasPrefix(ev[0], "addRule(res="+cf+",rule=9,canShift=false") && strings.HasPrefix(ev[1], "addRule(res="+cf) && strings.HasSuffix(ev[1], "canShift=false)"):
		default:
			okRR = false
		}
	}
	if okRR {
		c.Ok(rule, "lalr.compiler.ruleAction[prior=reduce]", f.Pos(), "unresolved reduce/reduce keeps the earlier rule and reports both rules as a conflict without shift (%d paths)", len(outs))
	} else {
		c.Bad(rule, "lalr.compiler.ruleAction[prior=reduce]", f.Pos(), "an unresolved reduce/reduce choice must keep the earlier rule (return the previous action) and report both rules with canShift=false; paths: %v", uniqStrings(seen))
	}
}

// GUARD(conflict-accounting): sr/rr counters in populateTables.
func ruleCONFLICTCOUNT(c *Ctx) {
	const rule = "GUARD(conflict-accounting)"
	f := c.SSAFunc("lalr", "(*compiler).populateTables")
	if f == nil {
		c.Lost(rule, "lalr.compiler.populateTables", "function not found")
		return
	}
	seen := map[string]bool{}
	for _, b := range f.Blocks {
		for _, ins := range b.Instrs {
			st, ok := ins.(*ssa.Store)
			if !ok {
				continue
			}
			p := vpath(st.Addr)
			if p != "c.sr" && p != "c.rr" {
				continue
			}
			seen[p] = true
			cs := governing(b)
			unresolved := hasCond(cs, func(path string, pol bool) bool { return !pol && strings.HasSuffix(path, ".Resolved") })
			canShift := hasCond(cs, func(path string, pol bool) bool { return pol && strings.HasSuffix(path, ".CanShift") })
			noShift := hasCond(cs, func(path string, pol bool) bool { return !pol && strings.HasSuffix(path, ".CanShift") })
			val := normalizePhi(vpath(st.Val))
			adds := strings.Contains(val, p+" + len(") && strings.Contains(val, ".Next)")
			key := "lalr.compiler.populateTables:" + p
			switch {
			case !adds:
				c.Bad(rule, key, st.Pos(), "%s must grow by the number of lookahead terminals of the conflict (len(conflict.Next)); stored %s", p, val)
			case !unresolved:
				c.Bad(rule, key, st.Pos(), "%s is incremented for conflicts that precedence resolved (no !Resolved guard)", p)
			case p == "c.sr" && !canShift:
				c.Bad(rule, key, st.Pos(), "shift/reduce counter incremented without CanShift")
			case p == "c.rr" && !noShift:
				c.Bad(rule, key, st.Pos(), "reduce/reduce counter incremented without !CanShift")
			default:
				c.Ok(rule, key, st.Pos(), "%s += len(conflict.Next) under !Resolved ∧ CanShift=%v", p, p == "c.sr")
			}
		}
	}
	for _, p := range []string{"c.sr", "c.rr"} {
		if !seen[p] {
			c.Bad(rule, "lalr.compiler.populateTables:"+p, f.Pos(), "%s is never updated", p)
		}
	}
}

// DTX(reportConflicts): the summary error is raised iff the counts differ from %expect.
func ruleREPORTCONFLICTS(c *Ctx) {
	const rule = "DTX(reportConflicts)"
	f := c.SSAFunc("lalr", "(*compiler).reportConflicts")
	if f == nil || len(f.Params) != 3 {
		c.Lost(rule, "lalr.compiler.reportConflicts", "function not found")
		return
	}
	// sr and rr each range over {the expected value, another value, the *other* counter's
	// expected value} so that a comparison against the wrong %expect field is visible.
	const eSR, eRR = 10, 20
	for _, sr := range []int{eSR, 11, eRR} {
		for _, rr := range []int{eRR, 21, eSR} {
			for _, incl := range []bool{true, false} {
				for _, verbose := range []bool{true, false} {
					sr, rr := sr, rr
					cfg := &aiConfig{
						Load: func(path string, t types.Type) (AV, bool) {
							switch path {
							case "c.sr":
								return avOrd{"sr", sr}, true
							case "c.grammar.ExpectSR":
								return avOrd{"expectSR", eSR}, true
							case "c.rr":
								return avOrd{"rr", rr}, true
							case "c.grammar.ExpectRR":
								return avOrd{"expectRR", eRR}, true
							case "len(c.conflicts)":
								return avInt{0, 0}, true
							case "c.useTransitions":
								return avBool{true}, true
							}
							return nil, false
						},
						Call: func(callee string, args []AV, site ssa.CallInstruction) (AV, bool, bool) {
							if callee == "status.Status.Errorf" {
								return avTuple{}, true, true
							}
							return nil, false, false
						},
					}
					outs := aiEval(f, []AV{avSym{Name: "c"}, avBool{verbose}, avBool{incl}}, cfg)
					key := fmt.Sprintf("lalr.compiler.reportConflicts[sr=%s,rr=%s,includeResolved=%v,verbose=%v]", cntName(sr, eSR, eRR), cntName(rr, eRR, eSR), incl, verbose)
					want := !(sr == eSR && rr == eRR)
					var probs []string
					if len(outs) == 0 {
						probs = append(probs, "no path")
					}
					for _, o := range outs {
						if o.Kind != "return" {
							probs = append(probs, "path: "+o.String())
							continue
						}
						got := false
						for _, e := range o.Events {
							if len(e.Args) >= 2 && strings.Contains(avStr2(e.Args[1]), "grammar.Origin") {
								got = true
							}
						}
						if got != want {
							probs = append(probs, fmt.Sprintf("conflict summary error raised=%v, expected %v", got, want))
						}
					}
					if len(probs) > 0 {
						c.Bad(rule, key, f.Pos(), "%s", strings.Join(uniqStrings(probs), " | "))
					} else {
						c.Ok(rule, key, f.Pos(), "summary error at the grammar origin raised=%v on all %d paths", want, len(outs))
					}
				}
			}
		}
	}
	// the counts are exported
	exp := map[string]bool{}
	for _, b := range f.Blocks {
		for _, ins := range b.Instrs {
			if st, ok := ins.(*ssa.Store); ok {
				if p := vpath(st.Addr); (p == "c.out.SR" && vpath(st.Val) == "c.sr") || (p == "c.out.RR" && vpath(st.Val) == "c.rr") {
					exp[p] = true
				}
			}
		}
	}
	if exp["c.out.SR"] && exp["c.out.RR"] {
		c.Ok(rule, "lalr.compiler.reportConflicts:export", f.Pos(), "Tables.SR/RR receive c.sr/c.rr")
	} else {
		c.Bad(rule, "lalr.compiler.reportConflicts:export", f.Pos(), "Tables.SR and Tables.RR must receive the computed counters")
	}
}

// DTX(lr0-shift): a state that has a reduction and receives its first shift stops being LR(0)
// (it must consult the lookahead from then on), on every path through addShift.
func ruleLR0SHIFT(c *Ctx) {
	const rule = "DTX(lr0-shift)"
	f := c.SSAFunc("lalr", "(*compiler).addShift")
	if f == nil || len(f.Params) != 3 {
		c.Lost(rule, "lalr.compiler.addShift", "function not found")
		return
	}
	for _, sc := range []struct {
		name           string
		shifts, reduce AV
		want           bool
	}{
		{"first shift of a state with a reduction", avInt{0, 0}, avInt{1, 1 << 30}, true},
		{"terminal (end-of-input) shift added to a state with a reduction and nonterminal shifts", avInt{1, 1 << 30}, avInt{1, 1 << 30}, true},
	} {
		cfg := &aiConfig{
			RecordStores: true,
			Load: func(path string, t types.Type) (AV, bool) {
				switch path {
				case "from.shifts":
					return avSym{Name: "from.shifts", Len: sc.shifts}, true
				case "from.reduce":
					return avSym{Name: "from.reduce", Len: sc.reduce}, true
				case "to.symbol":
					return avInt{0, 0}, true // EOI, a terminal
				case "c.grammar.Terminals":
					return avInt{1, 1 << 30}, true
				}
				return nil, false
			},
		}
		outs := aiEval(f, []AV{avSym{Name: "c"}, avSym{Name: "from"}, avSym{Name: "to"}}, cfg)
		key := "lalr.compiler.addShift[" + sc.name + "]"
		var probs []string
		for _, o := range outs {
			if o.Kind == "cut" {
				continue // the insertion loop is irrelevant here
			}
			has := false
			for _, s := range o.Stores {
				if s == "from.lr0 = false" {
					has = true
				}
			}
			if has != sc.want {
				probs = append(probs, "a path through addShift ends without from.lr0 = false: "+o.String())
			}
		}
		if len(outs) == 0 {
			probs = append(probs, "no path")
		}
		if len(probs) > 0 {
			c.Bad(rule, key, f.Pos(), "%s (the state keeps reducing unconditionally and never takes the shift, e.g. the accepting end-of-input shift)", strings.Join(uniqStrings(probs), " | "))
		} else {
			c.Ok(rule, key, f.Pos(), "from.lr0 = false is stored on all %d paths", len(outs))
		}
	}
}

func cntName(v, own, other int) string {
	switch v {
	case own:
		return "expected"
	case other:
		return "other-counter's-expectation"
	}
	return "unexpected"
}

// DTX(hasConflict): conflictBuilder.hasConflict(term) answers "is this terminal already an
// unresolved conflict in this state" - true exactly when an entry exists and its resolution is
// `conflict`. ruleAction skips precedence resolution for such terminals; an entry that was
// *resolved* by precedence (doShift/doReduce/doError) must not count, or the next rule on the same
// terminal is reported as a conflict although precedence decides it. Evaluated for every cell
// of {absent, present} x {none, doShift, doReduce, doError, conflict}.
func ruleHASCONFLICT(c *Ctx) {
	const rule = "DTX(hasConflict)"
	fn := c.SSAFunc("lalr", "(*conflictBuilder).hasConflict")
	if fn == nil {
		c.Lost(rule, "lalr.conflictBuilder.hasConflict", "function not found")
		return
	}
	names := []string{"none", "doShift", "doReduce", "doError", "conflict"}
	vals := map[string]int64{}
	for _, n := range names {
		v, ok := c.enumConst("lalr", n)
		if !ok {
			c.Lost(rule, "lalr."+n, "constant not found")
			return
		}
		vals[n] = v
	}
	for _, present := range []bool{false, true} {
		for _, rn := range names {
			if !present && rn != "none" {
				continue
			}
			key := fmt.Sprintf("lalr.conflictBuilder.hasConflict[present=%v,res=%s]", present, rn)
			cfg := &aiConfig{
				Lookup: func(path string, k AV, commaOk bool, t types.Type) (AV, bool) {
					if commaOk {
						return avTuple{E: []AV{avSymPtr{Path: "entry"}, avBool{present}}}, true
					}
					return nil, false
				},
				Load: func(path string, t types.Type) (AV, bool) {
					if strings.HasSuffix(path, ".res") {
						return avInt{vals[rn], vals[rn]}, true
					}
					return nil, false
				},
				Call: func(callee string, args []AV, site ssa.CallInstruction) (AV, bool, bool) { return nil, false, false },
			}
			outs := aiEval(fn, []AV{avSym{Name: "b"}, avSym{Name: "term"}}, cfg)
			want := present && rn == "conflict"
			var probs []string
			if len(outs) == 0 {
				probs = append(probs, "no path")
			}
			for _, o := range outs {
				if o.Kind != "return" || len(o.Ret) != 1 {
					probs = append(probs, "path: "+o.String())
					continue
				}
				b, ok := o.Ret[0].(avBool)
				if !ok {
					probs = append(probs, "result not decided: "+avStr2(o.Ret[0]))
				} else if b.V != want {
					probs = append(probs, fmt.Sprintf("returns %v, want %v", b.V, want))
				}
			}
			if len(probs) == 0 {
				c.Ok(rule, key, fn.Pos(), "hasConflict = %v", want)
			} else if strings.Contains(strings.Join(probs, ";"), "returns") {
				c.Bad(rule, key, fn.Pos(), "hasConflict %s: a terminal whose earlier rule was decided by precedence is treated as an existing conflict, precedence resolution is skipped for the next rule and a conflict is reported that precedence resolves", strings.Join(probs, "; "))
			} else {
				c.Undec(rule, key, fn.Pos(), "%s", strings.Join(probs, "; "))
			}
		}
	}
}
