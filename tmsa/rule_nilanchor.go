package main

import (
	"fmt"
	"go/token"
	"go/types"
	"strings"

	"golang.org/x/tools/go/ssa"
)

// GUARD(valid-anchor): diagnostics are anchored at a syntax-tree node; an optional node
// (tm/ast wrappers with IsValid()) that is absent has no file, line or offset. If a function
// asks a node value for IsValid() anywhere, it believes the node may be absent; an Errorf
// anchored at that same value must then be governed by IsValid() == true.
func ruleNILANCHOR(c *Ctx, pkgs ...string) {
	const rule = "GUARD(valid-anchor)"
	n := 0
	for _, rel := range pkgs {
		for _, f := range c.SrcFuncs(rel) {
			// values whose IsValid() is consulted in this function
			tested := map[ssa.Value][]*ssa.Call{}
			for _, b := range f.Blocks {
				for _, ins := range b.Instrs {
					call, ok := ins.(*ssa.Call)
					if !ok {
						continue
					}
					name := ""
					var recv ssa.Value
					if call.Call.IsInvoke() {
						name, recv = call.Call.Method.Name(), call.Call.Value
					} else if g := call.Call.StaticCallee(); g != nil && g.Signature.Recv() != nil && len(call.Call.Args) > 0 {
						name, recv = g.Name(), call.Call.Args[0]
					}
					if name == "IsValid" && recv != nil {
						tested[anchorRoot(recv)] = append(tested[anchorRoot(recv)], call)
					}
				}
			}
			if len(tested) == 0 {
				continue
			}
			ord := map[string]int{}
			for _, b := range f.Blocks {
				for _, ins := range b.Instrs {
					call, ok := ins.(*ssa.Call)
					if !ok {
						continue
					}
					g := call.Call.StaticCallee()
					if g == nil || !strings.HasSuffix(g.Name(), "Errorf") || len(call.Call.Args) < 2 {
						continue
					}
					// the anchor argument: the SourceNode parameter of Errorf
					if len(call.Call.Args) < 2 {
						continue
					}
					type cand struct {
						v     ssa.Value
						conds []gcond
					}
					var cands []cand
					switch a := call.Call.Args[1].(type) {
					case *ssa.MakeInterface:
						cands = append(cands, cand{a.X, flattenConds(governing(b))})
					case *ssa.Phi:
						for i, e := range a.Edges {
							if mi, ok := e.(*ssa.MakeInterface); ok {
								pred := a.Block().Preds[i]
								cs := append(flattenConds(governing(pred)), flattenConds(edgeConds(pred, a.Block()))...)
								cands = append(cands, cand{mi.X, cs})
							}
						}
					}
					for _, cd := range cands {
						anchor := cd.v
						tests, isTested := tested[anchorRoot(anchor)]
						if !isTested {
							continue
						}
						n++
						key := ordKey(ord, fmt.Sprintf("%s:Errorf(%s)", ssaFuncKey(f), normalizePhi(vpath(anchor))))
						okG := false
						for _, gc := range cd.conds {
							for _, t := range tests {
								if gc.V == ssa.Value(t) && gc.Pol {
									okG = true
								}
							}
						}
						if okG {
							c.Ok(rule, key, call.Pos(), "the diagnostic is anchored at %s only under %s.IsValid()", vpath(anchor), vpath(anchor))
						} else {
							c.Bad(rule, key, call.Pos(), "a diagnostic is anchored at %s, which this function treats as possibly absent (it calls IsValid() on it), on a path where IsValid() is not known to hold: the error carries no file, line or offset", normalizePhi(vpath(anchor)))
						}
					}
				}
			}
		}
	}
	_ = token.NoPos
	_ = n
}

// anchorRoot: the value an optional node was copied from (parameters are spilled to locals when
// their address is taken for a method call).
func anchorRoot(v ssa.Value) ssa.Value {
	for i := 0; i < 6; i++ {
		switch y := v.(type) {
		case *ssa.UnOp:
			if y.Op == token.MUL {
				if al, ok := y.X.(*ssa.Alloc); ok {
					// a spilled parameter: the single store into the alloc
					var src ssa.Value
					cnt := 0
					for _, ref := range *al.Referrers() {
						if st, ok := ref.(*ssa.Store); ok && st.Addr == ssa.Value(al) {
							src = st.Val
							cnt++
						}
					}
					if cnt == 1 {
						v = src
						continue
					}
					return al
				}
			}
			return v
		case *ssa.Alloc:
			var src ssa.Value
			cnt := 0
			for _, ref := range *y.Referrers() {
				if st, ok := ref.(*ssa.Store); ok && st.Addr == ssa.Value(y) {
					src = st.Val
					cnt++
				}
			}
			if cnt == 1 {
				v = src
				continue
			}
			return v
		case *ssa.MakeInterface:
			v = y.X
		case *ssa.ChangeType:
			v = y.X
		case *ssa.Field:
			// the embedded *Node of a typed wrapper
			if st, ok := y.X.Type().Underlying().(*types.Struct); ok && st.Field(y.Field).Embedded() {
				v = y.X
				continue
			}
			return v
		default:
			return v
		}
	}
	return v
}
