package main

import (
	"fmt"
	"go/token"

	"golang.org/x/tools/go/ssa"
)

// PAIR(intern): the interning idiom
//
//	idx, ok := m[k]; if !ok { idx = len(list); list = append(list, v) }
//
// numbers a new item by its position in a list and must record that number under the key
// (m[k] = idx) on the miss branch; otherwise a second occurrence of k is appended again and the
// list holds two items with one name (duplicate declarations in generated code).
func ruleINTERN(c *Ctx, pkgs ...string) {
	const rule = "PAIR(intern)"
	n := 0
	for _, rel := range pkgs {
		for _, f := range c.SrcFuncs(rel) {
			ord := map[string]int{}
			for _, b := range f.Blocks {
				if len(b.Instrs) == 0 {
					continue
				}
				ifi, ok := b.Instrs[len(b.Instrs)-1].(*ssa.If)
				if !ok {
					continue
				}
				// condition: ok of a comma-ok map lookup (possibly negated)
				cond := ifi.Cond
				pol := true
				for {
					if u, isU := cond.(*ssa.UnOp); isU && u.Op == token.NOT {
						cond, pol = u.X, !pol
						continue
					}
					break
				}
				ex, ok := cond.(*ssa.Extract)
				if !ok || ex.Index != 1 {
					continue
				}
				lk, ok := ex.Tuple.(*ssa.Lookup)
				if !ok || !lk.CommaOk {
					continue
				}
				miss := b.Succs[1]
				if !pol {
					miss = b.Succs[0]
				}
				// blocks of the miss branch: dominated by miss (when miss has b as its only pred)
				if len(miss.Preds) != 1 {
					continue
				}
				var region []*ssa.BasicBlock
				for _, x := range f.Blocks {
					if miss.Dominates(x) {
						region = append(region, x)
					}
				}
				// does the branch number a new item by len(list) and append to that list?
				var lenOf []string
				appended := map[string]bool{}
				updated := false
				for _, x := range region {
					for _, ins := range x.Instrs {
						switch y := ins.(type) {
						case *ssa.Call:
							if bi, isB := y.Call.Value.(*ssa.Builtin); isB {
								switch bi.Name() {
								case "len":
									lenOf = append(lenOf, vpath(y.Call.Args[0]))
								case "append":
									appended[vpath(y.Call.Args[0])] = true
								}
							}
						case *ssa.MapUpdate:
							if vpath(y.Map) == vpath(lk.X) && vpath(y.Key) == vpath(lk.Index) {
								updated = true
							}
						}
					}
				}
				// the idiom proper: one variable receives m[k] on a hit and len(list) on a miss
				numbered := ""
				var val0 ssa.Value
				for _, ref := range *lk.Referrers() {
					if e, isE := ref.(*ssa.Extract); isE && e.Index == 0 {
						val0 = e
					}
				}
				if val0 == nil {
					continue
				}
				inRegion := map[*ssa.BasicBlock]bool{}
				for _, x := range region {
					inRegion[x] = true
				}
				for _, ref := range *val0.Referrers() {
					phi, isPhi := ref.(*ssa.Phi)
					if !isPhi {
						continue
					}
					for _, e := range phi.Edges {
						call, isCall := e.(*ssa.Call)
						if !isCall || !inRegion[call.Block()] {
							continue
						}
						if bi, isB := call.Call.Value.(*ssa.Builtin); isB && bi.Name() == "len" && appended[vpath(call.Call.Args[0])] {
							numbered = vpath(call.Call.Args[0])
						}
					}
				}
				_ = lenOf
				if numbered == "" {
					continue
				}
				n++
				key := ordKey(ord, fmt.Sprintf("%s:%s", ssaFuncKey(f), normalizePhi(vpath(lk.X))))
				if updated {
					c.Ok(rule, key, lk.Pos(), "on a miss the new position in %s is recorded under the key", numbered)
				} else {
					c.Bad(rule, key, lk.Pos(), "on a miss a new item is appended to %s and numbered by its position, but the number is not recorded in %s: the next occurrence of the same key is appended again (two items with one name)", numbered, normalizePhi(vpath(lk.X)))
				}
			}
		}
	}
	if n < 1 {
		c.add(rule, "count:", token.NoPos, CountDropped, true, "no interning site (idx, ok := m[k]; if !ok { idx = len(list); list = append(list, ..) }) found; syntax.(*typeCollector).resolveTypes confirmed by hand")
	}
}
