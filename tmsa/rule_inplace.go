package main

import (
	"fmt"
	"go/token"
	"go/types"
	"strings"

	"golang.org/x/tools/go/ssa"
)

// INPLACE(write-behind-read): several set/range helpers filter a slice in place: `out := r[:0]`
// shares r's backing array, a loop reads r[i], r[i+1], ... (i += step) and appends results to out.
// This is sound only while every append writes strictly behind the read cursor:
//
//	len(out) + (elements appended) <= i + step        (or out was re-allocated first)
//
// The rule explores the function's control flow with the finite abstraction
// (d = len(out) - i, "out still aliases r", values of boolean flags), deciding the comparisons
// between len(out) and i exactly and forking on everything else, and reports an append that can
// overwrite unread input.
func ruleINPLACE(c *Ctx, pkgs ...string) {
	const rule = "INPLACE(write-behind-read)"
	n := 0
	ords := map[string]int{}
	for _, rel := range pkgs {
		for _, f := range c.SrcFuncs(rel) {
			for _, b := range f.Blocks {
				for _, ins := range b.Instrs {
					sl, ok := ins.(*ssa.Slice)
					if !ok || sl.Low != nil || sl.High == nil {
						continue
					}
					if k, ok := sl.High.(*ssa.Const); !ok || k.Value == nil || k.Int64() != 0 {
						continue
					}
					if _, ok := sl.X.Type().Underlying().(*types.Slice); !ok {
						continue
					}
					res, applicable := inplaceCheck(f, sl)
					if !applicable {
						continue
					}
					n++
					key := ordKey(ords, fmt.Sprintf("%s:%s[:0]", ssaFuncKey(f), normalizePhi(strings.TrimPrefix(vpath(sl.X), "*"))))
					switch {
					case res.undecided != "":
						c.Undec(rule, key, sl.Pos(), "could not follow the in-place output: %s", res.undecided)
					case res.bad != "":
						c.Bad(rule, key, res.badPos, "%s", res.bad)
					default:
						c.Ok(rule, key, sl.Pos(), "every append to the in-place output writes behind the read cursor (%d abstract states explored, %d appends checked)", res.states, res.appends)
					}
				}
			}
		}
	}
	hasLex := false
	for _, rel := range pkgs {
		hasLex = hasLex || rel == "lex"
	}
	if hasLex && n < 2 {
		c.add(rule, "count:", token.NoPos, CountDropped, true, "only %d in-place filters (out := r[:0] with an indexed read loop over r) found; (*charset).subtract and (*charset).invert confirmed by hand", n)
	}
}

type inplaceResult struct {
	bad       string
	badPos    token.Pos
	undecided string
	states    int
	appends   int
}

func inplaceCheck(f *ssa.Function, out0 *ssa.Slice) (inplaceResult, bool) {
	var res inplaceResult
	r := out0.X
	// the read loop: a natural loop with an induction variable i (step s > 0) indexing r
	var loop *natLoop
	var iphi *ssa.Phi
	var step int64
	rpath := vpath(r)
	sameBase := func(x ssa.Value) bool {
		return x == r || (rpath != "" && !strings.Contains(rpath, "φ") && vpath(x) == rpath)
	}
	for _, lp := range naturalLoops(f) {
		for _, ins := range lp.Header.Instrs {
			p, ok := ins.(*ssa.Phi)
			if !ok {
				break
			}
			var s int64
			var inc ssa.Value
			for i, e := range p.Edges {
				if !lp.Body[lp.Header.Preds[i]] {
					continue
				}
				if bo, ok := e.(*ssa.BinOp); ok && bo.Op == token.ADD && bo.X == ssa.Value(p) {
					if k, ok := bo.Y.(*ssa.Const); ok && k.Value != nil {
						s = k.Int64()
						inc = bo
					}
				}
			}
			if s <= 0 {
				continue
			}
			// indexes r: directly (for i := 0; ...; i += s) or through the pre-incremented value of
			// a range loop (`for _, x := range r` reads r[phi+1])
			idx := false
			for bb := range lp.Body {
				for _, in2 := range bb.Instrs {
					if ia, ok := in2.(*ssa.IndexAddr); ok && sameBase(ia.X) {
						ix := stripConv(ia.Index)
						if ix == ssa.Value(p) || (s == 1 && ix == inc && inc.(*ssa.BinOp).Block() == lp.Header) {
							idx = true
						}
					}
				}
			}
			if idx && !lp.Body[out0.Block()] && out0.Block().Dominates(lp.Header) && (loop == nil || len(lp.Body) > len(loop.Body)) {
				loop, iphi, step = lp, p, s
			}
		}
	}
	if loop == nil {
		return res, false
	}
	// out versions
	isOut := map[ssa.Value]bool{out0: true}
	for changed := true; changed; {
		changed = false
		for _, b := range f.Blocks {
			for _, ins := range b.Instrs {
				switch y := ins.(type) {
				case *ssa.Phi:
					if isOut[y] {
						continue
					}
					for _, e := range y.Edges {
						if isOut[e] {
							isOut[y] = true
							changed = true
						}
					}
				case *ssa.Call:
					if bi, ok := y.Call.Value.(*ssa.Builtin); ok && bi.Name() == "append" && !isOut[y] {
						a0 := y.Call.Args[0]
						a1 := stripConv(y.Call.Args[1])
						if isOut[a0] || isOut[a1] {
							isOut[y] = true
							changed = true
						}
					}
				case *ssa.ChangeType:
					if isOut[y.X] && !isOut[y] {
						isOut[y] = true
						changed = true
					}
				}
			}
		}
	}
	type state struct {
		b, pred *ssa.BasicBlock
		cur     ssa.Value
		aliased bool
		d       int
		flags   string // tracked boolean phis: name=value,...
	}
	const clip = 8
	seen := map[state]bool{}
	type item struct {
		st    state
		bools map[ssa.Value]bool
	}
	encode := func(m map[ssa.Value]bool) string {
		var parts []string
		for _, b := range f.Blocks {
			for _, ins := range b.Instrs {
				if v, ok := ins.(ssa.Value); ok {
					if val, ok := m[v]; ok {
						parts = append(parts, fmt.Sprintf("%s=%v", v.Name(), val))
					}
				}
			}
		}
		return strings.Join(parts, ",")
	}
	work := []item{{state{b: f.Blocks[0], cur: nil, aliased: false, d: 0}, map[ssa.Value]bool{}}}
	for len(work) > 0 && res.bad == "" && res.undecided == "" {
		it := work[len(work)-1]
		work = work[:len(work)-1]
		st := it.st
		st.flags = encode(it.bools)
		if seen[st] {
			continue
		}
		seen[st] = true
		res.states++
		if res.states > 20000 {
			res.undecided = "state space exceeds 20000"
			break
		}
		bools := map[ssa.Value]bool{}
		for k, v := range it.bools {
			bools[k] = v
		}
		cur, aliased, d := st.cur, st.aliased, st.d
		// phis
		predIdx := -1
		for i, p := range st.b.Preds {
			if p == st.pred {
				predIdx = i
			}
		}
		newBools := map[ssa.Value]bool{}
		type upd struct {
			phi ssa.Value
			v   bool
			ok  bool
		}
		var ups []upd
		for _, ins := range st.b.Instrs {
			p, ok := ins.(*ssa.Phi)
			if !ok {
				break
			}
			if predIdx < 0 {
				continue
			}
			e := p.Edges[predIdx]
			if isOut[p] {
				if e == cur {
					cur = p
				} else if isOut[e] && cur != nil {
					res.undecided = fmt.Sprintf("phi %s takes a stale version of the output", p.Name())
				}
			}
			if p == iphi && loop.Body[st.pred] {
				d -= int(step)
				if d < -clip {
					d = -clip
				}
			}
			if bt, ok := p.Type().Underlying().(*types.Basic); ok && bt.Kind() == types.Bool {
				if k, ok := e.(*ssa.Const); ok && k.Value != nil {
					ups = append(ups, upd{p, k.Value.String() == "true", true})
				} else if v, ok := bools[e]; ok {
					ups = append(ups, upd{p, v, true})
				} else {
					ups = append(ups, upd{p, false, false})
				}
			}
		}
		for _, u := range ups {
			if u.ok {
				bools[u.phi] = u.v
			} else {
				delete(bools, u.phi)
			}
		}
		_ = newBools
		// leaving the read loop: nothing of r is read any more
		if !loop.Body[st.b] && st.pred != nil && loop.Body[st.pred] {
			aliased = false
		}
		var term ssa.Instruction
		for _, ins := range st.b.Instrs {
			switch y := ins.(type) {
			case *ssa.Slice:
				if y == out0 {
					cur, aliased, d = y, true, 0
				}
			case *ssa.ChangeType:
				if y.X == cur {
					// same storage, used as an argument only
				}
			case *ssa.Call:
				bi, ok := y.Call.Value.(*ssa.Builtin)
				if !ok || bi.Name() != "append" || !isOut[y] {
					continue
				}
				a0 := y.Call.Args[0]
				if a0 == cur {
					nel := appendCount(y.Call.Args[1])
					if nel < 0 && !aliased {
						cur = y
						continue
					}
					if nel < 0 {
						res.undecided = "append of a slice of unknown length to the in-place output at " + f.Prog.Fset.Position(y.Pos()).String()
						break
					}
					res.appends++
					if aliased && d+nel > int(step) {
						res.bad = fmt.Sprintf("append of %d element(s) to the in-place output can overwrite input that was not read yet: on some path len(out) - i = %d here while the next unread element is at i+%d and out still shares the input's array (the re-allocation guard lets len(out) run ahead of the read cursor)", nel, d, step)
						res.badPos = y.Pos()
					}
					d += nel
					if d > clip {
						d = clip
					}
					cur = y
				} else if k, isK := a0.(*ssa.Const); isK && k.Value == nil {
					// append(nil, out...): a fresh copy
					if stripConv(y.Call.Args[1]) == cur || (func() bool {
						ct, ok := y.Call.Args[1].(*ssa.ChangeType)
						return ok && ct.X == cur
					})() {
						cur, aliased = y, false
					}
				}
			case *ssa.If, *ssa.Jump, *ssa.Return, *ssa.Panic:
				term = ins
			}
		}
		if res.bad != "" || res.undecided != "" {
			break
		}
		next := func(s *ssa.BasicBlock) {
			work = append(work, item{state{b: s, pred: st.b, cur: cur, aliased: aliased, d: d}, bools})
		}
		switch t := term.(type) {
		case *ssa.Jump:
			next(st.b.Succs[0])
		case *ssa.If:
			// decide the condition where possible
			val, known := inplaceCond(t.Cond, bools, cur, iphi, d, isOut)
			if !known || val {
				next(st.b.Succs[0])
			}
			if !known || !val {
				next(st.b.Succs[1])
			}
		}
	}
	return res, true
}

// appendCount: number of elements in the variadic argument of append (array literal), -1 if unknown.
func appendCount(v ssa.Value) int {
	if sl, ok := v.(*ssa.Slice); ok && sl.Low == nil && sl.High == nil {
		if al, ok := sl.X.(*ssa.Alloc); ok {
			if at, ok := al.Type().(*types.Pointer).Elem().Underlying().(*types.Array); ok {
				return int(at.Len())
			}
		}
	}
	return -1
}

func inplaceCond(v ssa.Value, bools map[ssa.Value]bool, cur ssa.Value, iphi *ssa.Phi, d int, isOut map[ssa.Value]bool) (val, known bool) {
	pol := true
	for {
		if u, ok := v.(*ssa.UnOp); ok && u.Op == token.NOT {
			v, pol = u.X, !pol
			continue
		}
		break
	}
	if k, ok := v.(*ssa.Const); ok && k.Value != nil {
		return (k.Value.String() == "true") == pol, true
	}
	if b, ok := bools[v]; ok {
		return b == pol, true
	}
	l, op, r, ok := cmpNormV(v, pol)
	if !ok {
		return false, false
	}
	// sides: len(out) and i + K
	side := func(x ssa.Value) (kind string, k int) {
		x = stripConv(x)
		if call, ok := x.(*ssa.Call); ok {
			if bi, ok := call.Call.Value.(*ssa.Builtin); ok && bi.Name() == "len" && len(call.Call.Args) == 1 {
				a := call.Call.Args[0]
				if a == cur || (isOut[a] && sameOutChain(a, cur)) {
					return "len", 0
				}
			}
		}
		if x == ssa.Value(iphi) {
			return "i", 0
		}
		if bo, ok := x.(*ssa.BinOp); ok && bo.Op == token.ADD && stripConv(bo.X) == ssa.Value(iphi) {
			if kk, ok := bo.Y.(*ssa.Const); ok && kk.Value != nil {
				return "i", int(kk.Int64())
			}
		}
		return "", 0
	}
	lk, lc := side(l)
	rk, rc := side(r)
	var a, b int // compare a op b where a,b are offsets relative to i
	switch {
	case lk == "len" && rk == "i":
		a, b = d, rc
	case lk == "i" && rk == "len":
		a, b = lc, d
	default:
		return false, false
	}
	switch op {
	case "<":
		return a < b, true
	case "<=":
		return a <= b, true
	case "==":
		return a == b, true
	case "!=":
		return a != b, true
	}
	return false, false
}

// sameOutChain: a is cur or cur was reached from a only through phis (no append in between).
func sameOutChain(a, cur ssa.Value) bool {
	seen := map[ssa.Value]bool{}
	var walk func(v ssa.Value) bool
	walk = func(v ssa.Value) bool {
		if v == a {
			return true
		}
		if seen[v] {
			return false
		}
		seen[v] = true
		if p, ok := v.(*ssa.Phi); ok {
			for _, e := range p.Edges {
				if walk(e) {
					return true
				}
			}
		}
		return false
	}
	return walk(cur)
}
