package main

import (
	"fmt"
	"go/token"
	"go/types"
	"sort"
	"strings"

	"golang.org/x/tools/go/ssa"
)

// initcovExempt: fields that a method changes but Init deliberately leaves alone.
var initcovExempt = map[string]string{
	"Parser.next":         "every parse() redefines p.next before reading it (FRESH(lookahead), TYPESTATE(lookahead))",
	"Lexer.value":         "the semantic value is assigned by the action of the token that carries one and read only for that token",
	"TokenStream.lastEnd": "js only: read solely as the offset of an inserted semicolon; before the first token of an input every candidate insertion would form an empty statement, which insertSC refuses (stateAfterSC == emptyStatementState), and recoveryMode is reset by Init",
}

// INITCOV: Lexer, Parser and TokenStream objects are reused: Init(...) starts a new input on an
// existing object. Every field of the type that some other method of the type modifies (run
// state) must be assigned by Init, directly or in a method Init calls on the receiver; a field
// that keeps its value lets the previous input leak into the next one (C20r2: pending tokens of
// a cancelled parse are flushed into the next document's event stream).
func ruleINITCOV(c *Ctx, typeNames ...string) {
	const rule = "INITCOV"
	n := 0
	for _, rel := range parserPkgs {
		pkg := c.SSAPkg(rel)
		if pkg == nil {
			continue
		}
		for _, tn := range typeNames {
			mem, ok := pkg.Members[tn].(*ssa.Type)
			if !ok {
				continue
			}
			named, ok := mem.Type().(*types.Named)
			if !ok {
				continue
			}
			st, ok := named.Underlying().(*types.Struct)
			if !ok {
				continue
			}
			ptr := types.NewPointer(named)
			mset := pkg.Prog.MethodSets.MethodSet(ptr)
			var initFn *ssa.Function
			var others []*ssa.Function
			for i := 0; i < mset.Len(); i++ {
				fn := pkg.Prog.MethodValue(mset.At(i))
				if fn == nil || fn.Blocks == nil {
					continue
				}
				if fn.Name() == "Init" {
					initFn = fn
				} else {
					others = append(others, fn)
				}
			}
			if initFn == nil {
				continue
			}
			// fields written by a function through its receiver (top-level field only)
			var writes func(fn *ssa.Function, seen map[*ssa.Function]bool, must bool) map[string]token.Pos
			writes = func(fn *ssa.Function, seen map[*ssa.Function]bool, must bool) map[string]token.Pos {
				out := map[string]token.Pos{}
				if seen[fn] || len(fn.Params) == 0 {
					return out
				}
				seen[fn] = true
				recv := fn.Params[0]
				top := func(v ssa.Value) (string, bool) {
					name := ""
					for {
						switch y := v.(type) {
						case *ssa.FieldAddr:
							if y.X == ssa.Value(recv) {
								return fieldName(y.X.Type(), y.Field), true
							}
							name = fieldName(y.X.Type(), y.Field)
							v = y.X
						case *ssa.IndexAddr:
							v = y.X
						default:
							_ = name
							return "", false
						}
					}
				}
				var rets []*ssa.BasicBlock
				for _, b := range fn.Blocks {
					if len(b.Instrs) > 0 {
						if _, ok := b.Instrs[len(b.Instrs)-1].(*ssa.Return); ok {
							rets = append(rets, b)
						}
					}
				}
				for _, b := range fn.Blocks {
					if must {
						all := true
						for _, r := range rets {
							if !b.Dominates(r) {
								all = false
							}
						}
						if !all {
							continue // assigned on some paths only
						}
					}
					for _, ins := range b.Instrs {
						switch y := ins.(type) {
						case *ssa.Store:
							if f, ok := top(y.Addr); ok {
								if _, dup := out[f]; !dup {
									out[f] = y.Pos()
								}
							}
						case *ssa.Call:
							if g := y.Call.StaticCallee(); g != nil && len(y.Call.Args) > 0 && g.Signature.Recv() != nil {
								if f, ok := top(y.Call.Args[0]); ok && strings.HasPrefix(g.Name(), "Init") {
									// (re)initialising a sub-object counts as assigning the field
									if _, dup := out[f]; !dup {
										out[f] = y.Pos()
									}
								}
							}
							if g := y.Call.StaticCallee(); g != nil && len(y.Call.Args) > 0 && y.Call.Args[0] == ssa.Value(recv) && g.Signature.Recv() != nil {
								for f, p := range writes(g, seen, must) {
									if _, dup := out[f]; !dup {
										out[f] = p
									}
								}
							}
						}
					}
				}
				return out
			}
			initW := writes(initFn, map[*ssa.Function]bool{}, true)
			if tn == "Parser" {
				// A Parser is initialised once and then parses any number of inputs (Parse* may be
				// called again without Init: the generated benchmarks and ast.Parse helpers do).
				// Its run state must therefore be reset by parse() itself; Init does not count.
				initW = map[string]token.Pos{}
			}
			// run state of a Parser may equally be reset by the first block of parse(), through
			// which every Parse* entry point goes
			for _, m := range others {
				if m.Name() != "parse" || len(m.Params) == 0 {
					continue
				}
				recv := m.Params[0]
				for _, ins := range m.Blocks[0].Instrs {
					switch y := ins.(type) {
					case *ssa.Store:
						v := y.Addr
						for {
							fa, ok := v.(*ssa.FieldAddr)
							if !ok {
								break
							}
							if fa.X == ssa.Value(recv) {
								if _, dup := initW[fieldName(fa.X.Type(), fa.Field)]; !dup {
									initW[fieldName(fa.X.Type(), fa.Field)] = y.Pos()
								}
								break
							}
							v = fa.X
						}
					case *ssa.Call:
						if g := y.Call.StaticCallee(); g != nil && len(y.Call.Args) > 0 && y.Call.Args[0] == ssa.Value(recv) && g.Signature.Recv() != nil {
							for f, pos := range writes(g, map[*ssa.Function]bool{}, true) {
								if _, dup := initW[f]; !dup {
									initW[f] = pos
								}
							}
						}
					}
				}
			}
			changed := map[string]string{}
			for _, m := range others {
				w := map[string]token.Pos{}
				// direct writes only (calls would re-enter Init-called helpers)
				for f, p := range writes(m, map[*ssa.Function]bool{initFn: true}, false) {
					w[f] = p
				}
				for f := range w {
					if _, ok := changed[f]; !ok {
						changed[f] = m.Name()
					}
				}
			}
			var fields []string
			for f := range changed {
				fields = append(fields, f)
			}
			sort.Strings(fields)
			_ = st
			for _, f := range fields {
				n++
				key := fmt.Sprintf("%s.%s.Init:%s", rel, tn, f)
				if _, ok := initW[f]; ok {
					c.Ok(rule, key, initW[f], "field %s (modified by %s) is assigned by Init or by the first block of parse()", f, changed[f])
				} else if why, ok := initcovExempt[tn+"."+f]; ok {
					c.Ok(rule, key, initFn.Pos(), "exempt: %s", why)
				} else {
					if tn == "Parser" {
						c.Bad(rule, key, initFn.Pos(), "field %s of Parser is modified by %s while parsing but is not reset by the first block of parse(): Parse* can be called again without Init, so its value from the previous input leaks into the next parse", f, changed[f])
					} else {
						c.Bad(rule, key, initFn.Pos(), "field %s of %s is modified by %s but assigned neither by Init on every path nor by the first block of parse(): its value from the previous input survives the re-initialisation", f, tn, changed[f])
					}
				}
			}
		}
	}
	if n < 10 {
		c.add(rule, "count:", token.NoPos, CountDropped, true, "only %d run-state fields found for %s", n, strings.Join(typeNames, ","))
	}
}
