package main

import (
	"fmt"
	"go/ast"
	"go/token"
	"go/types"
	"strings"

	"golang.org/x/tools/go/ssa"
	"golang.org/x/tools/go/ssa/ssautil"
)

// GUARD(eoi-skip): the token-skipping loop of error recovery (skipBrokenCode, generated and the
// hand-written js one) fetches a new lookahead per iteration; at the end of input the stream
// keeps returning EOI, so every path into the block that fetches must have passed
// `p.next.symbol != eoiToken` on its true edge. A loop condition in which another disjunct
// (open brackets, "cannot recover here") admits the body at EOI never terminates.
func ruleEOISKIP(c *Ctx) {
	const rule = "GUARD(eoi-skip)"
	n := 0
	for _, rel := range parserPkgs {
		f := c.SSAFunc(rel, "(*Parser).skipBrokenCode")
		if f == nil {
			continue
		}
		loops := naturalLoops(f)
		for _, b := range f.Blocks {
			for _, ins := range b.Instrs {
				st, ok := ins.(*ssa.Store)
				if !ok {
					continue
				}
				fa, ok := st.Addr.(*ssa.FieldAddr)
				if !ok || fieldName(fa.X.Type(), fa.Field) != "next" {
					continue
				}
				if _, isCall := st.Val.(*ssa.Call); !isCall {
					continue
				}
				if innermostLoop(loops, b) == nil {
					continue
				}
				n++
				key := fmt.Sprintf("%s.Parser.skipBrokenCode:fetch", rel)
				guarded := false
				for _, g := range flattenConds(governing(b)) {
					l, op, r, ok := cmpNorm(g.V, g.Pol)
					if !ok || op != "!=" {
						continue
					}
					if (strings.HasSuffix(l, "next.symbol") && strings.Contains(r, "eoiToken")) || (strings.HasSuffix(r, "next.symbol") && strings.Contains(l, "eoiToken")) ||
						(strings.HasSuffix(l, "next.symbol") && isEOIConst(c, rel, r)) || (strings.HasSuffix(r, "next.symbol") && isEOIConst(c, rel, l)) {
						guarded = true
					}
				}
				if guarded {
					c.Ok(rule, key, st.Pos(), "the lookahead is advanced only behind p.next.symbol != eoiToken")
				} else {
					c.Bad(rule, key, st.Pos(), "the skipping loop can fetch another token on a path that did not pass p.next.symbol != eoiToken: at the end of input the stream returns EOI forever and recovery never terminates")
				}
			}
		}
	}
	if n < 2 {
		c.add(rule, "count:", token.NoPos, CountDropped, true, "only %d skipBrokenCode fetch sites found (tm and js confirmed by hand)", n)
	}
}

func isEOIConst(c *Ctx, rel, s string) bool {
	// eoiToken is a typed constant: it renders as its value
	if v, ok := c.enumConst(rel, "eoiToken"); ok {
		return s == fmt.Sprint(v)
	}
	return false
}

// LOOPSHAPE(first-input): token sets are computed "over the rules reachable from the first
// end-of-input input". The loop of syntax.rules that seeds the work list from m.Inputs must
// leave the loop right after it enqueued an input: the enqueue call, governed by the NoEoi test,
// cannot reach the loop header again.
func ruleFIRSTINPUT(c *Ctx) {
	const rule = "LOOPSHAPE(first-input)"
	f := c.SSAFunc("syntax", "rules")
	if f == nil {
		c.Lost(rule, "syntax.rules", "function not found")
		return
	}
	loops := naturalLoops(f)
	n := 0
	for _, b := range f.Blocks {
		for _, ins := range b.Instrs {
			call, ok := ins.(*ssa.Call)
			if !ok {
				continue
			}
			// the loop whose NoEoi test governs the call (a block that ends in break is not part
			// of the natural loop, so the loop is found through the governing If)
			var lp *natLoop
			for _, g := range flattenConds(governing(b)) {
				if strings.HasSuffix(vpath(g.V), ".NoEoi") && !g.Pol {
					lp = innermostLoop(loops, g.If.Block())
				}
			}
			if lp == nil {
				continue
			}
			n++
			key := "syntax.rules:seed"
			if b != lp.Header && reachesWithout(b, lp.Header, nil) {
				c.Bad(rule, key, call.Pos(), "after seeding the reachability walk with an end-of-input input the loop over m.Inputs goes on: every such input seeds the walk, and first/follow/precede are computed over rules the first input cannot reach")
			} else {
				c.Ok(rule, key, call.Pos(), "the loop over m.Inputs is left right after the first end-of-input input was enqueued")
			}
		}
	}
	if n < 1 {
		c.Lost(rule, "syntax.rules:seed", "no call governed by !inp.NoEoi inside a loop")
	}
}

// FIELDCOV(expr-origin): every syntax.Expr the compiler synthesises carries an Origin: the
// origin of an expression becomes the origin of rules and diagnostics made from it
// (lalr.reportConflicts, status.Errorf), and a nil status.SourceNode there is a nil-pointer
// panic inside Compile. Checked on every composite literal of type syntax.Expr (elided element
// types of []*Expr{{...}} included) in the packages that build models.
var exprOriginExempt = map[string]string{
	"compiler.commandExtractor.extract:Expr{}": "the Choice wrapper of an extracted mid-rule action is stored only in grammar.Rule.Value after conflict reporting; the rule's and the action's origins are set explicitly from cmdOrigin, and its single alternative (the next literal) carries one",
}

func ruleEXPRORIGIN(c *Ctx) {
	const rule = "FIELDCOV(expr-origin)"
	n := 0
	for _, rel := range []string{"syntax", "compiler"} {
		pkg := c.Pkg(rel)
		if pkg == nil {
			c.Lost(rule, rel, "package not loaded")
			continue
		}
		for _, file := range pkg.Syntax {
			fname := pkg.Fset.Position(file.Pos()).Filename
			if strings.HasSuffix(fname, "_test.go") {
				continue
			}
			var fn string
			ord := map[string]int{}
			ast.Inspect(file, func(nd ast.Node) bool {
				if fd, ok := nd.(*ast.FuncDecl); ok {
					fn = fd.Name.Name
					if fd.Recv != nil && len(fd.Recv.List) > 0 {
						fn = types.ExprString(fd.Recv.List[0].Type) + "." + fn
					}
				}
				cl, ok := nd.(*ast.CompositeLit)
				if !ok {
					return true
				}
				t := pkg.TypesInfo.TypeOf(cl)
				if t == nil {
					return true
				}
				if p, ok := t.(*types.Pointer); ok {
					t = p.Elem()
				}
				if !isNamedType(t, "syntax", "Expr") {
					return true
				}
				n++
				has := false
				for _, el := range cl.Elts {
					if kv, ok := el.(*ast.KeyValueExpr); ok {
						if id, ok := kv.Key.(*ast.Ident); ok && id.Name == "Origin" {
							has = true
						}
					}
				}
				key := ordKey(ord, fmt.Sprintf("%s.%s:Expr{}", rel, strings.TrimPrefix(fn, "*")))
				if has {
					c.Ok(rule, key, cl.Pos(), "the literal sets Origin")
				} else if why, ok := exprOriginExempt[key]; ok {
					c.Ok(rule, key, cl.Pos(), "exempt: %s", why)
				} else {
					c.Bad(rule, key, cl.Pos(), "a syntax.Expr is built without an Origin: a rule or diagnostic made from it dereferences a nil source node (nil-pointer panic in Compile)")
				}
				return true
			})
		}
	}
	if n < 40 {
		c.add(rule, "count:", token.NoPos, CountDropped, true, "only %d syntax.Expr literals found", n)
	}
}

// GUARD(drop-empty): when a function rebuilds the Sub list of an expression (loop over x.Sub,
// append of the converted child), a child that turned into Empty may be left out only if the
// parent is a Sequence (epsilon is the unit of concatenation). Left out of a Choice it removes
// an alternative: `a | %empty` stops deriving the empty string. Every block in such a loop that
// skips the append under `child.Kind == Empty` must also be governed by `parent.Kind == Sequence`.
func ruleDROPEMPTY(c *Ctx) {
	const rule = "GUARD(drop-empty)"
	emptyK, ok1 := c.enumConst("syntax", "Empty")
	seqK, ok2 := c.enumConst("syntax", "Sequence")
	if !ok1 || !ok2 {
		c.Lost(rule, "syntax.Empty", "constants not found")
		return
	}
	kindIs := func(g gcond, k int64) bool {
		l, op, r, ok := cmpNormV(g.V, g.Pol)
		if !ok || op != "==" {
			return false
		}
		for _, pr := range [][2]ssa.Value{{l, r}, {r, l}} {
			if !strings.HasSuffix(vpath(pr[0]), ".Kind") {
				continue
			}
			if cst, ok := stripConv(pr[1]).(*ssa.Const); ok && cst.Value != nil && cst.Int64() == k {
				return true
			}
		}
		return false
	}
	n := 0
	for _, f := range c.SrcFuncs("syntax") {
		loops := naturalLoops(f)
		ord := map[string]int{}
		for _, lp := range loops {
			// the loop walks x.Sub ...
			overSub := false
			appendBlocks := map[*ssa.BasicBlock]bool{}
			for b := range lp.Body {
				for _, ins := range b.Instrs {
					switch y := ins.(type) {
					case *ssa.IndexAddr:
						idx := y.Index
						if bo, ok := idx.(*ssa.BinOp); ok {
							idx = bo.X // range loops index with φ+1
						}
						if _, isPhi := idx.(*ssa.Phi); isPhi && strings.HasSuffix(vpath(y.X), ".Sub") {
							overSub = true
						}
					case *ssa.Call:
						// ... and appends expressions to a list
						if bi, ok := y.Call.Value.(*ssa.Builtin); ok && bi.Name() == "append" {
							if sl, ok := y.Type().Underlying().(*types.Slice); ok {
								if pt, ok := sl.Elem().(*types.Pointer); ok && isNamedType(pt.Elem(), "syntax", "Expr") {
									appendBlocks[b] = true
								}
							}
						}
					}
				}
			}
			if !overSub || len(appendBlocks) == 0 {
				continue
			}
			for b := range lp.Body {
				if len(b.Instrs) == 0 {
					continue
				}
				ifi, ok := b.Instrs[len(b.Instrs)-1].(*ssa.If)
				if !ok {
					continue
				}
				for si, pol := range []bool{true, false} {
					if !kindIs(gcond{V: ifi.Cond, Pol: pol, If: ifi}, emptyK) {
						// also through negations
						fl := flattenConds([]gcond{{ifi.Cond, pol, ifi}})
						if !kindIs(fl[0], emptyK) {
							continue
						}
					}
					// the "child is Empty" edge b -> s: can it come back to the header without an
					// append and without having established parent.Kind == Sequence?
					seq0 := false
					for _, g := range flattenConds(governing(b)) {
						if kindIs(g, seqK) {
							seq0 = true
						}
					}
					type st struct {
						b   *ssa.BasicBlock
						seq bool
					}
					seen := map[st]bool{}
					work := []st{{b.Succs[si], seq0}}
					skips, unguarded := false, false
					for len(work) > 0 {
						x := work[len(work)-1]
						work = work[:len(work)-1]
						if x.b == lp.Header {
							skips = true
							if !x.seq {
								unguarded = true
							}
							continue
						}
						if seen[x] || !lp.Body[x.b] || appendBlocks[x.b] {
							continue
						}
						seen[x] = true
						if xi, ok := x.b.Instrs[len(x.b.Instrs)-1].(*ssa.If); ok {
							for sj, pol2 := range []bool{true, false} {
								fl := flattenConds([]gcond{{xi.Cond, pol2, xi}})
								work = append(work, st{x.b.Succs[sj], x.seq || kindIs(fl[0], seqK)})
							}
						} else {
							for _, s := range x.b.Succs {
								work = append(work, st{s, x.seq})
							}
						}
					}
					if !skips {
						continue
					}
					n++
					key := ordKey(ord, ssaFuncKey(f)+":skip-empty")
					if unguarded {
						c.Bad(rule, key, ifi.Cond.Pos(), "a child that became Empty is left out of the rebuilt list on a path where the parent is not known to be a Sequence: dropped from a Choice, the empty alternative disappears from the language")
					} else {
						c.Ok(rule, key, ifi.Cond.Pos(), "an Empty child is left out only when the parent is a Sequence")
					}
				}
			}
		}
	}
	if n < 2 {
		c.add(rule, "count:", token.NoPos, CountDropped, true, "only %d skip-empty sites found (instantiator.doExpr and the simplifier confirmed by hand)", n)
	}
}

// AGREE(takefrom-by-name): an argument that forwards a parameter of the enclosing nonterminal
// (syntax.Arg.TakeFrom) names the enclosing nonterminal's parameter *with the same name* as the
// target parameter - that is what the explicit shorthand A<P> does through resolveParam, and
// inline parameters of different nonterminals share names, not indices. Every value stored in
// TakeFrom is (a) a result of resolveParam, (b) the Param of the same literal (identity
// forwarding inside a wrapper that shares its Params with the target), or (c) chosen under an
// equality test of the two parameters' Name strings.
// takefromIdentityOK: functions in which "forward parameter p as parameter p" is right.
var takefromIdentityOK = map[string]string{
	"compiler.syntaxLoader.instantiateOpt": "the generated Xopt wrapper declares exactly the parameters of X (nt.Params = X's Params)",
	"syntax.PropagateLookaheads":           "lookahead flags are global parameters that the loop itself adds to both nonterminals",
}

func ruleTAKEFROM(c *Ctx) {
	const rule = "AGREE(takefrom-by-name)"
	n := 0
	for _, rel := range []string{"compiler", "syntax"} {
		for _, f := range c.SrcFuncs(rel) {
			ord := map[string]int{}
			for _, b := range f.Blocks {
				for _, ins := range b.Instrs {
					st, ok := ins.(*ssa.Store)
					if !ok {
						continue
					}
					fa, ok := st.Addr.(*ssa.FieldAddr)
					if !ok || fieldName(fa.X.Type(), fa.Field) != "TakeFrom" {
						continue
					}
					pt, ok := fa.X.Type().Underlying().(*types.Pointer)
					if !ok || !isNamedType(pt.Elem(), "syntax", "Arg") {
						continue
					}
					n++
					key := ordKey(ord, ssaFuncKey(f)+":TakeFrom")
					val := stripConv(st.Val)
					// (a) resolveParam result
					if ex, ok := val.(*ssa.Extract); ok {
						if call, ok := ex.Tuple.(*ssa.Call); ok {
							if g := call.Call.StaticCallee(); g != nil && g.Name() == "resolveParam" {
								c.Ok(rule, key, st.Pos(), "TakeFrom is the result of resolveParam (lookup by name in the enclosing nonterminal)")
								continue
							}
						}
					}
					// (b) same value as the Param field of the same literal
					same := false
					if fa.X.Referrers() != nil {
						for _, ref := range *fa.X.Referrers() {
							if fa2, ok := ref.(*ssa.FieldAddr); ok && fieldName(fa2.X.Type(), fa2.Field) == "Param" && fa2.Referrers() != nil {
								for _, r2 := range *fa2.Referrers() {
									if st2, ok := r2.(*ssa.Store); ok && (stripConv(st2.Val) == val || vpath(st2.Val) == vpath(val)) {
										same = true
									}
								}
							}
						}
					}
					if same {
						if why, ok := takefromIdentityOK[ssaFuncKey(f)]; ok {
							c.Ok(rule, key, st.Pos(), "identity forwarding (TakeFrom equals Param of the same argument): %s", why)
						} else {
							c.Bad(rule, key, st.Pos(), "TakeFrom is the target's own parameter index: that is the enclosing nonterminal's parameter only for global parameters; a same-named inline parameter of the enclosing nonterminal has another index, is not forwarded, and the callee silently gets its default")
						}
						continue
					}
					// (b') a predicate's own parameter, resolved in the context it is written in
					if u, ok := val.(*ssa.UnOp); ok && u.Op == token.MUL {
						if pfa, ok := u.X.(*ssa.FieldAddr); ok && fieldName(pfa.X.Type(), pfa.Field) == "Param" {
							if ppt, ok := pfa.X.Type().Underlying().(*types.Pointer); ok && isNamedType(ppt.Elem(), "syntax", "Predicate") {
								c.Ok(rule, key, st.Pos(), "a predicate's parameter is looked up in the nonterminal the predicate is written in")
								continue
							}
						}
					}
					// (c) governed by Name == Name with one side indexed by the stored value
					byName := false
					for _, g := range flattenConds(governing(b)) {
						l, op, r, ok := cmpNormV(g.V, g.Pol)
						if !ok || op != "==" {
							continue
						}
						lp, rp := vpath(l), vpath(r)
						if !strings.HasSuffix(lp, ".Name") || !strings.HasSuffix(rp, ".Name") {
							continue
						}
						if bt, ok := l.Type().Underlying().(*types.Basic); !ok || bt.Info()&types.IsString == 0 {
							continue
						}
						idx := "[" + vpath(val) + "].Name"
						if strings.HasSuffix(lp, idx) || strings.HasSuffix(rp, idx) {
							byName = true
						}
					}
					if byName {
						c.Ok(rule, key, st.Pos(), "the forwarded parameter is selected by equality of parameter names")
					} else {
						c.Bad(rule, key, st.Pos(), "TakeFrom is neither a resolveParam result, nor the argument's own Param, nor selected by comparing parameter names: inline parameters of different nonterminals have different indices, so the value is not propagated and the callee silently gets its default")
					}
				}
			}
		}
	}
	if n < 3 {
		c.add(rule, "count:", token.NoPos, CountDropped, true, "only %d TakeFrom stores found", n)
	}
}

// GUARD(set-alias): named sets are declared first (an empty node per name) and filled in a second
// pass with `*c.out.Sets[i] = *node`. convertSet answers a plain reference to another named set
// with that set's own node, which is still empty when the other set is declared later; copying
// its content makes `%generate b = set(a);` the set {eoi} instead of a. The node copied into a
// slot must therefore be a fresh node, or a convertSet result on a path where it is known not to
// be one of the slots (false edge of slices.Contains(c.out.Sets, node)).
func ruleSETALIAS(c *Ctx) {
	const rule = "GUARD(set-alias)"
	n := 0
	for _, f := range c.SrcFuncs("compiler") {
		for _, b := range f.Blocks {
			for _, ins := range b.Instrs {
				st, ok := ins.(*ssa.Store)
				if !ok {
					continue
				}
				// destination: *(c.out.Sets[i])
				du, ok := st.Addr.(*ssa.UnOp)
				if !ok || du.Op != token.MUL {
					continue
				}
				ia, ok := du.X.(*ssa.IndexAddr)
				if !ok || !strings.HasSuffix(vpath(ia.X), ".Sets") {
					continue
				}
				src, ok := st.Val.(*ssa.UnOp)
				if !ok || src.Op != token.MUL {
					continue
				}
				n++
				key := ssaFuncKey(f) + ":fill-slot"
				// sources of the copied node
				type edge struct {
					v    ssa.Value
					pred *ssa.BasicBlock
					succ *ssa.BasicBlock
				}
				var edges []edge
				if phi, ok := src.X.(*ssa.Phi); ok {
					for i, e := range phi.Edges {
						edges = append(edges, edge{e, phi.Block().Preds[i], phi.Block()})
					}
				} else {
					edges = append(edges, edge{src.X, nil, b})
				}
				bad := ""
				for _, e := range edges {
					switch x := e.v.(type) {
					case *ssa.Alloc:
						continue // fresh node
					case *ssa.Call:
						var conds []gcond
						if e.pred != nil {
							conds = append(conds, edgeConds(e.pred, e.succ)...)
							conds = append(conds, governing(e.pred)...)
						} else {
							conds = governing(e.succ)
						}
						okEdge := false
						for _, g := range flattenConds(conds) {
							call, isCall := g.V.(*ssa.Call)
							if !isCall || g.Pol {
								continue
							}
							if cal := call.Call.StaticCallee(); cal != nil && strings.HasPrefix(cal.Name(), "Contains") && len(call.Call.Args) == 2 &&
								strings.HasSuffix(vpath(call.Call.Args[0]), ".Sets") && call.Call.Args[1] == ssa.Value(x) {
								okEdge = true
							}
						}
						if !okEdge {
							bad = "the content of a convertSet result is copied into the slot without excluding that it is another named set's (possibly still empty) node"
						}
					default:
						bad = "the copied node is neither a fresh node nor a checked convertSet result"
					}
				}
				if bad == "" {
					c.Ok(rule, key, st.Pos(), "the node copied into a named set's slot is fresh or known not to be another slot")
				} else {
					c.Bad(rule, key, st.Pos(), "%s: a set that merely names a set declared later becomes {eoi}", bad)
				}
			}
		}
	}
	if n < 1 {
		c.Lost(rule, "compiler.syntaxLoader:fill-slot", "no `*c.out.Sets[i] = *node` store found")
	}
}

// GUARD(synthetic-name-free): the type collector adds a synthetic category "TokenSet" when tokens
// are injected into the AST. Categories and node (range) types become Go declarations of the
// same generated package, so the synthetic name must be free in *both* registries: the append
// of Category{Name: "TokenSet"} is governed by a failed lookup of that name among the categories
// and by a failed lookup among the range types (c.types). With only the first test a user node
// type `-> TokenSet` yields two declarations of TokenSet and the generated package does not build.
func ruleSYNTHNAME(c *Ctx) {
	const rule = "GUARD(synthetic-name-free)"
	f := c.SSAFunc("syntax", "(*typeCollector).resolveCategories")
	key := "syntax.typeCollector.resolveCategories:TokenSet"
	if f == nil {
		c.Lost(rule, key, "function not found")
		return
	}
	n := 0
	for _, b := range f.Blocks {
		for _, ins := range b.Instrs {
			st, ok := ins.(*ssa.Store)
			if !ok {
				continue
			}
			fa, ok := st.Addr.(*ssa.FieldAddr)
			if !ok || fieldName(fa.X.Type(), fa.Field) != "Name" {
				continue
			}
			k, ok := st.Val.(*ssa.Const)
			if !ok || k.Value == nil || k.Value.ExactString() != `"TokenSet"` {
				continue
			}
			n++
			var free []string
			for _, g := range flattenConds(governing(b)) {
				ex, ok := g.V.(*ssa.Extract)
				if !ok || ex.Index != 1 || g.Pol {
					continue
				}
				lk, ok := ex.Tuple.(*ssa.Lookup)
				if !ok || !lk.CommaOk {
					continue
				}
				if kk, ok := lk.Index.(*ssa.Const); ok && kk.Value != nil && kk.Value.ExactString() == `"TokenSet"` {
					free = append(free, vpath(lk.X))
				}
			}
			inTypes, inCats := false, false
			for _, m := range free {
				if strings.HasSuffix(m, ".types") {
					inTypes = true
				} else {
					inCats = true
				}
			}
			switch {
			case inTypes && inCats:
				c.Ok(rule, key, st.Pos(), "the synthetic category is added only when the name is free among categories and among range types")
			case !inTypes:
				c.Bad(rule, key, st.Pos(), "the synthetic category TokenSet is added without checking that no node type has that name (c.types): a rule reported as `-> TokenSet` makes the generated package declare TokenSet twice and it does not build")
			default:
				c.Bad(rule, key, st.Pos(), "the synthetic category TokenSet is added without checking the declared categories")
			}
		}
	}
	if n < 1 {
		c.Lost(rule, key, "no Category literal named \"TokenSet\" found")
	}
}

// KEYCOV(cast-action): rules without a user action whose first symbol has another type than the
// left-hand side get a default action that casts; generateTables hands out one action id per
// *cast behaviour* so that DFA minimisation does not merge states that cast differently. The key
// under which an id is shared must therefore contain both operands of the test that decided a
// cast is needed (the left-hand side's type and the first right-hand-side symbol's type). A
// coarser key (the nonterminal alone) gives two alternatives `{float}: 'x'{int} | 'z'{string}`
// the same id; minimised, one of them runs the other's cast.
func ruleCASTKEY(c *Ctx) {
	const rule = "KEYCOV(cast-action)"
	key := "compiler.generateTables:castActions"
	f := c.SSAFunc("compiler", "generateTables")
	if f == nil {
		c.Lost(rule, key, "function not found")
		return
	}
	n := 0
	for _, b := range f.Blocks {
		for _, ins := range b.Instrs {
			mu, ok := ins.(*ssa.MapUpdate)
			if !ok {
				continue
			}
			call, ok := mu.Value.(*ssa.Call)
			if !ok {
				continue
			}
			if bi, ok := call.Call.Value.(*ssa.Builtin); !ok || bi.Name() != "len" || !strings.HasSuffix(vpath(call.Call.Args[0]), ".Actions") {
				continue
			}
			n++
			// values the key is made of
			parts := map[ssa.Value]bool{mu.Key: true}
			if u, ok := mu.Key.(*ssa.UnOp); ok && u.Op == token.MUL {
				if al, ok := u.X.(*ssa.Alloc); ok && al.Referrers() != nil {
					for _, r := range *al.Referrers() {
						if fa, ok := r.(*ssa.FieldAddr); ok && fa.Referrers() != nil {
							for _, r2 := range *fa.Referrers() {
								if st, ok := r2.(*ssa.Store); ok {
									parts[st.Val] = true
								}
							}
						}
					}
				}
			}
			// the string comparison that decided "a cast is needed"
			var l, r ssa.Value
			for _, g := range flattenConds(governing(b)) {
				bo, ok := g.V.(*ssa.BinOp)
				if !ok || (bo.Op != token.EQL && bo.Op != token.NEQ) {
					continue
				}
				if _, isK := bo.X.(*ssa.Const); isK {
					continue
				}
				if _, isK := bo.Y.(*ssa.Const); isK {
					continue
				}
				if bt, ok := bo.X.Type().Underlying().(*types.Basic); ok && bt.Info()&types.IsString != 0 {
					l, r = bo.X, bo.Y
				}
			}
			switch {
			case l == nil:
				c.Lost(rule, key, "the comparison of the two types that decides whether a cast is needed was not found")
			case parts[l] && parts[r]:
				c.Ok(rule, key, mu.Pos(), "default-cast action ids are shared under a key that contains both compared types (%s, %s)", normalizePhi(vpath(l)), normalizePhi(vpath(r)))
			default:
				c.Bad(rule, key, mu.Pos(), "default-cast action ids are shared under %s, which does not contain both types whose difference requires the cast (%s, %s): rules that cast differently get one action id and DFA minimisation may merge their reduce states", normalizePhi(vpath(mu.Key)), normalizePhi(vpath(l)), normalizePhi(vpath(r)))
			}
		}
	}
	if n < 1 {
		c.Lost(rule, key, "no `castActions[key] = len(parser.Actions)` registration found")
	}
}

// CONSTAGREE(reserved-tokens): token 0 (EOI) and token 1 (InvalidToken) are reserved; the first
// two entries of RuleToken are their default actions. canInlineRules skips those entries
// (RuleToken[2:]) and refuses to inline when another rule produces a reserved token (e < 2):
// in inlined tables "token == InvalidToken" means "nothing matched", which would throw away the
// successful match of an explicit invalid_token rule after a backtracking checkpoint. The two
// constants denote the same count and must agree.
func ruleRESERVEDTOKENS(c *Ctx) {
	const rule = "CONSTAGREE(reserved-tokens)"
	key := "compiler.lexerCompiler.canInlineRules:reserved"
	f := c.SSAFunc("compiler", "(*lexerCompiler).canInlineRules")
	if f == nil {
		c.Lost(rule, key, "function not found")
		return
	}
	skip, floor := int64(-1), int64(-1)
	var pos token.Pos
	for _, b := range f.Blocks {
		for _, ins := range b.Instrs {
			switch x := ins.(type) {
			case *ssa.Slice:
				if strings.HasSuffix(vpath(x.X), ".RuleToken") {
					if k, ok := x.Low.(*ssa.Const); ok && k.Value != nil {
						skip = k.Int64()
					}
				}
			case *ssa.If:
				l, op, r, ok := cmpNormV(x.Cond, true)
				if !ok {
					continue
				}
				if k, isK := r.(*ssa.Const); isK && k.Value != nil && op == "<" && strings.Contains(vpath(l), "RuleToken") {
					floor, pos = k.Int64(), x.Cond.Pos()
				}
			}
		}
	}
	switch {
	case skip < 0 || floor < 0:
		c.Lost(rule, key, "RuleToken[K:] / e < K not found (skip=%d floor=%d)", skip, floor)
	case skip == floor:
		c.Ok(rule, key, pos, "%d reserved entries are skipped and a rule producing a token below %d prevents inlining", skip, floor)
	default:
		c.Bad(rule, key, pos, "%d reserved entries are skipped but only tokens below %d prevent inlining: an explicit rule for a reserved token (invalid_token) is inlined, and its match is discarded as \"nothing matched\" after a checkpoint", skip, floor)
	}
}

// ONCE(go-decl): goParserAction rewrites $-references of a semantic action in a loop and emits
// a typed local (`nnK, _ := stack[...].value.(T)`) the first time a symbol is referenced. A Go
// short variable declaration may appear once per scope: every emission of text containing ":="
// inside a loop must be governed by a failed lookup in a seen-set and record its key in the same
// block, or an action that mentions the same symbol twice generates `no new variables on left
// side of :=` and the parser does not build.
func ruleDECLONCE(c *Ctx) {
	const rule = "ONCE(go-decl)"
	n := 0
	for _, f := range c.SrcFuncs("gen") {
		loops := naturalLoops(f)
		ord := map[string]int{}
		for _, b := range f.Blocks {
			for _, ins := range b.Instrs {
				call, ok := ins.(*ssa.Call)
				if !ok {
					continue
				}
				g := call.Call.StaticCallee()
				if g == nil || g.Pkg == nil || g.Pkg.Pkg.Path() != "fmt" || g.Name() != "Fprintf" || len(call.Call.Args) < 2 {
					continue
				}
				k, ok := call.Call.Args[1].(*ssa.Const)
				if !ok || k.Value == nil || !strings.Contains(k.Value.ExactString(), ":=") {
					continue
				}
				if innermostLoop(loops, b) == nil {
					continue
				}
				n++
				key := ordKey(ord, ssaFuncKey(f)+":decl")
				var set ssa.Value
				var setKey ssa.Value
				for _, gc := range flattenConds(governing(b)) {
					if gc.Pol {
						continue
					}
					v := gc.V
					if ex, ok := v.(*ssa.Extract); ok {
						v = ex.Tuple
					}
					if lk, ok := v.(*ssa.Lookup); ok {
						if mt, ok := lk.X.Type().Underlying().(*types.Map); ok {
							if bt, ok := mt.Elem().Underlying().(*types.Basic); ok && bt.Kind() == types.Bool {
								set, setKey = lk.X, lk.Index
							}
						}
					}
				}
				recorded := false
				if set != nil {
					for _, in2 := range b.Instrs {
						if mu, ok := in2.(*ssa.MapUpdate); ok && mu.Map == set && (mu.Key == setKey || vpath(mu.Key) == vpath(setKey)) {
							recorded = true
						}
					}
				}
				switch {
				case set == nil:
					c.Bad(rule, key, call.Pos(), "a Go short variable declaration (%s) is emitted inside the reference loop without a seen-set guard: a second reference to the same symbol declares the variable again and the generated parser does not build", k.Value.ExactString())
				case !recorded:
					c.Bad(rule, key, call.Pos(), "the declaration is guarded by a seen-set but its key is not recorded: the next reference emits it again")
				default:
					c.Ok(rule, key, call.Pos(), "the declaration is emitted once per key (guarded by !seen[k], which is then set)")
				}
			}
		}
	}
	if n < 2 {
		c.add(rule, "count:", token.NoPos, CountDropped, true, "only %d in-loop emissions of ':=' found in package gen (2 in goParserAction confirmed by hand)", n)
	}
}

// INTERN(compare): IntSliceSet.Insert / IntSliceMap.Get intern int slices under a 64-bit hash
// (hash*31 + v). Equal hashes do not mean equal keys, so an *existing* entry may be returned
// only on the true edge of SliceEqual(key, entry.key); every other return hands out something
// fresh (the new index s.size, the newly allocated value). A hash-only shortcut merges distinct
// keys - in the DFA minimiser, distinct state signatures, i.e. states that behave differently.
func ruleINTERNCOMPARE(c *Ctx) {
	const rule = "INTERN(compare)"
	n := 0
	funcs := c.SrcFuncs("util/container")
	// instantiations of the generic IntSliceMap (the generic body itself has no SSA)
	if cp := c.SSAPkg("util/container"); cp != nil {
		seenOrigin := map[*ssa.Function]bool{}
		for fn := range ssautil.AllFunctions(c.Prog()) {
			if o := fn.Origin(); o != nil && o.Pkg == cp && fn.Blocks != nil && !seenOrigin[o] {
				seenOrigin[o] = true
				funcs = append(funcs, fn)
			}
		}
	}
	for _, f := range funcs {
		// a hash loop: multiplication by 31
		hashes := false
		for _, b := range f.Blocks {
			for _, ins := range b.Instrs {
				if bo, ok := ins.(*ssa.BinOp); ok && bo.Op == token.MUL {
					if k, ok := bo.Y.(*ssa.Const); ok && k.Value != nil && k.Value.ExactString() == "31" {
						hashes = true
					}
				}
			}
		}
		if !hashes {
			continue
		}
		ord := map[string]int{}
		for _, b := range f.Blocks {
			ret, ok := b.Instrs[len(b.Instrs)-1].(*ssa.Return)
			if !ok || len(ret.Results) != 1 {
				continue
			}
			n++
			key := ordKey(ord, ssaFuncKey(f)+":return")
			compared := false
			for _, g := range flattenConds(governing(b)) {
				if call, ok := g.V.(*ssa.Call); ok && g.Pol {
					if cal := call.Call.StaticCallee(); cal != nil && cal.Name() == "SliceEqual" {
						compared = true
					}
				}
			}
			v := ret.Results[0]
			fresh := false
			switch x := v.(type) {
			case *ssa.Call:
				fresh = x.Call.StaticCallee() == nil // the allocator callback
			case *ssa.UnOp:
				if fa, ok := x.X.(*ssa.FieldAddr); ok && fieldName(fa.X.Type(), fa.Field) == "size" {
					fresh = true
				}
			}
			switch {
			case compared:
				c.Ok(rule, key, ret.Pos(), "an existing entry is returned on the true edge of SliceEqual(key, entry.key)")
			case fresh:
				c.Ok(rule, key, ret.Pos(), "a fresh entry is returned (%s)", normalizePhi(vpath(v)))
			default:
				c.Bad(rule, key, ret.Pos(), "%s returns %s without having compared the keys: two different keys with the same hash are interned as one", f.Name(), normalizePhi(vpath(v)))
			}
		}
	}
	if n < 4 {
		c.add(rule, "count:", token.NoPos, CountDropped, true, "only %d returns of hashing containers found in util/container (IntSliceSet.Insert and IntSliceMap.Get have two each)", n)
	}
}

// GUARD(reuse-equal): Expand extracts lists, sets and nested choices into helper nonterminals
// named after their content (ProvisionalName). The name is not injective (parentheses are
// dropped, arrows and separators abbreviated), so an existing helper of the same name may be
// reused only if the expression is structurally equal to the helper's value: the reference to
// the *existing* symbol is created on the true edge of expr.Equal(existing value) and on no
// other path. Otherwise a second, different expression silently denotes the first one.
func ruleREUSEEQUAL(c *Ctx) {
	const rule = "GUARD(reuse-equal)"
	key := "syntax.expander.extractNonterm:reuse"
	f := c.SSAFunc("syntax", "(*expander).extractNonterm")
	if f == nil {
		c.Lost(rule, key, "function not found")
		return
	}
	// the index found in e.m
	var existing []ssa.Value
	for _, b := range f.Blocks {
		for _, ins := range b.Instrs {
			if ex, ok := ins.(*ssa.Extract); ok && ex.Index == 0 {
				if lk, ok := ex.Tuple.(*ssa.Lookup); ok && lk.CommaOk && strings.HasSuffix(vpath(lk.X), ".m") {
					existing = append(existing, ex)
				}
			}
		}
	}
	n := 0
	for _, b := range f.Blocks {
		for _, ins := range b.Instrs {
			st, ok := ins.(*ssa.Store)
			if !ok {
				continue
			}
			fa, ok := st.Addr.(*ssa.FieldAddr)
			if !ok || fieldName(fa.X.Type(), fa.Field) != "Symbol" {
				continue
			}
			// Symbol = len(Terminals) + existing ?
			uses := false
			var walk func(v ssa.Value, d int)
			walk = func(v ssa.Value, d int) {
				if d > 4 {
					return
				}
				for _, e := range existing {
					if v == e {
						uses = true
					}
				}
				if bo, ok := v.(*ssa.BinOp); ok {
					walk(bo.X, d+1)
					walk(bo.Y, d+1)
				}
			}
			walk(st.Val, 0)
			if !uses {
				continue
			}
			n++
			equal := false
			for _, g := range flattenConds(governing(b)) {
				if call, ok := g.V.(*ssa.Call); ok && g.Pol {
					if cal := call.Call.StaticCallee(); cal != nil && cal.Name() == "Equal" {
						equal = true
					}
				}
			}
			if equal {
				c.Ok(rule, key, st.Pos(), "an existing helper nonterminal is reused only on the true edge of expr.Equal(its value)")
			} else {
				c.Bad(rule, key, st.Pos(), "an existing helper nonterminal of the same provisional name is reused on a path that did not establish expr.Equal(its value): provisional names are not injective, so a different expression (e.g. a set with other parentheses) silently expands to the first one's rules")
			}
		}
	}
	if n < 1 {
		c.Lost(rule, key, "no reference to the existing helper (len(Terminals) + existing) found")
	}
}

// GUARD(comment-single-line): Symbol.Comment is printed by every target's token template as a
// line comment next to the token constant (`ID  // comment`). A comment that contains a line
// break ends the Go/TS/C++ comment early and the rest of it becomes part of the enum: an extra
// constant that shifts the value of every following token. resolveTokenComments takes the
// comment from the rule's constant pattern text, which may contain \n (/\nabc/); the text must
// pass a line-break test before it is stored.
func ruleCOMMENTLINE(c *Ctx) {
	const rule = "GUARD(comment-single-line)"
	key := "compiler.lexerCompiler.resolveTokenComments:newline"
	f := c.SSAFunc("compiler", "(*lexerCompiler).resolveTokenComments")
	if f == nil {
		c.Lost(rule, key, "function not found")
		return
	}
	var constVal ssa.Value
	for _, b := range f.Blocks {
		for _, ins := range b.Instrs {
			if ex, ok := ins.(*ssa.Extract); ok && ex.Index == 0 {
				if call, ok := ex.Tuple.(*ssa.Call); ok {
					if g := call.Call.StaticCallee(); g != nil && g.Name() == "Constant" {
						constVal = ex
					}
				}
			}
		}
	}
	if constVal == nil {
		c.Lost(rule, key, "the call of Regexp.Constant() was not found")
		return
	}
	for _, b := range f.Blocks {
		for _, ins := range b.Instrs {
			call, ok := ins.(*ssa.Call)
			if !ok {
				continue
			}
			g := call.Call.StaticCallee()
			if g == nil || g.Pkg == nil || g.Pkg.Pkg.Path() != "strings" || len(call.Call.Args) < 2 || call.Call.Args[0] != constVal {
				continue
			}
			if k, ok := call.Call.Args[1].(*ssa.Const); ok && k.Value != nil && strings.Contains(k.Value.ExactString(), `\n`) {
				c.Ok(rule, key, call.Pos(), "the constant text of a pattern is tested for line breaks before it becomes a token comment")
				return
			}
		}
	}
	c.Bad(rule, key, f.Pos(), "the constant text of a lexer pattern becomes Symbol.Comment without a line-break test: for /\\nabc/ the generated token file contains `NL //` followed by a line `abc`, a stray enum constant that shifts the values of all following tokens")
}

// GUARD(next-element): inside `for i, x := range s`, a look at the next element s[i+1] is in
// range only after `i+1 < bound`; `i < bound` is always true there and lets the last iteration
// index one past the end (a panic inside Compile for grammars whose last nonterminal belongs to a
// template group). Every s[i+1] (and name[i+1]) in a loop over the same sequence is governed by
// a comparison whose left side is that very i+1.
func ruleNEXTELEMENT(c *Ctx, pkgs ...string) {
	const rule = "GUARD(next-element)"
	n := 0
	for _, rel := range pkgs {
		for _, f := range c.SrcFuncs(rel) {
			ord := map[string]int{}
			for _, b := range f.Blocks {
				for _, ins := range b.Instrs {
					var idx ssa.Value
					var base ssa.Value
					switch x := ins.(type) {
					case *ssa.IndexAddr:
						idx, base = x.Index, x.X
					case *ssa.Index:
						idx, base = x.Index, x.X
					case *ssa.Lookup:
						if _, isMap := x.X.Type().Underlying().(*types.Map); !isMap {
							idx, base = x.Index, x.X // string indexing
						}
					}
					if idx == nil {
						continue
					}
					bo, ok := idx.(*ssa.BinOp)
					if !ok || bo.Op != token.ADD {
						continue
					}
					if k, ok := bo.Y.(*ssa.Const); !ok || k.Value == nil || k.Int64() != 1 {
						continue
					}
					// bo.X is the counter of a range loop: (φ#rangeindex + 1)
					inner, ok := bo.X.(*ssa.BinOp)
					if !ok || inner.Op != token.ADD {
						continue
					}
					phi, ok := inner.X.(*ssa.Phi)
					if !ok || phi.Comment != "rangeindex" {
						continue
					}
					n++
					key := ordKey(ord, ssaFuncKey(f)+":"+normalizePhi(vpath(base))+"[i+1]")
					guarded := false
					for _, g := range flattenConds(governing(b)) {
						l, op, _, ok := cmpNormV(g.V, g.Pol)
						if ok && op == "<" && (l == idx || vpath(l) == vpath(idx)) {
							guarded = true
						}
					}
					if guarded {
						c.Ok(rule, key, ins.Pos(), "the look at the next element is governed by i+1 < bound")
					} else {
						c.Bad(rule, key, ins.Pos(), "%s is indexed with i+1 inside a range loop without a governing `i+1 < bound`: the last iteration reads one past the end and panics", normalizePhi(vpath(base)))
					}
				}
			}
		}
	}
	if n < 1 {
		c.add(rule, "count:", token.NoPos, CountDropped, true, "only %d next-element accesses found (Expand's m.Nonterms[i+1] confirmed by hand)", n)
	}
}

// SENTINEL(remap-absent): ActionVars.Remap maps a position of the original rule to a stack slot
// of one expansion; positions of symbols that are absent from the expansion have no entry, and
// slot 0 is a real slot. A lookup whose key is not known to be present (not taken from the
// `active` list, which is filled under a successful lookup) must use the comma-ok form, so that
// "absent" becomes -1 (rendered as nil / -1) and not "the first symbol of the rule".
func ruleREMAPABSENT(c *Ctx) {
	const rule = "SENTINEL(remap-absent)"
	n := 0
	for _, rel := range []string{"grammar", "gen"} {
		for _, f := range c.SrcFuncs(rel) {
			ord := map[string]int{}
			for _, b := range f.Blocks {
				for _, ins := range b.Instrs {
					lk, ok := ins.(*ssa.Lookup)
					if !ok || !strings.HasSuffix(vpath(lk.X), ".Remap") {
						continue
					}
					n++
					key := ordKey(ord, ssaFuncKey(f)+":Remap")
					if lk.CommaOk {
						c.Ok(rule, key, lk.Pos(), "comma-ok lookup: absence is distinguishable from slot 0")
						continue
					}
					// key taken from a local list of positions known to be present
					fromList := false
					if u, ok := lk.Index.(*ssa.UnOp); ok && u.Op == token.MUL {
						if ia, ok := u.X.(*ssa.IndexAddr); ok {
							switch ia.X.(type) {
							case *ssa.Phi, *ssa.Call, *ssa.Slice:
								fromList = true
							}
						}
					}
					if fromList {
						c.Ok(rule, key, lk.Pos(), "the key comes from the list of positions that passed a comma-ok lookup")
					} else {
						c.Bad(rule, key, lk.Pos(), "Remap[%s] is read without the comma-ok form: a position that is absent from this expansion yields slot 0, so a reference to an absent optional symbol reads the first symbol of the rule (with the absent symbol's type)", normalizePhi(vpath(lk.Index)))
					}
				}
			}
		}
	}
	if n < 4 {
		c.add(rule, "count:", token.NoPos, CountDropped, true, "only %d lookups in ActionVars.Remap found (5 in ActionVars.resolve confirmed by hand)", n)
	}
}

// PAIR(pop-propagation): an rhsRule carries two things that make symbols addressable from a
// semantic action: names (name -> positions) and argRefs. When a nested group is finished,
// popRule hands both to the enclosing rule - argRefs by append, names by copying every entry
// into the parent's map (pushName fills only the *top-level* rule's names directly). Without the
// names copy an action written inside a group cannot name a symbol of a deeper group: the
// compiler accepts the grammar and generation fails with `invalid reference`.
func rulePOPRULE(c *Ctx) {
	const rule = "PAIR(pop-propagation)"
	key := "compiler.syntaxLoader.popRule"
	f := c.SSAFunc("compiler", "(*syntaxLoader).popRule")
	if f == nil {
		c.Lost(rule, key, "function not found")
		return
	}
	loops := naturalLoops(f)
	argRefs, names := false, false
	var pos token.Pos = f.Pos()
	for _, b := range f.Blocks {
		for _, ins := range b.Instrs {
			switch x := ins.(type) {
			case *ssa.Store:
				if fa, ok := x.Addr.(*ssa.FieldAddr); ok && fieldName(fa.X.Type(), fa.Field) == "argRefs" {
					if call, ok := x.Val.(*ssa.Call); ok {
						if bi, ok := call.Call.Value.(*ssa.Builtin); ok && bi.Name() == "append" {
							argRefs = true
							pos = x.Pos()
						}
					}
				}
			case *ssa.MapUpdate:
				if strings.HasSuffix(vpath(x.Map), ".names") && innermostLoop(loops, b) != nil {
					names = true
				}
			}
		}
	}
	switch {
	case !argRefs:
		c.Lost(rule, key, "popRule no longer appends the nested rule's argRefs to its parent: restate the rule")
	case names:
		c.Ok(rule, key, pos, "popRule hands both the argRefs and the names of a finished nested group to the enclosing rule")
	default:
		c.Bad(rule, key, pos, "popRule appends the nested group's argRefs to the enclosing rule but does not copy its names: an action inside a group cannot refer by name to a symbol of a deeper group (generation fails with `invalid reference`)")
	}
}
