package main

import (
	"fmt"
	"go/token"

	"golang.org/x/tools/go/ssa"
)

// FIELDCOV(extract-pos): expandExpr replaces a sub-expression (set, list, optional list) by a
// reference to an extracted nonterminal. Semantic actions find the replaced symbol through its
// Pos ($name, ${x.offset}); the reference that is *returned* must therefore carry expr.Pos. When
// the reference is rebuilt on some path (the `(a separator b)*` wrapping), a store on the earlier
// value does not reach the returned one.
func ruleEXTRACTPOS(c *Ctx) {
	const rule = "FIELDCOV(extract-pos)"
	f := c.SSAFunc("syntax", "(*expander).expandExpr")
	if f == nil || len(f.Params) < 2 {
		c.Lost(rule, "syntax.expander.expandExpr", "function not found")
		return
	}
	isExtract := func(v ssa.Value) bool {
		call, ok := v.(*ssa.Call)
		if !ok {
			return false
		}
		g := call.Call.StaticCallee()
		return g != nil && g.Name() == "extractNonterm"
	}
	var fromExtract func(v ssa.Value, seen map[ssa.Value]bool) bool
	fromExtract = func(v ssa.Value, seen map[ssa.Value]bool) bool {
		if seen[v] {
			return false
		}
		seen[v] = true
		if isExtract(v) {
			return true
		}
		if p, ok := v.(*ssa.Phi); ok {
			for _, e := range p.Edges {
				if fromExtract(e, seen) {
					return true
				}
			}
		}
		return false
	}
	n := 0
	for _, b := range f.Blocks {
		if len(b.Instrs) == 0 {
			continue
		}
		ret, ok := b.Instrs[len(b.Instrs)-1].(*ssa.Return)
		if !ok || len(ret.Results) != 1 {
			continue
		}
		// the returned slice literal: slice of an alloc whose element 0 is stored
		sl, ok := ret.Results[0].(*ssa.Slice)
		if !ok {
			continue
		}
		al, ok := sl.X.(*ssa.Alloc)
		if !ok {
			continue
		}
		var elem ssa.Value
		for _, ref := range *al.Referrers() {
			if ia, ok := ref.(*ssa.IndexAddr); ok {
				for _, r2 := range *ia.Referrers() {
					if st, ok := r2.(*ssa.Store); ok {
						elem = st.Val
					}
				}
			}
		}
		if elem == nil || !fromExtract(elem, map[ssa.Value]bool{}) {
			continue
		}
		n++
		key := fmt.Sprintf("syntax.expander.expandExpr:return#%d", n)
		// a store elem.Pos = expr.Pos that dominates the return
		ok = false
		for _, ref := range *elem.Referrers() {
			fa, isFA := ref.(*ssa.FieldAddr)
			if !isFA || fieldName(fa.X.Type(), fa.Field) != "Pos" {
				continue
			}
			for _, r2 := range *fa.Referrers() {
				st, isSt := r2.(*ssa.Store)
				if !isSt || st.Addr != ssa.Value(fa) {
					continue
				}
				if vpath(st.Val) != "expr.Pos" {
					continue
				}
				if st.Block() == b || st.Block().Dominates(b) {
					ok = true
				}
			}
		}
		if ok {
			c.Ok(rule, key, ret.Pos(), "the returned reference to the extracted nonterminal receives expr.Pos on every path to this return")
		} else {
			c.Bad(rule, key, ret.Pos(), "the reference returned in place of the extracted sub-expression does not receive expr.Pos on every path (it is rebuilt after the store, or never stored): $-references to this symbol resolve as absent")
		}
	}
	if n < 2 {
		c.add(rule, "count:", token.NoPos, CountDropped, true, "only %d returns of an extracted reference found in expandExpr (set and list confirmed by hand)", n)
	}
}
