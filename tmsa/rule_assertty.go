package main

import (
	"fmt"
	"go/ast"
	"go/token"
	"go/types"
)

// ASSERTTY: (*optionsParser).parseExpr(v, d) returns either a value of d's dynamic type or d
// itself; every unchecked assertion on its result must therefore assert exactly the static
// type of d, otherwise using that option in a grammar panics the compiler.
func ruleASSERTTY(c *Ctx) {
	const rule = "ASSERTTY"
	p := c.Pkg("compiler")
	if p == nil {
		c.Lost(rule, "compiler", "package not loaded")
		return
	}
	n := 0
	for _, f := range p.Syntax {
		for _, d := range f.Decls {
			fd, ok := d.(*ast.FuncDecl)
			if !ok || fd.Body == nil {
				continue
			}
			ord := 0
			ast.Inspect(fd.Body, func(nd ast.Node) bool {
				ta, ok := nd.(*ast.TypeAssertExpr)
				if !ok || ta.Type == nil {
					return true
				}
				call, ok := ta.X.(*ast.CallExpr)
				if !ok || len(call.Args) != 2 {
					return true
				}
				sel, ok := call.Fun.(*ast.SelectorExpr)
				if !ok || sel.Sel.Name != "parseExpr" {
					return true
				}
				n++
				ord++
				// only the comma-ok form is checked at run time
				asserted := p.TypesInfo.TypeOf(ta.Type)
				def := p.TypesInfo.TypeOf(call.Args[1])
				key := fmt.Sprintf("%s:parseExpr(%s)", c.funcKey(p, fd), types.ExprString(call.Args[1]))
				if asserted != nil && def != nil && types.Identical(asserted, def) {
					c.Ok(rule, key, ta.Pos(), "asserts %s, the type of the default value", types.TypeString(asserted, nil))
				} else {
					c.Bad(rule, key, ta.Pos(), "parseExpr(…, %s) yields a %v but the result is asserted to be %v: a grammar that sets this option panics the compiler", types.ExprString(call.Args[1]), def, asserted)
				}
				return true
			})
		}
	}
	if n < 30 {
		c.add(rule, "count:", token.NoPos, CountDropped, true, "only %d parseExpr assertions found in package compiler (>= 30 options confirmed by hand)", n)
	}
}
