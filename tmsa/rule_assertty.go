package main

import (
	"fmt"
	"go/ast"
	"go/token"
	"go/types"
	"strconv"
	"strings"
)

// ASSERTTY: (*optionsParser).parseExpr(v, d) returns either a value of d's dynamic type or d
// itself; every unchecked assertion on its result must therefore assert exactly the static
// type of d, otherwise using that option in a grammar panics the compiler.
func ruleASSERTTY(c *Ctx) {
	const rule = "ASSERTTY"
	p := c.Pkg("compiler")
	if p == nil {
		c.Lost(rule, "compiler", "package not loaded")
		return
	}
	n := 0
	for _, f := range p.Syntax {
		for _, d := range f.Decls {
			fd, ok := d.(*ast.FuncDecl)
			if !ok || fd.Body == nil {
				continue
			}
			ord := 0
			ast.Inspect(fd.Body, func(nd ast.Node) bool {
				ta, ok := nd.(*ast.TypeAssertExpr)
				if !ok || ta.Type == nil {
					return true
				}
				call, ok := ta.X.(*ast.CallExpr)
				if !ok || len(call.Args) != 2 {
					return true
				}
				sel, ok := call.Fun.(*ast.SelectorExpr)
				if !ok || sel.Sel.Name != "parseExpr" {
					return true
				}
				n++
				ord++
				// only the comma-ok form is checked at run time
				asserted := p.TypesInfo.TypeOf(ta.Type)
				def := p.TypesInfo.TypeOf(call.Args[1])
				key := fmt.Sprintf("%s:parseExpr(%s)", c.funcKey(p, fd), types.ExprString(call.Args[1]))
				if asserted != nil && def != nil && types.Identical(asserted, def) {
					c.Ok(rule, key, ta.Pos(), "asserts %s, the type of the default value", types.TypeString(asserted, nil))
				} else {
					c.Bad(rule, key, ta.Pos(), "parseExpr(…, %s) yields a %v but the result is asserted to be %v: a grammar that sets this option panics the compiler", types.ExprString(call.Args[1]), def, asserted)
				}
				return true
			})
		}
	}
	if n < 30 {
		c.add(rule, "count:", token.NoPos, CountDropped, true, "only %d parseExpr assertions found in package compiler (>= 30 options confirmed by hand)", n)
	}
}

// optionFieldExceptions: option keys whose Options field is not the capitalised key.
var optionFieldExceptions = map[string]string{
	"genCopyright":        "Copyright",
	"abseilIncludePrefix": "AbslIncludePrefix",
}

// OPTIONMAP: every `case "<key>"` of the options switch assigns the field that belongs to the
// key, and parses the value against that same field's default.
func ruleOPTIONMAP(c *Ctx) {
	const rule = "OPTIONMAP"
	p := c.Pkg("compiler")
	if p == nil {
		c.Lost(rule, "compiler", "package not loaded")
		return
	}
	n := 0
	for _, f := range p.Syntax {
		ast.Inspect(f, func(nd ast.Node) bool {
			cc, ok := nd.(*ast.CaseClause)
			if !ok || len(cc.List) != 1 {
				return true
			}
			bl, ok := cc.List[0].(*ast.BasicLit)
			if !ok || bl.Kind != token.STRING {
				return true
			}
			key, _ := strconv.Unquote(bl.Value)
			for _, st := range cc.Body {
				as, ok := st.(*ast.AssignStmt)
				if !ok || len(as.Lhs) != 1 || len(as.Rhs) != 1 {
					continue
				}
				lhs, ok := as.Lhs[0].(*ast.SelectorExpr)
				if !ok || types.ExprString(lhs.X) != "opts" {
					continue
				}
				ta, ok := as.Rhs[0].(*ast.TypeAssertExpr)
				if !ok {
					continue
				}
				call, ok := ta.X.(*ast.CallExpr)
				if !ok || len(call.Args) != 2 {
					continue
				}
				if sel, ok := call.Fun.(*ast.SelectorExpr); !ok || sel.Sel.Name != "parseExpr" {
					continue
				}
				n++
				k := "compiler.options:" + key
				def := types.ExprString(call.Args[1])
				want := strings.ToUpper(key[:1]) + key[1:]
				if ex, ok := optionFieldExceptions[key]; ok {
					want = ex
				}
				switch {
				case def != "opts."+lhs.Sel.Name:
					c.Bad(rule, k, as.Pos(), "option %q assigns opts.%s but parses the value against the default of %s", key, lhs.Sel.Name, def)
				case lhs.Sel.Name != want:
					c.Bad(rule, k, as.Pos(), "option %q sets opts.%s; the option's own field is opts.%s (a grammar that sets %q silently changes another option)", key, lhs.Sel.Name, want, key)
				default:
					c.Ok(rule, k, as.Pos(), "sets opts.%s from its own default", lhs.Sel.Name)
				}
			}
			return true
		})
	}
	if n < 40 {
		c.add(rule, "count:", token.NoPos, CountDropped, true, "only %d option assignments found (>= 40 confirmed by hand)", n)
	}
}
