package main

import (
	"fmt"
	"go/ast"
	"go/token"
	"go/types"
	"strconv"
	"strings"
)

// ASSERTTY: (*optionsParser).parseExpr(v, d) returns either a value of d's dynamic type or d
// itself; every unchecked assertion on its result must therefore assert exactly the static
// type of d, otherwise using that option in a grammar panics the compiler.
func ruleASSERTTY(c *Ctx) {
	const rule = "ASSERTTY"
	p := c.Pkg("compiler")
	if p == nil {
		c.Lost(rule, "compiler", "package not loaded")
		return
	}
	n := 0
	for _, f := range p.Syntax {
		for _, d := range f.Decls {
			fd, ok := d.(*ast.FuncDecl)
			if !ok || fd.Body == nil {
				continue
			}
			ord := 0
			ast.Inspect(fd.Body, func(nd ast.Node) bool {
				ta, ok := nd.(*ast.TypeAssertExpr)
				if !ok || ta.Type == nil {
					return true
				}
				call, ok := ta.X.(*ast.CallExpr)
				if !ok || len(call.Args) != 2 {
					return true
				}
				sel, ok := call.Fun.(*ast.SelectorExpr)
				if !ok || sel.Sel.Name != "parseExpr" {
					return true
				}
				n++
				ord++
				// only the comma-ok form is checked at run time
				asserted := p.TypesInfo.TypeOf(ta.Type)
				def := p.TypesInfo.TypeOf(call.Args[1])
				key := fmt.Sprintf("%s:parseExpr(%s)", c.funcKey(p, fd), types.ExprString(call.Args[1]))
				if asserted != nil && def != nil && types.Identical(asserted, def) {
					c.Ok(rule, key, ta.Pos(), "asserts %s, the type of the default value", types.TypeString(asserted, nil))
				} else {
					c.Bad(rule, key, ta.Pos(), "parseExpr(…, %s) yields a %v but the result is asserted to be %v: a grammar that sets this option panics the compiler", types.ExprString(call.Args[1]), def, asserted)
				}
				return true
			})
		}
	}
	if n < 30 {
		c.add(rule, "count:", token.NoPos, CountDropped, true, "only %d parseExpr assertions found in package compiler (>= 30 options confirmed by hand)", n)
	}
}

// optionFieldExceptions: option keys whose Options field is not the capitalised key.
var optionFieldExceptions = map[string]string{
	"genCopyright":        "Copyright",
	"abseilIncludePrefix": "AbslIncludePrefix",
}

// OPTIONMAP: every `case "<key>"` of the options switch assigns the field that belongs to the
// key, and parses the value against that same field's default.
func ruleOPTIONMAP(c *Ctx) {
	const rule = "OPTIONMAP"
	p := c.Pkg("compiler")
	if p == nil {
		c.Lost(rule, "compiler", "package not loaded")
		return
	}
	n := 0
	for _, f := range p.Syntax {
		ast.Inspect(f, func(nd ast.Node) bool {
			cc, ok := nd.(*ast.CaseClause)
			if !ok || len(cc.List) != 1 {
				return true
			}
			bl, ok := cc.List[0].(*ast.BasicLit)
			if !ok || bl.Kind != token.STRING {
				return true
			}
			key, _ := strconv.Unquote(bl.Value)
			for _, st := range cc.Body {
				as, ok := st.(*ast.AssignStmt)
				if !ok || len(as.Lhs) != 1 || len(as.Rhs) != 1 {
					continue
				}
				lhs, ok := as.Lhs[0].(*ast.SelectorExpr)
				if !ok || types.ExprString(lhs.X) != "opts" {
					continue
				}
				ta, ok := as.Rhs[0].(*ast.TypeAssertExpr)
				if !ok {
					continue
				}
				call, ok := ta.X.(*ast.CallExpr)
				if !ok || len(call.Args) != 2 {
					continue
				}
				if sel, ok := call.Fun.(*ast.SelectorExpr); !ok || sel.Sel.Name != "parseExpr" {
					continue
				}
				n++
				k := "compiler.options:" + key
				def := types.ExprString(call.Args[1])
				want := strings.ToUpper(key[:1]) + key[1:]
				if ex, ok := optionFieldExceptions[key]; ok {
					want = ex
				}
				switch {
				case def != "opts."+lhs.Sel.Name:
					c.Bad(rule, k, as.Pos(), "option %q assigns opts.%s but parses the value against the default of %s", key, lhs.Sel.Name, def)
				case lhs.Sel.Name != want:
					c.Bad(rule, k, as.Pos(), "option %q sets opts.%s; the option's own field is opts.%s (a grammar that sets %q silently changes another option)", key, lhs.Sel.Name, want, key)
				default:
					c.Ok(rule, k, as.Pos(), "sets opts.%s from its own default", lhs.Sel.Name)
				}
			}
			return true
		})
	}
	if n < 40 {
		c.add(rule, "count:", token.NoPos, CountDropped, true, "only %d option assignments found (>= 40 confirmed by hand)", n)
	}
}

// lalrOptionRenames: fields of lalr.Options whose source option has another name.
var lalrOptionRenames = map[string]string{
	"Optimize": "OptimizeTables", // grammar option optimizeTables
	"Debug":    "DebugTables",    // compiler.Params.DebugTables
}

// AGREE(option-plumbing): the table generator is configured from the grammar's options through
// one composite literal lalr.Options{...} in compileParser. Each field that is filled from a
// field of grammar.Options or compiler.Params must be filled from the field of the same name
// (two audited renames). A neighbouring bool of the same record type-checks just as well and
// silently turns, say, noEmptyRules into defaultReduce.
func ruleOPTPLUMBING(c *Ctx) {
	const rule = "AGREE(option-plumbing)"
	pkg := c.Pkg("compiler")
	if pkg == nil {
		c.Lost(rule, "compiler", "package not loaded")
		return
	}
	n := 0
	for _, file := range pkg.Syntax {
		ast.Inspect(file, func(nd ast.Node) bool {
			cl, ok := nd.(*ast.CompositeLit)
			if !ok {
				return true
			}
			t := pkg.TypesInfo.TypeOf(cl)
			if t == nil || !isNamedType(t, "lalr", "Options") {
				return true
			}
			for _, el := range cl.Elts {
				kv, ok := el.(*ast.KeyValueExpr)
				if !ok {
					continue
				}
				k, ok := kv.Key.(*ast.Ident)
				if !ok {
					continue
				}
				// selectors X.Options.F / X.params.F inside the value
				ast.Inspect(kv.Value, func(v ast.Node) bool {
					sel, ok := v.(*ast.SelectorExpr)
					if !ok {
						return true
					}
					inner, ok := sel.X.(*ast.SelectorExpr)
					if !ok || (inner.Sel.Name != "Options" && inner.Sel.Name != "params") {
						return true
					}
					if inner.Sel.Name == "params" && ast.Node(sel) != ast.Node(kv.Value) {
						return true // an extra gate from the invocation (…&& !c.params.CheckOnly), not the source
					}
					n++
					key := "compiler.compileParser:lalr.Options." + k.Name
					want := k.Name
					if r, ok := lalrOptionRenames[k.Name]; ok {
						want = r
					}
					if sel.Sel.Name == want {
						c.Ok(rule, key, kv.Pos(), "lalr.Options.%s is filled from %s.%s", k.Name, inner.Sel.Name, sel.Sel.Name)
					} else {
						c.Bad(rule, key, kv.Pos(), "lalr.Options.%s is filled from %s.%s, expected %s.%s: another option switches this behaviour of the table generator on", k.Name, inner.Sel.Name, sel.Sel.Name, inner.Sel.Name, want)
					}
					return false
				})
			}
			return true
		})
	}
	if n < 6 {
		c.add(rule, "count:", token.NoPos, CountDropped, true, "only %d option-sourced fields of lalr.Options found (7 confirmed by hand)", n)
	}
}
