package main

import (
	"go/token"
	"strings"

	"golang.org/x/tools/go/ssa"
)

// CODEC(runemap): lex.(*Tables).CompressedMap writes entries {Lo, Hi, Vals} that cover the
// half-open rune interval [Lo, Hi) (its fill loop runs `for i := lo; i < hi`). Every generated
// mapRune must return a value of entry r only under c >= r.lo and c < r.hi, move right
// (lo = m+1) exactly when c >= r.hi and left (hi = m) exactly when c < r.lo. With `c > r.hi`
// the rune equal to Hi — the first rune of the *next* class — is looked up in this entry.
func ruleRUNEMAP(c *Ctx) {
	const rule = "CODEC(runemap)"
	// writer: which comparison bounds the fill loop
	wop := ""
	for _, f := range c.SrcFuncs("lex") {
		if f.Parent() == nil || f.Parent().Name() != "CompressedMap" || len(f.Params) != 4 {
			continue
		}
		for _, lp := range naturalLoops(f) {
			for _, ins := range lp.Header.Instrs {
				if ifi, ok := ins.(*ssa.If); ok {
					if l, op, r, ok := cmpNormV(ifi.Cond, true); ok {
						if _, isPhi := stripConv(l).(*ssa.Phi); isPhi && stripConv(r) == ssa.Value(f.Params[1]) {
							wop = op
						}
					}
				}
			}
		}
	}
	var upper string // reader's "inside" comparison against hi
	switch wop {
	case "<":
		upper = "<"
	case "<=":
		upper = "<="
	default:
		c.Lost(rule, "lex.Tables.CompressedMap:fill-loop", "the fill loop `for i := lo; i < hi` of CompressedMap's consume closure was not found (got %q)", wop)
		return
	}
	c.Ok(rule, "lex.Tables.CompressedMap:fill-loop", token.NoPos, "writer fills Vals for lo <= i %s hi: entries are %s intervals", wop, map[string]string{"<": "half-open [Lo,Hi)", "<=": "closed [Lo,Hi]"}[wop])
	n := 0
	for _, rel := range lexerPkgs {
		f := c.SSAFunc(rel, "mapRune")
		if f == nil {
			continue
		}
		n++
		key := ssaFuncKey(f) + ":bounds"
		var probs []string
		nret := 0
		for _, b := range f.Blocks {
			if len(b.Instrs) == 0 {
				continue
			}
			last := b.Instrs[len(b.Instrs)-1]
			conds := map[string]bool{}
			for _, g := range flattenConds(governing(b)) {
				l, op, r, ok := cmpNorm(g.V, g.Pol)
				if !ok {
					continue
				}
				if r == "c" { // X < c  ==  c > X
					l, r = r, l
					op = map[string]string{"<": ">", "<=": ">=", "==": "==", "!=": "!="}[op]
				}
				if l != "c" {
					continue
				}
				switch {
				case strings.HasSuffix(r, ".lo"):
					conds["lo"+op] = true
				case strings.HasSuffix(r, ".hi"):
					conds["hi"+op] = true
				}
			}
			switch y := last.(type) {
			case *ssa.Return:
				// returns that read the entry
				readsEntry := false
				for _, ins := range b.Instrs {
					if u, ok := ins.(*ssa.UnOp); ok && u.Op == token.MUL {
						if p := vpath(u.X); strings.HasSuffix(p, ".defaultVal") || strings.Contains(p, ".val") {
							readsEntry = true
						}
					}
				}
				if !readsEntry {
					continue
				}
				nret++
				if !conds["lo>="] || !conds["hi"+upper] {
					probs = append(probs, "a value of the entry is returned without both c >= r.lo and c "+upper+" r.hi at "+c.Fset.Position(y.Pos()).String())
				}
			case *ssa.Jump:
				// back edges that move the search window
				for _, ins := range b.Instrs {
					bo, ok := ins.(*ssa.BinOp)
					if !ok || bo.Op != token.ADD {
						continue
					}
					if k, ok := bo.Y.(*ssa.Const); ok && k.Value != nil && k.Int64() == 1 {
						// lo = m + 1
						want := "hi" + map[string]string{"<": ">=", "<=": ">"}[upper]
						if !conds[want] {
							probs = append(probs, "the search moves right (lo = m+1) without c "+want[2:]+" r.hi")
						}
					}
				}
			}
		}
		if nret == 0 {
			c.Lost(rule, key, "mapRune no longer returns values of a range entry; re-audit")
			continue
		}
		if len(probs) > 0 {
			c.Bad(rule, key, f.Pos(), "%s", strings.Join(probs, "; "))
			continue
		}
		c.Ok(rule, key, f.Pos(), "entry values are returned only for r.lo <= c %s r.hi and the search moves right only beyond that bound, matching the writer's intervals", upper)
	}
	if n < 3 {
		c.add(rule, "count:", token.NoPos, CountDropped, true, "only %d generated mapRune functions found (js, simple, test confirmed by hand)", n)
	}
}
