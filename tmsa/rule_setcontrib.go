package main

import (
	"fmt"
	"strings"

	"golang.org/x/tools/go/ssa"
)

// MUSTPASS(set-contribution): a nonterminal defined as set(...) (and every in-rule set(...)) is
// a rule with an empty right-hand side plus a set index. In the Any/First/Last cases of
// ResolveSets each rule of the nonterminal must reach the test `rules[r].set >= 0` (which feeds
// the set's terminals into the result) on every path through its iteration: a `continue` for
// empty right-hand sides skips exactly the rules that carry a set.
func ruleSETCONTRIB(c *Ctx) {
	const rule = "MUSTPASS(set-contribution)"
	f := c.SSAFunc("syntax", "ResolveSets")
	if f == nil {
		c.Lost(rule, "syntax.ResolveSets", "function not found")
		return
	}
	loops := naturalLoops(f)
	n := 0
	for _, b := range f.Blocks {
		if len(b.Instrs) == 0 {
			continue
		}
		ifi, ok := b.Instrs[len(b.Instrs)-1].(*ssa.If)
		if !ok {
			continue
		}
		l, op, r, ok := cmpNorm(ifi.Cond, true)
		if !ok || op != "<=" || l != "0" || !strings.HasSuffix(r, ".set") {
			continue
		}
		lp := innermostLoop(loops, b)
		if lp == nil {
			continue
		}
		n++
		key := fmt.Sprintf("syntax.ResolveSets:set-test#%d", n)
		skipped := false
		for _, s := range lp.Header.Succs {
			if lp.Body[s] && s != b && reachesWithout(s, lp.Header, b) {
				skipped = true
			}
		}
		if skipped {
			c.Bad(rule, key, ifi.Cond.Pos(), "some path through the per-rule iteration reaches the next rule without testing rules[r].set: the terminals of set-defined nonterminals are lost from this set")
		} else {
			c.Ok(rule, key, ifi.Cond.Pos(), "every rule of the nonterminal reaches the rules[r].set test (set-defined nonterminals contribute their terminals)")
		}
	}
	if n < 3 {
		c.Lost(rule, "syntax.ResolveSets:set-test", "only %d tests of rules[r].set >= 0 found (Any, First, Last confirmed by hand)", n)
	}
}
