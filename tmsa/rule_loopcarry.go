package main

import (
	"fmt"
	"go/token"
	"go/types"

	"golang.org/x/tools/go/ssa"
)

// PERITEM(flag): a boolean field of a record built once per loop iteration (and appended or
// stored per item) must be computed from that iteration's item: a value carried around the
// loop (a header phi of an enclosing loop) makes the flag of one item depend on the items
// before it ("sticky" flags).
func rulePERITEM(c *Ctx, pkgs ...string) {
	const rule = "PERITEM(flag)"
	n := 0
	for _, rel := range pkgs {
		for _, f := range c.SrcFuncs(rel) {
			loops := naturalLoops(f)
			if len(loops) == 0 {
				continue
			}
			ord := map[string]int{}
			for _, b := range f.Blocks {
				for _, ins := range b.Instrs {
					st, ok := ins.(*ssa.Store)
					if !ok {
						continue
					}
					fa, ok := st.Addr.(*ssa.FieldAddr)
					if !ok {
						continue
					}
					if bt, ok := st.Val.Type().Underlying().(*types.Basic); !ok || bt.Kind() != types.Bool {
						continue
					}
					base := fa.X
					if ia, ok := base.(*ssa.IndexAddr); ok {
						base = ia.X // element of append's variadic array
					}
					al, ok := base.(*ssa.Alloc)
					if !ok {
						continue
					}
					// the record is created inside a loop iteration
					lp := innermostLoop(loops, al.Block())
					if lp == nil || !lp.Body[b] {
						continue
					}
					rec := fa.X.Type().(*types.Pointer).Elem()
					stt := rec.Underlying().(*types.Struct)
					fname := stt.Field(fa.Field).Name()
					n++
					key := ordKey(ord, fmt.Sprintf("%s:%s.%s", ssaFuncKey(f), types.TypeString(rec, func(p *types.Package) string { return p.Name() }), fname))
					// loop-carried dependency?
					var carried *ssa.Phi
					seen := map[ssa.Value]bool{}
					var walk func(v ssa.Value)
					walk = func(v ssa.Value) {
						if v == nil || seen[v] || carried != nil {
							return
						}
						seen[v] = true
						switch y := v.(type) {
						case *ssa.Phi:
							for _, l := range loops {
								if l.Header == y.Block() && l.Body[b] {
									carried = y
									return
								}
							}
							for _, e := range y.Edges {
								walk(e)
							}
						case *ssa.BinOp:
							walk(y.X)
							walk(y.Y)
						case *ssa.UnOp:
							if y.Op == token.NOT {
								walk(y.X)
							}
						}
					}
					walk(st.Val)
					if carried != nil {
						c.Bad(rule, key, st.Pos(), "field %s of the per-iteration record is computed from %s, a value carried around the enclosing loop: the flag of one item depends on earlier items", fname, carried.Comment)
						continue
					}
					c.Ok(rule, key, st.Pos(), "field %s of the per-iteration record depends only on values of the current iteration", fname)
				}
			}
		}
	}
	_ = n
}
