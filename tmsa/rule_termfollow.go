package main

import (
	"fmt"
	"go/token"
	"strings"

	"golang.org/x/tools/go/ssa"
)

// GUARD(terminal-follow): with lalr(k), k > 1, follow sets hold terminal *transitions* and the
// deep-lookahead trie chains through follow[terminal transition]. buildLA fills follow[] in two
// phases (in-rule: successors of the target state; cross-rule: the follow set of the enclosing
// goto is handed down to the symbols that end the rule). Each phase must contribute to terminal
// transitions when useTransitions is on: a selectGoto(state, terminal) under the conditions
// `symbol < Terminals` and `useTransitions`. A phase without it leaves those follow sets short
// and the trie rejects sentences without any conflict being reported.
func ruleTERMFOLLOW(c *Ctx) {
	const rule = "GUARD(terminal-follow)"
	f := c.SSAFunc("lalr", "(*compiler).buildLA")
	if f == nil {
		c.Lost(rule, "lalr.compiler.buildLA", "function not found")
		return
	}
	loops := naturalLoops(f)
	// phases: outermost loops over the gotos (`for gt := range follow`) — identified by what they
	// call: phase 1 builds sets with (*sparse.Builder).Build, phase 2 records lookbacks
	phaseOf := func(b *ssa.BasicBlock) string {
		var outer *natLoop
		for _, l := range loops {
			if l.Body[b] && (outer == nil || len(l.Body) > len(outer.Body)) {
				outer = l
			}
		}
		if outer == nil {
			return ""
		}
		for bb := range outer.Body {
			for _, ins := range bb.Instrs {
				call, ok := ins.(ssa.CallInstruction)
				if !ok {
					continue
				}
				if g := resolveCallee(call); g != nil {
					switch {
					case strings.HasSuffix(calleeName(g), "Builder.Build"):
						return "in-rule"
					case g.Parent() == f && callsNamed(g, "log.Fatal"):
						return "cross-rule" // addLookback
					}
				}
			}
		}
		return ""
	}
	found := map[string]token.Pos{}
	var termBlk, ntBlk *ssa.BasicBlock
	for _, b := range f.Blocks {
		for _, ins := range b.Instrs {
			call, ok := ins.(*ssa.Call)
			if !ok {
				continue
			}
			g := call.Call.StaticCallee()
			if g == nil || g.Name() != "selectGoto" {
				continue
			}
			isTerm, underUT := false, false
			for _, gc := range flattenConds(governing(b)) {
				if l, op, r, ok := cmpNorm(gc.V, gc.Pol); ok && op == "<" && strings.HasSuffix(r, ".Terminals") && l != "" {
					isTerm = true
				}
				if p, ok := gc.V.(*ssa.Parameter); ok && p.Name() == "useTransitions" && gc.Pol {
					underUT = true
				}
			}
			if isTerm && underUT {
				if ph := phaseOf(b); ph != "" {
					found[ph] = call.Pos()
					if ph == "cross-rule" {
						termBlk = b
					}
				}
			} else if !isTerm {
				if ph := phaseOf(b); ph == "cross-rule" && innermostLoop(loops, b) != nil {
					ntBlk = b
				}
			}
		}
	}
	// the terminal case belongs to the same backward walk over the rule's tail as the
	// nonterminal case: a terminal followed only by nullable nonterminals inherits as well
	if termBlk != nil && ntBlk != nil {
		key := "lalr.compiler.buildLA:cross-rule-walk"
		ln := innermostLoop(loops, ntBlk)
		// the terminal branch ends in `break`, so it is not part of the natural loop; it belongs to
		// the walk when the walk's header dominates it
		// ... and under nothing else inside the walk: a further condition on the position in the
		// rule re-introduces "only when the terminal is the last symbol"
		var extra []string
		if ln != nil {
			for _, gc := range flattenConds(governing(termBlk)) {
				ib := gc.If.Block()
				if ib == ln.Header || !ln.Header.Dominates(ib) {
					continue
				}
				if l, op, r, ok := cmpNorm(gc.V, gc.Pol); ok && op == "<" && strings.HasSuffix(r, ".Terminals") && l != "" {
					continue
				}
				if p, ok := gc.V.(*ssa.Parameter); ok && p.Name() == "useTransitions" {
					continue
				}
				extra = append(extra, normalizePhi(vpath(gc.V)))
			}
		}
		if len(extra) > 0 {
			c.Bad(rule, key, termBlk.Instrs[0].Pos(), "the terminal case of the backward walk is additionally conditioned on %v: a terminal followed by nullable nonterminals no longer inherits the outer follow set", extra)
		} else if ln != nil && ln.Header.Dominates(termBlk) && ln.Header != termBlk {
			c.Ok(rule, key, termBlk.Instrs[0].Pos(), "terminal and nonterminal symbols of a rule's tail are handled by the same backward walk (a terminal followed by nullable nonterminals inherits the outer follow set too)")
		} else {
			c.Bad(rule, key, termBlk.Instrs[0].Pos(), "the terminal case of the cross-rule phase is not part of the backward walk over the rule's tail: only a terminal that is literally the last symbol inherits the outer follow set, a terminal followed by nullable nonterminals does not")
		}
	}
	for _, ph := range []string{"in-rule", "cross-rule"} {
		key := fmt.Sprintf("lalr.compiler.buildLA:%s", ph)
		if pos, ok := found[ph]; ok {
			c.Ok(rule, key, pos, "the %s phase adds the terminal transition selectGoto(state, terminal) under useTransitions", ph)
		} else {
			c.Bad(rule, key, f.Pos(), "the %s phase of buildLA never contributes to the follow set of a terminal transition under useTransitions: with lalr(k>1) the lookahead trie chains through follow sets that are short of what can follow the terminal (sentences rejected, no conflict reported)", ph)
		}
	}
}

func callsNamed(g *ssa.Function, name string) bool {
	for _, b := range g.Blocks {
		for _, ins := range b.Instrs {
			if call, ok := ins.(ssa.CallInstruction); ok {
				if h := call.Common().StaticCallee(); h != nil && calleeName(h) == name {
					return true
				}
			}
		}
	}
	return false
}
