package main

import (
	"fmt"
	"regexp"
	"sort"
	"strings"
	"text/template/parse"
)

// TMPL(negation): every emitted copy of a lookahead decision list applies the predicate's
// negation, in every option variant of the surrounding code (C08).
func ruleTMPLNEG(c *Ctx) {
	const rule = "TMPL(negation)"
	files, err := c.templates()
	if err != nil {
		c.Lost(rule, "gen/templates", "%v", err)
		return
	}
	n := 0
	for _, fn := range []string{"go_parser.go.tmpl"} {
		f := files[fn]
		if f == nil {
			c.Lost(rule, fn, "template not found")
			continue
		}
		names := make([]string, 0, len(f.Trees))
		for k := range f.Trees {
			names = append(names, k)
		}
		sort.Strings(names)
		for _, tn := range names {
			t := f.Trees[tn]
			walkTmpl(t.Root, nil, func(nd parse.Node, gs []tguard) {
				rn, ok := nd.(*parse.RangeNode)
				if !ok || !strings.Contains(rn.Pipe.String(), ".Cases") || !strings.Contains(rn.Pipe.String(), "rule") {
					return
				}
				n++
				key := fmt.Sprintf("%s#%s:range(%s)#%d", fn, tn, rn.Pipe.String(), n)
				// option variants under which a predicate call is emitted, and those under which the negation is emitted
				neg := map[string]bool{}
				variants := map[string]bool{}
				walkTmpl(rn.List, nil, func(m parse.Node, inner []tguard) {
					ctx := []string{}
					for _, g := range inner {
						if strings.Contains(g.Pipe, "Cancellable") {
							if g.Pol {
								ctx = append(ctx, "cancellable")
							} else {
								ctx = append(ctx, "!cancellable")
							}
						}
					}
					cs := strings.Join(ctx, ",")
					if in, ok := m.(*parse.IfNode); ok {
						if strings.Contains(in.Pipe.String(), "Cancellable") {
							variants["cancellable"] = true
							if in.ElseList != nil {
								variants["!cancellable"] = true
							}
						}
						if strings.Contains(in.Pipe.String(), ".Predicate.Negated") {
							// must emit "!"
							emits := false
							walkTmpl(in.List, nil, func(t2 parse.Node, _ []tguard) {
								if tx, ok := t2.(*parse.TextNode); ok && strings.Contains(string(tx.Text), "!") {
									emits = true
								}
							})
							if emits {
								neg[cs] = true
							}
						}
					}
				})
				if len(variants) == 0 {
					variants[""] = true
				}
				var missing []string
				for v := range variants {
					if !neg[v] {
						missing = append(missing, v)
					}
				}
				sort.Strings(missing)
				if len(missing) == 0 {
					c.addT(rule, key, tmplPos(f, rn), OK, "the decision list applies {{if .Predicate.Negated}}!{{end}} in every variant %v", keysOf(variants))
				} else {
					c.addT(rule, key, tmplPos(f, rn), Violation, "in variant(s) %v the emitted decision list tests the predicate without {{if .Predicate.Negated}}!{{end}}: a negated case (!P -> target) is taken when P holds", missing)
				}
			})
		}
	}
	if n < 2 {
		c.addT(rule, "count:", "", CountDropped, "only %d lookahead decision lists found in go_parser.go.tmpl (2 confirmed by hand)", n)
	}
}

func keysOf(m map[string]bool) []string {
	var k []string
	for x := range m {
		k = append(k, x)
	}
	sort.Strings(k)
	return k
}

var cmpCallRe = regexp.MustCompile(`\b(gt|ge|lt|le|eq|ne)\s+(\S+)\s+(\S+)`)

// TMPL(threshold): templates that decide together whether a helper is emitted and whether it
// is called must test the same quantity the same way (C17).
func ruleTMPLTHRESHOLD(c *Ctx) {
	const rule = "TMPL(threshold)"
	files, err := c.templates()
	if err != nil {
		c.Lost(rule, "gen/templates", "%v", err)
		return
	}
	type use struct{ fn, op, k, pos string }
	byQuantity := map[string][]use{}
	for _, fn := range sortedKeys(files) {
		if !strings.HasPrefix(fn, "go_") {
			continue
		}
		f := files[fn]
		for _, tn := range sortedTreeKeys(f.Trees) {
			walkTmpl(f.Trees[tn].Root, nil, func(nd parse.Node, _ []tguard) {
				var pipe string
				switch x := nd.(type) {
				case *parse.IfNode:
					pipe = x.Pipe.String()
				default:
					return
				}
				for _, m := range cmpCallRe.FindAllStringSubmatch(pipe, -1) {
					q, k := m[2], m[3]
					if !strings.HasPrefix(q, ".") || !regexp.MustCompile(`^\d+$`).MatchString(k) {
						continue
					}
					byQuantity[q] = append(byQuantity[q], use{fn, m[1], k, tmplPos(f, nd)})
				}
			})
		}
	}
	n := 0
	for _, q := range sortedKeysU(byQuantity) {
		uses := byQuantity[q]
		filesSeen := map[string]bool{}
		forms := map[string]bool{}
		for _, u := range uses {
			filesSeen[u.fn] = true
			forms[u.op+" "+u.k] = true
		}
		if len(filesSeen) < 2 {
			continue // a threshold used by a single file cannot disagree with itself across files
		}
		n++
		key := "threshold:" + q
		if len(forms) == 1 {
			c.addT(rule, key, uses[0].pos, OK, "%d tests of %s in %d templates all use `%s`", len(uses), q, len(filesSeen), keysOf(forms)[0])
		} else {
			var d []string
			for _, u := range uses {
				d = append(d, fmt.Sprintf("%s: %s %s", u.pos, u.op, u.k))
			}
			c.addT(rule, key, uses[0].pos, Violation, "templates disagree on the test of %s (%s): at the boundary value one file calls/declares what the other does not emit, and the generated package does not build", q, strings.Join(d, "; "))
		}
	}
	if n < 1 {
		c.addT(rule, "count:", "", CountDropped, "no numeric threshold shared between two Go templates found (LastMapEntry.Start confirmed by hand)")
	}
}

func sortedKeys(m map[string]*tmplFile) []string {
	var k []string
	for x := range m {
		k = append(k, x)
	}
	sort.Strings(k)
	return k
}

func sortedTreeKeys(m map[string]*parse.Tree) []string {
	var k []string
	for x := range m {
		k = append(k, x)
	}
	sort.Strings(k)
	return k
}

func sortedKeysU[T any](m map[string]T) []string {
	var k []string
	for x := range m {
		k = append(k, x)
	}
	sort.Strings(k)
	return k
}
