package main

import (
	"fmt"
	"go/ast"
	"go/token"
	"regexp"
	"sort"
	"strconv"
	"strings"
	"text/template/parse"
)

// TMPL(negation): every emitted copy of a lookahead decision list applies the predicate's
// negation, in every option variant of the surrounding code (C08).
func ruleTMPLNEG(c *Ctx) {
	const rule = "TMPL(negation)"
	files, err := c.templates()
	if err != nil {
		c.Lost(rule, "gen/templates", "%v", err)
		return
	}
	n := 0
	for _, fn := range []string{"go_parser.go.tmpl", "ts_parser.go.tmpl", "cc_parser_cc.go.tmpl"} {
		f := files[fn]
		if f == nil {
			c.Lost(rule, fn, "template not found")
			continue
		}
		names := make([]string, 0, len(f.Trees))
		for k := range f.Trees {
			names = append(names, k)
		}
		sort.Strings(names)
		for _, tn := range names {
			t := f.Trees[tn]
			walkTmpl(t.Root, nil, func(nd parse.Node, gs []tguard) {
				rn, ok := nd.(*parse.RangeNode)
				if !ok || !strings.Contains(rn.Pipe.String(), ".Cases") || !strings.Contains(rn.Pipe.String(), "rule") {
					return
				}
				n++
				key := fmt.Sprintf("%s#%s:range(%s)#%d", fn, tn, rn.Pipe.String(), n)
				// option variants under which a predicate call is emitted, and those under which the negation is emitted
				neg := map[string]bool{}
				variants := map[string]bool{}
				walkTmpl(rn.List, nil, func(m parse.Node, inner []tguard) {
					ctx := []string{}
					for _, g := range inner {
						if strings.Contains(g.Pipe, "Cancellable") {
							if g.Pol {
								ctx = append(ctx, "cancellable")
							} else {
								ctx = append(ctx, "!cancellable")
							}
						}
					}
					cs := strings.Join(ctx, ",")
					if in, ok := m.(*parse.IfNode); ok {
						if strings.Contains(in.Pipe.String(), "Cancellable") {
							variants["cancellable"] = true
							if in.ElseList != nil {
								variants["!cancellable"] = true
							}
						}
						if strings.Contains(in.Pipe.String(), ".Predicate.Negated") {
							// must emit "!"
							emits := false
							walkTmpl(in.List, nil, func(t2 parse.Node, _ []tguard) {
								if tx, ok := t2.(*parse.TextNode); ok && strings.Contains(string(tx.Text), "!") {
									emits = true
								}
							})
							if emits {
								neg[cs] = true
							}
						}
					}
				})
				if len(variants) == 0 {
					variants[""] = true
				}
				var missing []string
				for v := range variants {
					if !neg[v] {
						missing = append(missing, v)
					}
				}
				sort.Strings(missing)
				if len(missing) == 0 {
					c.addT(rule, key, tmplPos(f, rn), OK, "the decision list applies {{if .Predicate.Negated}}!{{end}} in every variant %v", keysOf(variants))
				} else {
					c.addT(rule, key, tmplPos(f, rn), Violation, "in variant(s) %v the emitted decision list tests the predicate without {{if .Predicate.Negated}}!{{end}}: a negated case (!P -> target) is taken when P holds", missing)
				}
			})
		}
	}
	if n < 2 {
		c.addT(rule, "count:", "", CountDropped, "only %d lookahead decision lists found in go_parser.go.tmpl (2 confirmed by hand)", n)
	}
}

func keysOf(m map[string]bool) []string {
	var k []string
	for x := range m {
		k = append(k, x)
	}
	sort.Strings(k)
	return k
}

var cmpCallRe = regexp.MustCompile(`\b(gt|ge|lt|le|eq|ne)\s+(\S+)\s+(\S+)`)

// TMPL(threshold): templates that decide together whether a helper is emitted and whether it
// is called must test the same quantity the same way (C17).
func ruleTMPLTHRESHOLD(c *Ctx) {
	const rule = "TMPL(threshold)"
	files, err := c.templates()
	if err != nil {
		c.Lost(rule, "gen/templates", "%v", err)
		return
	}
	type use struct{ fn, op, k, pos string }
	byQuantity := map[string][]use{}
	for _, fn := range sortedKeys(files) {
		if !strings.HasPrefix(fn, "go_") {
			continue
		}
		f := files[fn]
		for _, tn := range sortedTreeKeys(f.Trees) {
			walkTmpl(f.Trees[tn].Root, nil, func(nd parse.Node, _ []tguard) {
				var pipe string
				switch x := nd.(type) {
				case *parse.IfNode:
					pipe = x.Pipe.String()
				default:
					return
				}
				for _, m := range cmpCallRe.FindAllStringSubmatch(pipe, -1) {
					q, k := m[2], m[3]
					if !strings.HasPrefix(q, ".") || !regexp.MustCompile(`^\d+$`).MatchString(k) {
						continue
					}
					byQuantity[q] = append(byQuantity[q], use{fn, m[1], k, tmplPos(f, nd)})
				}
			})
		}
	}
	n := 0
	for _, q := range sortedKeysU(byQuantity) {
		uses := byQuantity[q]
		filesSeen := map[string]bool{}
		forms := map[string]bool{}
		for _, u := range uses {
			filesSeen[u.fn] = true
			forms[u.op+" "+u.k] = true
		}
		if len(filesSeen) < 2 {
			continue // a threshold used by a single file cannot disagree with itself across files
		}
		n++
		key := "threshold:" + q
		if len(forms) == 1 {
			c.addT(rule, key, uses[0].pos, OK, "%d tests of %s in %d templates all use `%s`", len(uses), q, len(filesSeen), keysOf(forms)[0])
		} else {
			var d []string
			for _, u := range uses {
				d = append(d, fmt.Sprintf("%s: %s %s", u.pos, u.op, u.k))
			}
			c.addT(rule, key, uses[0].pos, Violation, "templates disagree on the test of %s (%s): at the boundary value one file calls/declares what the other does not emit, and the generated package does not build", q, strings.Join(d, "; "))
		}
	}
	if n < 1 {
		c.addT(rule, "count:", "", CountDropped, "no numeric threshold shared between two Go templates found (LastMapEntry.Start confirmed by hand)")
	}
}

func sortedKeys(m map[string]*tmplFile) []string {
	var k []string
	for x := range m {
		k = append(k, x)
	}
	sort.Strings(k)
	return k
}

func sortedTreeKeys(m map[string]*parse.Tree) []string {
	var k []string
	for x := range m {
		k = append(k, x)
	}
	sort.Strings(k)
	return k
}

func sortedKeysU[T any](m map[string]T) []string {
	var k []string
	for x := range m {
		k = append(k, x)
	}
	sort.Strings(k)
	return k
}

// typesImplied: guard pipes that imply .Parser.Types != nil, each justified by one assignment
// in compiler/ (all of these are populated only under Options.EventBased / from arrows that
// need a node type).
var typesImplied = []string{".Parser.Types", ".Parser.UsedFlags", ".Parser.MappedTokens", "ReportTokens", "ReportsInvalidToken", "HasActionsWithReport", ".Lexer.UsedFlags", ".Report", "EventBased", "FixWhitespace", "ne .Type -1"}

func impliesTypes(gs []tguard) bool {
	for _, g := range gs {
		if !g.Pol && g.Kind == "if" {
			// an else-branch implies nothing, except else of `not X`
			continue
		}
		for _, k := range typesImplied {
			if strings.Contains(g.Pipe, k) && !strings.HasPrefix(strings.TrimSpace(g.Pipe), "not ") {
				return true
			}
		}
	}
	return false
}

// TMPLGUARD: in files generated for every Go parser (parser.go, parser_tables.go, stream.go),
// identifiers that exist only when the grammar has node types (listener.go: NodeType,
// NodeFlags, Listener) are referenced only under a guard that implies .Parser.Types.
func ruleTMPLGUARD(c *Ctx) {
	const rule = "TMPLGUARD"
	files, err := c.templates()
	if err != nil {
		c.Lost(rule, "gen/templates", "%v", err)
		return
	}
	refNames := map[string]bool{"nodeTypeRef": true, "nodeTypePkg": true, "nodeFlagsRef": true, "nodeFlagsPkg": true}
	n := 0
	// stream.go is written only under Options.TokenStream (gen.(*language).templates); when the
	// options parser refuses TokenStream without EventBased, the whole file implies node types
	impl := c.optionImplications()
	streamImpliesTypes := false
	for _, b := range impl["TokenStream"] {
		if b == "EventBased" {
			streamImpliesTypes = true
		}
	}
	for _, fn := range []string{"go_parser.go.tmpl", "go_parser_tables.go.tmpl", "go_stream.go.tmpl"} {
		f := files[fn]
		if f == nil {
			c.Lost(rule, fn, "template not found")
			continue
		}
		// call-site guards of every define in this file
		callGuards := map[string][][]tguard{}
		for _, tn := range sortedTreeKeys(f.Trees) {
			walkTmpl(f.Trees[tn].Root, nil, func(nd parse.Node, gs []tguard) {
				if t, ok := nd.(*parse.TemplateNode); ok {
					callGuards[t.Name] = append(callGuards[t.Name], append([]tguard{}, gs...))
				}
			})
		}
		var definedUnder func(def string, depth int) bool
		definedUnder = func(def string, depth int) bool {
			sites := callGuards[def]
			if len(sites) == 0 || depth > 3 {
				return false
			}
			for _, gs := range sites {
				if !impliesTypes(gs) {
					return false
				}
			}
			return true
		}
		for _, tn := range sortedTreeKeys(f.Trees) {
			ord := 0
			walkTmpl(f.Trees[tn].Root, nil, func(nd parse.Node, gs []tguard) {
				name := ""
				switch x := nd.(type) {
				case *parse.TemplateNode:
					if refNames[x.Name] {
						name = x.Name
					}
				case *parse.ActionNode:
					if strings.Contains(x.String(), "node_id ") {
						name = "node_id"
					}
				}
				if name == "" {
					return
				}
				n++
				ord++
				key := fmt.Sprintf("%s#%s:%s#%d", fn, tn, name, ord)
				switch {
				case impliesTypes(gs):
					c.addT(rule, key, tmplPos(f, nd), OK, "guarded by {%s}", guardsString(gs))
				case fn == "go_stream.go.tmpl" && streamImpliesTypes:
					c.addT(rule, key, tmplPos(f, nd), OK, "stream.go is generated only under tokenStream, which compiler.(*optionsParser).parseFrom refuses without eventBased (node types exist)")
				case tn != fn && definedUnder(tn, 0):
					c.addT(rule, key, tmplPos(f, nd), OK, "every use of {{template %q}} is guarded by a condition implying .Parser.Types", tn)
				default:
					c.addT(rule, key, tmplPos(f, nd), Violation, "%s is emitted under {%s}, which does not imply .Parser.Types: a Go parser without node types (no eventBased) references NodeType/NodeFlags, which only listener.go defines, and the generated package does not build", name, guardsString(gs))
				}
			})
		}
	}
	if n < 10 {
		c.addT(rule, "count:", "", CountDropped, "only %d references to node-type identifiers found in the parser templates (>= 10 confirmed by hand)", n)
	}
}

var tmplBuiltins = map[string]bool{"and": true, "call": true, "html": true, "index": true, "slice": true, "js": true, "len": true, "not": true, "or": true,
	"print": true, "printf": true, "println": true, "urlquery": true, "eq": true, "ge": true, "gt": true, "le": true, "lt": true, "ne": true}

// TMPLNAMES: every {{template "x"}} names a define of the file or of the language's shared
// templates, and every function used in a pipeline is registered (funcMap / extraFuncs); a
// missing one is a generation-time error on the branch that reaches it, possibly an
// un-instantiated one.
func ruleTMPLNAMES(c *Ctx) {
	const rule = "TMPLNAMES"
	files, err := c.templates()
	if err != nil {
		c.Lost(rule, "gen/templates", "%v", err)
		return
	}
	// registered functions: keys of gen.funcMap and of the maps built in extraFuncs
	funcs := map[string]bool{}
	if p := c.Pkg("gen"); p != nil {
		for _, f := range p.Syntax {
			ast.Inspect(f, func(n ast.Node) bool {
				switch x := n.(type) {
				case *ast.KeyValueExpr:
					if bl, ok := x.Key.(*ast.BasicLit); ok && bl.Kind == token.STRING {
						if s, err := strconv.Unquote(bl.Value); err == nil {
							funcs[s] = true
						}
					}
				case *ast.AssignStmt:
					for _, l := range x.Lhs {
						if ix, ok := l.(*ast.IndexExpr); ok {
							if bl, ok := ix.Index.(*ast.BasicLit); ok && bl.Kind == token.STRING {
								if s, err := strconv.Unquote(bl.Value); err == nil {
									funcs[s] = true
								}
							}
						}
					}
				}
				return true
			})
		}
	}
	if len(funcs) < 20 {
		c.Lost(rule, "gen.funcMap", "only %d registered template functions found", len(funcs))
		return
	}
	nT, nF := 0, 0
	for _, fn := range sortedKeys(files) {
		f := files[fn]
		lang := strings.SplitN(fn, "_", 2)[0]
		defined := map[string]bool{}
		for _, other := range []string{fn, lang + "_shared.go.tmpl", lang + "_cached.go.tmpl"} {
			if of := files[other]; of != nil {
				for k := range of.Trees {
					defined[k] = true
				}
			}
		}
		if lang == "bison.go.tmpl" || fn == "bison.go.tmpl" {
			for k := range files["go_shared.go.tmpl"].Trees {
				defined[k] = true
			}
		}
		for _, tn := range sortedTreeKeys(f.Trees) {
			walkTmpl(f.Trees[tn].Root, nil, func(nd parse.Node, gs []tguard) {
				switch x := nd.(type) {
				case *parse.TemplateNode:
					nT++
					if !defined[x.Name] {
						c.addT(rule, fmt.Sprintf("%s#%s:template %q", fn, tn, x.Name), tmplPos(f, nd), Violation, "{{template %q}} does not resolve to a define of %s or of the %s shared templates: generation fails on this branch", x.Name, fn, lang)
					}
				}
				// identifiers in pipelines
				var pipes []*parse.PipeNode
				switch x := nd.(type) {
				case *parse.ActionNode:
					pipes = append(pipes, x.Pipe)
				case *parse.IfNode:
					pipes = append(pipes, x.Pipe)
				case *parse.RangeNode:
					pipes = append(pipes, x.Pipe)
				case *parse.WithNode:
					pipes = append(pipes, x.Pipe)
				case *parse.TemplateNode:
					if x.Pipe != nil {
						pipes = append(pipes, x.Pipe)
					}
				}
				var visitPipe func(p *parse.PipeNode)
				visitPipe = func(p *parse.PipeNode) {
					if p == nil {
						return
					}
					for _, cmd := range p.Cmds {
						for _, a := range cmd.Args {
							switch y := a.(type) {
							case *parse.IdentifierNode:
								nF++
								if !funcs[y.Ident] && !tmplBuiltins[y.Ident] {
									c.addT(rule, fmt.Sprintf("%s#%s:func %s", fn, tn, y.Ident), tmplPos(f, nd), Violation, "function %q is used in a pipeline but is not registered in gen.funcMap/extraFuncs: generation fails on this branch", y.Ident)
								}
							case *parse.PipeNode:
								visitPipe(y)
							}
						}
					}
				}
				for _, p := range pipes {
					visitPipe(p)
				}
			})
		}
	}
	if nT < 100 || nF < 300 {
		c.addT(rule, "count:", "", CountDropped, "template invocations=%d (>=100), function uses=%d (>=300)", nT, nF)
	} else {
		c.addT(rule, "scan", "", OK, "%d template invocations and %d function uses in %d template files resolve", nT, nF, len(files))
	}
}
