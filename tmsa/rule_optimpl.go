package main

import (
	"strings"

	"golang.org/x/tools/go/ssa"
)

// optionImplications extracts, from compiler.(*optionsParser).parseFrom, the option
// combinations the compiler refuses: an Errorf governed by `opts.A` true and `opts.B` false
// establishes A => B for every grammar that reaches the generator. Returned as map[A][]B.
func (c *Ctx) optionImplications() map[string][]string {
	out := map[string][]string{}
	f := c.SSAFunc("compiler", "(*optionsParser).parseFrom")
	if f == nil {
		return out
	}
	for _, b := range f.Blocks {
		for _, ins := range b.Instrs {
			call, ok := ins.(*ssa.Call)
			if !ok {
				continue
			}
			g := call.Call.StaticCallee()
			if g == nil || !strings.HasSuffix(g.Name(), "Errorf") {
				continue
			}
			var pos, neg []string
			for _, gc := range flattenConds(governing(b)) {
				p := vpath(gc.V)
				if !strings.HasPrefix(p, "opts.") && !strings.Contains(p, ".out.") {
					continue
				}
				name := p[strings.LastIndex(p, ".")+1:]
				if gc.Pol {
					pos = append(pos, name)
				} else {
					neg = append(neg, name)
				}
			}
			if len(pos) == 1 && len(neg) == 1 {
				out[pos[0]] = append(out[pos[0]], neg[0])
			}
		}
	}
	return out
}
