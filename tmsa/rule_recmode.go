package main

import (
	"go/token"
	"strings"

	"golang.org/x/tools/go/ssa"
)

// TYPESTATE(recoveryMode): the js token stream applies the full automatic-semicolon rules (which
// simulate reductions on the parser stack) unless stream.recoveryMode is set; error recovery
// fetches tokens with a nil stack. In the hand-written parse loop the flag must be true at every
// call of recoverFromError on every path (constant propagation of the flag over the CFG), and
// back to false afterwards.
func ruleRECMODE(c *Ctx) {
	const rule = "TYPESTATE(recoveryMode)"
	f := c.SSAFunc("parsers/js", "(*Parser).parse")
	if f == nil {
		c.Lost(rule, "parsers/js.Parser.parse", "function not found")
		return
	}
	const (
		bot = iota
		tt
		ff
		top
	)
	join := func(a, b int) int {
		switch {
		case a == bot:
			return b
		case b == bot:
			return a
		case a == b:
			return a
		}
		return top
	}
	isFlag := func(addr ssa.Value) bool {
		fa, ok := addr.(*ssa.FieldAddr)
		return ok && fieldName(fa.X.Type(), fa.Field) == "recoveryMode"
	}
	transfer := func(b *ssa.BasicBlock, st int, visit func(call *ssa.Call, st int)) int {
		for _, ins := range b.Instrs {
			switch y := ins.(type) {
			case *ssa.Store:
				if isFlag(y.Addr) {
					if k, ok := y.Val.(*ssa.Const); ok && k.Value != nil {
						if k.Value.String() == "true" {
							st = tt
						} else {
							st = ff
						}
					} else {
						st = top
					}
				}
			case *ssa.Call:
				if visit != nil {
					visit(y, st)
				}
			}
		}
		return st
	}
	in := map[*ssa.BasicBlock]int{f.Blocks[0]: ff}
	for changed := true; changed; {
		changed = false
		for _, b := range f.Blocks {
			st, ok := in[b]
			if !ok {
				continue
			}
			out := transfer(b, st, nil)
			for _, s := range b.Succs {
				n := join(in[s], out)
				if n != in[s] {
					in[s] = n
					changed = true
				}
			}
		}
	}
	n := 0
	for _, b := range f.Blocks {
		st, ok := in[b]
		if !ok {
			continue
		}
		transfer(b, st, func(call *ssa.Call, st int) {
			g := call.Call.StaticCallee()
			if g == nil || !strings.HasSuffix(g.Name(), "recoverFromError") {
				return
			}
			n++
			key := "parsers/js.Parser.parse:recoverFromError"
			if st == tt {
				c.Ok(rule, key, call.Pos(), "stream.recoveryMode is true on every path to the recovery call")
			} else {
				c.Bad(rule, key, call.Pos(), "stream.recoveryMode is not set on every path to recoverFromError (value on some path: %s): recovery then fetches tokens with the normal semicolon-insertion logic, which indexes the nil stack", map[int]string{ff: "false", top: "true or false"}[st])
			}
		})
	}
	if n == 0 {
		c.Lost(rule, "parsers/js.Parser.parse:recoverFromError", "no call of recoverFromError in the js parse loop")
	}
	_ = token.NoPos
}

// GUARD(nil-stack): during error recovery the js parser asks the token stream for tokens with a
// nil stack (`stream.next(nil, -1)` in skipBrokenCode; recoveryMode is true then - see
// TYPESTATE(recoveryMode)). TokenStream.next may therefore touch its stack parameter only after
// the `if s.recoveryMode { … return }` block: every indexing or slicing of stack is governed by
// the false edge of s.recoveryMode (or by endState != -1, which recovery passes along with the nil
// stack). Otherwise `stack[len(stack)-1]` panics while skipping broken
// code that contains a restricted production (return/break/continue/throw followed by a newline).
func ruleNILSTACK(c *Ctx) {
	const rule = "GUARD(nil-stack)"
	f := c.SSAFunc("parsers/js", "(*TokenStream).next")
	if f == nil {
		c.Lost(rule, "parsers/js.TokenStream.next", "function not found")
		return
	}
	var stack *ssa.Parameter
	for _, p := range f.Params {
		if p.Name() == "stack" {
			stack = p
		}
	}
	if stack == nil {
		c.Lost(rule, "parsers/js.TokenStream.next:stack", "parameter stack not found")
		return
	}
	n := 0
	ord := map[string]int{}
	for _, b := range f.Blocks {
		for _, ins := range b.Instrs {
			var base ssa.Value
			switch x := ins.(type) {
			case *ssa.IndexAddr:
				base = x.X
			case *ssa.Slice:
				base = x.X
			default:
				continue
			}
			if base != ssa.Value(stack) {
				continue
			}
			n++
			key := ordKey(ord, "parsers/js.TokenStream.next:stack-use")
			safe := false
			for _, g := range flattenConds(governing(b)) {
				if strings.HasSuffix(vpath(g.V), ".recoveryMode") && !g.Pol {
					safe = true
				}
				// recovery also passes endState == -1 together with the nil stack
				if l, op, r, ok := cmpNorm(g.V, g.Pol); ok && op == "!=" && ((l == "endState" && r == "-1") || (r == "endState" && l == "-1")) {
					safe = true
				}
			}
			if safe {
				c.Ok(rule, key, ins.Pos(), "the parser stack is touched only when the stream is not in recovery mode")
			} else {
				c.Bad(rule, key, ins.Pos(), "TokenStream.next indexes its stack parameter on a path where s.recoveryMode may be true: recovery passes a nil stack, so this panics (index out of range [-1]) while broken code is skipped")
			}
		}
	}
	if n < 2 {
		c.add(rule, "count:", token.NoPos, CountDropped, true, "only %d uses of the stack parameter found in TokenStream.next", n)
	}
}
