package main

import (
	"encoding/json"
	"fmt"
	"os"
	"path/filepath"
	"sort"
	"strings"
	"time"
)

// Finding is one line of /verif/known_findings.json.
type Finding struct {
	Fixed        bool   `json:"fixed,omitempty"`
	Property     string `json:"property"`
	Rule         string `json:"rule,omitempty"`
	Key          string `json:"instance_key,omitempty"`
	WhatFails    string `json:"what_fails,omitempty"`
	Reproduction string `json:"reproduction,omitempty"`
	Commit       string `json:"commit,omitempty"`
	WhatFailed   string `json:"what_failed,omitempty"`
}

func loadFindings(path string) ([]Finding, error) {
	b, err := os.ReadFile(path)
	if err != nil {
		if os.IsNotExist(err) {
			return nil, nil
		}
		return nil, err
	}
	var f struct {
		Findings []Finding `json:"findings"`
	}
	if err := json.Unmarshal(b, &f); err != nil {
		return nil, fmt.Errorf("%s: %v", path, err)
	}
	return f.Findings, nil
}

// Property describes how one property is decided.
type Property struct {
	ID          string
	Explanation string   // the rule and the necessary condition it decides
	Rules       []string // rule names, for the evidence
	Assumptions []string
	Run         func(c *Ctx)
}

type evidence struct {
	PropertyID  string         `json:"property_id"`
	Tier        string         `json:"tier"`
	Seed        int            `json:"seed"`
	Level       string         `json:"level"`
	Coverage    map[string]any `json:"coverage"`
	Assumptions []string       `json:"assumptions"`
	WallS       float64        `json:"wall_s"`
	Violations  int            `json:"violations"`
}

// finish matches the obligations against the known findings, writes the evidence and the
// violation file and returns the process exit code.
func finish(c *Ctx, p *Property, verifDir string, seed int, t0 time.Time, extra map[string]any) int {
	findings, err := loadFindings(filepath.Join(verifDir, "known_findings.json"))
	if err != nil {
		fmt.Fprintln(os.Stderr, "tmsa:", err)
		return 2
	}
	known := map[string]Finding{}
	for _, f := range findings {
		if !f.Fixed && f.Property == p.ID {
			known[f.Rule+"\x00"+f.Key] = f
		}
	}
	var bad, knownHit []Ob
	perRule := map[string]int{}
	distinct := map[string]bool{}
	statusCount := map[string]int{}
	for _, o := range c.obs {
		perRule[o.Rule]++
		statusCount[string(o.Status)]++
		if o.NonTrivial {
			distinct[o.Rule+"\x00"+o.Key] = true
		}
		if o.Status == OK {
			continue
		}
		if _, ok := known[o.Rule+"\x00"+o.Key]; ok && o.Status == Violation {
			knownHit = append(knownHit, o)
			continue
		}
		bad = append(bad, o)
	}
	// samples: first obligations of each rule, plus all non-ok ones
	var samples []any
	shown := map[string]int{}
	for _, o := range c.obs {
		if o.Status != OK || shown[o.Rule] < 4 {
			if o.Status == OK {
				shown[o.Rule]++
			}
			if len(samples) < 80 {
				samples = append(samples, o)
			}
		}
	}
	rules := make([]string, 0, len(perRule))
	for r := range perRule {
		rules = append(rules, r)
	}
	sort.Strings(rules)
	ruleCounts := map[string]int{}
	for _, r := range rules {
		ruleCounts[r] = perRule[r]
	}
	cov := map[string]any{
		"explanation":         p.Explanation,
		"evaluations":         len(c.obs),
		"distinct_nontrivial": len(distinct),
		"rule": "one evaluation = one rule instance (a call site, a path, a table cell class, a switch case, a template node) found in /repo's current source; " +
			"non-trivial = the instance needed a real discharge (path/dominance search, interval or affine comparison, decision-table comparison, audit-table match), keyed by rule+instance",
		"samples":             samples,
		"obligations":         len(c.obs),
		"discharged":          statusCount[string(OK)],
		"instances_per_rule":  ruleCounts,
		"status_counts":       statusCount,
		"packages_loaded":     len(c.All),
		"functions_in_module": c.NFunc,
		"rules":               p.Rules,
		"known_findings_hit":  len(knownHit),
		"repo":                c.Repo,
	}
	for k, v := range extra {
		cov[k] = v
	}
	ev := evidence{
		PropertyID: p.ID, Tier: c.Tier, Seed: seed, Level: "other", Coverage: cov,
		Assumptions: append(append([]string{}, p.Assumptions...), c.notes...),
		WallS:       time.Since(t0).Seconds(), Violations: len(bad),
	}
	if ev.Assumptions == nil {
		ev.Assumptions = []string{}
	}
	evDir := filepath.Join(verifDir, "evidence")
	os.MkdirAll(evDir, 0o755)
	b, _ := json.MarshalIndent(ev, "", " ")
	if err := os.WriteFile(filepath.Join(evDir, p.ID+".json"), append(b, '\n'), 0o644); err != nil {
		fmt.Fprintln(os.Stderr, "tmsa:", err)
		return 2
	}
	fmt.Printf("property=%s tier=%s packages=%d obligations=%d discharged=%d nontrivial=%d rules=%s\n",
		p.ID, c.Tier, len(c.All), len(c.obs), statusCount[string(OK)], len(distinct), strings.Join(rules, ","))
	for _, o := range knownHit {
		f := known[o.Rule+"\x00"+o.Key]
		fmt.Printf("KNOWN-FINDING: property=%s rule=%s site=%s at %s: %s\n", p.ID, o.Rule, o.Key, o.Pos, f.WhatFails)
	}
	vioPath := filepath.Join(evDir, p.ID+".violation.json")
	if len(bad) == 0 {
		os.Remove(vioPath)
		return 0
	}
	vb, _ := json.MarshalIndent(map[string]any{"property_id": p.ID, "repo": c.Repo, "violations": bad}, "", " ")
	os.WriteFile(vioPath, append(vb, '\n'), 0o644)
	for _, o := range bad {
		fmt.Printf("VIOLATION property=%s replay=%s kind=%s rule=%s site=%s at=%s :: %s\n", p.ID, vioPath, o.Status, o.Rule, o.Key, o.Pos, o.Fact)
	}
	return 1
}
