package main

import (
	"fmt"
	"regexp"
	"sort"
	"strings"
	"text/template/parse"
)

// tmplEmitter returns, for one template file, the function that gives the formula under which
// the text at (define dn, guards gs) is emitted: the conjunction of its if-guards and the
// disjunction over the sites that expand the define.
func tmplEmitter(f *tmplFile) func(dn string, gs []tguard, depth int) bform {
	type site struct {
		def string
		gs  []tguard
	}
	callers := map[string][]site{}
	for _, dn := range sortedTreeKeys(f.Trees) {
		walkTmpl(f.Trees[dn].Root, nil, func(n parse.Node, gs []tguard) {
			if t, ok := n.(*parse.TemplateNode); ok {
				callers[t.Name] = append(callers[t.Name], site{dn, append([]tguard{}, gs...)})
			}
		})
	}
	var emitted func(dn string, gs []tguard, depth int) bform
	emitted = func(dn string, gs []tguard, depth int) bform {
		var conj []bform
		for _, g := range gs {
			if g.Kind != "if" {
				continue
			}
			fm := parseGuard(g.Pipe)
			if !g.Pol {
				fm = bform{op: "not", args: []bform{fm}}
			}
			conj = append(conj, fm)
		}
		if dn != f.Name && depth < 4 {
			var alts []bform
			for _, s := range callers[dn] {
				alts = append(alts, emitted(s.def, s.gs, depth+1))
			}
			if len(alts) > 0 {
				conj = append(conj, bform{op: "or", args: alts})
			}
		}
		return bform{op: "and", args: conj}
	}
	return emitted
}

// TMPL(field-use): Lexer, TokenStream and Parser of a generated Go parser declare some of their
// fields only under option guards (line/tokenLine under tokenLine, lineOffset under
// tokenLineOffset or tokenColumn, pending under "tokens are reported", listener under node
// types, …). Every use of such a field - in any of go_lexer/go_stream/go_parser templates - must
// be emitted only for option combinations for which the field is declared: for every truth
// assignment of the atomic conditions involved, use => declaration. Otherwise an accepted
// grammar generates a package that does not build (`l.tokenLine undefined`).
func ruleTMPLFIELDUSE(c *Ctx) {
	const rule = "TMPL(field-use)"
	tf, err := c.templates()
	if err != nil {
		c.Lost(rule, "gen/templates", "%v", err)
		return
	}
	type structSpec struct {
		file, define string
		recv         []string
	}
	specs := []structSpec{
		{"go_lexer.go.tmpl", "lexerType", []string{"l", "lexer", "s.lexer", "p.lexer", "lexerCopy"}},
		{"go_stream.go.tmpl", "streamType", []string{"s", "ret", "stream", "ts", "streamCopy"}},
		{"go_parser.go.tmpl", "parserType", []string{"p"}},
	}
	files := []string{"go_lexer.go.tmpl", "go_stream.go.tmpl", "go_parser.go.tmpl"}
	emit := map[string]func(string, []tguard, int) bform{}
	for _, fn := range files {
		if tf[fn] == nil {
			c.Lost(rule, fn, "template not found")
			return
		}
		emit[fn] = tmplEmitter(tf[fn])
	}
	fileCond := func(fn string, fm bform) bform {
		if fn == "go_stream.go.tmpl" {
			return bform{op: "and", args: []bform{parseGuard(".Options.TokenStream"), fm}}
		}
		return fm
	}
	fieldRe := regexp.MustCompile(`(?m)^\t?([a-zA-Z_][A-Za-z0-9_]*)[ \t]+[\[\]\*A-Za-z]`)
	n := 0
	for _, sp := range specs {
		f := tf[sp.file]
		tree := f.Trees[sp.define]
		if tree == nil {
			c.Lost(rule, sp.file+"#"+sp.define, "define not found")
			continue
		}
		// guarded fields
		defs := map[string]bform{}
		defPos := map[string]string{}
		walkTmpl(tree.Root, nil, func(nd parse.Node, gs []tguard) {
			tn, ok := nd.(*parse.TextNode)
			if !ok {
				return
			}
			for _, m := range fieldRe.FindAllStringSubmatch(string(tn.Text), -1) {
				name := m[1]
				if name == "type" || name == "return" || name == "func" || name == "If" {
					continue
				}
				fm := fileCond(sp.file, emit[sp.file](sp.define, gs, 0))
				if old, ok := defs[name]; ok {
					fm = bform{op: "or", args: []bform{old, fm}}
				}
				defs[name] = fm
				defPos[name] = tmplPos(f, nd)
			}
		})
		var names []string
		for k, fm := range defs {
			at := map[string]bool{}
			fm.atoms(at)
			guarded := false
			for a := range at {
				if a != ".Options.TokenStream" {
					guarded = true
				}
			}
			if guarded {
				names = append(names, k)
			}
		}
		sort.Strings(names)
		for _, name := range names {
			var alts []string
			for _, r := range sp.recv {
				alts = append(alts, regexp.QuoteMeta(r))
			}
			useRe := regexp.MustCompile(`(^|[^A-Za-z0-9_.])(` + strings.Join(alts, "|") + `)\.` + regexp.QuoteMeta(name) + `([^A-Za-z0-9_(]|$)`)
			ord := 0
			for _, fn := range files {
				uf := tf[fn]
				for _, dn := range sortedTreeKeys(uf.Trees) {
					if fn == sp.file && dn == sp.define {
						continue
					}
					walkTmpl(uf.Trees[dn].Root, nil, func(nd parse.Node, gs []tguard) {
						tn, ok := nd.(*parse.TextNode)
						if !ok || !useRe.MatchString(string(tn.Text)) {
							return
						}
						// `s` and `p` are other things in other files: a Parser field is used
						// through p only in go_parser, a stream field through s/ret only in go_stream
						if (sp.file == "go_parser.go.tmpl" && fn != sp.file) || (sp.file == "go_stream.go.tmpl" && fn == "go_lexer.go.tmpl") {
							return
						}
						if sp.file == "go_stream.go.tmpl" && fn == "go_parser.go.tmpl" {
							m := useRe.FindStringSubmatch(string(tn.Text))
							if m[2] == "s" || m[2] == "ret" {
								return // s is the lookahead session in go_parser
							}
						}
						ord++
						n++
						key := fmt.Sprintf("%s:%s.%s#use%d", fn, strings.TrimSuffix(strings.TrimPrefix(sp.define, ""), "Type"), name, ord)
						use := fileCond(fn, emit[fn](dn, gs, 0))
						def := defs[name]
						atoms := map[string]bool{}
						use.atoms(atoms)
						def.atoms(atoms)
						var as []string
						for a := range atoms {
							as = append(as, a)
						}
						sort.Strings(as)
						if len(as) > 14 {
							c.addT(rule, key, tmplPos(uf, nd), Undecided, "too many atomic conditions (%d) to enumerate for field %s", len(as), name)
							return
						}
						bad := ""
						for mask := 0; mask < 1<<len(as); mask++ {
							env := map[string]bool{}
							for i, a := range as {
								env[a] = mask&(1<<i) != 0
							}
							// audited implications between atoms: everything in typesImplied holds
							// only for grammars that have node types
							consistent := true
							for a, v := range env {
								if !v || a == ".Parser.Types" {
									continue
								}
								for _, k := range typesImplied {
									if strings.Contains(a, k) {
										if t, ok := env[".Parser.Types"]; ok && !t {
											consistent = false
										}
									}
								}
							}
							if !consistent {
								continue
							}
							if use.eval(env) && !def.eval(env) {
								var on []string
								for _, a := range as {
									if env[a] {
										on = append(on, a)
									}
								}
								bad = strings.Join(on, " && ")
								break
							}
						}
						if bad == "" {
							c.addT(rule, key, tmplPos(uf, nd), OK, "field %s is used only where it is declared (%d atomic conditions enumerated)", name, len(as))
						} else {
							c.addT(rule, key, tmplPos(uf, nd), Violation, "field %s (declared at %s) is used here under {%s} (all other conditions false), a combination for which it is not declared: the generated package does not build", name, defPos[name], bad)
						}
					})
				}
			}
		}
	}
	if n < 15 {
		c.addT(rule, "count:", "", CountDropped, "only %d uses of guarded struct fields found in the Go templates", n)
	}
}

// TMPL(field-maintain): the converse of TMPL(field-use) for the position bookkeeping of the
// generated lexer. A field that is declared must also be kept up to date: for every truth
// assignment under which `line` / `lineOffset` is declared, the statement that advances it at a
// newline in the scan loop and the one that recomputes it in rewind() are emitted too
// (declaration => maintenance). Otherwise tokenColumn = true with tokenLine = false declares
// lineOffset, never updates it, and every column after the first line is wrong.
func ruleTMPLFIELDMAINT(c *Ctx) {
	const rule = "TMPL(field-maintain)"
	tf, err := c.templates()
	if err != nil {
		c.Lost(rule, "gen/templates", "%v", err)
		return
	}
	f := tf["go_lexer.go.tmpl"]
	if f == nil || f.Trees["lexerType"] == nil {
		c.Lost(rule, "go_lexer.go.tmpl", "template or lexerType not found")
		return
	}
	emit := tmplEmitter(f)
	type maint struct{ what, text string }
	fields := map[string][]maint{
		"lineOffset": {{"newline update", "l.lineOffset = l.scanOffset"}, {"rewind", "l.lineOffset = 1 +"}},
		"line":       {{"newline update", "l.line++"}, {"rewind", "l.line -="}},
	}
	var names []string
	for k := range fields {
		names = append(names, k)
	}
	sort.Strings(names)
	for _, name := range names {
		// declaration formula
		var decl *bform
		declRe := regexp.MustCompile(`(?m)^\t?` + name + `[ \t]+int`)
		walkTmpl(f.Trees["lexerType"].Root, nil, func(nd parse.Node, gs []tguard) {
			if tn, ok := nd.(*parse.TextNode); ok && declRe.MatchString(string(tn.Text)) {
				fm := emit("lexerType", gs, 0)
				decl = &fm
			}
		})
		if decl == nil {
			c.Lost(rule, "go_lexer.go.tmpl:"+name, "declaration not found")
			continue
		}
		for _, m := range fields[name] {
			key := fmt.Sprintf("go_lexer.go.tmpl:%s:%s", name, m.what)
			var alts []bform
			pos := ""
			for _, dn := range sortedTreeKeys(f.Trees) {
				walkTmpl(f.Trees[dn].Root, nil, func(nd parse.Node, gs []tguard) {
					if tn, ok := nd.(*parse.TextNode); ok && strings.Contains(string(tn.Text), m.text) {
						alts = append(alts, emit(dn, gs, 0))
						pos = tmplPos(f, nd)
					}
				})
			}
			if len(alts) == 0 {
				c.addT(rule, key, "", AnchorLost, "no statement `%s…` found in go_lexer.go.tmpl", m.text)
				continue
			}
			any := bform{op: "or", args: alts}
			atoms := map[string]bool{}
			decl.atoms(atoms)
			any.atoms(atoms)
			var as []string
			for a := range atoms {
				as = append(as, a)
			}
			sort.Strings(as)
			bad := ""
			for mask := 0; mask < 1<<len(as) && len(as) <= 14; mask++ {
				env := map[string]bool{}
				for i, a := range as {
					env[a] = mask&(1<<i) != 0
				}
				if decl.eval(env) && !any.eval(env) {
					var on []string
					for _, a := range as {
						if env[a] {
							on = append(on, a)
						}
					}
					bad = "{" + strings.Join(on, " && ") + "}"
					break
				}
			}
			if bad == "" {
				c.addT(rule, key, pos, OK, "whenever %s is declared its %s is generated (%d atomic conditions enumerated)", name, m.what, len(as))
			} else {
				c.addT(rule, key, pos, Violation, "%s is declared under %s (all other conditions false) but its %s (`%s…`) is not generated then: the field keeps its initial value and positions derived from it are wrong", name, bad, m.what, m.text)
			}
		}
	}
}

// TMPL(node-id): the Go identifier of a node type is `nodePrefix + name`, produced by the
// node_id template function. The declaration of the constants (listener.go) and every reference
// to them from generated Go code (parser tables, parser, stream, selectors, ast factory and
// accessors) must use the same spelling: wherever a template prints the identifier of a node
// type - the constant declarations, or a name right after `{{template "nodeTypePkg" $}}` /
// `{{pkg "main"}}` inside an iteration over node types - it goes through node_id. A bare
// {{.Name}} compiles only while nodePrefix is empty.
func ruleTMPLNODEID(c *Ctx) {
	const rule = "TMPL(node-id)"
	tf, err := c.templates()
	if err != nil {
		c.Lost(rule, "gen/templates", "%v", err)
		return
	}
	n := 0
	for _, fn := range sortedKeys(tf) {
		if !strings.HasPrefix(fn, "go_") {
			continue
		}
		f := tf[fn]
		ord := 0
		var visit func(list *parse.ListNode, inTypes bool, inConst bool)
		check := func(an *parse.ActionNode, why string) {
			ord++
			n++
			key := fmt.Sprintf("%s:node-name#%d", fn, ord)
			if strings.Contains(an.String(), "node_id") {
				c.addT(rule, key, tmplPos(f, an), OK, "%s goes through node_id", why)
			} else {
				c.addT(rule, key, tmplPos(f, an), Violation, "%s is printed as %s, not through node_id: with a non-empty nodePrefix the declared constants and the references to them are spelled differently and the generated package does not build", why, an.String())
			}
		}
		visit = func(list *parse.ListNode, inTypes bool, inConst bool) {
			if list == nil {
				return
			}
			for i, nd := range list.Nodes {
				switch x := nd.(type) {
				case *parse.TextNode:
					if strings.Contains(string(x.Text), "const (") {
						inConst = true
					}
					if strings.Contains(string(x.Text), "\n)") {
						inConst = false
					}
				case *parse.RangeNode:
					p := x.Pipe.String()
					types := inTypes || strings.Contains(p, ".Types.RangeTypes") || strings.Contains(p, ".Options.ExtraTypes") || strings.Contains(p, "expand_selector")
					// a declaration: the first action of a range over node types inside `const (`
					if inConst && fn == "go_listener.go.tmpl" && (strings.Contains(p, ".Types.RangeTypes") || strings.Contains(p, ".Options.ExtraTypes")) && x.List != nil {
						for _, b := range x.List.Nodes {
							if an, ok := b.(*parse.ActionNode); ok {
								check(an, "the declared node type constant")
								break
							}
						}
					}
					visit(x.List, types, inConst)
					visit(x.ElseList, inTypes, inConst)
				case *parse.IfNode:
					visit(x.List, inTypes, inConst)
					visit(x.ElseList, inTypes, inConst)
				case *parse.WithNode:
					visit(x.List, inTypes, inConst)
					visit(x.ElseList, inTypes, inConst)
				case *parse.TemplateNode:
					if x.Name == "nodeTypePkg" && i+1 < len(list.Nodes) {
						if an, ok := list.Nodes[i+1].(*parse.ActionNode); ok {
							check(an, "a reference to a node type constant")
						}
					}
				case *parse.ActionNode:
					if inTypes && strings.Contains(x.String(), `pkg "main"`) && i+1 < len(list.Nodes) {
						if an, ok := list.Nodes[i+1].(*parse.ActionNode); ok {
							check(an, "a reference to a node type constant")
						}
					}
				}
			}
		}
		for _, dn := range sortedTreeKeys(f.Trees) {
			visit(f.Trees[dn].Root, false, false)
		}
	}
	if n < 10 {
		c.addT(rule, "count:", "", CountDropped, "only %d node type identifiers found in the Go templates", n)
	}
}

// TMPL(err-first): a runtime lookahead rule with several predicate cases is generated as a chain
// `if ok, err = lookahead(A); … else if ok, err = lookahead(B); …`. Each call may return the
// context's error; the next call in the chain assigns err again. So in the cancellable variant the
// text after every call in the chain (both in lookaheadRule and in applyRule) must test the
// error first and leave: `; err != nil { return … } else if [!]ok {`. Otherwise a cancellation
// seen by the first predicate is overwritten by the second one and the parser goes on with an
// answer that was never computed. (The committed parsers have single-case rules only; this is
// decided on the template for all grammars.)
func ruleTMPLERRFIRST(c *Ctx) {
	const rule = "TMPL(err-first)"
	tf, err := c.templates()
	if err != nil {
		c.Lost(rule, "gen/templates", "%v", err)
		return
	}
	f := tf["go_parser.go.tmpl"]
	if f == nil {
		c.Lost(rule, "go_parser.go.tmpl", "template not found")
		return
	}
	n := 0
	for _, dn := range sortedTreeKeys(f.Trees) {
		var visit func(list *parse.ListNode, inCases bool)
		visit = func(list *parse.ListNode, inCases bool) {
			if list == nil {
				return
			}
			for _, nd := range list.Nodes {
				switch x := nd.(type) {
				case *parse.RangeNode:
					visit(x.List, inCases || strings.Contains(x.Pipe.String(), ".Cases"))
					visit(x.ElseList, inCases)
				case *parse.IfNode:
					if inCases && strings.Contains(x.Pipe.String(), ".Options.Cancellable") && x.List != nil && len(x.List.Nodes) > 0 {
						if tn, ok := x.List.Nodes[0].(*parse.TextNode); ok && strings.HasPrefix(strings.TrimSpace(string(tn.Text)), ";") {
							n++
							key := fmt.Sprintf("go_parser.go.tmpl#%s:chain-test#%d", dn, n)
							txt := strings.Join(strings.Fields(string(tn.Text)), " ")
							if strings.HasPrefix(txt, "; err != nil { return") {
								c.addT(rule, key, tmplPos(f, tn), OK, "the error of a lookahead call is tested, and returned, before its answer is used or the next predicate is evaluated")
							} else {
								c.addT(rule, key, tmplPos(f, tn), Violation, "after a cancellable lookahead call the chain continues with `%s` instead of testing err first: with two or more predicate cases the next call overwrites a cancellation error and the parse goes on with a wrong answer", txt)
							}
						}
					}
					visit(x.List, inCases)
					visit(x.ElseList, inCases)
				case *parse.WithNode:
					visit(x.List, inCases)
					visit(x.ElseList, inCases)
				}
			}
		}
		visit(f.Trees[dn].Root, false)
	}
	if n < 2 {
		c.addT(rule, "count:", "", CountDropped, "only %d predicate chains found in go_parser.go.tmpl (lookaheadRule and applyRule confirmed by hand)", n)
	}
}
