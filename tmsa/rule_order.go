package main

import (
	"fmt"
	"go/ast"
	"go/token"
	"go/types"
	"sort"
	"strings"

	"golang.org/x/tools/go/packages"
)

// ORDER: every iteration over a map (and every other source of unspecified order) on the way
// to generated files must be order-insensitive, or collect-then-sort, or feed diagnostics only.

// genScope returns the module packages in the import closure of gen and compiler (the code
// that runs between a grammar text and the written files), sorted.
func (c *Ctx) genScope() []*packages.Package {
	seen := map[string]bool{}
	var out []*packages.Package
	var visit func(p *packages.Package)
	visit = func(p *packages.Package) {
		if p == nil || seen[p.PkgPath] {
			return
		}
		seen[p.PkgPath] = true
		if _, in := c.Pkgs[p.PkgPath]; !in {
			return
		}
		out = append(out, p)
		for _, imp := range p.Imports {
			visit(imp)
		}
	}
	visit(c.Pkg("gen"))
	visit(c.Pkg("compiler"))
	sort.Slice(out, func(i, j int) bool { return out[i].PkgPath < out[j].PkgPath })
	return out
}

// orderExceptions: audited map iterations that the generic classifier cannot discharge.
// key = function key + ":" + name of the ranged map (last selector/identifier).
var orderExceptions = map[string]string{
	"gen.reverseLookup:remap":   "early return on a value match; the values of ActionVars.Remap are the distinct numRefs assigned in generateTables.traverse, so at most one key matches",
	"compiler.addTypes:ArgRefs": "writes vars.Types[ref.Pos]; CmdArgs.ArgRefs is keyed by ArgRef.Pos (every writer stores m[x.Pos] = x), so distinct iterations write distinct cells",
}

// pure standard-library packages: calls into them have no effect besides their result.
var purePkgs = map[string]bool{
	"strings": true, "strconv": true, "unicode": true, "unicode/utf8": true, "math": true,
	"path": true, "path/filepath": true, "bytes": true, "slices": true, "maps": false, "cmp": true, "math/bits": true,
}

// module functions with commuting effects (set insertion) or none, confirmed by reading.
var commutingCalls = map[string]string{
	"util/container.BitSet.Set":   "set insertion commutes",
	"util/container.BitSet.Get":   "read",
	"util/container.BitSet.Clear": "set removal commutes",
}

// diagnostic sinks: adding a message to the status is not part of any generated file.
var diagnosticCalls = map[string]bool{
	"compiler.lexerCompiler.Errorf": true, "status.Status.Errorf": true, "status.Status.Add": true, "status.Status.AddError": true,
}

type orderClass struct {
	class   string // insensitive | collect-then-sort | diagnostic-only | violation | undecided
	reason  string
	collect []string // collected slices that need a sort
	pos     token.Pos
}

func ruleORDER(c *Ctx) {
	const rule = "ORDER"
	scope := c.genScope()
	if len(scope) < 10 {
		c.Lost(rule, "scope", "import closure of gen and compiler has only %d module packages", len(scope))
		return
	}
	inScope := map[*types.Package]bool{}
	for _, p := range scope {
		inScope[p.Types] = true
	}
	for _, p := range scope {
		for _, f := range p.Syntax {
			if strings.HasSuffix(c.Fset.Position(f.Pos()).Filename, "_test.go") {
				continue
			}
			for _, d := range f.Decls {
				fd, ok := d.(*ast.FuncDecl)
				if !ok || fd.Body == nil {
					continue
				}
				fkey := c.funcKey(p, fd)
				ord := map[string]int{}
				// walk with parent chain so we know the enclosing block of each range stmt
				var stack []ast.Node
				ast.Inspect(fd.Body, func(n ast.Node) bool {
					if n == nil {
						stack = stack[:len(stack)-1]
						return true
					}
					stack = append(stack, n)
					switch n := n.(type) {
					case *ast.RangeStmt:
						t := p.TypesInfo.TypeOf(n.X)
						if t == nil {
							return true
						}
						if _, ok := t.Underlying().(*types.Map); !ok {
							return true
						}
						name := lastName(n.X)
						ord[name]++
						key := fkey + ":" + name
						if ord[name] > 1 {
							key = fmt.Sprintf("%s#%d", key, ord[name])
						}
						if why, ok := orderExceptions[key]; ok {
							c.Ok(rule, key, n.Pos(), "audited exception: %s", why)
							return true
						}
						oc := classifyMapRange(p, n, stack)
						switch oc.class {
						case "violation":
							c.Bad(rule, key, oc.pos, "iteration over map %s is order-sensitive: %s", types.ExprString(n.X), oc.reason)
						case "undecided":
							c.Undec(rule, key, oc.pos, "iteration over map %s: %s", types.ExprString(n.X), oc.reason)
						default:
							c.Ok(rule, key, n.Pos(), "%s: %s", oc.class, oc.reason)
						}
					case *ast.CallExpr:
						if fn := calleeFunc(p.TypesInfo, n); fn != nil && fn.Pkg() != nil {
							full := fn.Pkg().Path() + "." + fn.Name()
							switch full {
							case "maps.Keys", "maps.Values", "maps.All":
								// accepted only as the direct argument of slices.Sorted
								okSorted := false
								if len(stack) >= 2 {
									if pc, ok := stack[len(stack)-2].(*ast.CallExpr); ok {
										if pf := calleeFunc(p.TypesInfo, pc); pf != nil && pf.Pkg() != nil && pf.Pkg().Path() == "slices" && strings.HasPrefix(pf.Name(), "Sorted") {
											okSorted = true
										}
									}
								}
								ord[full]++
								key := fmt.Sprintf("%s:%s#%d", fkey, full, ord[full])
								if okSorted {
									c.Ok(rule, key, n.Pos(), "collect-then-sort: %s is the direct argument of slices.Sorted*", full)
								} else {
									c.Undec(rule, key, n.Pos(), "%s yields elements in unspecified order and is not directly sorted", full)
								}
							case "reflect.MapKeys", "reflect.MapRange":
								ord[full]++
								c.Undec(rule, fmt.Sprintf("%s:%s#%d", fkey, full, ord[full]), n.Pos(), "reflective map iteration on the generation path")
							}
							if fn.Name() == "Range" && fn.Pkg().Path() == "sync" {
								c.Undec(rule, fkey+":sync.Map.Range", n.Pos(), "sync.Map iteration on the generation path")
							}
						}
					}
					return true
				})
			}
		}
	}
	c.MinCount(rule, "", 18)
	c.Note("ORDER trusts the standard library (text/template, go/format, regexp, sort) to be deterministic; a sort.Slice comparator written as a function literal must contain an ordered comparison of element data (a boolean-only predicate leaves ties in map order); beyond that comparators are assumed to be total on the collected elements")
}

func lastName(e ast.Expr) string {
	switch x := e.(type) {
	case *ast.Ident:
		return x.Name
	case *ast.SelectorExpr:
		return x.Sel.Name
	case *ast.IndexExpr:
		return lastName(x.X) + "[]"
	case *ast.ParenExpr:
		return lastName(x.X)
	case *ast.CallExpr:
		return lastName(x.Fun) + "()"
	case *ast.StarExpr:
		return lastName(x.X)
	}
	return "expr"
}

// calleeFunc resolves the static callee of a call (function or method), nil otherwise.
func calleeFunc(info *types.Info, call *ast.CallExpr) *types.Func {
	var id *ast.Ident
	switch f := ast.Unparen(call.Fun).(type) {
	case *ast.Ident:
		id = f
	case *ast.SelectorExpr:
		id = f.Sel
	case *ast.IndexExpr:
		switch g := f.X.(type) {
		case *ast.Ident:
			id = g
		case *ast.SelectorExpr:
			id = g.Sel
		}
	}
	if id == nil {
		return nil
	}
	fn, _ := info.Uses[id].(*types.Func)
	return fn
}

// methodKey renders a *types.Func as pkgrel.Type.Method or pkgrel.Func (module) or path.Func.
func methodKey(fn *types.Func) string {
	pk := ""
	if fn.Pkg() != nil {
		if rel, in := relPkg(fn.Pkg()); in {
			pk = rel
		} else {
			pk = fn.Pkg().Path()
		}
	}
	if sig, ok := fn.Type().(*types.Signature); ok && sig.Recv() != nil {
		t := sig.Recv().Type()
		if pt, ok := t.(*types.Pointer); ok {
			t = pt.Elem()
		}
		if nt, ok := t.(*types.Named); ok {
			return pk + "." + nt.Obj().Name() + "." + fn.Name()
		}
	}
	return pk + "." + fn.Name()
}

// classifyMapRange decides the order class of one `for k, v := range m` statement.
func classifyMapRange(p *packages.Package, rs *ast.RangeStmt, stack []ast.Node) orderClass {
	info := p.TypesInfo
	// objects declared inside the body are iteration-local
	local := map[types.Object]bool{}
	var keyObj, valObj types.Object
	if id, ok := rs.Key.(*ast.Ident); ok && id.Name != "_" {
		keyObj = info.ObjectOf(id)
	}
	if id, ok := rs.Value.(*ast.Ident); ok && id.Name != "_" {
		valObj = info.ObjectOf(id)
	}
	ast.Inspect(rs.Body, func(n ast.Node) bool {
		if id, ok := n.(*ast.Ident); ok {
			if o := info.Defs[id]; o != nil {
				local[o] = true
			}
		}
		return true
	})
	if keyObj != nil {
		local[keyObj] = true
	}
	if valObj != nil {
		local[valObj] = true
	}
	keyAssigned := false
	res := orderClass{class: "insensitive", pos: rs.Pos()}
	var reasons []string
	collected := map[string]ast.Expr{}
	diag := false
	fail := func(class string, pos token.Pos, format string, a ...any) {
		if res.class == "violation" {
			return
		}
		if class == "violation" || res.class != "undecided" {
			res.class, res.reason, res.pos = class, fmt.Sprintf(format, a...), pos
		}
	}
	rootObj := func(e ast.Expr) types.Object {
		for {
			switch x := e.(type) {
			case *ast.Ident:
				return info.ObjectOf(x)
			case *ast.SelectorExpr:
				if _, ok := info.Selections[x]; !ok {
					return info.ObjectOf(x.Sel) // package-qualified identifier
				}
				e = x.X
			case *ast.IndexExpr:
				e = x.X
			case *ast.StarExpr:
				e = x.X
			case *ast.ParenExpr:
				e = x.X
			case *ast.SliceExpr:
				e = x.X
			default:
				return nil
			}
		}
	}
	isLocalRoot := func(e ast.Expr) bool {
		o := rootObj(e)
		if o == nil || !local[o] {
			return false
		}
		// the range value of pointer/map/slice type aliases shared storage; the key never does
		if o == valObj {
			switch o.Type().Underlying().(type) {
			case *types.Pointer, *types.Map, *types.Slice, *types.Interface:
				return false
			}
		}
		// a body-declared variable of pointer type may alias shared storage too; plain
		// identifiers (no deref) are fine to assign
		return true
	}
	isKey := func(e ast.Expr) bool {
		id, ok := ast.Unparen(e).(*ast.Ident)
		return ok && keyObj != nil && info.ObjectOf(id) == keyObj && !keyAssigned
	}
	isConst := func(e ast.Expr) bool {
		tv, ok := info.Types[e]
		if ok && tv.Value != nil {
			return true
		}
		if id, ok := ast.Unparen(e).(*ast.Ident); ok && (id.Name == "true" || id.Name == "false" || id.Name == "nil") {
			return true
		}
		return false
	}
	sortedLocal := map[*ast.CallExpr]bool{}
	var checkExpr func(e ast.Expr)
	checkCall := func(call *ast.CallExpr) {
		// conversions
		if tv, ok := info.Types[call.Fun]; ok && tv.IsType() {
			return
		}
		if id, ok := ast.Unparen(call.Fun).(*ast.Ident); ok {
			if _, isB := info.Uses[id].(*types.Builtin); isB {
				switch id.Name {
				case "len", "cap", "make", "new", "min", "max", "complex", "real", "imag":
					return
				case "delete":
					return // removal of distinct or equal keys commutes
				case "append":
					return // handled at the assignment
				case "copy":
					if len(call.Args) > 0 && isLocalRoot(call.Args[0]) {
						return
					}
				}
				fail("undecided", call.Pos(), "builtin %s with non-local destination in a map iteration", id.Name)
				return
			}
		}
		fn := calleeFunc(info, call)
		if fn != nil && fn.Pkg() != nil && len(call.Args) > 0 && isLocalRoot(call.Args[0]) &&
			(fn.Pkg().Path() == "sort" || (fn.Pkg().Path() == "slices" && strings.HasPrefix(fn.Name(), "Sort"))) {
			sortedLocal[call] = true
			return // sorting an iteration-local slice
		}
		if fn == nil {
			fail("undecided", call.Pos(), "dynamic call %s inside a map iteration", types.ExprString(call.Fun))
			return
		}
		mk := methodKey(fn)
		if fn.Pkg() != nil && purePkgs[fn.Pkg().Path()] {
			return
		}
		if fn.Pkg() != nil && fn.Pkg().Path() == "fmt" && (strings.HasPrefix(fn.Name(), "Sprint") || fn.Name() == "Errorf") {
			return
		}
		if _, ok := commutingCalls[mk]; ok {
			return
		}
		if diagnosticCalls[mk] {
			diag = true
			return
		}
		// method on an iteration-local non-pointer value
		fail("undecided", call.Pos(), "call of %s inside a map iteration is not in the table of pure/commuting callees", mk)
	}
	checkExpr = func(e ast.Expr) {
		ast.Inspect(e, func(n ast.Node) bool {
			switch n := n.(type) {
			case *ast.FuncLit:
				fail("undecided", n.Pos(), "function literal inside a map iteration")
				return false
			case *ast.CallExpr:
				checkCall(n)
				if sortedLocal[n] {
					return false // comparator literal of a local sort
				}
			case *ast.UnaryExpr:
				if n.Op == token.ARROW {
					fail("violation", n.Pos(), "channel receive inside a map iteration")
				}
			}
			return true
		})
	}
	var walk func(s ast.Stmt, depth int, inSwitch int)
	walkList := func(l []ast.Stmt, depth, inSwitch int) {
		for _, s := range l {
			walk(s, depth, inSwitch)
		}
	}
	walk = func(s ast.Stmt, depth int, inSwitch int) {
		switch s := s.(type) {
		case nil:
		case *ast.BlockStmt:
			walkList(s.List, depth, inSwitch)
		case *ast.ExprStmt:
			checkExpr(s.X)
		case *ast.DeclStmt:
			if gd, ok := s.Decl.(*ast.GenDecl); ok {
				for _, sp := range gd.Specs {
					if vs, ok := sp.(*ast.ValueSpec); ok {
						for _, v := range vs.Values {
							checkExpr(v)
						}
					}
				}
			}
		case *ast.IncDecStmt:
			if !isLocalRoot(s.X) {
				reasons = append(reasons, "commutative ++/-- on "+types.ExprString(s.X))
			}
		case *ast.AssignStmt:
			for _, r := range s.Rhs {
				checkExpr(r)
			}
			for i, lhs := range s.Lhs {
				lhs = ast.Unparen(lhs)
				if id, ok := lhs.(*ast.Ident); ok && id.Name == "_" {
					continue
				}
				var rhs ast.Expr
				if len(s.Rhs) == len(s.Lhs) {
					rhs = s.Rhs[i]
				}
				if id, ok := lhs.(*ast.Ident); ok && keyObj != nil && info.ObjectOf(id) == keyObj {
					keyAssigned = true
					continue
				}
				if s.Tok == token.DEFINE {
					if id, ok := lhs.(*ast.Ident); ok && (info.Defs[id] != nil || local[info.ObjectOf(id)]) {
						continue
					}
				}
				if isLocalRoot(lhs) {
					continue
				}
				// x = append(x, ...): collect
				if call, ok := rhs.(*ast.CallExpr); ok && s.Tok == token.ASSIGN {
					if id, ok := ast.Unparen(call.Fun).(*ast.Ident); ok && id.Name == "append" && len(call.Args) > 0 {
						if _, isB := info.Uses[id].(*types.Builtin); isB && types.ExprString(call.Args[0]) == types.ExprString(lhs) {
							collected[types.ExprString(lhs)] = lhs
							continue
						}
					}
				}
				switch s.Tok {
				case token.ADD_ASSIGN, token.OR_ASSIGN, token.AND_ASSIGN, token.XOR_ASSIGN, token.MUL_ASSIGN:
					if bt, ok := info.TypeOf(lhs).Underlying().(*types.Basic); ok && bt.Info()&types.IsString == 0 {
						reasons = append(reasons, "commutative accumulation into "+types.ExprString(lhs))
						continue
					}
					fail("violation", s.Pos(), "order-dependent accumulation %s %s … (string concatenation or non-commutative operator)", types.ExprString(lhs), s.Tok)
					continue
				}
				// indexed write
				if ix, ok := lhs.(*ast.IndexExpr); ok {
					if isKey(ix.Index) {
						reasons = append(reasons, fmt.Sprintf("writes %s[<range key>]: distinct cell per iteration", types.ExprString(ix.X)))
						continue
					}
					if rhs != nil && isConst(rhs) {
						reasons = append(reasons, fmt.Sprintf("stores the constant %s into %s[…]: idempotent and commuting", types.ExprString(rhs), types.ExprString(ix.X)))
						continue
					}
					if keyAssigned && keyObj != nil {
						if id, ok := ast.Unparen(ix.Index).(*ast.Ident); ok && info.ObjectOf(id) == keyObj {
							fail("violation", s.Pos(), "writes %s with a rewritten range key (the rewrite is not injective: two source keys can collide, the survivor depends on iteration order)", types.ExprString(lhs))
							continue
						}
					}
					fail("violation", s.Pos(), "writes %s = %s where the index is not the range key and the value is not constant (last writer wins)", types.ExprString(lhs), exprStr(rhs))
					continue
				}
				// field of the element addressed by the range key: X[key].f = v
				if sel, ok := lhs.(*ast.SelectorExpr); ok {
					if ix, ok := ast.Unparen(sel.X).(*ast.IndexExpr); ok && isKey(ix.Index) {
						reasons = append(reasons, fmt.Sprintf("writes %s[<range key>].%s: distinct cell per iteration", types.ExprString(ix.X), sel.Sel.Name))
						continue
					}
				}
				if rhs != nil && isConst(rhs) {
					reasons = append(reasons, fmt.Sprintf("stores the constant %s into %s", types.ExprString(rhs), types.ExprString(lhs)))
					continue
				}
				fail("violation", s.Pos(), "assignment to %s, which outlives the iteration, with a non-constant value (last writer wins)", types.ExprString(lhs))
			}
		case *ast.IfStmt:
			walk(s.Init, depth, inSwitch)
			checkExpr(s.Cond)
			walk(s.Body, depth, inSwitch)
			walk(s.Else, depth, inSwitch)
		case *ast.ForStmt:
			walk(s.Init, depth+1, 0)
			if s.Cond != nil {
				checkExpr(s.Cond)
			}
			walk(s.Post, depth+1, 0)
			walk(s.Body, depth+1, 0)
		case *ast.RangeStmt:
			checkExpr(s.X)
			if t := info.TypeOf(s.X); t != nil {
				if _, ok := t.Underlying().(*types.Map); ok {
					// nested map iteration is classified on its own; here only its effects matter
				}
			}
			walk(s.Body, depth+1, 0)
		case *ast.SwitchStmt:
			walk(s.Init, depth, inSwitch)
			if s.Tag != nil {
				checkExpr(s.Tag)
			}
			for _, cc := range s.Body.List {
				cl := cc.(*ast.CaseClause)
				for _, e := range cl.List {
					checkExpr(e)
				}
				walkList(cl.Body, depth, inSwitch+1)
			}
		case *ast.TypeSwitchStmt:
			walk(s.Init, depth, inSwitch)
			for _, cc := range s.Body.List {
				walkList(cc.(*ast.CaseClause).Body, depth, inSwitch+1)
			}
		case *ast.BranchStmt:
			switch s.Tok {
			case token.CONTINUE:
			case token.BREAK:
				if s.Label != nil || (depth == 0 && inSwitch == 0) {
					fail("violation", s.Pos(), "break out of a map iteration: which element is seen first depends on iteration order")
				}
			default:
				fail("undecided", s.Pos(), "%s inside a map iteration", s.Tok)
			}
		case *ast.ReturnStmt:
			fail("violation", s.Pos(), "return from inside a map iteration: which element is seen first depends on iteration order")
		case *ast.LabeledStmt:
			walk(s.Stmt, depth, inSwitch)
		case *ast.EmptyStmt:
		default:
			fail("undecided", s.Pos(), "statement %T inside a map iteration", s)
		}
	}
	walk(rs.Body, 0, 0)
	if res.class == "violation" || res.class == "undecided" {
		return res
	}
	if len(collected) > 0 {
		// find enclosing statement list and the statements after the loop
		names := make([]string, 0, len(collected))
		for n := range collected {
			names = append(names, n)
		}
		sort.Strings(names)
		for _, name := range names {
			if ok, why, pos := sortedBeforeUse(info, rs, stack, name); !ok {
				if diag && false {
					continue
				}
				return orderClass{class: "violation", reason: fmt.Sprintf("elements are appended to %s in map order and %s", name, why), pos: pos}
			}
		}
		res.class = "collect-then-sort"
		res.reason = "appends to " + strings.Join(names, ", ") + " and sorts it before any other use"
		return res
	}
	if diag {
		res.class = "diagnostic-only"
		res.reason = "the only order-sensitive effect is the order of messages added to the status (not a generated file)"
		return res
	}
	sort.Strings(reasons)
	reasons = uniqStrings(reasons)
	if len(reasons) == 0 {
		reasons = []string{"body only reads or writes iteration-local variables"}
	}
	res.reason = strings.Join(reasons, "; ")
	return res
}

func exprStr(e ast.Expr) string {
	if e == nil {
		return "…"
	}
	return types.ExprString(e)
}

func uniqStrings(s []string) []string {
	var out []string
	for i, x := range s {
		if i == 0 || x != s[i-1] {
			out = append(out, x)
		}
	}
	return out
}

// sortedBeforeUse checks that, after the range statement (and after any enclosing loops of
// which the collected slice is not local), the first statement mentioning name is a sort of it.
func sortedBeforeUse(info *types.Info, rs *ast.RangeStmt, stack []ast.Node, name string) (bool, string, token.Pos) {
	// walk outwards: at each enclosing block, scan the statements following the one that
	// contains rs. If the slice is declared inside that block we can stop there.
	var child ast.Node = rs
	for i := len(stack) - 2; i >= 0; i-- {
		var list []ast.Stmt
		switch b := stack[i].(type) {
		case *ast.BlockStmt:
			list = b.List
		case *ast.CaseClause:
			list = b.Body
		default:
			child = stack[i]
			continue
		}
		idx := -1
		for j, s := range list {
			if s == child {
				idx = j
			}
		}
		if idx < 0 {
			child = stack[i]
			continue
		}
		for _, s := range list[idx+1:] {
			// another loop that also appends to the same slice is fine (two-phase collection)
			if mentions(s, name) {
				if isSortOf(info, s, name) {
					return true, "", token.NoPos
				}
				if onlyAppendsTo(s, name) {
					continue
				}
				return false, fmt.Sprintf("the next use (%s) is not a sort of it", nodeKind(s)), s.Pos()
			}
		}
		// not used in the rest of this block; was it declared in this block?
		for _, s := range list[:idx+1] {
			if declares(s, name) {
				return false, "it is never sorted in the block that declares it", rs.Pos()
			}
		}
		child = stack[i]
	}
	return false, "no sort of it follows in the enclosing function", rs.Pos()
}

func nodeKind(n ast.Node) string { return strings.TrimPrefix(fmt.Sprintf("%T", n), "*ast.") }

func mentions(n ast.Node, name string) bool {
	found := false
	ast.Inspect(n, func(m ast.Node) bool {
		if found {
			return false
		}
		switch e := m.(type) {
		case *ast.SelectorExpr:
			if types.ExprString(e) == name {
				found = true
				return false
			}
			if mentions(e.X, name) {
				found = true
			}
			return false
		case *ast.Ident:
			if e.Name == name {
				found = true
			}
		}
		return !found
	})
	return found
}

func declares(s ast.Stmt, name string) bool {
	switch s := s.(type) {
	case *ast.DeclStmt:
		if gd, ok := s.Decl.(*ast.GenDecl); ok {
			for _, sp := range gd.Specs {
				if vs, ok := sp.(*ast.ValueSpec); ok {
					for _, n := range vs.Names {
						if n.Name == name {
							return true
						}
					}
				}
			}
		}
	case *ast.AssignStmt:
		if s.Tok == token.DEFINE {
			for _, l := range s.Lhs {
				if types.ExprString(l) == name || strings.HasPrefix(name, types.ExprString(l)+".") {
					return true
				}
			}
		}
	}
	return false
}

func isSortOf(info *types.Info, s ast.Stmt, name string) bool {
	es, ok := s.(*ast.ExprStmt)
	if !ok {
		return false
	}
	call, ok := es.X.(*ast.CallExpr)
	if !ok || len(call.Args) == 0 {
		return false
	}
	fn := calleeFunc(info, call)
	if fn == nil || fn.Pkg() == nil {
		return false
	}
	if types.ExprString(call.Args[0]) != name {
		return false
	}
	// a comparator given as a function literal must order the elements by some of their data: a
	// predicate built from booleans only ("standard packages first") leaves ties in map order
	if len(call.Args) > 1 {
		if fl, ok := call.Args[len(call.Args)-1].(*ast.FuncLit); ok && !comparatorOrders(fl) {
			return false
		}
	}
	switch fn.Pkg().Path() {
	case "sort":
		switch fn.Name() {
		case "Strings", "Ints", "Float64s", "Slice", "SliceStable", "Sort", "Stable":
			return true
		}
	case "slices":
		return strings.HasPrefix(fn.Name(), "Sort")
	}
	return false
}

// comparatorOrders: the function literal contains an ordered comparison (<, >, <=, >=) or a
// Compare call - i.e. it can tell two different elements of the same class apart.
func comparatorOrders(fl *ast.FuncLit) bool {
	found := false
	ast.Inspect(fl.Body, func(n ast.Node) bool {
		switch x := n.(type) {
		case *ast.BinaryExpr:
			switch x.Op {
			case token.LSS, token.GTR, token.LEQ, token.GEQ:
				found = true
			}
		case *ast.CallExpr:
			if se, ok := x.Fun.(*ast.SelectorExpr); ok && strings.HasPrefix(se.Sel.Name, "Compare") {
				found = true
			}
		}
		return !found
	})
	return found
}

// onlyAppendsTo: the statement is a loop/if whose only mention of name is `name = append(name, …)`.
func onlyAppendsTo(s ast.Stmt, name string) bool {
	ok := true
	ast.Inspect(s, func(n ast.Node) bool {
		as, isAs := n.(*ast.AssignStmt)
		if isAs && len(as.Lhs) == 1 && len(as.Rhs) == 1 && types.ExprString(as.Lhs[0]) == name {
			if call, isCall := as.Rhs[0].(*ast.CallExpr); isCall {
				if id, isID := call.Fun.(*ast.Ident); isID && id.Name == "append" && len(call.Args) > 0 && types.ExprString(call.Args[0]) == name {
					// check the remaining args do not mention name
					for _, a := range call.Args[1:] {
						if mentions(a, name) {
							ok = false
						}
					}
					return false
				}
			}
			ok = false
			return false
		}
		if e, isE := n.(ast.Expr); isE {
			switch e.(type) {
			case *ast.Ident, *ast.SelectorExpr:
				if types.ExprString(e) == name {
					ok = false
				}
			}
		}
		return ok
	})
	return ok
}
