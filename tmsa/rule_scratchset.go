package main

import (
	"fmt"
	"go/token"
	"sort"
	"strings"

	"golang.org/x/tools/go/ssa"
)

// RESET(scratch-set): a container.BitSet that is reset (ClearAll/SetAll) inside a loop or a
// closure is a scratch set: it is refilled per item. The reset must sit at the iteration level
// at which the set is filled *and* read: for every pair of a mutation (Set/Clear/Or/Complement)
// and a read (Get/Slice/NextZero/Cardinality/argument of Or) of the same set, the innermost
// iteration scope containing both (a natural loop, or the body of a closure - it runs once per
// call) must contain a reset of that set. A reset hoisted out of that scope lets the bits of
// the previous item leak into the next one (C14: the mask of pinned lookahead flags accumulated
// across sibling references).
func ruleSCRATCHSET(c *Ctx, pkgs ...string) {
	const rule = "RESET(scratch-set)"
	type site struct {
		kind  string // reset | mut | read
		chain []string
		pos   token.Pos
		name  string
		call  *ssa.Call
	}
	n := 0
	for _, rel := range pkgs {
		for _, root := range c.SrcFuncs(rel) {
			if root.Parent() != nil {
				continue
			}
			// the function tree
			var tree []*ssa.Function
			var walk func(f *ssa.Function)
			walk = func(f *ssa.Function) {
				tree = append(tree, f)
				for _, a := range f.AnonFuncs {
					walk(a)
				}
			}
			walk(root)
			// where each closure is created
			made := map[*ssa.Function]*ssa.MakeClosure{}
			for _, f := range tree {
				for _, b := range f.Blocks {
					for _, ins := range b.Instrs {
						if mc, ok := ins.(*ssa.MakeClosure); ok {
							if g, ok := mc.Fn.(*ssa.Function); ok {
								made[g] = mc
							}
						}
					}
				}
			}
			loopsOf := map[*ssa.Function][]*natLoop{}
			for _, f := range tree {
				loopsOf[f] = naturalLoops(f)
			}
			var chainOf func(f *ssa.Function, b *ssa.BasicBlock) []string
			chainOf = func(f *ssa.Function, b *ssa.BasicBlock) []string {
				var own []*natLoop
				for _, l := range loopsOf[f] {
					if l.Body[b] {
						own = append(own, l)
					}
				}
				sort.Slice(own, func(i, j int) bool { return len(own[i].Body) > len(own[j].Body) })
				var out []string
				if mc := made[f]; mc != nil {
					out = append(out, chainOf(mc.Parent(), mc.Block())...)
					out = append(out, "closure:"+f.Name())
				} else if f.Parent() != nil {
					out = append(out, "closure:"+f.Name())
				}
				for _, l := range own {
					out = append(out, fmt.Sprintf("loop:%s:%d", f.Name(), l.Header.Index))
				}
				return out
			}
			// identity of a set
			var ident func(f *ssa.Function, v ssa.Value) (string, string)
			ident = func(f *ssa.Function, v ssa.Value) (string, string) {
				if u, ok := v.(*ssa.UnOp); ok && u.Op == token.MUL {
					v = u.X
				}
				switch x := v.(type) {
				case *ssa.Alloc:
					return fmt.Sprintf("local:%p", x), x.Comment
				case *ssa.FreeVar:
					if mc := made[f]; mc != nil {
						for i, fv := range f.FreeVars {
							if fv == x && i < len(mc.Bindings) {
								return ident(mc.Parent(), mc.Bindings[i])
							}
						}
					}
					return "free:" + x.Name(), x.Name()
				case *ssa.FieldAddr:
					return "field:" + vpath(x), vpath(x)
				}
				return fmt.Sprintf("value:%p", v), vpath(v)
			}
			sites := map[string][]site{}
			for _, f := range tree {
				for _, b := range f.Blocks {
					for _, ins := range b.Instrs {
						call, ok := ins.(*ssa.Call)
						if !ok {
							continue
						}
						g := call.Call.StaticCallee()
						if g == nil || g.Signature.Recv() == nil || len(call.Call.Args) == 0 {
							continue
						}
						rt := g.Signature.Recv().Type()
						if !isNamedType(rt, "util/container", "BitSet") {
							continue
						}
						kind := ""
						switch g.Name() {
						case "ClearAll", "SetAll":
							kind = "reset"
						case "Set", "Clear", "Or", "Complement":
							kind = "mut"
						case "Get", "Slice", "NextZero", "Cardinality":
							kind = "read"
						default:
							continue
						}
						id, name := ident(f, call.Call.Args[0])
						sites[id] = append(sites[id], site{kind, chainOf(f, b), call.Pos(), name, call})
						if g.Name() == "Or" && len(call.Call.Args) > 1 {
							id2, name2 := ident(f, call.Call.Args[1])
							sites[id2] = append(sites[id2], site{"read", chainOf(f, b), call.Pos(), name2, call})
						}
					}
				}
			}
			var ids []string
			for id := range sites {
				ids = append(ids, id)
			}
			sort.Slice(ids, func(i, j int) bool { return sites[ids[i]][0].pos < sites[ids[j]][0].pos })
			for _, id := range ids {
				ss := sites[id]
				scratch := false
				for _, s := range ss {
					if s.kind == "reset" && len(s.chain) > 0 {
						scratch = true
					}
				}
				if !scratch {
					continue
				}
				n++
				key := fmt.Sprintf("%s:%s", ssaFuncKey(root), ss[0].name)
				bad := token.NoPos
				badScope := ""
				pairs := 0
				for _, m := range ss {
					if m.kind != "mut" {
						continue
					}
					for _, r := range ss {
						if r.kind != "read" {
							continue
						}
						k := 0
						for k < len(m.chain) && k < len(r.chain) && m.chain[k] == r.chain[k] {
							k++
						}
						if k == 0 {
							continue
						}
						// test-and-set (if !s.Get(x) { s.Set(x) }) is the visited-set idiom of a
						// traversal that was started, and reset, outside this scope
						if testAndSet(r.call, m.call) {
							continue
						}
						pairs++
						common := m.chain[:k]
						found := false
						for _, z := range ss {
							if z.kind != "reset" || len(z.chain) < k {
								continue
							}
							same := true
							for i := 0; i < k; i++ {
								if z.chain[i] != common[i] {
									same = false
								}
							}
							if same {
								found = true
							}
						}
						if !found && bad == token.NoPos {
							bad = r.pos
							badScope = strings.Join(common, " > ")
						}
					}
				}
				if bad != token.NoPos {
					c.Bad(rule, key, bad, "scratch set %s is filled and read inside %s, but none of its resets is inside that scope: bits of the previous item are still set when the next item is processed", ss[0].name, badScope)
				} else {
					c.Ok(rule, key, ss[0].pos, "every iteration scope in which %s is both filled and read contains a reset (%d fill/read pairs)", ss[0].name, pairs)
				}
			}
		}
	}
	if n < 3 {
		c.add(rule, "count:", token.NoPos, CountDropped, true, "only %d scratch bit sets found (3 confirmed by hand: PropagateLookaheads.used, transitiveClosure.seen, generator.shift)", n)
	}
}

// testAndSet: m is s.Set(x) governed by the false edge of r = s.Get(x) with the same x.
func testAndSet(r, m *ssa.Call) bool {
	if r == nil || m == nil || r.Call.StaticCallee() == nil || m.Call.StaticCallee() == nil {
		return false
	}
	if r.Call.StaticCallee().Name() != "Get" || m.Call.StaticCallee().Name() != "Set" {
		return false
	}
	if len(r.Call.Args) < 2 || len(m.Call.Args) < 2 || r.Call.Args[1] != m.Call.Args[1] {
		return false
	}
	for _, g := range flattenConds(governing(m.Block())) {
		if g.V == ssa.Value(r) && !g.Pol {
			return true
		}
	}
	return false
}
