package main

import (
	"fmt"
	"go/token"
	"strings"

	"golang.org/x/tools/go/ssa"
)

// GUARD(full-match): lex.(*Tables).Scan returns the longest *prefix* of the text that some rule
// matches. Callers outside package lex use it to ask "does this constant belong to that class
// rule?" (compiler.resolveClasses: a keyword is moved under its class rule and removed from the
// DFA). The action may be trusted only when the match covers the whole text: the size result
// must be compared with len(text) on the path that uses the action; otherwise a constant whose
// proper prefix matches the class (`not-in` vs /[a-z]+/) silently loses its own rule.
func ruleFULLMATCH(c *Ctx, pkgs ...string) {
	const rule = "GUARD(full-match)"
	n := 0
	for _, rel := range pkgs {
		for _, f := range c.SrcFuncs(rel) {
			ord := map[string]int{}
			for _, b := range f.Blocks {
				for _, ins := range b.Instrs {
					call, ok := ins.(*ssa.Call)
					if !ok {
						continue
					}
					g := call.Call.StaticCallee()
					if g == nil || g.Name() != "Scan" || g.Signature.Recv() == nil || !strings.HasSuffix(g.Signature.Recv().Type().String(), "lex.Tables") || len(call.Call.Args) != 3 {
						continue
					}
					n++
					key := ordKey(ord, fmt.Sprintf("%s:Tables.Scan", ssaFuncKey(f)))
					text := call.Call.Args[2]
					var size, action *ssa.Extract
					for _, r := range *call.Referrers() {
						if ex, ok := r.(*ssa.Extract); ok {
							if ex.Index == 0 {
								size = ex
							} else {
								action = ex
							}
						}
					}
					if action == nil {
						c.Ok(rule, key, call.Pos(), "the action result is not used")
						continue
					}
					full := false
					if size != nil {
						for _, r := range *size.Referrers() {
							bo, ok := r.(*ssa.BinOp)
							if !ok || bo.Op != token.EQL {
								continue
							}
							other := bo.Y
							if other == ssa.Value(size) {
								other = bo.X
							}
							if lc, ok := other.(*ssa.Call); ok {
								if bi, ok := lc.Call.Value.(*ssa.Builtin); ok && bi.Name() == "len" && lc.Call.Args[0] == text {
									full = true
								}
							}
						}
					}
					if full {
						c.Ok(rule, key, call.Pos(), "the matched size is compared with len(text) before the action is used")
					} else {
						c.Bad(rule, key, call.Pos(), "the action returned by Tables.Scan is used without comparing the matched size with len(text): a text whose proper prefix matches is treated as matching entirely")
					}
				}
			}
		}
	}
	if n < 1 {
		c.add(rule, "count:", token.NoPos, CountDropped, true, "no call of lex.(*Tables).Scan found in %v (compiler.resolveClasses confirmed by hand)", pkgs)
	}
}
