package main

import (
	"fmt"
	"go/token"
	"go/types"
	"sort"

	"golang.org/x/tools/go/ssa"
)

// inputFlagRoles: which flag of syntax.Input each branching reader consults, confirmed by
// reading. Synthetic = "added for a lookahead, has no public Parse function, contributes no
// node types"; NoEoi = "the sentence is not followed by end-of-input".
var inputFlagRoles = map[string]string{
	"syntax.newTypeCollector":              "Synthetic", // node types come from the inputs a user can parse
	"grammar.Parser.HasMultipleUserInputs": "Synthetic", // counts public Parse functions
	"syntax.rules":                         "NoEoi",     // the token-set closure starts at the first input followed by eoi
	"compiler.addSyntheticInputs":          "NoEoi",     // an existing no-eoi input can serve a lookahead
}

// FIELDROLE(input): every branch on a boolean flag of syntax.Input reads the flag the audited
// table assigns to that function (Synthetic and NoEoi are both bools on the same record, so a
// swap type-checks).
func ruleFIELDROLE(c *Ctx) {
	const rule = "FIELDROLE(input)"
	found := map[string]map[string]token.Pos{}
	for _, rel := range []string{"syntax", "grammar", "compiler", "gen", "lalr"} {
		for _, f := range c.SrcFuncs(rel) {
			for _, b := range f.Blocks {
				if len(b.Instrs) == 0 {
					continue
				}
				ifi, ok := b.Instrs[len(b.Instrs)-1].(*ssa.If)
				if !ok {
					continue
				}
				var visit func(v ssa.Value, d int)
				visit = func(v ssa.Value, d int) {
					if d > 4 {
						return
					}
					switch y := v.(type) {
					case *ssa.UnOp:
						visit(y.X, d+1)
					case *ssa.BinOp:
						visit(y.X, d+1)
						visit(y.Y, d+1)
					case *ssa.Field:
						if isSyntaxInput(y.X.Type()) {
							rec(found, ssaFuncKey(f), fieldName(y.X.Type(), y.Field), y.Pos())
						}
					case *ssa.FieldAddr:
						if isSyntaxInput(y.X.Type()) {
							rec(found, ssaFuncKey(f), fieldName(y.X.Type(), y.Field), y.Pos())
						}
					}
				}
				visit(ifi.Cond, 0)
			}
		}
	}
	var fns []string
	for fn := range found {
		fns = append(fns, fn)
	}
	sort.Strings(fns)
	for _, fn := range fns {
		want, audited := inputFlagRoles[fn]
		for fld, pos := range found[fn] {
			key := fmt.Sprintf("%s:Input.%s", fn, fld)
			switch {
			case !audited:
				c.Unaud(rule, key, pos, "%s branches on syntax.Input.%s but is not in the audited role table", fn, fld)
			case fld != want:
				c.Bad(rule, fn+":Input."+want, pos, "%s must select inputs by %s (audited role) but branches on %s", fn, want, fld)
			default:
				c.Ok(rule, key, pos, "%s selects inputs by %s as audited", fn, fld)
			}
		}
	}
	for fn, want := range inputFlagRoles {
		if _, ok := found[fn]; !ok {
			c.Lost(rule, fn+":Input."+want, "%s no longer branches on a flag of syntax.Input; the audited table is stale", fn)
		}
	}
}

func rec(m map[string]map[string]token.Pos, fn, fld string, pos token.Pos) {
	if m[fn] == nil {
		m[fn] = map[string]token.Pos{}
	}
	if _, ok := m[fn][fld]; !ok {
		m[fn][fld] = pos
	}
}

func isSyntaxInput(t types.Type) bool {
	if p, ok := t.Underlying().(*types.Pointer); ok {
		t = p.Elem()
	}
	n, ok := t.(*types.Named)
	if !ok || n.Obj().Pkg() == nil {
		return false
	}
	rel, in := relPkg(n.Obj().Pkg())
	return in && rel == "syntax" && n.Obj().Name() == "Input"
}
