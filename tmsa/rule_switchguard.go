package main

import (
	"regexp"
	"sort"
	"strings"
	"text/template/parse"
)

// TMPL(switch-guard): in go_parser.go.tmpl's applyRule the per-rule code (semantic actions,
// nested reports, the fixTrailingWS call) lives in `case N:` arms that are emitted inside one
// `switch rule {`, which itself is emitted under a guard. Every data-dependent condition that
// can make an arm appear must be able to make the switch appear: each grammar predicate used in
// the arms' own guards (HasTrailingNulls for the fixTrailingWS arm) must also feed the guard of
// the switch, directly or through a template variable assigned under it.
func ruleSWITCHGUARD(c *Ctx) {
	const rule = "TMPL(switch-guard)"
	tf, err := c.templates()
	if err != nil {
		c.Lost(rule, "gen/templates", "%v", err)
		return
	}
	f := tf["go_parser.go.tmpl"]
	var tree *parse.Tree
	if f != nil {
		tree = f.Trees["applyRule"]
	}
	if tree == nil {
		c.Lost(rule, "go_parser.go.tmpl#applyRule", "define not found")
		return
	}
	predRe := regexp.MustCompile(`\bHas[A-Z][A-Za-z]*\b`)
	varRe := regexp.MustCompile(`\$[a-zA-Z][A-Za-z0-9]*`)
	// variable -> predicates it depends on: from its declaration/assignment pipes and the guards
	// under which it is assigned
	varDeps := map[string]map[string]bool{}
	addDeps := func(v string, srcs ...string) {
		if varDeps[v] == nil {
			varDeps[v] = map[string]bool{}
		}
		for _, s := range srcs {
			for _, m := range predRe.FindAllString(s, -1) {
				varDeps[v][m] = true
			}
			for _, w := range varRe.FindAllString(s, -1) {
				if w != v {
					varDeps[v]["var:"+w] = true
				}
			}
		}
	}
	walkTmpl(tree.Root, nil, func(n parse.Node, gs []tguard) {
		an, ok := n.(*parse.ActionNode)
		if !ok || len(an.Pipe.Decl) == 0 {
			return
		}
		v := an.Pipe.Decl[0].String()
		srcs := []string{an.Pipe.String()}
		for _, g := range gs {
			srcs = append(srcs, g.Pipe)
		}
		addDeps(v, srcs...)
	})
	var closure func(s string, seen map[string]bool) map[string]bool
	closure = func(s string, seen map[string]bool) map[string]bool {
		out := map[string]bool{}
		for _, m := range predRe.FindAllString(s, -1) {
			out[m] = true
		}
		for _, v := range varRe.FindAllString(s, -1) {
			if seen[v] {
				continue
			}
			seen[v] = true
			for d := range varDeps[v] {
				if strings.HasPrefix(d, "var:") {
					for k := range closure(strings.TrimPrefix(d, "var:"), seen) {
						out[k] = true
					}
				} else {
					out[d] = true
				}
			}
		}
		return out
	}
	var switchDeps map[string]bool
	armDeps := map[string]bool{}
	var switchPos, armPos string
	walkTmpl(tree.Root, nil, func(n parse.Node, gs []tguard) {
		tn, ok := n.(*parse.TextNode)
		if !ok {
			return
		}
		txt := string(tn.Text)
		if strings.Contains(txt, "switch rule {") && switchDeps == nil {
			switchDeps = map[string]bool{}
			switchPos = tmplPos(f, n)
			for _, g := range gs {
				if g.Kind == "if" && g.Pol {
					for k := range closure(g.Pipe, map[string]bool{}) {
						switchDeps[k] = true
					}
				}
			}
		}
		if strings.Contains(txt, "case ") && switchDeps != nil {
			// guards between the switch and the arm
			for _, g := range gs {
				if g.Kind == "if" && g.Pol {
					for k := range closure(g.Pipe, map[string]bool{}) {
						if !armDeps[k] {
							armDeps[k] = true
							armPos = tmplPos(f, n)
						}
					}
				}
			}
		}
	})
	key := "go_parser.go.tmpl#applyRule:switch-rule"
	if switchDeps == nil || len(armDeps) == 0 {
		c.Lost(rule, key, "`switch rule {` or its case arms were not found in applyRule")
		return
	}
	var missing []string
	for k := range armDeps {
		if !switchDeps[k] {
			missing = append(missing, k)
		}
	}
	sort.Strings(missing)
	if len(missing) > 0 {
		c.addT(rule, key, switchPos, Violation, "case arms of applyRule are emitted under %s (%s), but the guard of the enclosing `switch rule {` does not depend on it: for a grammar where only that condition holds the arm — e.g. the fixTrailingWS call of a rule ending in an empty symbol — is never generated", strings.Join(missing, ", "), armPos)
	} else {
		var ks []string
		for k := range armDeps {
			ks = append(ks, k)
		}
		sort.Strings(ks)
		c.addT(rule, key, switchPos, OK, "every grammar predicate that can produce a case arm (%s) also feeds the guard of the switch", strings.Join(ks, ", "))
	}
}
