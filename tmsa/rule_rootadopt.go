package main

import (
	"go/token"
	"strings"

	"golang.org/x/tools/go/ssa"
)

// GUARD(root-adopts-all): the AST builder attaches each reported node to the smallest later node
// that contains its start offset and treats a node starting at N's end offset as following N.
// The root must nevertheless end up holding every reported node. builder.build() of each
// generated ast package therefore either refuses to return unless exactly one node is left on
// the stack (`len(b.stack) != 1`), or adds the file node with an end offset strictly beyond the
// input (len(content)+K, K >= 1) so that it adopts empty nodes reported at the very end.
func ruleROOTADOPT(c *Ctx) {
	const rule = "GUARD(root-adopts-all)"
	n := 0
	for _, rel := range parserPkgs {
		f := c.SSAFunc(rel+"/ast", "(*builder).build")
		if f == nil {
			continue
		}
		n++
		key := rel + "/ast.builder.build:root"
		okCount, okBeyond := false, false
		var pos token.Pos = f.Pos()
		for _, b := range f.Blocks {
			for _, ins := range b.Instrs {
				switch y := ins.(type) {
				case *ssa.BinOp:
					if (y.Op == token.NEQ || y.Op == token.EQL) && strings.HasPrefix(vpath(y.X), "len(b.stack") && vpath(y.Y) == "1" {
						okCount = true
					}
				case *ssa.Call:
					g := y.Call.StaticCallee()
					if g == nil || g.Name() != "addNode" || len(y.Call.Args) != 4 {
						continue
					}
					pos = y.Pos()
					if bo, ok := y.Call.Args[3].(*ssa.BinOp); ok && bo.Op == token.ADD {
						if k, ok := bo.Y.(*ssa.Const); ok && k.Value != nil && k.Int64() >= 1 && strings.HasPrefix(vpath(bo.X), "len(") {
							okBeyond = true
						}
					}
				}
			}
		}
		switch {
		case okCount:
			c.Ok(rule, key, pos, "build() fails unless exactly one node is left on the stack")
		case okBeyond:
			c.Ok(rule, key, pos, "the file node is added with an end offset beyond the input, so it adopts every node on the stack")
		default:
			c.Bad(rule, key, pos, "the file node is added as [0, len(content)] and nothing checks that the stack is left with one node: an empty node reported at offset len(content) (the semicolon inserted at the end of a JS file) stays on the stack and is silently missing from the tree")
		}
	}
	if n < 2 {
		c.add(rule, "count:", token.NoPos, CountDropped, true, "only %d generated ast builders found (tm and js confirmed by hand)", n)
	}
}
