package main

func init() {
	register(&Property{
		ID: "C18",
		Explanation: "Decides a structural necessary condition of deterministic generation: every source of unspecified order or run-to-run variation between a grammar text and the written files is enumerated from the type-checked source and discharged. " +
			"ORDER: each range over a map in the import closure of gen and compiler is classified from its body (writes keyed by the unmodified range key, constant/set insertion, commutative accumulation, iteration-local state; or appends to a slice that is sorted before its next use; or diagnostics only); early exits, last-writer-wins stores with rewritten keys and unsorted collections are violations. " +
			"GLOBALS: no store/map update rooted in a package-level variable outside init (earlier generations in the same process); GLOBALS(append): no append whose destination may share its backing array with package-level data (may-alias analysis; a sub-slice of an init-time table). NONDET: clock/rand/env/runtime calls, go statements and select are matched against an audited table. " +
			"Not decided: byte identity itself, stdlib determinism, the committed-files clause (that is the pinned TestGenerate).",
		Rules: []string{"ORDER", "GLOBALS", "GLOBALS(append)", "NONDET"},
		Run: func(c *Ctx) {
			ruleORDER(c)
			ruleGLOBALS(c)
			ruleGLOBALAPPEND(c)
			ruleNONDET(c)
		},
	})
}

var setPkgs = map[string]bool{"util/set": true, "util/container": true, "util/sparse": true}

func init() {
	register(&Property{
		ID: "C25",
		Explanation: "Decides structural necessary conditions of exact set algebra and closure: DTX(setalg): container.Merge/Intersect are evaluated abstractly for all 16 (Inverse, empty) operand states and the symbolic result (helper, operand order, polarity) equals A∪B / A∩B on every pair of subsets of a 3-element universe; Complement flips only the polarity. MINMAX(update): the low-link updates of graph.Tarjan (which orders the closure) compare against the cell they update. " +
			"ALIAS: at every call that fills a caller-supplied scratch buffer (p[:0] idiom, found by summary) no other operand may share storage with the buffer (field-based may-alias with reaching stores). GUARD(complcycle): an error is recorded exactly under op==complement ∧ onStack(operand), and Compute returns it. " +
			"Not decided: the merge loops of combine/intersect/subtract, the least-fixpoint property, Tarjan itself. INPLACE(write-behind-read): the in-place merge loops of util/container and util/diff never append past their read cursor. KEYCOPY: interning containers store a copy of the key slice. SIBLING(tarjan-update): both Tarjan implementations propagate lowLink[child] after the descent.",
		Rules: []string{"DTX(setalg)", "ALIAS", "GUARD(complcycle)", "MINMAX(update)", "INPLACE(write-behind-read)", "GUARD(unionclone)", "KEYCOPY", "SIBLING(tarjan-update)"},
		Run: func(c *Ctx) {
			ruleMINMAX(c, "util/graph", "util/set")
			ruleTARJANSIB(c)
			c.MinCount("MINMAX(update)", "util/graph.", 2)
			ruleSETALG(c)
			ruleSETEQ(c)
			ruleALIAS(c, setPkgs)
			c.MinCount("ALIAS", "util/set.", 4)
			ruleUNIONCLONE(c)
			ruleCOMPLCYCLE(c)
			ruleKEYCOPY(c)
			ruleINPLACE(c, "util/container", "util/sparse", "util/set", "util/diff", "util/graph")
		},
	})
	register(&Property{
		ID: "C15",
		Explanation: "Decides structural necessary conditions of token-set resolution: SIBLING(resolvesets): each work-list case of syntax.ResolveSets (any/first/last/precede/follow) instantiates the sets its definition needs, walks the rule in the right direction from the right position, stops after the first non-nullable symbol (polarity of the nullable test) and falls through to the enclosing nonterminal only when the walk was not stopped. MUSTPASS(set-contribution): in the any/first/last cases every rule reaches the rules[r].set test (set-defined nonterminals are empty rules carrying a set). " +
			"SHARED: an in-place, self-dependent rewrite of TokenSet nodes inside a per-set traversal consults a visited set that outlives one traversal (nodes are shared between named sets). CYCLE: every recursion over *syntax.TokenSet (cyclic for mutually recursive named sets) is cut by a visited set keyed by the node. ALIAS/ESCAPE: scratch buffers of the set closure never alias an operand and buffer-backed slices are not retained. GUARD(complcycle): complement-on-cycle is reported exactly under op==complement ∧ onStack. DTX(setalg) as in C25. " +
			"Not decided: that the fixpoint equals the definitional sets, Nullable(), reachability from the first input. LOOPSHAPE(first-input): syntax.rules leaves the loop over m.Inputs right after it enqueued the first end-of-input input (sets are computed over what the first input reaches, not over every input). GUARD(set-alias): in the second pass over named sets the node whose content is copied into a set's slot is fresh or known not to be another named set's slot (named sets may refer to sets declared later). DTX(nullable): isNullable, evaluated for every expression kind and every valuation of its operands (32 cells), is the documented table (wrappers Assign/Append/Arrow/Prec and `+` lists are as nullable as their operand, Choice = any, Sequence = all, Reference = membership). COPY(struct-slices): an instantiated copy of a set node (*ret = *set) gets a fresh Sub list before operands are appended. BOUNDARY(terminals) as in C14 (set leaves that refer to nonterminal #0 are renumbered too). GUARD(reuse-equal): extractNonterm reuses an existing helper nonterminal of the same provisional name only on the true edge of expr.Equal(existing value) (names are not injective; two different inline sets never share a nonterminal).",
		Rules: []string{"SIBLING(resolvesets)", "MUSTPASS(set-contribution)", "CYCLE", "SHARED", "ALIAS", "ESCAPE", "GUARD(complcycle)", "DTX(setalg)", "GUARD(unionclone)", "LOOPSHAPE(first-input)", "GUARD(set-alias)", "DTX(nullable)", "COPY(struct-slices)", "BOUNDARY(terminals)", "GUARD(reuse-equal)"},
		Run: func(c *Ctx) {
			ruleRESOLVESETS(c)
			ruleSETCONTRIB(c)
			ruleCYCLE(c)
			ruleSHARED(c)
			pk := map[string]bool{"util/set": true, "util/container": true, "syntax": true}
			ruleALIAS(c, pk)
			ruleESCAPE(c, pk)
			ruleCOMPLCYCLE(c)
			ruleSETALG(c)
			ruleSETEQ(c)
			ruleFIRSTINPUT(c)
			ruleSETALIAS(c)
			ruleNULLABLEDTX(c)
			ruleREUSEEQUAL(c)
			ruleSTRUCTCOPY(c, "syntax")
			ruleBOUNDARY(c, "syntax", "compiler")
		},
	})
}

func init() {
	register(&Property{
		ID: "C05",
		Explanation: "Decides structural necessary conditions of 'compressed tables decode to the same actions': GUARD(usedBase): every freshly chosen displacement base in allocator.place reaches a return only through the not-used outcome of usedBase.Get(delta+base), and the base is recorded (two rows with one base decode each other's cells). " +
			"GUARD(dedupe): a cached base is reused only when the bounds check held and value+check column were compared. CODEC(optimize): every value stored into a row is error(-1), shift(-2-state), a rule index or the unfilled sentinel; under defaultReduce the sentinel is -K-len(Action), K>=2 (distinct from every shift code, the nonassoc error and rule indices), and only cells equal to the sentinel receive the default reduction. " +
			"MUSTPASS(compile-order): populateTables < resolveWithLookahead < reportConflicts < minimize < Optimize. GUARD(optimize-la): Optimize is not run on tables holding deep-lookahead pointers. RESET(histogram): a counter slice reused across states (Optimize's reuse, pickDefault's parameter) is zeroed inside the iteration before it is bumped and read back. LOOPBOUND: no element-by-element scan in lalr/ or util/container (the bit sets the row packer searches) stops short of its slice. OPTIONMAP: each option key of the grammar file sets its own Options field (defaultReduce and optimizeTables are switched on only by their own keys). " +
			"Not decided: full functional equality of the two encodings, pickDefault's choice. AGREE(option-plumbing): every field of the lalr.Options literal in compileParser that is filled from grammar.Options/compiler.Params is filled from the field of the same name (defaultReduce is not switched on by a neighbouring option). CODEC(default-fallback): every decode site of the displacement encoding in the generated Go parsers reads the row default (tmDefAct/tmDefGoto) on the failing edge of the tmCheck owner test. CODEC(parser) as in C01: every read of the packed table in the generated parsers (main loop, gotoState, reduceAll, lookahead) is guarded by 0 <= pos < tmTableLen - cell 0 included. SIBLING(gotoState) as in C01: the reference lookup DefaultEnc.gotoState, through which Optimize reads the uncompressed tables, checks the block end in both of its search branches.",
		Rules: []string{"GUARD(usedBase)", "GUARD(dedupe)", "CODEC(optimize)", "MUSTPASS(compile-order)", "GUARD(optimize-la)", "OPTIONMAP", "LOOPBOUND", "RESET(histogram)", "AGREE(option-plumbing)", "CODEC(default-fallback)", "CODEC(parser)", "SIBLING(gotoState)"},
		Run: func(c *Ctx) {
			ruleGOTOSIBLING(c)
			ruleUSEDBASE(c)
			ruleDEDUPE(c)
			ruleOPTCODEC(c)
			ruleCOMPILEORDER(c)
			ruleOPTIONMAP(c)
			ruleLOOPBOUND(c, "util/container", "lalr")
			ruleRESET(c, "lalr")
			ruleOPTPLUMBING(c)
			ruleDEFAULTFALLBACK(c)
			ruleTABLEIDX(c)
		},
	})
	register(&Property{
		ID: "C06",
		Explanation: "Decides structural necessary conditions of behaviour-preserving minimization: GUARD(entry): minimize consults Grammar.Inputs so that entry states (referenced by index from generated Parse*/lookahead functions) stay apart. GUARD(final): the initial partition consults Tables.FinalStates (reaching `end` stops the parse, which no action signature records). FIELDCOV(minimize): the rule-class key is built from LHS, RuleLen (as popped by the parser), action, node type and flags; every Tables field that holds or is indexed by state numbers is rewritten on the merge path; new Tables fields must be classified; the refinement signature contains own partition, edge symbol and target partition. " +
			"MUSTPASS(compile-order): minimize runs after conflict resolution and before Optimize. KEYCOPY: the interning containers that partition states by signature store a copy of the signature, never the caller's (reusable) slice. AGREE(memo-key): generated code identifies a lookahead by its entry state (kept apart), never by its final state (merged with other final states). SIGNATURE(lalr-cell): each element of a lookahead state's initial signature is the Lalr cell itself or ruleClass[cell], never a constant standing for a class of cells. LOCKSTEP(rule-copy): the action id that keeps rules with different default-cast behaviour apart is stored into the lalr copy of the rule (the one minimize keys on) whenever it is stored into the grammar copy (the one applyRule is generated from). Not decided: that Moore refinement yields a behaviourally equivalent automaton on all inputs. ACCESSOR(len): IntSliceSet.Len(), the convergence measure of the refinement loop, returns the counter Insert advances per new element. GUARD(final) also requires the protected set to hold the elements of Tables.FinalStates. SIGNATURE(lalr-cell) also requires every (terminal, action) pair of a row to be appended. KEYCOV(cast-action): the key under which generateTables shares default-cast action ids contains both types whose difference requires the cast, so reduce states that cast differently are never merged. The rule-class key also holds the trailing-nullable shape of the rule (F43). DEDUP(marker-states): the state lists of markers are rebuilt as sets under the renumbering. INTERN(compare): the interning containers of util/container return an existing entry only after SliceEqual on the keys (equal hashes are not equal state signatures).",
		Rules: []string{"GUARD(entry)", "GUARD(final)", "FIELDCOV(minimize)", "MUSTPASS(compile-order)", "KEYCOPY", "LOCKSTEP(rule-copy)", "SIGNATURE(lalr-cell)", "AGREE(memo-key)", "GUARD(optimize-la)", "ACCESSOR(len)", "KEYCOV(cast-action)", "DEDUP(marker-states)", "INTERN(compare)"},
		Run: func(c *Ctx) {
			ruleENTRYGUARD(c)
			ruleFINALGUARD(c)
			ruleFINALELEMS(c)
			ruleLENACCESSOR(c)
			ruleMINIMIZE(c)
			ruleCOMPILEORDER(c)
			ruleKEYCOPY(c)
			ruleRULECOPY(c)
			ruleSIGCELL(c)
			ruleMEMOKEY(c)
			ruleCASTKEY(c)
			ruleMARKERDEDUP(c)
			ruleINTERNCOMPARE(c)
		},
	})
}

func init() {
	register(&Property{
		ID: "C04",
		Explanation: "The compile-time precedence decision is a finite table; it is extracted from the code by abstract evaluation and compared with the documented one. DTX(resolvePrec): for every combination of (rule has precedence, lookahead has precedence, order of the two groups, associativity) the result equals: missing -> conflict; higher wins; equal -> left reduces, right shifts, nonassoc is an error. " +
			"GUARD(lastterminal): the fallback takes the last RHS symbol with 0 < sym < Terminals (markers and nonterminals excluded). DTX(ruleAction): shift x {reduce, error, shift, conflict} -> {rule, -3, -1, -1}; an existing conflict or nonassoc error keeps its action; an unresolved reduce/reduce keeps the earlier rule and reports both. " +
			"MUSTPASS(nonassoc-rewrite): -3 becomes the error code -2 before a row is emitted. LOCKSTEP(precGroup): later declaration = larger group. DTX(assocmap): %left/%right/%nonassoc map to Left/Right/NonAssoc. CODEC(optimize): nonassoc errors survive defaultReduce (every pair of a lookahead row stores its cell; only sentinel cells take the default). ORDER(alternatives): compiler.or keeps the base nonterminal's rules before the rules of its extend clauses, so the \"earlier rule\" of a reduce/reduce default is the one written first. " +
			"Not decided: that the chosen action is what the running parser does (C01), hasConflict bookkeeping across several rules on one terminal. DTX(hasConflict) as in C03: a terminal already decided by precedence still goes through precedence resolution for the next rule. SIGNATURE(lalr-cell) as in C06: under minimizeDFA the per-terminal entries of a lookahead state (nonassoc errors included) are part of the state's signature. PROPAGATE(unresolved) as in C07: an only partly decidable reduce/reduce conflict stays a reported conflict. DTX(ambiguity-add): ambiguity.add evaluated for all 5 x 4 pairs (stored resolution, new resolution): the first or an equal answer is kept, two different answers become conflict, a conflict stays one.",
		Rules: []string{"ORDER(alternatives)", "DTX(resolvePrec)", "GUARD(lastterminal)", "DTX(ruleAction)", "MUSTPASS(nonassoc-rewrite)", "LOCKSTEP(precGroup)", "DTX(assocmap)", "CODEC(optimize)", "DTX(hasConflict)", "SIGNATURE(lalr-cell)", "PROPAGATE(unresolved)", "DTX(ambiguity-add)"},
		Run: func(c *Ctx) {
			ruleAMBIGADD(c)
			ruleORORDER(c)
			ruleRESOLVEPREC(c)
			ruleHASCONFLICT(c)
			ruleRULEACTION(c)
			rulePRECPLUMBING(c)
			ruleOPTCODEC(c)
			ruleSIGCELL(c)
			ruleTRIEUNRESOLVED(c)
		},
	})
	register(&Property{
		ID: "C03",
		Explanation: "Decides the structural clauses of 'conflict reports are exact': GUARD(conflict-accounting): the shift/reduce counter grows by len(conflict.Next) exactly under !Resolved and CanShift, the reduce/reduce counter under !Resolved and !CanShift. DTX(reportConflicts): for all 16 combinations of (sr = %expect, rr = %expect-rr, includeResolved, verbose) the summary error at the grammar origin is raised iff a count differs; the counts are exported. " +
			"GUARD(unionclone) + ALIAS/ESCAPE over lalr: lookahead sets kept in states never share storage with the scratch buffer that the next union overwrites. DTX(ruleAction): which resolution is recorded per conflict. DTX(lr0-shift): a state with a reduction that receives its first shift loses its 'reduce without lookahead' status on every path. MINMAX(update): the low-link updates of the SCC pass that orders the lookahead propagation (util/graph Tarjan) compare against the cell they update. " +
			"Not decided: LR(0) closure, lookback/follow propagation, the LALR(1) sets themselves — algorithmic, out of reach for this technique. DTX(hasConflict): conflictBuilder.hasConflict is true exactly for an existing entry whose resolution is `conflict` (all 6 cells); an entry decided by precedence does not make the next rule on that terminal a conflict. DTX(ambiguity-add) as in C04 (contradicting precedence answers for one terminal are counted and reported as a conflict).",
		Rules: []string{"GUARD(conflict-accounting)", "DTX(reportConflicts)", "DTX(lr0-shift)", "GUARD(unionclone)", "ALIAS", "ESCAPE", "DTX(ruleAction)", "MINMAX(update)", "SENTINEL(allTokensMarker)", "DTX(hasConflict)", "DTX(ambiguity-add)"},
		Run: func(c *Ctx) {
			ruleAMBIGADD(c)
			ruleMINMAX(c, "util/graph", "lalr", "util/container", "util/sparse")
			ruleSENTINELIDX(c)
			c.MinCount("MINMAX(update)", "util/graph.", 2)
			ruleCONFLICTCOUNT(c)
			ruleREPORTCONFLICTS(c)
			ruleHASCONFLICT(c)
			ruleLR0SHIFT(c)
			ruleUNIONCLONE(c)
			pk := map[string]bool{"lalr": true, "util/sparse": true}
			ruleALIAS(c, pk)
			ruleESCAPE(c, pk)
			ruleRULEACTION(c)
		},
	})
}

func init() {
	register(&Property{
		ID: "C24",
		Explanation: "Decides structural necessary conditions of 'shift-DFA scanners agree with the tables they pack': INTERVAL(bitpack): with field width W read from Pack (target*W, state*W), the accepted number of states K satisfies K*W <= 64, (K-1)*W < 2^W and K <= len(onEoi); actions < A encode as action*2+1 < 2^W; Scan decodes with mask 2^W-1, /W and /2. " +
			"CONSTAGREE(ascii): the guard on the last symbol-map entry is <= the byte split (128) below which bytes are mapped individually. GUARD(nobacktrack): tables with checkpoints or several start states are rejected (the -1-cell decode and state 0 start are valid only then). GLOBALS: no package-level mutable state in shiftdfa. " +
			"Not decided: equality of results on all inputs as such. CONSTAGREE(last-entry): the symbol Pack gives to all non-ASCII bytes is the Target of the last SymbolMap entry (the catch-all range), as lex.Tables documents. CODEC(lexdfa): the reference side - lex.Tables.Scan decodes the cell classes as documented, including the end-of-input fallback to the last accepted position. UNITS(scan-size) as in C09 (the reference side of the comparison). UNITS(scan-bytes): Tables.Scan decodes a rune only on the false edge of t.ScanBytes (in bytes mode every byte is one symbol). AGREE(scan-mode): the value lex.Compile stores into Tables.ScanBytes is its scanBytes parameter, the mode every pattern was parsed with (the packed scanner and Tables.Scan step through the same DFA in the same units).",
		Rules: []string{"INTERVAL(bitpack)", "CONSTAGREE(ascii)", "GUARD(nobacktrack)", "GLOBALS", "CONSTAGREE(last-entry)", "CODEC(lexdfa)", "UNITS(scan-size)", "UNITS(scan-bytes)", "AGREE(scan-mode)"},
		Run: func(c *Ctx) {
			ruleSCANMODE(c)
			ruleSHIFTDFA(c)
			ruleLASTENTRY(c)
			rulePKGGLOBALS(c, "shiftdfa")
			ruleLEXCODEC(c)
			ruleSCANSIZE(c)
			ruleSCANBYTES(c)
		},
	})
}

func init() {
	register(&Property{
		ID: "C09",
		Explanation: "Decides structural necessary conditions of longest-match-with-priority tables: DTX(accept-priority): in a DFA state the accepted rule is replaced only by a rule of strictly higher precedence, equal precedence with a different action is an error. FIELDCOV(checkpoint): backtracking checkpoints are shared only between transitions with the same target state and the same accepted action, and carry that action. " +
			"CODEC(lexdfa): the writer's three cell classes (state, checkpoint k = -1-k, accept = -1-action shifted below the checkpoints) are produced under the right tests; Tables.Scan reads Backtrack[-1-cell] only for actionStart < cell < 0, computes actionStart-cell only for cell <= actionStart (also on the end-of-input transition), and prefers a recorded checkpoint over the invalid action. " +
			"Not decided: subset construction, epsilon closure, symbol-class compression. PAIR(checkpoint): recording a backtracking checkpoint records both the accepted action and the offset (Tables.Scan and the generated lexers). GUARD(empty-accept): addPattern reports `accepts empty text` both for accepting instructions linked from a pattern's first instruction and for an accepting first instruction itself (patterns that compile to no instruction: (), a{0}). INPLACE(write-behind-read): the in-place link filter of reCompiler.compile never writes ahead of its read cursor. GUARD(full-match): callers that use Tables.Scan to classify a whole constant (compiler.resolveClasses) compare the matched size with len(text) before trusting the action. LOOPSHAPE(fold-orbit) as in C10 (case folding visits the whole orbit, also in bytes mode). LOSTWRITE(range-copy): stores into fields of range copies in lex and compiler are observable (the token id of a backtracking checkpoint is written to Backtrack[i], not to a copy). CONSTAGREE(reserved-tokens) as in C11. UNITS(scan-size): the size Tables.Scan returns is made of 0, len(text) and cursor offsets only; the start-condition parameter (same type, also called start) never flows into it. GUARD(eoi-cycle): generate() refuses tables with a cycle of end-of-input transitions (the scanners feed EOI without consuming, so only the absence of such a cycle makes them terminate at the end of input). UNITS(scan-bytes): Tables.Scan decodes a rune only on the false edge of t.ScanBytes (in bytes mode every byte is one symbol). AGREE(scan-mode) as in C24.",
		Rules: []string{"DTX(accept-priority)", "FIELDCOV(checkpoint)", "CODEC(lexdfa)", "PAIR(checkpoint)", "GUARD(empty-accept)", "INPLACE(write-behind-read)", "GUARD(full-match)", "LOOPSHAPE(fold-orbit)", "LOSTWRITE(range-copy)", "CONSTAGREE(reserved-tokens)", "UNITS(scan-size)", "GUARD(eoi-cycle)", "UNITS(scan-bytes)", "AGREE(scan-mode)"},
		Run: func(c *Ctx) {
			ruleSCANMODE(c)
			ruleACCEPTPRIO(c)
			ruleCHECKPOINTKEY(c)
			ruleLEXCODEC(c)
			ruleCHECKPOINTPAIR(c)
			ruleEMPTYACCEPT(c)
			ruleINPLACE(c, "lex")
			ruleFULLMATCH(c, "compiler", "gen", "grammar")
			ruleFOLDORBIT(c)
			ruleRESERVEDTOKENS(c)
			ruleSCANSIZE(c)
			ruleEOICYCLE(c)
			ruleSCANBYTES(c)
			ruleLOSTWRITE(c, "lex", "compiler")
		},
	})
	register(&Property{
		ID: "C10",
		Explanation: "Decides structural necessary conditions of 'patterns denote their documented sets': INTERVAL(digit): hexval/octval, evaluated abstractly on a partition of the rune line, return exactly the digit value on digit ranges and -1 elsewhere. INTERVAL(accumulator): every digit accumulation loop in parseEscape has a constant trip count that fits 31 bits or a range check inside the loop (no int32 wrap-around). " +
			"GUARD(fold): Unicode fold tables are appended only under opts.Fold. GUARD(invrange): a two-bound class range is inserted only after hi < lo was rejected. DTX(negation): \\p-negation = (letter is P) XOR (leading ^). LOOPSHAPE(fold-orbit): the SimpleFold orbit loop leaves only through its header. DTX(rune-fold): in bytes mode a rune above 0x7f is never folded (it must stay a single rune to become a byte literal). MUSTPASS(class-order): a bracket class is built as ranges, minus subtractions, then folded, then complemented. INPLACE(write-behind-read): the in-place range filters (charset.subtract/invert and the other out := r[:0] loops of lex and compiler) never append past the read cursor while sharing the input's array (finite abstraction of len(out)-i, comparisons between them decided exactly). LOCKSTEP(offset-column): a regexp error narrowed inside the pattern moves Offset and Column by the same amount. " +
			"Not decided: the denotation of well-formed patterns in general (set algebra on ranges, quantifiers, parentheses). GLOBALS: packages compiler and lex keep no mutable package-level state (sync.Map and similar containers included), so what a pattern denotes cannot depend on patterns compiled earlier in the process under other options. FIELDCOV(rebuild) as in C01: a struct rebuilt from another of the same type carries every field over (the CharsetOptions handed to named patterns keep Fold). AGREE(fold-table): appendNamedSet folds a named Unicode class with the companion table of the table the class was found in (FoldCategory for Categories, FoldScript for Scripts).",
		Rules: []string{"INTERVAL(digit)", "INTERVAL(accumulator)", "GUARD(fold)", "GUARD(invrange)", "DTX(negation)", "LOOPSHAPE(fold-orbit)", "DTX(rune-fold)", "MUSTPASS(class-order)", "LOCKSTEP(offset-column)", "INPLACE(write-behind-read)", "GLOBALS", "FIELDCOV(rebuild)", "AGREE(fold-table)"},
		Run: func(c *Ctx) {
			ruleFOLDTABLE(c)
			ruleREBUILD(c, "syntax", "compiler", "grammar", "lalr")
			ruleCLASSORDER(c)
			ruleINPLACE(c, "lex", "compiler")
			ruleOFFCOL(c, "compiler", "lex", "status")
			ruleDIGITS(c)
			ruleACCUM(c)
			ruleFOLDGUARD(c)
			ruleINVRANGE(c)
			rulePNEG(c)
			ruleFOLDORBIT(c)
			ruleRUNEFOLD(c)
			rulePKGGLOBALS(c, "compiler", "lex")
		},
	})
}

func init() {
	register(&Property{
		ID: "C29",
		Explanation: "Decides structural necessary conditions of 'cancellation never yields a wrong parse' on every generated parser package and the hand-written js parse loop: CANCEL: every loop that shifts tokens in a function taking a context polls ctx.Done(); every poll is governed by (sharedCounter & M) == 0 with M = 2^k-1 <= 0x1ff, and all sites of a package use the same mask (an equality+reset at one site is starved by increments at another). " +
			"ERRFLOW: for every call of a function whose error may be ctx.Err() (computed as a fixpoint from `return ctx.Err()`), the error value reaches a return of the caller — it is neither discarded nor replaced by nil. " +
			"Not decided: cancellation inside the lexer fetch, equality of events with an uncancelled parse (the poll branch only returns, which is checked by the shape of the select). ERRFLOW(must-return): in the generated ast.Parse wrappers a non-nil parser error (ctx.Err() included) is returned on every path from the err != nil test; no return with another error value is reachable. MONOTONE(poll-counter): the counter whose low bits trigger the poll is only ever advanced by a positive constant; it (or the session holding it) is re-initialised only outside every loop. SOURCE(handler-identity): the generated ast.Parse passes the caller's ErrorHandler to Parser.Init unchanged. USE(ctx.Err): in the parser and ast packages every value of ctx.Err() only travels to a return (it never decides whether events are reported or recovery goes on). ERRFLOW also requires that no other result of a call that may return ctx.Err() is used before the error was found to be nil, unless every return reachable from that use hands the error back. TMPL(err-first): in go_parser.go.tmpl the cancellable variant of every predicate chain (lookaheadRule, applyRule) tests and returns the error right after each lookahead call, before the answer is used or the next predicate runs (decided on the template, i.e. for rules with any number of cases).",
		Rules: []string{"CANCEL", "ERRFLOW", "ERRFLOW(must-return)", "MONOTONE(poll-counter)", "SOURCE(handler-identity)", "USE(ctx.Err)", "TMPL(err-first)"},
		Run:   func(c *Ctx) { ruleCANCEL(c); ruleERRFLOW(c); ruleERRMUST(c); rulePOLLCOUNTER(c); ruleHANDLERID(c); ruleCTXERRUSE(c); ruleTMPLERRFIRST(c) },
	})
}

func init() {
	register(&Property{
		ID: "C12",
		Explanation: "Decides structural necessary conditions of 'tokenization progresses and tracks lines' on the five generated lexers, tm's hand-written skipAction and js's lexer_impl: PROGRESS: on the no-match path an empty token is extended by l.rewind(l.scanOffset). CURSOR: every read l.source[e] is dominated by e < len(l.source) and the scan offset advances only under l.offset < len(l.source). " +
			"LINECOL: every store to lineOffset equals the offset of the first byte of the current line (0; 1+LastIndexByte(source[:offset],'\\n'); under l.ch=='\\n' the scan offset); functions that bump l.line keep lineOffset in step when the lexer reports columns; every cycle that advances the cursor passes the newline test; rewind subtracts newlines of source[offset:l.offset] when moving back and adds those of source[l.offset:offset] when moving forward. " +
			"RESET(checkpoint): the backtracking checkpoint is -1 on every edge into the scanning loop, including each goto restart after a skipped token. CODEC(runemap): generated mapRune reads an entry of the compressed rune map only for r.lo <= c < r.hi, the half-open interval lex.CompressedMap fills. " +
			"Not decided: tiling (needs table semantics), the BOM clause, js's regexp/template/JSX state machine beyond these rules. GUARD(empty-accept) as in C09 (no rule matches the empty string, so every token is non-empty). TYPESTATE(ch-tested): on every path to an overwrite of l.ch by the inlined advance, the current character was compared since it was last set (by a store or by rewind), so a newline under the cursor is never skipped uncounted. FIELDCOV(checkpoint) as in C09: backtracking checkpoints are keyed by target state and accepted rule. GUARD(eoi-cycle): generate() refuses tables with a cycle of end-of-input transitions (the scanners feed EOI without consuming, so only the absence of such a cycle makes them terminate at the end of input). TMPL(field-maintain): in go_lexer.go.tmpl, whenever line/lineOffset is declared, its update at a newline and its recomputation in rewind() are generated too (guard formulas, all truth assignments) - tokenColumn without tokenLine keeps correct columns.",
		Rules: []string{"PROGRESS", "CURSOR", "LINECOL", "CODEC(runemap)", "RESET(checkpoint)", "GUARD(empty-accept)", "TYPESTATE(ch-tested)", "FIELDCOV(checkpoint)", "GUARD(eoi-cycle)", "TMPL(field-maintain)"},
		Run:   func(c *Ctx) { rulePROGRESS(c); ruleCURSOR(c); ruleLINECOL(c); ruleRUNEMAP(c); ruleCKRESET(c); ruleEMPTYACCEPT(c); ruleCHTESTED(c); ruleCHECKPOINTKEY(c); ruleEOICYCLE(c); ruleTMPLFIELDMAINT(c) },
	})
	register(&Property{
		ID: "C11",
		Explanation: "Decides structural necessary conditions of 'generated Go lexers tokenize as specified': AGREE(hash): the keyword hash computed by the generator (gen.stringHash) uses the multiplier and the scan unit (rune in rune mode, byte in bytes mode) of the hash the generated lexer accumulates. LINECOL/CURSOR/PROGRESS as in C12 (positions, line and column of each token). FIELDCOV(checkpoint) + CODEC(lexdfa) writer side as in C09 (the tables the lexer is generated from). " +
			"RESET(checkpoint): the checkpoint does not survive a restart. CODEC(runemap): generated mapRune and lex.CompressedMap agree that entries cover [lo, hi). " +
			"Not decided: token sequences as such; byte-mode and large-Unicode-map template branches are not instantiated by any shipped lexer. PAIR(checkpoint): backupRule, backupOffset and backupHash are recorded together. CONSTAGREE(reserved-tokens): canInlineRules skips as many reserved RuleToken entries as the token floor below which a rule prevents inlining (an explicit invalid_token rule is never inlined, so its match is not mistaken for \"nothing matched\"). LINECOL also rejects a line start computed from source[:l.offset] when l.offset is assigned afterwards (rewind). GUARD(eoi-cycle): generate() refuses tables with a cycle of end-of-input transitions (the scanners feed EOI without consuming, so only the absence of such a cycle makes them terminate at the end of input). TMPL(field-maintain): in go_lexer.go.tmpl, whenever line/lineOffset is declared, its update at a newline and its recomputation in rewind() are generated too (guard formulas, all truth assignments) - tokenColumn without tokenLine keeps correct columns. GUARD(comment-single-line): the constant text of a pattern is tested for line breaks before it becomes the token's line comment (otherwise the generated token enum gains a stray constant and the following token values shift). DTX(rune-fold) as in C10 (caseInsensitive folds a standalone rune however it is spelled). LOSTWRITE(range-copy) as in C09 (the rule-to-token conversion of an inlined lexer reaches Backtrack[i] itself). AGREE(fold-table) as in C10.",
		Rules: []string{"AGREE(hash)", "LINECOL", "CURSOR", "PROGRESS", "FIELDCOV(checkpoint)", "CODEC(lexdfa)", "PAIR(checkpoint)", "CODEC(runemap)", "RESET(checkpoint)", "CONSTAGREE(reserved-tokens)", "GUARD(eoi-cycle)", "TMPL(field-maintain)", "GUARD(comment-single-line)", "DTX(rune-fold)", "LOSTWRITE(range-copy)", "AGREE(fold-table)"},
		Run: func(c *Ctx) {
			ruleFOLDTABLE(c)
			ruleLOSTWRITE(c, "lex", "compiler")
			ruleRUNEFOLD(c)
			ruleRUNEMAP(c)
			ruleCKRESET(c)
			ruleHASHAGREE(c)
			ruleLINECOL(c)
			ruleCURSOR(c)
			rulePROGRESS(c)
			ruleCHECKPOINTKEY(c)
			ruleLEXCODEC(c)
			ruleCHECKPOINTPAIR(c)
			ruleRESERVEDTOKENS(c)
			ruleEOICYCLE(c)
			ruleTMPLFIELDMAINT(c)
			ruleCOMMENTLINE(c)
		},
	})
}

func init() {
	register(&Property{
		ID: "C22",
		Explanation: "Decides structural necessary conditions of 'the grammar compiler never crashes and reports in-range diagnostics': EXIT: the process-exit/panic sites reachable (call graph from compiler.Compile, restricted to packages the compiler links) equal an audited table, each line with the invariant that keeps grammar text away from it; a new site fails as unaudited. STAGEGATE: each pipeline stage of compileParser runs only if the previous one returned no error. ASSERTTY: every unchecked type assertion on an option value asserts the type of that option's default. " +
			"CYCLE: no unbounded recursion over cyclic token sets. ESCAPE: validation data is not kept in a recycled scratch buffer. CURSOR: the grammar lexer (parsers/tm) never reads l.source past its end and never advances the cursor unguarded. UNITS(bytes): no rune-counting value flows into SourceRange offsets/columns. GUARD(optimize-la), DTX(rune-fold): the obligations cited by audited exit sites. " +
			"Not decided: index-out-of-range and nil dereference on malformed models in general, line/column consistency beyond the unit rule. GUARD(lookup-index): a slice is indexed with the result of a comma-ok map lookup only on the ok path (no panic after a 'not a valid category reference' diagnostic). CYCLE(memo): a hit of the in-progress marker of longestPhrase's memo never reaches the recursive call (an unbounded lookahead is a diagnostic, not a stack overflow). GUARD(valid-anchor): a diagnostic is anchored at an optional syntax node only under IsValid() (it always carries a location). OPTIONMAP and MUSTPASS(compile-order) as in C05. CYCLE(memo) also requires that after a miss the key is entered in the memo before the recursive call. FIELDCOV(expr-origin): every syntax.Expr literal in syntax/ and compiler/ sets Origin (rules and diagnostics made from a synthesised expression dereference its source node). FIELDROLE(input): syntax.Input.NoEoi/Synthetic are consulted in their role only (addSyntheticInputs pre-populates its seen set with no-eoi inputs only; otherwise a plain %input suppresses the synthetic lookahead input and generateTables exits through log.Fatalf). GUARD(next-element): every s[i+1] inside a range loop over the same sequence is governed by a comparison of that i+1 with a bound (the sort-delay test of Expand looks at m.Nonterms[i+1]). SENTINEL(universe): under useTransitions the universe of the follow sets is 1 + len(follow), so that the sentinel allTokensMarker == len(follow) is a member.",
		Rules: []string{"EXIT", "STAGEGATE", "ASSERTTY", "OPTIONMAP", "CYCLE", "ESCAPE", "CURSOR", "UNITS(bytes)", "GUARD(optimize-la)", "DTX(rune-fold)", "CYCLE(memo)", "GUARD(lookup-index)", "GUARD(valid-anchor)", "MUSTPASS(compile-order)", "FIELDCOV(expr-origin)", "FIELDROLE(input)", "GUARD(next-element)", "SENTINEL(universe)"},
		Run: func(c *Ctx) {
			ruleLOOKUPIDX(c, "syntax", "compiler", "grammar", "gen", "lalr", "lex")
			ruleMEMOCYCLE(c, "compiler", "syntax", "lalr", "grammar")
			ruleNILANCHOR(c, "compiler")
			ruleEXPRORIGIN(c)
			ruleFIELDROLE(c)
			ruleSENTINELUNIVERSE(c)
			ruleNEXTELEMENT(c, "syntax", "compiler", "lalr", "grammar", "lex", "util/ident")
			ruleEXIT(c)
			ruleSTAGEGATE(c)
			ruleASSERTTY(c)
			ruleOPTIONMAP(c)
			ruleCYCLE(c)
			ruleESCAPE(c, map[string]bool{"syntax": true, "compiler": true, "lalr": true, "lex": true})
			ruleCURSOR(c)
			ruleRANGEUNITS(c)
			ruleCOMPILEORDER(c)
			ruleRUNEFOLD(c)
		},
	})
}

func init() {
	register(&Property{
		ID: "C23",
		Explanation: "Decides structural necessary conditions of 'the language server stays consistent': UNITS(utf16): every outbound Position.Character is a sum of constants and results of the audited UTF-16 converter (two units above U+FFFF); the inbound conversion consumes two units for such runes and rejects positions between them. IDXGUARD: constant-index reads of client-supplied arrays are dominated by a length test. " +
			"SEQ: package ls starts no goroutine; DidOpen/DidChange store the document before type-checking and publish the request's version; startLS serves the connection through protocol.Handlers(protocol.ServerHandler(…)). RANGE(single-line): the end of a diagnostic range is Offset + length of the error text up to its first newline. No-crash clause (a panic on the handler goroutine takes the server down): CURSOR: the grammar lexer the server runs on every keystroke never reads l.source past its end; SENTINEL(allTokensMarker): the verbose conflict explanations the server asks for (Params{CheckOnly, Verbose}) never index the goto tables with the all-tokens sentinel. " +
			"Not decided: the jsonrpc2 transport, that definition results are the right identifiers. CYCLE(memo): the compiler runs inside the server on every change; its memoised recursions enter the key before descending and stop on a hit (a recursive lookahead definition is a diagnostic, not a stack overflow that kills the server).",
		Rules:       []string{"UNITS(utf16)", "IDXGUARD", "SEQ", "RANGE(single-line)", "CURSOR", "SENTINEL(allTokensMarker)", "CYCLE(memo)"},
		Assumptions: []string{"go.lsp.dev/protocol.Handlers + ServerHandler reply only after the handler method returned (read in the vendored sources)"},
		Run:         func(c *Ctx) { ruleLS(c); ruleCURSOR(c); ruleSENTINELIDX(c); ruleMEMOCYCLE(c, "compiler", "syntax", "lalr", "grammar") },
	})
}

func init() {
	register(&Property{
		ID: "C01",
		Explanation: "Decides structural necessary conditions of 'generated parsers accept exactly the language' across table writers (lalr/) and readers (the five committed generated parsers and js's hand-written parse loop): CODEC(parser): every read of the packed table is guarded by 0 <= pos < tmTableLen, -2-action is used as a state only for action < -1, rule tables are indexed only with action >= 0. SIBLING(gotoState): the generated default-encoding gotoState has the same comparisons, index arithmetic and returns as lalr.(*DefaultEnc).gotoState. ENTRY: the i-th exported Parse* starts in state i with a final state that is not an entry state. " +
			"GUARD(markerfree): RuleLen counts only non-marker symbols. CODEC(optimize), GUARD(usedBase), GUARD(dedupe), GUARD(entry), FIELDCOV(minimize), MUSTPASS(compile-order), MUSTPASS(nonassoc-rewrite): the writers keep the encodings consistent. FRESH(lookahead): every read of p.next in each parse() is dominated by a definition made in the same call (no stale lookahead on a reused Parser). RESET(histogram): reused counter slices of Optimize/pickDefault are zeroed per state. PERITEM(flag): boolean fields of per-item records (Input.NoEoi, ...) are not carried around the loop that builds them. " +
			"Not decided: correctness of the LR(0)/LALR construction and of the shift/reduce loop as algorithms; the error-location clause. TYPESTATE(lookahead): positions of p.next are read only while a lookahead is fetched. DTX(lr0-shift): a state with a reduction that gains a shift consults the lookahead. GUARD(final): minimize keeps final states apart from ordinary states. DTX(assocmap)/LOCKSTEP(precGroup)/GUARD(optimize-la) run as part of the shared precedence and compile-order rules (see C04, C05). GUARD(dedicated-accept): the state that receives the end-of-input shift is created for its input, or is a goto target that no other state has a transition into (an input nonterminal reachable from itself must not end the parse in an inner context). FIELDCOV(rebuild): a record rebuilt from another record of its type (syntax.Input in Instantiate) gives every field. COPY(struct-slices): a value copy of a struct (clone := *last) whose slice field a callee writes in place (addShift inserts into shifts) is given its own backing array before that call; otherwise the end-of-input transition of the input's private final state is written into the shared state's array and inner contexts accept too. SIBLING(lalr-scan): every scan of a lookahead row - the generated lalr() helpers and the readers in package lalr - continues while the terminal is >= 0 (terminal 0 is end of input, not the terminator).",
		Rules: []string{"CODEC(parser)", "SIBLING(gotoState)", "DTX(lr0-shift)", "ENTRY", "GUARD(markerfree)", "CODEC(optimize)", "GUARD(usedBase)", "GUARD(dedupe)", "GUARD(entry)", "GUARD(final)", "FIELDCOV(minimize)", "MUSTPASS(compile-order)", "MUSTPASS(nonassoc-rewrite)", "FRESH(lookahead)", "TYPESTATE(lookahead)", "RESET(histogram)", "PERITEM(flag)", "DTX(assocmap)", "GUARD(optimize-la)", "LOCKSTEP(precGroup)", "GUARD(dedicated-accept)", "FIELDCOV(rebuild)", "COPY(struct-slices)", "SIBLING(lalr-scan)"},
		Run: func(c *Ctx) {
			ruleTABLEIDX(c)
			ruleLALRSCAN(c)
			ruleGOTOSIBLING(c)
			ruleLR0SHIFT(c)
			ruleENTRY(c)
			ruleMARKERFREE(c)
			ruleOPTCODEC(c)
			ruleUSEDBASE(c)
			ruleDEDUPE(c)
			ruleENTRYGUARD(c)
			ruleFINALGUARD(c)
			ruleMINIMIZE(c)
			ruleCOMPILEORDER(c)
			rulePRECPLUMBING(c)
			ruleFRESH(c)
			rulePEEK(c)
			ruleREBUILD(c, "syntax", "compiler", "grammar", "lalr")
			ruleACCEPTSTATE(c)
			ruleSTRUCTCOPY(c, "lalr")
			ruleRESET(c, "lalr")
			rulePERITEM(c, "compiler", "syntax", "lalr", "grammar")
		},
	})
	register(&Property{
		ID: "C02",
		Explanation: "Decides structural necessary conditions of 'listener events reproduce the derivation' on every case of every committed generated applyRule: STACKIDX: each stack reference stack[len(stack)-K] / stack[len(stack)-A:len(stack)-B] of case i lies inside the tmRuleLen[i] symbols of rule i (inside the prefix for mid-rule nonterminals), ranges are non-empty, fixTrailingWS gets exactly the whole right-hand side. " +
			"GUARD(markerfree) and LOOPSHAPE(marker-transparent): state markers never count as symbols and never stop a scan of the right-hand side (HasTrailingNulls decides whether trailing whitespace is trimmed). VARIANT(trim-trailing-empty): all trailing empty symbols are trimmed from a node's range. SIBLING(list-recursion): every recursive list rule built by Expand is left-recursive unless the list is flagged right-recursive (elements are reported in source order). TYPESTATE(lookahead): the offset given to an empty node (p.next.offset) is read only while the lookahead is fetched, never after it was consumed by a shift. FIELDROLE(input): each branch on a flag of syntax.Input reads the flag its audited role names (node types are collected from non-Synthetic inputs; NoEoi is a different bool on the same record). " +
			"Not decided: that the range is the right sub-range, post-order, node types; list expansion order. SOURCE(identity): every generated lexer's Init keeps the caller's string in l.source unmodified (reported ranges are offsets into the caller's text; a byte-order mark is skipped by moving the offset). LOOPSHAPE(marker-transparent) also rejects a marker test on one fixed position of a right-hand side outside a loop. TMPL(switch-guard): every grammar predicate that can make a case arm of applyRule appear (HasTrailingNulls for the fixTrailingWS arm) also feeds the guard under which `switch rule {` is generated. BOUND(trim-floor): the loops stripping trailing empty symbols go down to index 1 in reportRange (rhs[0] is read afterwards) and to index 0 in parse()/fixTrailingWS. FIELDCOV(minimize): the rule-class key of DFA minimisation contains whether a rule ends with a nullable symbol, so reduce states of rules whose ranges are trimmed (fixTrailingWS is selected by rule number) are not merged with those of rules that are not. LOOPCARRY(deep-lookahead) as in C07. GUARD(reuse-equal) and DTX(expr-equal) as in C13: a list or group is only merged with an existing helper nonterminal when the two expressions are equal including the node type of nested arrows (otherwise the elements of the second list are reported with the first list's node type).",
		Rules: []string{"STACKIDX", "GUARD(markerfree)", "LOOPSHAPE(marker-transparent)", "VARIANT", "SIBLING(list-recursion)", "TYPESTATE(lookahead)", "FIELDROLE(input)", "SOURCE(identity)", "TMPL(switch-guard)", "BOUND(trim-floor)", "FIELDCOV(minimize)", "LOOPCARRY(deep-lookahead)", "GUARD(reuse-equal)", "DTX(expr-equal)"},
		Run: func(c *Ctx) {
			ruleEXPREQUAL(c)
			ruleREUSEEQUAL(c)
			rulePEEK(c)
			ruleSWITCHGUARD(c)
			ruleSOURCEID(c)
			ruleFIELDROLE(c)
			ruleTRIMFLOOR(c)
			ruleDEEPLACOPY(c)
			ruleMINIMIZE(c)
			ruleSTACKIDX(c)
			ruleMARKERFREE(c)
			ruleMARKERLOOPS(c)
			ruleMARKERLOOPSAST(c)
			ruleRECOVERY(c)
			ruleLISTRECURSION(c)
		},
	})
	register(&Property{
		ID: "C16",
		Explanation: "Decides structural necessary conditions of 'semantic action references bind to the right symbols': STACKIDX on the code emitted for $-references in every committed applyRule case (slots inside the rule, or inside the prefix for mid-rule actions). GUARD(markerfree): ActionVars.SymRefCount (the stack depth references are computed from) counts only non-marker symbols. " +
			"LOCKSTEP(reference): ActionVars.resolve reports the position whose stack index it returns (the generator picks the type assertion by position). GUARD(remap-markerfree): the position remap stores the count of pushed symbols (never a length of rule.RHS, which includes state markers). FIELDCOV(extract-pos): the reference that replaces an extracted set/list carries expr.Pos on every path to its return. Not decided: that K is the slot of the named symbol in every expansion. FIELDCOV(action-key): every ActionVars field that commandExtractor.extract consults (SymRefCount becomes the stack offset) is part of ActionVars.String(), the key under which identical mid-rule actions share one nonterminal. FIELDCOV(renumber): both passes that renumber nonterminals (Instantiate, Rearrange) write every record that holds symbol numbers: Expr.Symbol, ArgRef.Symbol (the table $-references and their types resolve against), TokenSet.Symbol, Input.Nonterm. CONSISTENT(scope-map): the existence probes by which pushName finds a free name#N all consult the same (top-level) map. PAIR(pop-propagation) and SENTINEL(remap-absent) as in C17: names of deeper groups stay addressable, and a reference to an absent optional symbol resolves to -1, not to stack slot 0. INVARIANT(flat-top): every value stored into rhsRule.top is nil, a rule tested with isTopLevel() on that edge, or the .top of another rule, so that maxPos/incPos (which dereference .top once) allocate the positions of groups nested two or more levels deep from the top-level counter. GUARD(rewritten-key-free): convertPart copies a name under its suffix-stripped key only on an edge where a lookup of the stripped key found nothing (an explicitly spelled Foo wins over the implied alias of Fooopt).",
		Rules: []string{"STACKIDX", "GUARD(markerfree)", "LOCKSTEP(reference)", "GUARD(remap-markerfree)", "FIELDCOV(extract-pos)", "FIELDCOV(action-key)", "FIELDCOV(renumber)", "CONSISTENT(scope-map)", "PAIR(pop-propagation)", "SENTINEL(remap-absent)", "INVARIANT(flat-top)", "GUARD(rewritten-key-free)"},
		Run: func(c *Ctx) {
			ruleREWRITTENKEY(c)
			ruleFLATTOP(c)
			ruleREMAP(c)
			ruleSCOPEMAP(c)
			ruleRENUMBER(c)
			ruleACTIONKEY(c)
			ruleEXTRACTPOS(c)
			ruleSTACKIDX(c)
			ruleMARKERFREE(c)
			ruleREFPAIR(c)
			rulePOPRULE(c)
			ruleREMAPABSENT(c)
		},
	})
	register(&Property{
		ID: "C19",
		Explanation: "Decides structural necessary conditions of 'error recovery is safe' on the generated recoverFromError/skipBrokenCode/parse of tm and js (hand-written sibling): VARIANT: every back edge of the recovery search loop follows the removal of the current token from the finite recovery set and is guarded by an end-of-input return; the skip loop fetches a token per iteration; parse resets the error-suppression counter when it is parser state. " +
			"CODEC(parser): packed-table reads made while simulating reductions (reduceAll, gotoState) are bounds-guarded. Not decided: monotonic offsets, transparency on valid input. TYPESTATE(recoveryMode): in js's hand-written parse loop stream.recoveryMode is true on every path to recoverFromError (constant propagation over the CFG). RESET(histogram): the default-reduction histogram of Optimize is zeroed over exactly the range that is read back. GUARD(eoi-skip): the token-skipping loop of recovery (generated and js) advances the lookahead only behind p.next.symbol != eoiToken on every path (recovery terminates at the end of input). GUARD(nil-stack): js TokenStream.next indexes its stack parameter only on the false edge of s.recoveryMode (recovery fetches tokens with a nil stack). THRESHOLD(is-recovering): the value the compiler stores into IsRecovering is the non-emptiness test of the set of terminals that can follow the error token (recovery code is generated for every grammar that uses error).",
		Rules: []string{"TYPESTATE(recoveryMode)", "RESET(histogram)", "VARIANT", "CODEC(parser)", "GUARD(eoi-skip)", "GUARD(nil-stack)", "THRESHOLD(is-recovering)"},
		Run: func(c *Ctx) {
			ruleISRECOVERING(c)
			ruleRECMODE(c)
			ruleRESET(c, "lalr")
			ruleRECOVERY(c)
			ruleTABLEIDX(c)
			ruleEOISKIP(c)
			ruleNILSTACK(c)
		},
	})
	register(&Property{
		ID: "C20",
		Explanation: "Decides structural necessary conditions of 'parse events form a well-nested tree': VARIANT(flush-after-extend): in recoverFromError the error node is flushed only after its range was extended over pending invalid tokens (otherwise tokens inside the node are reported after it). VARIANT(trim-trailing-empty): every parse loop that trims trailing empty symbols does so in a loop (all of them), so a node never runs into following whitespace/comments that are still pending. " +
			"STACKIDX: reported ranges are non-empty sub-ranges of the rule. Not decided: the tree builder, nesting under recovery in general. INITCOV: every field of Lexer/Parser/TokenStream that another method modifies is assigned on every path by Init (or by the first block of parse()), so no run state of an earlier input (pending tokens of a cancelled parse) reaches the next input's event stream; four audited exemptions. INITCOV: every field of Lexer/Parser/TokenStream that another method modifies is assigned on every path by Init (or by the first block of parse()), so no run state of an earlier input (pending tokens of a cancelled parse) reaches the next input's event stream; audited exemptions are listed in the rule. GUARD(root-adopts-all): builder.build() of each generated ast package either fails unless one node is left on the stack or adds the file node with an end offset beyond the input, so that every reported node (an empty node at the very end included) is in the tree. GUARD(sibling-boundary) as in C21. TMPL(switch-guard) as in C02 (whitespace trimming is generated for every grammar that needs it). LOOPSHAPE(marker-transparent): the predicates that decide where a rule's reported range ends (HasTrailingNulls and siblings) look through state markers, so fixTrailingWS is generated for `X: a Nullable .marker` too (otherwise the node runs into the following whitespace and is reported before the comments inside it). BOUND(trim-floor) as in C02. SIBLING(flush-bound): every flush implementation (token streams of tm/js, Parser.flush of json/test) stops at the first pending token that ends after the symbol's end (tok.endoffset > sym.endoffset), so tokens inside a node are reported before it. MINMAX(error-range): in recoverFromError (tm, js) the start of the error range is replaced by a pending token's offset only under `tok.offset < s` (the range never inverts).",
		Rules: []string{"INITCOV", "VARIANT", "STACKIDX", "GUARD(root-adopts-all)", "GUARD(sibling-boundary)", "TMPL(switch-guard)", "LOOPSHAPE(marker-transparent)", "BOUND(trim-floor)", "SIBLING(flush-bound)", "MINMAX(error-range)"},
		Run: func(c *Ctx) {
			ruleERRORRANGE(c)
			ruleINITCOV(c, "TokenStream", "Lexer", "Parser")
			ruleSWITCHGUARD(c)
			ruleROOTADOPT(c)
			ruleSIBLINGBOUNDARY(c)
			ruleRECOVERY(c)
			ruleSTACKIDX(c)
			ruleMARKERLOOPS(c)
			ruleTRIMFLOOR(c)
			ruleFLUSHBOUND(c)
		},
	})
}

func init() {
	register(&Property{
		ID: "C07",
		Explanation: "Decides structural necessary conditions of 'LALR(k) resolution never changes the language': CODEC(deep-pointer): lookahead pointers are encoded as -3-offset by every writer (trie emitter, populateTables, the Lalr patch) and decoded as -action-3 by every reader (Optimize, minimize's partitioning, each generated lalr()), and generated parse loops treat action < -2 as a pointer. MUSTPASS(trie-id): a minimized trie node receives its id before it is published in the shared cache. " +
			"DTX(resolved-flag): a conflict is marked resolved only if no lookahead terminal failed (the flag only moves from true to false inside the terminal loop); UsedLADepth is raised with every patched pointer. GUARD(optimize-la): tables with pointers are not handed to Optimize. ORDER: the trie's map iterations are sorted (C18). GUARD(terminal-follow): both phases of buildLA (in-rule and cross-rule) contribute to the follow sets of terminal transitions when follow sets hold transitions (k>1). LOOPSHAPE(collect-all): the loops that gather a rule's transitions on the conflict terminal run to exhaustion. WHOCALLS(Lexer.Next): the deep-lookahead loop (like every parser-side fetch) reads tokens through the filter that drops injected comment/invalid tokens. " +
			"Not decided: soundness of the trie (which rule a lookahead string selects). MUSTPASS(compile-order): lookahead resolution runs after the tables are populated and before conflicts are reported. MUSTPASS(trie-id) also requires the id counter to be a field of the builder that owns the cross-conflict cache; GUARD(terminal-follow) requires the terminal case of the cross-rule phase to sit in the same backward walk as the nonterminal case. LOSTWRITE(range-copy): a store into a field of a `for _, e := range` copy of a struct element is read later in the iteration or written back (the minimised child of a lookahead-trie node reaches n.edges[i].child). SIGNATURE(lalr-cell) as in C06: when the DFA is minimised, references to deep-lookahead automata stay part of a state's signature. PROPAGATE(unresolved): in trieBuilder.resolve a nil answer of the recursive call returns nil for the whole node (a conflict is resolved only if every continuation is). LOOPCARRY(deep-lookahead): in the generated parsers the scratch copy of the lexer/stream from which an lalr(k) decision reads further tokens is made outside the loop that consumes from it. SENTINEL(universe): under useTransitions the universe of the follow sets is 1 + len(follow), so that the sentinel allTokensMarker == len(follow) is a member.",
		Rules: []string{"CODEC(deep-pointer)", "MUSTPASS(trie-id)", "DTX(resolved-flag)", "GUARD(optimize-la)", "GUARD(terminal-follow)", "WHOCALLS(Lexer.Next)", "LOOPSHAPE(collect-all)", "MUSTPASS(compile-order)", "LOSTWRITE(range-copy)", "SIGNATURE(lalr-cell)", "PROPAGATE(unresolved)", "LOOPCARRY(deep-lookahead)", "SENTINEL(universe)"},
		Run: func(c *Ctx) {
			ruleCOLLECTALL(c)
			ruleWHOCALLS(c)
			ruleTERMFOLLOW(c)
			ruleLALRK(c)
			ruleTRIEUNRESOLVED(c)
			ruleDEEPLACOPY(c)
			ruleSENTINELUNIVERSE(c)
			ruleLOSTWRITE(c, "lalr")
			ruleSIGCELL(c)
			ruleCOMPILEORDER(c)
		},
	})
}

func init() {
	register(&Property{
		ID: "C08",
		Explanation: "Decides structural necessary conditions of 'runtime lookahead decisions pick the alternative whose predicates hold': TMPL(negation): in go_parser.go.tmpl every emitted copy of a decision list applies {{if .Predicate.Negated}}!{{end}} in both the cancellable and the plain variant (template tree analysis, so un-instantiated branches are covered). SIBLING(decision-list): in the committed js and test parsers the applyRule and lookaheadRule copies of each lookahead rule have the same tests, polarities and targets. " +
			"SHIFTWIDTH: the memoization key widens before shifting (distinct predicates at one offset never share a cached answer). AGREE(memo-key): the key identifies the lookahead nonterminal by its entry state, which minimize never merges, not by its final state, which it does. DTX(pickLookahead): for every sequence of 1..4 alternatives over {requires the predicate, requires its negation, independent} the picked alternative is the unique positive one, else the unique negated one, else none. DTX(ruleAction): a lookahead rule meeting an existing resolution rule extends that rule (planner.addRule(existing, new)); plain rules are reported as conflicts. ERRFLOW: a lookahead's error is never dropped (C29). Not decided: the ordering pass of newLookaheadRule (a DFS over runtime data pinned by lalr.TestLookahead). TMPL(negation) also covers the TypeScript and C++ parser templates. ERRFLOW's check-first clause: a lookahead answer is not acted upon before its error was found to be nil. PERITEM(flag) as in C01: a flag that describes one item of a loop (the negation of one lookahead predicate in generateTables) is re-initialised per iteration.",
		Rules: []string{"TMPL(negation)", "SIBLING(decision-list)", "SHIFTWIDTH", "AGREE(memo-key)", "DTX(pickLookahead)", "DTX(ruleAction)", "ERRFLOW", "PERITEM(flag)"},
		Run: func(c *Ctx) {
			rulePERITEM(c, "compiler", "syntax", "lalr", "grammar")
			ruleRULEACTION(c)
			rulePICKLOOKAHEAD(c)
			ruleMEMOKEY(c)
			ruleTMPLNEG(c)
			ruleDECISIONSIBLING(c)
			ruleSHIFTWIDTH(c)
			ruleERRFLOW(c)
		},
	})
}

func init() {
	register(&Property{
		ID: "C17",
		Explanation: "Decides structural necessary conditions of 'generation completes and the generated Go code builds' on the template trees (parsed with text/template/parse, never executed, so option branches no shipped grammar instantiates are covered): TMPLGUARD: in parser.go/parser_tables.go/stream.go templates, node-type identifiers (NodeType/NodeFlags via nodeTypeRef…, node_id) appear only under guards implying .Parser.Types. TMPL(threshold): a numeric threshold tested by two Go templates is tested identically (helper emitted iff called). " +
			"TMPLNAMES: every {{template}} resolves and every pipeline function is registered. ERRGUARD: a return taken because error E is non-nil returns E (gen.Generate and the compiler packages). Not decided: the option x feature space as a whole; Go type-correctness of un-instantiated branches. PAIR(intern): the idx, ok := m[k]; if !ok { idx = len(list); append } idiom records idx under k (no duplicate node types, which would be redeclared constants in listener.go). AGREE(session): (*Grammar).NeedsSession, evaluated for every assignment of the options that guard members of the template's session struct, is true exactly when lookaheads exist and a member exists (a use site never names a member that parse() declared as a local). AGREE(file-deps): on every path of gen.(*language).templates (all option combinations) each generated package that a selected group of Go files imports ({{pkg \"selector\"}}, token) is written by a selected group. AGREE(call-arity): every call of a TokenStream method whose first parameter exists only under an option guard (next: ctx under Cancellable and CancellableFetch) adds the argument under the same guard (template-tree sibling check: the text `.next(` is followed by the matching {{if}}). TMPL(def-use): for every helper function defined in go_parser.go.tmpl, the guard formula of each call site (and/or/not over the atomic template conditions, single-assignment template variables substituted, customisation switches taken as enabled) implies the guard formula of a definition, checked for every truth assignment. PAIR(seen-set): every once-only guard `if !seen[k]` records k in its branch. GUARD(inline-unique): canInlineRules refuses to inline when two lexer rules share a token. GUARD(synthetic-name-free): the synthetic category TokenSet is added only when that name is free among the declared categories and among the node types (both become declarations of the generated package). ONCE(go-decl): every emission of a Go short variable declaration inside goParserAction's reference loop is guarded by a failed seen-set lookup whose key is recorded in the same block (an action that mentions a symbol twice still builds). DEDUP(marker-states): minimize de-duplicates the remapped state list of a marker against a seen-set (the renumbering is not monotone; a repeated state is a duplicate key in the generated marker map). TMPL(field-use): every use of an option-guarded field of Lexer, TokenStream or Parser in go_lexer/go_stream/go_parser templates is emitted only for option combinations for which the field is declared (guard formulas, all truth assignments). TMPL(node-id): the declaration of node type constants in listener.go and every reference to them from generated Go code print the identifier through node_id (nodePrefix + name), so a non-empty nodePrefix still builds. GUARD(comment-single-line): the constant text of a pattern is tested for line breaks before it becomes the token's line comment (otherwise the generated token enum gains a stray constant and the following token values shift). SENTINEL(remap-absent): lookups in ActionVars.Remap whose key is not known to be present use the comma-ok form (an absent optional symbol is -1/nil, never stack slot 0 with a foreign type). PAIR(pop-propagation): popRule hands both the argRefs and the names of a finished nested group to the enclosing rule (an accepted grammar never fails in generation with `invalid reference`). TMPL(ctx-arity): for every `name({{if G}}ctx, {{end}}...)` in go_parser/go_stream/go_lexer templates and every option assignment under which the call is emitted, G equals the guard of the ctx parameter of the function called (arity) and implies the ctx parameter of the enclosing function (scope). GUARD(alias-elision): the backward slice of the conditions under which ExtractGoImports skips the write of an explicit import alias contains the path separator (a \"/\" constant or path.Base): a decision that the alias is the last path segment has to locate the segment boundary (necessary condition; a test on path and alias alone also elides \"path/filepath as path\"). REGISTER as in C28: every symbol registration tests the identifier it registers against the taken identifiers on every path (an explicit token ID that repeats an earlier token's ID would be a redeclared constant in token.go).",
		Rules: []string{"TMPLGUARD", "TMPL(threshold)", "TMPLNAMES", "ERRGUARD", "PAIR(intern)", "AGREE(session)", "AGREE(file-deps)", "AGREE(call-arity)", "TMPL(def-use)", "PAIR(seen-set)", "GUARD(inline-unique)", "GUARD(synthetic-name-free)", "ONCE(go-decl)", "DEDUP(marker-states)", "TMPL(field-use)", "TMPL(node-id)", "GUARD(comment-single-line)", "SENTINEL(remap-absent)", "PAIR(pop-propagation)", "TMPL(ctx-arity)", "GUARD(alias-elision)", "REGISTER"},
		Run: func(c *Ctx) {
			ruleREGISTER(c)
			ruleTMPLCTXARITY(c)
			ruleALIASELISION(c)
			ruleINTERN(c, "syntax", "compiler", "grammar", "gen", "lalr", "lex")
			ruleSESSION(c)
			ruleFILEDEPS(c)
			ruleCALLARITY(c)
			ruleTMPLDEFUSE(c)
			ruleSEENSET(c, "gen", "compiler", "grammar", "syntax")
			ruleINLINEUNIQUE(c)
			ruleSYNTHNAME(c)
			ruleDECLONCE(c)
			ruleMARKERDEDUP(c)
			ruleTMPLFIELDUSE(c)
			ruleTMPLNODEID(c)
			ruleCOMMENTLINE(c)
			ruleREMAPABSENT(c)
			rulePOPRULE(c)
			ruleTMPLGUARD(c)
			ruleTMPLTHRESHOLD(c)
			ruleTMPLNAMES(c)
			ruleERRGUARD(c, "gen", "compiler", "lalr", "lex", "syntax", "grammar")
		},
	})
}

func init() {
	register(&Property{
		ID: "C21",
		Explanation: "Decides, for the shipped typed ASTs (js, tm; parsers/test/ast is a stale directory that test.tm no longer generates), that no accessor's type assertion can fail and the node factory is total: EXHAUST: the factory switch has a case for every NodeType constant. IMPL: for every accessor, every node type admitted by the last selector of its navigation chain (categories expanded through the generated category lists) and NilNode implement the asserted interface (go/types.Implements), and struct wrappers T{child} are used only with single-type selectors equal to T. " +
			"TMPL(step-scope): the template emits each chain step's selector name from the step itself. Not decided: other grammars (type inference in syntax/types.go is algorithmic), 'every child is reachable through an accessor'. PAIR(save-restore): typeCollector.nontermPhrase reads c.referrer after the descent only behind the store that restores it (the low-link of a cycle reaches the entry nonterminal, whose fields become lists). FIELDCOV(minimize): every component of the rule-class key, node type and flags included, is filled on every path (states reporting different node types are not merged). SIBLING(tarjan-update): the low-link update after the recursive descent of the type collector's embedded Tarjan propagates lowLink[child], as util/graph's does. INTERVAL(bitset-size): the size expression of the generated selector.OneOf bit set, evaluated for every max in [0, 8*bits], exceeds max/bits. GUARD(sibling-boundary): addNode treats a stacked node as a later sibling iff its start offset >= the new node's end offset. COPY(struct-slices): a value copy of a field record (ret := *fields[0]) gets its own types slice before it is appended to and sorted in place, so inferred field types of other nodes that share the original slice do not change. GUARD(sibling-boundary) also covers the child test of addNode (stack[i].offset >= offset). AGREE(min-update): in syntax, every `if A < B { B = V }` over memory locations stores the value it compared (the low-link update of the type collector's SCC compares and stores lowLink[child]). RESIDUE(with-quotient): every closure returned by a generated selector.OneOf that tests bit t % bits also uses the word index t / bits or a bound on t (no aliasing of node types that are congruent modulo the word size). GUARD(reuse-equal) and DTX(expr-equal) as in C13 (two lists that differ only in the reported node type are never merged: the accessors are derived from the written rules). GUARD(root-adopts-all) as in C20: the file node adopts every reported node, an empty one at the very end of the input included (a required accessor of the file node returns a present node).",
		Rules: []string{"EXHAUST", "IMPL", "TMPL(step-scope)", "FIELDCOV(minimize)", "PAIR(save-restore)", "SIBLING(tarjan-update)", "INTERVAL(bitset-size)", "GUARD(sibling-boundary)", "COPY(struct-slices)", "AGREE(min-update)", "RESIDUE(with-quotient)", "GUARD(reuse-equal)", "DTX(expr-equal)", "GUARD(root-adopts-all)"},
		Run: func(c *Ctx) {
			ruleROOTADOPT(c)
			ruleEXPREQUAL(c)
			ruleREUSEEQUAL(c)
			ruleSAVERESTORE(c, "syntax", "compiler", "gen", "grammar")
			ruleTARJANSIB(c)
			ruleMINUPDATE(c, "syntax")
			ruleRESIDUE(c)
			ruleSIBLINGBOUNDARY(c)
			ruleBITSETSIZE(c)
			ruleMINIMIZE(c)
			ruleTYPEDAST(c)
			ruleTMPLSTEPSCOPE(c)
			ruleSTRUCTCOPY(c, "syntax")
		},
	})
}

func init() {
	register(&Property{
		ID: "C30",
		Explanation: "Decides structural necessary conditions of 'the Bison export describes the grammar the tables were built from' on the template tree of bison.go.tmpl and its Go helpers: CONSTAGREE(bison-kind): integer literals compared with .Kind equal syntax.Lookahead, and a bare %empty is printed only under that test (every other rule goes through ExprString, which keeps %prec). " +
			"LOCKSTEP(bison-export): rules come from .Parser.RulesByNonterm and precedences from .Parser.Prec, the very slice assigned to lalr.Grammar.Precedence; left-hand sides are printed as the nonterminal's own name and references by the symbol's own text (no name rewriting that could merge symbols). " +
			"Not decided: ExprString vs rule.RHS for mid-rule actions (a suspected mismatch, un-triaged). LOCKSTEP(bison-prec): the rule's explicit precedence agrees in its three copies: generateTables stores lalr.Rule.Precedence under expr.Kind == Prec and nothing else, and every Prec return of ExprString prints the %prec clause. FIELDCOV(reference-model): every Reference literal of package compiler sets Model, so the export prints names, not symbol numbers. AGREE(rule-value-kind): the kinds of expression that reach Rule.Value (the export prints ExprString(rule.Value)) all have a case in ExprString, whose default branch exits the process; the mid-rule-action path violates this today (known finding F30). AGREE(bison-namespace): the export prints terminals by ID and nonterminals by name, so with the option on resolver.addNonterms looks every nonterminal name up among the registered token IDs and reports a hit (otherwise one word names two symbols). MUSTPASS(all-rules-listed): in Parser.RulesByNonterm every iteration over Parser.Rules appends its rule to a group (nothing is filtered between the tables' rule list and the export).",
		Rules: []string{"CONSTAGREE(bison-kind)", "LOCKSTEP(bison-export)", "LOCKSTEP(bison-prec)", "FIELDCOV(reference-model)", "AGREE(rule-value-kind)", "AGREE(bison-namespace)", "MUSTPASS(all-rules-listed)"},
		Run:   func(c *Ctx) { ruleBISON(c); ruleBISONPREC(c); ruleREFMODEL(c); ruleVALUEKIND(c); ruleBISONNS(c); ruleALLRULES(c) },
	})
}

func init() {
	register(&Property{
		ID: "C28",
		Explanation: "Decides structural necessary conditions of 'symbol names map to valid, distinct identifiers': REGISTER: every site in package compiler that creates a grammar.Symbol with an identifier looks it up in resolver.ids, raises the 'get the same ID' error under exactly the outcome 'already taken' (no further condition), and registers the same identifier (audited exception: mid-rule nonterminals). " +
			"GUARD(leading-digit): ident.Produce inserts the underscore for a leading digit based on what has been written so far (buf.Len() == 0 inside the rune loop). Not decided: non-emptiness and validity of Produce's output in general (string computation). GUARD(explicit-id): every explicit lexeme id that reaches addToken is the result of ident.Produce(id, UpperCase); the raw spelling (which may contain hyphens or quotes) never does. GUARD(nonempty-id): every return of ident.Produce is a non-empty constant or buf.String() behind the `buf.Len() == 0` fallback. REGISTER's mid-rule clause: an extracted mid-rule nonterminal <nt>$<k> is accepted only if its identifier is not taken (set seeded from the identifiers of all symbols), and the identifier is recorded.",
		Rules: []string{"REGISTER", "GUARD(leading-digit)", "GUARD(explicit-id)", "GUARD(nonempty-id)"},
		Run:   func(c *Ctx) { ruleREGISTER(c); ruleLEADINGDIGIT(c); ruleEXPLICITID(c); ruleNONEMPTYID(c) },
	})
}

func init() {
	register(&Property{
		ID: "C13",
		Explanation: "Decides one structural necessary condition of 'desugaring preserves the language': DTX(expr-equal): Expand reuses an already extracted nonterminal for a sub-expression (lists, optionals, nested choices) when names match and (*Expr).Equal says the expressions are the same; the check evaluates Equal abstractly for every expression kind and requires that a difference in any component of the kind (symbol, arguments, every sub-expression including a list's separator, list flags, names, arrow flags, predicate, set index) makes it false and identical components make it true. " +
			"LOOPSHAPE(marker-transparent): markers never hide symbols of a rule. Not decided: the expansion rules themselves (which productions a list/optional/choice turns into) — language equivalence of those is algorithmic and out of reach for this technique; two of the four independently seeded C13/C14 regressions are of that kind and are not detected (recorded in DESIGN.md). SIBLING(list-recursion): every rule Expand builds for a list places the recursive reference (and the separator) on the side the RightRecursive flag asks for; a placement that does not consult the flag is a violation. GUARD(drop-empty): where a Sub list is rebuilt, a child that became Empty is left out only under parent.Kind == Sequence (dropped from a Choice, an explicit %empty alternative disappears from the language). COPY(struct-slices): a value copy of an expression node (report.apply copies the arrow template) gets its own Sub list before it becomes reachable by or(), which appends to Sub in place. LOSTWRITE(range-copy): stores into fields of range copies of struct elements in syntax/ and compiler/ are observable. DTX(nullable) as in C15 (set(...) references are resolved over nullable symbols). GUARD(reuse-equal): extractNonterm reuses an existing helper nonterminal of the same provisional name only on the true edge of expr.Equal(existing value) (names are not injective; two different inline sets never share a nonterminal). GUARD(set-alias) and SHARED as in C15: a named set that is a plain alias of another slot is wrapped before it is stored, and token-set nodes shared between set expressions are renumbered once.",
		Rules: []string{"DTX(expr-equal)", "SIBLING(list-recursion)", "LOOPSHAPE(marker-transparent)", "BOUNDARY(terminals)", "GUARD(drop-empty)", "COPY(struct-slices)", "LOSTWRITE(range-copy)", "DTX(nullable)", "GUARD(reuse-equal)", "GUARD(set-alias)", "SHARED"},
		Run: func(c *Ctx) {
			ruleSHARED(c)
			ruleSETALIAS(c)
			ruleEXPREQUAL(c)
			ruleLISTRECURSION(c)
			ruleMARKERLOOPS(c)
			ruleMARKERLOOPSAST(c)
			ruleDROPEMPTY(c)
			ruleNULLABLEDTX(c)
			ruleREUSEEQUAL(c)
			ruleSTRUCTCOPY(c, "compiler", "syntax")
			ruleLOSTWRITE(c, "syntax", "compiler")
		},
	})
	register(&Property{
		ID: "C14",
		Explanation: "Decides structural necessary conditions of 'template instantiation preserves meaning': DTX(predicate): the predicate evaluator of conditional alternatives computes or / and / not / equals (all truth assignments of two operands, bound value equal or not). ESCAPE: the per-nonterminal required-flag sets of PropagateLookaheads are not kept in a recycled buffer (a lost 'flag is never provided' diagnostic ends in a process exit). CYCLE/SHARED: instantiating and renumbering token-set expressions terminates on cyclic sets and touches shared nodes once. DTX(expr-equal) as in C13. " +
			"Not decided: argument propagation and the instantiation work-list themselves. BOUNDARY(terminals): every comparison of a symbol with the terminal count cuts exactly at the first nonterminal (44 sites; `sub > 0` would skip the first declared nonterminal when lookahead flags are propagated). MUSTPASS(conditional-outermost): convertRules applies the [predicate] wrapper last, so a disabled alternative is the direct child of the Choice that Instantiate prunes. ESCAPE also follows slices into callees that keep them (set.Closure.Add) and treats buffers captured by closures as refilled. FIELDCOV(renumber) as in C16 (instantiation renumbers every holder of symbol numbers). GUARD(drop-empty): as in C13, for instantiator.doExpr (a switched-off conditional alternative is pruned by its predicate, never by the shape of what it became). AGREE(takefrom-by-name): every value stored into syntax.Arg.TakeFrom is a resolveParam result, the argument's own Param, or selected by equality of parameter names - implicit propagation agrees with the explicit A<P> shorthand (inline parameters share names, not indices). RESET(scratch-set): a bit set that is reset inside a loop or closure is reset in every iteration scope in which it is both filled and read (PropagateLookaheads masks the pinned lookahead flags per reference, not per nonterminal).",
		Rules: []string{"DTX(predicate)", "ESCAPE", "CYCLE", "SHARED", "DTX(expr-equal)", "BOUNDARY(terminals)", "MUSTPASS(conditional-outermost)", "FIELDCOV(renumber)", "GUARD(drop-empty)", "AGREE(takefrom-by-name)", "RESET(scratch-set)"},
		Run: func(c *Ctx) {
			rulePREDICATE(c)
			ruleRENUMBER(c)
			ruleWRAPORDER(c)
			ruleBOUNDARY(c, "syntax", "compiler", "lalr", "grammar", "gen")
			ruleESCAPE(c, map[string]bool{"syntax": true})
			ruleCYCLE(c)
			ruleSHARED(c)
			ruleEXPREQUAL(c)
			ruleDROPEMPTY(c)
			ruleTAKEFROM(c)
			ruleSCRATCHSET(c, "syntax", "lalr", "lex", "compiler")
		},
	})
}

func init() {
	register(&Property{
		ID: "C26",
		Explanation: "Decides structural necessary conditions of 'graph algorithms return correct components, closures and paths' on util/graph: MINMAX(update): every low-link update of Tarjan compares against the cell it updates. SIBLING(tarjan-update): the update after the recursive descent propagates lowLink[child]. PAIR(scc-stack): a vertex is pushed and marked onStack on entry, a component is emitted exactly under lowLink[v] == index[v], its members are cleared from onStack before the stack is cut back. WARSHALL(pivot-outermost): Matrix.Closure tests HasEdge(x, pivot) and HasEdge(pivot, y) with the pivot in the outermost loop and adds (x, y). CODEC(matrix-cell): AddEdge/HasEdge address bit i*n+e and Graph decodes (v/n, v%n). TRANSPOSE(direction): for an edge from -> to, the list of `to` is sized by counting `to` and receives `from`. SENTINEL(dfs-height): LongestPath marks in-progress vertices with -1, sets the cycle flag exactly on meeting one, and returns nil under that flag. INPLACE(write-behind-read): no in-place filter of util/graph writes ahead of its read cursor. " +
			"Not decided: that the components, closure and paths are the right ones on every graph (reverse topological order, maximality of the path) - algorithmic, quantified over runtime graphs. WARSHALL also requires that no return precedes the loops (all matrix sizes are computed); SENTINEL(dfs-height) also requires the dfs call to lie on every path of the loop over all vertices. LOOPRANGE(closure): each of the three loops of Matrix.Closure ranges over [0, m.n) exactly.",
		Rules: []string{"MINMAX(update)", "SIBLING(tarjan-update)", "PAIR(scc-stack)", "WARSHALL(pivot-outermost)", "CODEC(matrix-cell)", "TRANSPOSE(direction)", "SENTINEL(dfs-height)", "LOOPRANGE(closure)"},
		Run: func(c *Ctx) {
			ruleMINMAX(c, "util/graph")
			c.MinCount("MINMAX(update)", "util/graph.", 2)
			ruleTARJANSIB(c)
			ruleSCCSTACK(c)
			ruleWARSHALL(c)
			ruleCLOSURERANGE(c)
			ruleMATRIXCELL(c)
			ruleTRANSPOSE(c)
			ruleLONGESTPATH(c)
		},
	})
}

func init() {
	register(&Property{
		ID: "C27",
		Explanation: "Decides structural necessary conditions of 'line diffs are correct and minimal' on util/diff: GUARD(equal-empty): equal texts return the empty diff in the entry block. DTX(hunk-sizes): in hunk.add, leftSize grows exactly for lines that are not added ('+') and rightSize for lines that are not removed ('-'), so the @@ header describes the hunk. LOCKSTEP(chunk-merge): merging chunks adds del, ins and eq each (the script keeps covering both texts). SIBLING(trace-mirror): the len(a)==1 and len(b)==1 base cases of the edit-script recursion are mirror images (a<->b, del<->ins). INPLACE(write-behind-read): the in-place chunk merge of lcs never writes ahead of its read cursor. LOCKSTEP(hunk-origin): hunk.leftLine is derived from the old-text cursor only and hunk.rightLine from the new-text cursor only, by the same expression (a cursor-free value only where nothing was inserted or deleted before). MAXSEL(furthest-reaching): in both searches of middle, x = v[k+1] is chosen only under v[k-1] < v[k+1] strictly, otherwise v[k-1]+1 - the kept point is the furthest reaching one, a necessary condition of minimality. ARITH(abbreviation): the marker of an abbreviated run reports len - (head + tail) lines, and a run is abbreviated only when longer than head + 1 + tail lines. " +
			"Not decided: minimality of the script as a whole (Myers' middle snake), that unequal texts render a non-empty diff, that the hunks apply - numerical/round-trip properties of runtime data. Remark: a run of more than 14 inserted or deleted lines is abbreviated by design ('... N lines skipped ...'), so for such runs the clause 'hunks apply' cannot hold; the checks state conditions of the unabbreviated path and the consistency of the abbreviation. SINK(diff-result): a caller that returns a diff returns the LineDiff result on every path (\"\" only under equality of the two texts), and the result is never (part of) the format string of a printf-style call ('generate --diff' prints hunks that still apply). PASSTHROUGH(diff-operands): in the non-test callers of diff.LineDiff (`textmapper generate --diff`, dump.Diff) each operand is the text the caller names - a parameter, a converted call result or a String() result, extended only by constant notes governed by a flag read that belongs to the same operand - so that the hunks shown apply to the first text.",
		Rules: []string{"GUARD(equal-empty)", "DTX(hunk-sizes)", "LOCKSTEP(chunk-merge)", "SIBLING(trace-mirror)", "INPLACE(write-behind-read)", "LOCKSTEP(hunk-origin)", "MAXSEL(furthest-reaching)", "ARITH(abbreviation)", "SINK(diff-result)", "PASSTHROUGH(diff-operands)"},
		Run: func(c *Ctx) {
			ruleDIFFOPERANDS(c)
			ruleDIFFEQUAL(c)
			ruleHUNKSIZES(c)
			ruleCHUNKMERGE(c)
			ruleTRACEMIRROR(c)
			ruleINPLACE(c, "util/diff")
			ruleHUNKORIGIN(c)
			ruleFURTHEST(c)
			ruleABBREV(c)
			ruleDIFFSINK(c)
		},
	})
}
