package main

func init() {
	register(&Property{
		ID: "C18",
		Explanation: "Decides a structural necessary condition of deterministic generation: every source of unspecified order or run-to-run variation between a grammar text and the written files is enumerated from the type-checked source and discharged. " +
			"ORDER: each range over a map in the import closure of gen and compiler is classified from its body (writes keyed by the unmodified range key, constant/set insertion, commutative accumulation, iteration-local state; or appends to a slice that is sorted before its next use; or diagnostics only); early exits, last-writer-wins stores with rewritten keys and unsorted collections are violations. " +
			"GLOBALS: no store/map update rooted in a package-level variable outside init (earlier generations in the same process). NONDET: clock/rand/env/runtime calls, go statements and select are matched against an audited table. " +
			"Not decided: byte identity itself, stdlib determinism, the committed-files clause (that is the pinned TestGenerate).",
		Rules: []string{"ORDER", "GLOBALS", "NONDET"},
		Run: func(c *Ctx) {
			ruleORDER(c)
			ruleGLOBALS(c)
			ruleNONDET(c)
		},
	})
}

func init() {
	register(&Property{
		ID:    "XALIAS",
		Rules: []string{"ALIAS", "ESCAPE"},
		Run: func(c *Ctx) {
			ruleALIAS(c, nil)
			ruleESCAPE(c, nil)
		},
	})
}

func init() {
	register(&Property{ID: "XSET", Run: func(c *Ctx) { ruleSETALG(c) }})
}
