package main

import (
	"go/token"
	"strings"

	"golang.org/x/tools/go/ssa"
)

// GUARD(nonempty-id): ident.Produce skips characters that cannot be part of an identifier; a
// name made only of such characters ('' , _ in the camel styles) would yield "". Every return
// of Produce is either a non-empty constant or buf.String() reached only after the test
// `buf.Len() == 0` whose true branch writes a fallback word.
func ruleNONEMPTYID(c *Ctx) {
	const rule = "GUARD(nonempty-id)"
	f := c.SSAFunc("util/ident", "Produce")
	if f == nil {
		c.Lost(rule, "util/ident.Produce", "function not found")
		return
	}
	n := 0
	for _, b := range f.Blocks {
		if len(b.Instrs) == 0 {
			continue
		}
		ret, ok := b.Instrs[len(b.Instrs)-1].(*ssa.Return)
		if !ok || len(ret.Results) != 1 {
			continue
		}
		n++
		key := ordKey(map[string]int{}, "util/ident.Produce:return") + "#" + string(rune('0'+n))
		if k, ok := ret.Results[0].(*ssa.Const); ok {
			if k.Value != nil && len(k.Value.ExactString()) > 2 {
				c.Ok(rule, key, ret.Pos(), "returns the non-empty constant %s", k.Value.ExactString())
			} else {
				c.Bad(rule, key, ret.Pos(), "returns an empty constant")
			}
			continue
		}
		// buf.String(): some dominator tests buf.Len() == 0 and writes on the true branch
		guarded := false
		for d := b; d != nil; d = d.Idom() {
			if len(d.Instrs) == 0 {
				continue
			}
			ifi, ok := d.Instrs[len(d.Instrs)-1].(*ssa.If)
			if !ok {
				continue
			}
			// the condition (or a conjunction it is part of) contains Len() == 0
			hasLen := false
			var walk func(v ssa.Value, dep int)
			walk = func(v ssa.Value, dep int) {
				if dep > 3 {
					return
				}
				if bo, ok := v.(*ssa.BinOp); ok && bo.Op == token.EQL {
					if strings.Contains(vpath(bo.X), "strings.Builder.Len(") && vpath(bo.Y) == "0" {
						hasLen = true
					}
				}
			}
			walk(ifi.Cond, 0)
			if !hasLen {
				continue
			}
			// a write on the true side before the return
			for _, x := range f.Blocks {
				if !d.Succs[0].Dominates(x) && x != d.Succs[0] {
					continue
				}
				for _, ins := range x.Instrs {
					if call, ok := ins.(*ssa.Call); ok {
						if g := resolveCallee(call); g != nil && g.Parent() == f {
							guarded = true
						}
					}
				}
			}
		}
		if guarded {
			c.Ok(rule, key, ret.Pos(), "buf.String() is returned only after `buf.Len() == 0` was tested and a fallback word written")
		} else {
			c.Bad(rule, key, ret.Pos(), "buf.String() can be returned while the buffer is empty (a name of quotes or underscores only): the symbol gets no identifier — a terminal's constant silently disappears from token.go")
		}
	}
	if n < 2 {
		c.Lost(rule, "util/ident.Produce:return", "only %d returns found in Produce", n)
	}
}
