package main

import (
	"fmt"
	"go/constant"
	"go/token"
	"strings"

	"golang.org/x/tools/go/ssa"
)

// GUARD(nonempty-id): ident.Produce skips characters that cannot be part of an identifier; a
// name made only of such characters ('' , _ in the camel styles) would yield "". Every return
// of Produce is either a non-empty constant or buf.String() reached only after the test
// `buf.Len() == 0` whose true branch writes a fallback word.
func ruleNONEMPTYID(c *Ctx) {
	const rule = "GUARD(nonempty-id)"
	f := c.SSAFunc("util/ident", "Produce")
	if f == nil {
		c.Lost(rule, "util/ident.Produce", "function not found")
		return
	}
	n := 0
	for _, b := range f.Blocks {
		if len(b.Instrs) == 0 {
			continue
		}
		ret, ok := b.Instrs[len(b.Instrs)-1].(*ssa.Return)
		if !ok || len(ret.Results) != 1 {
			continue
		}
		n++
		key := ordKey(map[string]int{}, "util/ident.Produce:return") + "#" + string(rune('0'+n))
		if k, ok := ret.Results[0].(*ssa.Const); ok {
			if k.Value != nil && len(k.Value.ExactString()) > 2 {
				c.Ok(rule, key, ret.Pos(), "returns the non-empty constant %s", k.Value.ExactString())
			} else {
				c.Bad(rule, key, ret.Pos(), "returns an empty constant")
			}
			continue
		}
		// buf.String(): some dominator tests buf.Len() == 0 and writes on the true branch
		guarded := false
		for d := b; d != nil; d = d.Idom() {
			if len(d.Instrs) == 0 {
				continue
			}
			ifi, ok := d.Instrs[len(d.Instrs)-1].(*ssa.If)
			if !ok {
				continue
			}
			// the condition (or a conjunction it is part of) contains Len() == 0
			hasLen := false
			var walk func(v ssa.Value, dep int)
			walk = func(v ssa.Value, dep int) {
				if dep > 3 {
					return
				}
				if bo, ok := v.(*ssa.BinOp); ok && bo.Op == token.EQL {
					if strings.Contains(vpath(bo.X), "strings.Builder.Len(") && vpath(bo.Y) == "0" {
						hasLen = true
					}
				}
			}
			walk(ifi.Cond, 0)
			if !hasLen {
				continue
			}
			// a write on the true side before the return
			for _, x := range f.Blocks {
				if !d.Succs[0].Dominates(x) && x != d.Succs[0] {
					continue
				}
				for _, ins := range x.Instrs {
					if call, ok := ins.(*ssa.Call); ok {
						if g := resolveCallee(call); g != nil && g.Parent() == f {
							guarded = true
						}
					}
				}
			}
		}
		if guarded {
			c.Ok(rule, key, ret.Pos(), "buf.String() is returned only after `buf.Len() == 0` was tested and a fallback word written")
		} else {
			c.Bad(rule, key, ret.Pos(), "buf.String() can be returned while the buffer is empty (a name of quotes or underscores only): the symbol gets no identifier — a terminal's constant silently disappears from token.go")
		}
	}
	if n < 2 {
		c.Lost(rule, "util/ident.Produce:return", "only %d returns found in Produce", n)
	}
	// The fallback is skipped for name == "" (the empty input, which no grammar can spell). The
	// name tested there is the parameter or a sub-slice of it (quotes and escape prefix removed):
	// every sub-slice that reaches the test must be non-empty by its governing length condition,
	// or '' / "" would lose its quotes and take the empty-input exit.
	key := "util/ident.Produce:fallback-name"
	var tested ssa.Value
	for _, b := range f.Blocks {
		for _, ins := range b.Instrs {
			if bo, ok := ins.(*ssa.BinOp); ok && (bo.Op == token.NEQ || bo.Op == token.EQL) {
				if k, isK := bo.Y.(*ssa.Const); isK && k.Value != nil && k.Value.ExactString() == `""` {
					for _, r := range *bo.Referrers() {
						if _, isIf := r.(*ssa.If); isIf {
							// the fallback test sits behind buf.Len() == 0
							for _, g := range flattenConds(governing(bo.Block())) {
								if gb, ok := g.V.(*ssa.BinOp); ok && (strings.Contains(vpath(gb.X), "Builder.Len(") || strings.Contains(vpath(gb.Y), "Builder.Len(")) {
									tested = bo.X
								}
							}
						}
					}
				}
			}
		}
	}
	if tested == nil {
		c.Trivial(rule, key, f.Pos(), "the fallback is not conditional on the name")
		return
	}
	lenOf := func(v ssa.Value, s ssa.Value) bool {
		call, ok := stripConv(v).(*ssa.Call)
		if !ok {
			return false
		}
		bi, ok := call.Call.Value.(*ssa.Builtin)
		return ok && bi.Name() == "len" && call.Call.Args[0] == s
	}
	constOf := func(v ssa.Value) (int64, bool) {
		k, ok := v.(*ssa.Const)
		if !ok || k.Value == nil || k.Value.Kind() != constant.Int {
			return 0, false
		}
		return k.Int64(), true
	}
	bad, undec := "", ""
	slices := 0
	seen := map[ssa.Value]bool{}
	var walk func(v ssa.Value, d int)
	walk = func(v ssa.Value, d int) {
		if seen[v] || d > 8 {
			return
		}
		seen[v] = true
		switch x := v.(type) {
		case *ssa.Phi:
			for _, e := range x.Edges {
				walk(e, d+1)
			}
		case *ssa.Parameter:
		case *ssa.Slice:
			slices++
			walk(x.X, d+1)
			// characters removed: Low + (len(X) - High)
			removed := int64(0)
			if x.Low != nil {
				lo, ok := constOf(x.Low)
				if !ok {
					undec = "slice with a computed lower bound"
					return
				}
				removed += lo
			}
			if x.High != nil {
				hb, ok := x.High.(*ssa.BinOp)
				if !ok || hb.Op != token.SUB || !lenOf(hb.X, x.X) {
					undec = "slice with an upper bound that is not len - constant"
					return
				}
				k, ok := constOf(hb.Y)
				if !ok {
					undec = "slice with a computed upper bound"
					return
				}
				removed += k
			}
			// governing: len(X) > removed, len(X) >= removed+1, or len(X) == k with k > removed
			proved := false
			for _, g := range flattenConds(governing(x.Block())) {
				l, op, r, ok := cmpNormV(g.V, g.Pol)
				if !ok {
					continue
				}
				if k, isK := constOf(l); isK && lenOf(r, x.X) {
					if op == "<" && k >= removed || op == "<=" && k > removed || op == "==" && k > removed {
						proved = true
					}
				}
				if k, isK := constOf(r); isK && lenOf(l, x.X) && op == "==" && k > removed {
					proved = true
				}
			}
			if !proved {
				bad = fmt.Sprintf("%s removes %d characters without a governing condition that leaves at least one", vpath(x), removed)
			}
		default:
			undec = "name derived from " + vpath(v)
		}
	}
	walk(tested, 0)
	switch {
	case bad != "":
		c.Bad(rule, key, f.Pos(), "the name tested by the fallback `name != \"\"` can be an empty sub-slice of the input (%s): the quoted terminal '' loses its quotes, skips the \"empty\" fallback and gets the identifier \"\"", bad)
	case undec != "":
		c.Undec(rule, key, f.Pos(), "%s", undec)
	default:
		c.Ok(rule, key, f.Pos(), "every sub-slice of the input that reaches the fallback test is non-empty by its governing length condition (%d slices)", slices)
	}
}
