package main

import (
	"fmt"
	"go/token"
	"strings"

	"golang.org/x/tools/go/ssa"
)

// ORDER(alternatives): compiler.or(a, b) merges the rules of a nonterminal with the rules of its
// `extend` clauses. Rule numbers follow the order of the merged alternatives and an unresolved
// reduce/reduce conflict defaults to the lower rule number, so in every result a's alternatives
// must precede b's: each append in or() has a base rooted in a and an addition rooted in b.
func ruleORORDER(c *Ctx) {
	const rule = "ORDER(alternatives)"
	f := c.SSAFunc("compiler", "or")
	if f == nil || len(f.Params) != 2 {
		c.Lost(rule, "compiler.or", "function or(a, b) not found")
		return
	}
	a, b := f.Params[0], f.Params[1]
	// root: which parameter(s) a slice value is made of
	var roots func(v ssa.Value, d int) map[*ssa.Parameter]bool
	roots = func(v ssa.Value, d int) map[*ssa.Parameter]bool {
		out := map[*ssa.Parameter]bool{}
		if d > 6 {
			return out
		}
		switch y := v.(type) {
		case *ssa.Parameter:
			out[y] = true
		case *ssa.UnOp:
			return roots(y.X, d+1)
		case *ssa.FieldAddr:
			return roots(y.X, d+1)
		case *ssa.Slice:
			return roots(y.X, d+1)
		case *ssa.Alloc:
			// array literal: what is stored into its elements
			for _, ref := range *y.Referrers() {
				if ia, ok := ref.(*ssa.IndexAddr); ok {
					for _, r2 := range *ia.Referrers() {
						if st, ok := r2.(*ssa.Store); ok {
							for p := range roots(st.Val, d+1) {
								out[p] = true
							}
						}
					}
				}
			}
		}
		return out
	}
	only := func(m map[*ssa.Parameter]bool, p *ssa.Parameter) bool { return len(m) == 1 && m[p] }
	n := 0
	for _, blk := range f.Blocks {
		for _, ins := range blk.Instrs {
			call, ok := ins.(*ssa.Call)
			if !ok {
				continue
			}
			bi, ok := call.Call.Value.(*ssa.Builtin)
			if !ok || bi.Name() != "append" || len(call.Call.Args) != 2 {
				continue
			}
			n++
			key := fmt.Sprintf("compiler.or:append#%d", n)
			r0, r1 := roots(call.Call.Args[0], 0), roots(call.Call.Args[1], 0)
			if only(r0, a) && only(r1, b) {
				c.Ok(rule, key, call.Pos(), "the merged list starts with a's alternatives (%s) and continues with b's (%s)", strings.TrimSpace(vpath(call.Call.Args[0])), strings.TrimSpace(vpath(call.Call.Args[1])))
			} else {
				c.Bad(rule, key, call.Pos(), "append(%s, %s...) does not put a's alternatives before b's: rule numbers of the base nonterminal and its extension swap, and an unresolved reduce/reduce conflict between them defaults to the extension's rule", vpath(call.Call.Args[0]), vpath(call.Call.Args[1]))
			}
		}
	}
	if n < 3 {
		c.add(rule, "count:", token.NoPos, CountDropped, true, "only %d appends found in compiler.or (3 confirmed by hand)", n)
	}
	// the two-element literal
	for _, blk := range f.Blocks {
		for _, ins := range blk.Instrs {
			st, ok := ins.(*ssa.Store)
			if !ok {
				continue
			}
			ia, ok := st.Addr.(*ssa.IndexAddr)
			if !ok {
				continue
			}
			al, ok := ia.X.(*ssa.Alloc)
			if !ok || !strings.Contains(al.Comment, "slicelit") {
				continue
			}
			k, ok := ia.Index.(*ssa.Const)
			if !ok {
				continue
			}
			want := a
			if k.Int64() == 1 {
				want = b
			}
			key := fmt.Sprintf("compiler.or:literal[%d]", k.Int64())
			if st.Val == ssa.Value(want) {
				c.Ok(rule, key, st.Pos(), "element %d of the new choice is %s", k.Int64(), want.Name())
			} else {
				c.Bad(rule, key, st.Pos(), "element %d of the new choice must be %s", k.Int64(), want.Name())
			}
		}
	}
}
