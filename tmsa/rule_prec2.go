package main

import (
	"fmt"
	"go/constant"
	"strings"

	"golang.org/x/tools/go/ssa"
)

// MUSTPASS(nonassoc-rewrite), LOCKSTEP(precGroup) in populateTables; DTX(assocmap) in the loader.
func rulePRECPLUMBING(c *Ctx) {
	f := c.SSAFunc("lalr", "(*compiler).populateTables")
	if f == nil {
		c.Lost("MUSTPASS(nonassoc-rewrite)", "lalr.compiler.populateTables", "function not found")
		return
	}
	loops := naturalLoops(f)
	// --- the -3 -> -2 rewrite lies between the last ruleAction call and the Lalr emission
	{
		const rule = "MUSTPASS(nonassoc-rewrite)"
		var callB, rewriteHdr, emitB *ssa.BasicBlock
		var rewritePos = f.Pos()
		for _, b := range f.Blocks {
			for _, ins := range b.Instrs {
				switch x := ins.(type) {
				case *ssa.Call:
					if g := x.Common().StaticCallee(); g != nil && calleeName(g) == "lalr.compiler.ruleAction" {
						callB = b
					}
					if bi, ok := x.Common().Value.(*ssa.Builtin); ok && bi.Name() == "append" && strings.HasPrefix(vpath(x.Common().Args[0]), "c.out.DefaultEnc.Lalr") || ok && bi.Name() == "append" && strings.HasPrefix(vpath(x.Common().Args[0]), "c.out.Lalr") {
						// the emission of (term, next[term]) pairs: its varargs hold a load of next[...]
						if sl, ok := x.Common().Args[1].(*ssa.Slice); ok {
							if al, ok := sl.X.(*ssa.Alloc); ok && al.Referrers() != nil {
								for _, r := range *al.Referrers() {
									if ia, ok := r.(*ssa.IndexAddr); ok && ia.Referrers() != nil {
										for _, r2 := range *ia.Referrers() {
											if st, ok := r2.(*ssa.Store); ok && strings.Contains(vpath(st.Val), "[") && !strings.Contains(vpath(st.Val), "actionset") {
												if _, isConst := st.Val.(*ssa.Const); !isConst {
													emitB = b
												}
											}
										}
									}
								}
							}
						}
					}
				case *ssa.Store:
					if cst, ok := x.Val.(*ssa.Const); ok && cst.Value != nil && cst.Value.Kind() == constant.Int && cst.Int64() == -2 {
						if _, isIdx := x.Addr.(*ssa.IndexAddr); isIdx {
							for _, g := range flattenConds(governing(b)) {
								l, op, r, isCmp := cmpNorm(g.V, g.Pol)
								if isCmp && op == "==" && (r == "-3" || l == "-3") {
									if lp := innermostLoop(loops, b); lp != nil {
										rewriteHdr = lp.Header
										rewritePos = x.Pos()
									}
								}
							}
						}
					}
				}
			}
		}
		key := "lalr.compiler.populateTables:-3->-2"
		switch {
		case callB == nil || emitB == nil:
			c.Lost(rule, key, "ruleAction call (%v) or Lalr emission (%v) not found in populateTables", callB != nil, emitB != nil)
		case rewriteHdr == nil:
			c.Bad(rule, key, f.Pos(), "no rewrite of the transient nonassoc marker -3 into the error code -2 before the row is emitted: -3 would be read as a lookahead pointer by every Lalr reader")
		case reachesWithout(callB, emitB, rewriteHdr):
			c.Bad(rule, key, rewritePos, "the Lalr row can be emitted after ruleAction without passing the -3 -> -2 rewrite loop")
		default:
			c.Ok(rule, key, rewritePos, "every path from the ruleAction call to the emission of the Lalr row passes the loop that rewrites -3 (nonassoc) into -2 (error)")
		}
	}
	// --- precGroup[term] = index of the declaration
	{
		const rule = "LOCKSTEP(precGroup)"
		found := false
		for _, b := range f.Blocks {
			for _, ins := range b.Instrs {
				mu, ok := ins.(*ssa.MapUpdate)
				if !ok || !strings.HasSuffix(vpath(mu.Map), "c.precGroup") {
					continue
				}
				found = true
				key := "lalr.compiler.populateTables:precGroup"
				// value must be the induction variable of the loop over c.grammar.Precedence
				okVal := false
				for _, lp := range loops {
					if !lp.Body[b] {
						continue
					}
					phi, dir, _ := lp.induction()
					if phi == nil || dir != 1 {
						continue
					}
					// header compares with len(c.grammar.Precedence)
					hdrOK := false
					for _, hi := range lp.Header.Instrs {
						if ifi, ok := hi.(*ssa.If); ok && strings.Contains(vpath(ifi.Cond), "len(c.grammar.Precedence)") {
							hdrOK = true
						}
					}
					if !hdrOK {
						continue
					}
					v := mu.Value
					if bo, ok := v.(*ssa.BinOp); ok && bo.X == ssa.Value(phi) {
						okVal = true // range loops use phi+1 as the current index
					}
					if v == ssa.Value(phi) {
						okVal = true
					}
				}
				keyOK := strings.Contains(vpath(mu.Key), ".Terminals[")
				if okVal && keyOK {
					c.Ok(rule, key, mu.Pos(), "precGroup[terminal] = index of its declaration in Grammar.Precedence (later declaration = larger index = higher precedence)")
				} else {
					c.Bad(rule, key, mu.Pos(), "precGroup must map each terminal of Grammar.Precedence[i].Terminals to i (value ok=%v, key ok=%v): %s[%s] = %s", okVal, keyOK, vpath(mu.Map), normalizePhi(vpath(mu.Key)), normalizePhi(vpath(mu.Value)))
				}
			}
		}
		if !found {
			c.Lost(rule, "lalr.compiler.populateTables:precGroup", "no store into c.precGroup")
		}
	}
	// --- %left/%right/%nonassoc
	{
		const rule = "DTX(assocmap)"
		want := map[string]string{"left": "Left", "right": "Right", "nonassoc": "NonAssoc"}
		var g *ssa.Function
		for _, fn := range c.SrcFuncs("compiler") {
			for _, b := range fn.Blocks {
				for _, ins := range b.Instrs {
					if ph, ok := ins.(*ssa.Phi); ok && strings.HasSuffix(ph.Type().String(), "lalr.Associativity") && len(ph.Edges) >= 3 {
						g = fn
						got := map[string]int64{}
						for i, e := range ph.Edges {
							cst, ok := e.(*ssa.Const)
							if !ok || cst.Value == nil {
								continue
							}
							for _, gc := range flattenConds(edgeConds(b.Preds[i], b)) {
								l, op, r, isCmp := cmpNorm(gc.V, gc.Pol)
								if isCmp && op == "==" && strings.HasPrefix(r, "\"") && strings.Contains(l, "Assoc") {
									got[strings.Trim(r, "\"")] = cst.Int64()
									break
								}
							}
						}
						for kw, cn := range want {
							key := "compiler." + fn.Name() + ":assoc[" + kw + "]"
							exp, _ := c.enumConst("lalr", cn)
							v, ok := got[kw]
							switch {
							case !ok:
								c.Bad(rule, key, ph.Pos(), "%%%s is not mapped to an associativity", kw)
							case v != exp:
								c.Bad(rule, key, ph.Pos(), "%%%s is mapped to associativity value %d, expected lalr.%s (%d)", kw, v, cn, exp)
							default:
								c.Ok(rule, key, ph.Pos(), "%%%s -> lalr.%s", kw, cn)
							}
						}
					}
				}
			}
		}
		if g == nil {
			c.Lost(rule, "compiler:assoc", "the %%left/%%right/%%nonassoc switch was not found in package compiler")
		}
	}
	_ = fmt.Sprint
}
