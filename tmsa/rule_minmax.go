package main

import (
	"fmt"
	"go/token"

	"golang.org/x/tools/go/ssa"
)

// MINMAX(update): the running-minimum idiom `if x < m[k] { m[k] = x }` (and its > / max form)
// must compare against the cell it updates. A conditional store `dst = x` whose innermost
// governing comparison is `x < other` with `other` loaded from a different memory cell than dst
// keeps neither a minimum nor a maximum of dst.
func ruleMINMAX(c *Ctx, pkgs ...string) {
	const rule = "MINMAX(update)"
	n := 0
	for _, rel := range pkgs {
		for _, f := range c.SrcFuncs(rel) {
			ord := map[string]int{}
			for _, b := range f.Blocks {
				for _, ins := range b.Instrs {
					st, ok := ins.(*ssa.Store)
					if !ok {
						continue
					}
					switch st.Addr.(type) {
					case *ssa.IndexAddr, *ssa.FieldAddr:
					default:
						continue
					}
					gs := governing(b)
					if len(gs) == 0 {
						continue
					}
					g := gs[0] // innermost
					// the store must sit directly in the branch of that comparison
					if g.If.Block() != b.Idom() {
						continue
					}
					l, op, r, ok := cmpNormV(g.V, g.Pol)
					if !ok || (op != "<" && op != ">" && op != "<=" && op != ">=") {
						continue
					}
					val := vpath(st.Val)
					var other ssa.Value
					switch {
					case vpath(l) == val:
						other = r
					case vpath(r) == val:
						other = l
					default:
						continue
					}
					ld, ok := stripConv(other).(*ssa.UnOp)
					if !ok || ld.Op != token.MUL {
						continue
					}
					switch ld.X.(type) {
					case *ssa.IndexAddr, *ssa.FieldAddr:
					default:
						continue
					}
					if !relatedCells(st.Addr, ld.X) {
						continue // not the running-extreme idiom (e.g. a merge step appending the smaller head)
					}
					n++
					dst := vpath(st.Addr)
					key := ordKey(ord, fmt.Sprintf("%s:%s", ssaFuncKey(f), normalizePhi(dst)))
					if vpath(ld.X) == dst {
						c.Ok(rule, key, st.Pos(), "running %s: the stored value is compared against the cell it replaces (%s)", map[bool]string{true: "minimum", false: "maximum"}[(op[0] == '<') == (vpath(l) == val)], normalizePhi(dst))
					} else {
						c.Bad(rule, key, st.Pos(), "conditional update of %s is guarded by a comparison against a different cell (%s): the cell no longer tracks the extreme value", normalizePhi(dst), normalizePhi(vpath(ld.X)))
					}
				}
			}
		}
	}
	_ = n
}

// relatedCells: two addresses that denote the same cell or differ in exactly one coordinate
// (same array, other index; same index, other array; same record, other field).
func relatedCells(a, b ssa.Value) bool {
	switch x := a.(type) {
	case *ssa.IndexAddr:
		y, ok := b.(*ssa.IndexAddr)
		if !ok {
			return false
		}
		if _, tmp := x.X.(*ssa.Alloc); tmp {
			return false
		}
		return vpath(x.X) == vpath(y.X) || vpath(x.Index) == vpath(y.Index)
	case *ssa.FieldAddr:
		y, ok := b.(*ssa.FieldAddr)
		if !ok {
			return false
		}
		return vpath(x.X) == vpath(y.X)
	}
	return false
}
