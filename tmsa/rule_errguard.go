package main

import (
	"fmt"
	"go/token"
	"strings"

	"golang.org/x/tools/go/ssa"
)

// ERRGUARD: a return that is taken because some error value E is non-nil returns E (or an
// error built from E), not another error variable that is nil there.
func ruleERRGUARD(c *Ctx, pkgs ...string) {
	const rule = "ERRGUARD"
	n := 0
	for _, rel := range pkgs {
		for _, f := range c.SrcFuncs(rel) {
			res := f.Signature.Results()
			if res.Len() == 0 || !isErrorType(res.At(res.Len()-1).Type()) {
				continue
			}
			ord := map[string]int{}
			for _, b := range f.Blocks {
				for _, ins := range b.Instrs {
					ret, ok := ins.(*ssa.Return)
					if !ok || len(ret.Results) == 0 {
						continue
					}
					rv := ret.Results[len(ret.Results)-1]
					// the innermost governing condition of the form E != nil with E an error
					var guard ssa.Value
					for _, g := range flattenConds(governing(b)) {
						l, op, r, isC := cmpNormV(g.V, g.Pol)
						if !isC || op != "!=" {
							continue
						}
						if k, ok := r.(*ssa.Const); ok && k.IsNil() && isErrorType(l.Type()) {
							guard = l
							break
						}
						if k, ok := l.(*ssa.Const); ok && k.IsNil() && isErrorType(r.Type()) {
							guard = r
							break
						}
					}
					if guard == nil {
						continue
					}
					n++
					key := ordKey(ord, ssaFuncKey(f)+":return-under("+normalizePhi(vpath(guard))+" != nil)")
					// does the returned value derive from the guard?
					derives := false
					seen := map[ssa.Value]bool{}
					var walk func(v ssa.Value, d int)
					walk = func(v ssa.Value, d int) {
						if v == nil || seen[v] || d > 8 || derives {
							return
						}
						seen[v] = true
						if v == guard || vpath(v) == vpath(guard) {
							derives = true
							return
						}
						switch x := v.(type) {
						case *ssa.Call:
							for _, a := range x.Common().Args {
								walk(a, d+1)
							}
							walk(x.Common().Value, d+1)
						case *ssa.MakeInterface:
							walk(x.X, d+1)
						case *ssa.ChangeInterface:
							walk(x.X, d+1)
						case *ssa.Phi:
							for _, e := range x.Edges {
								walk(e, d+1)
							}
						case *ssa.Extract:
							walk(x.Tuple, d+1)
						case *ssa.Slice:
							walk(x.X, d+1)
						case *ssa.UnOp:
							if x.Op == token.MUL {
								if al, ok := x.X.(*ssa.Alloc); ok && al.Referrers() != nil {
									for _, r := range *al.Referrers() {
										switch y := r.(type) {
										case *ssa.Store:
											walk(y.Val, d+1)
										case *ssa.IndexAddr:
											if y.Referrers() != nil {
												for _, r2 := range *y.Referrers() {
													if st, ok := r2.(*ssa.Store); ok {
														walk(st.Val, d+1)
													}
												}
											}
										}
									}
								}
							}
						case *ssa.TypeAssert:
							walk(x.X, d+1)
						case *ssa.FieldAddr:
							walk(x.X, d+1)
						case *ssa.Alloc:
							if x.Referrers() != nil {
								for _, r := range *x.Referrers() {
									if fa, ok := r.(*ssa.FieldAddr); ok && fa.Referrers() != nil {
										for _, r2 := range *fa.Referrers() {
											if st, ok := r2.(*ssa.Store); ok {
												walk(st.Val, d+1)
											}
										}
									}
								}
							}
						}
					}
					walk(rv, 0)
					if k, isK := rv.(*ssa.Const); isK && k.IsNil() {
						// returning nil under an error test can be deliberate (error is handled); only flag another error variable
						c.Trivial(rule, key, ret.Pos(), "returns nil (the error is handled here)")
						continue
					}
					if derives {
						c.Ok(rule, key, ret.Pos(), "returns the error it tested (or an error built from it)")
					} else if isErrorType(rv.Type()) && !strings.Contains(vpath(rv), "(") {
						c.Bad(rule, key, ret.Pos(), "under `%s != nil` the function returns %s, a different error value (nil on this path): the failure is reported as success", normalizePhi(vpath(guard)), normalizePhi(vpath(rv)))
					} else {
						c.Trivial(rule, key, ret.Pos(), "returns a freshly built error %s", normalizePhi(vpath(rv)))
					}
				}
			}
		}
	}
	if n < 10 {
		c.add(rule, "count:", token.NoPos, CountDropped, true, "only %d returns under an error test found in %v", n, pkgs)
	}
	_ = fmt.Sprint
}
