package main

import (
	"strings"

	"golang.org/x/tools/go/ssa"
)

// GUARD(unionclone): sparse.Union accumulates into reuse[:0]. The accumulated slice still
// shares reuse's array exactly when it never outgrew it, i.e. when len(ret) <= cap(reuse).
// Every return of a value that may share reuse's storage must therefore lie on an edge where
// cap(reuse) < len(ret) holds (the other edge clones). Callers (lalr.buildLA) keep the result
// while refilling reuse; the ALIAS/ESCAPE summary "Union never returns reuse's storage" rests
// on this obligation.
func ruleUNIONCLONE(c *Ctx) {
	const rule = "GUARD(unionclone)"
	f := c.SSAFunc("util/sparse", "Union")
	if f == nil || len(f.Params) != 3 {
		c.Lost(rule, "util/sparse.Union", "function sparse.Union(sets, aux, reuse) not found")
		return
	}
	a := c.aliasAnalysis()
	reuse := f.Params[2]
	isReuse := func(v ssa.Value) bool {
		for rt := range a.roots(v) {
			if rt.kind == rParam && rt.obj.(*ssa.Parameter) == reuse {
				return true
			}
		}
		return false
	}
	n := 0
	for _, b := range f.Blocks {
		for _, ins := range b.Instrs {
			ret, ok := ins.(*ssa.Return)
			if !ok || len(ret.Results) != 1 {
				continue
			}
			v := ret.Results[0]
			if !isReuse(v) {
				continue
			}
			n++
			// collect the (value, conditions) pairs that reach the return
			type inc struct {
				v  ssa.Value
				cs []gcond
			}
			var incs []inc
			if phi, ok := v.(*ssa.Phi); ok && phi.Block() == b {
				for i, e := range phi.Edges {
					incs = append(incs, inc{e, edgeConds(b.Preds[i], b)})
				}
			} else {
				incs = append(incs, inc{v, governing(b)})
			}
			for _, in := range incs {
				if !isReuse(in.v) {
					continue
				}
				ok := false
				for _, gc := range in.cs {
					l, op, r, isCmp := cmpNorm(gc.V, gc.Pol)
					if isCmp && op == "<" && strings.HasPrefix(l, "cap(reuse") && strings.HasPrefix(r, "len(") {
						ok = true
					}
				}
				key := "util/sparse.Union:return(ret)"
				if ok {
					c.Ok(rule, key, ret.Pos(), "the accumulator is returned unclone only on the edge where cap(reuse) < len(ret): it has outgrown (left) the scratch array")
				} else {
					var cs []string
					for _, gc := range in.cs {
						if l, op, r, isCmp := cmpNorm(gc.V, gc.Pol); isCmp {
							cs = append(cs, l+" "+op+" "+r)
						}
					}
					c.Bad(rule, key, ret.Pos(), "a slice that may still share reuse's array is returned under {%s}; it must be returned only when cap(reuse) < len(ret), otherwise cloned", strings.Join(cs, " ∧ "))
				}
			}
		}
	}
	if n == 0 {
		c.Ok(rule, "util/sparse.Union:return(ret)", f.Pos(), "no return value shares storage with reuse")
	}
}
