package main

import (
	"go/token"
	"strings"

	"golang.org/x/tools/go/ssa"
)

// SIBLING(tarjan-update): the repository has two implementations of Tarjan's SCC algorithm
// (util/graph.(*tarjan).strongConnect and the one "squeezed" into
// syntax.(*typeCollector).nontermPhrase). In both, the low-link update that runs *after the
// recursive descent into the child returned* must propagate the child's low-link
// (lowLink[child]), not its index: with index[child] a cycle that closes further up is cut at
// the child and the component is reported in pieces (in the type collector: a nonterminal of a
// recursive cycle keeps single-valued fields and its repeated children are returned by no
// accessor).
func ruleTARJANSIB(c *Ctx) {
	const rule = "SIBLING(tarjan-update)"
	sites := []struct{ pkg, fn string }{{"util/graph", "(*tarjan).strongConnect"}, {"syntax", "(*typeCollector).nontermPhrase"}}
	for _, s := range sites {
		f := c.SSAFunc(s.pkg, s.fn)
		key := s.pkg + "." + strings.NewReplacer("(*", "", ")", "").Replace(s.fn) + ":after-descent"
		if f == nil {
			c.Lost(rule, key, "function not found")
			continue
		}
		// calls that re-enter f: direct, or through a same-package callee that calls f
		reenters := func(g *ssa.Function) bool {
			if g == f {
				return true
			}
			if g == nil || g.Pkg != f.Pkg {
				return false
			}
			for _, b := range g.Blocks {
				for _, ins := range b.Instrs {
					if call, ok := ins.(ssa.CallInstruction); ok && call.Common().StaticCallee() == f {
						return true
					}
				}
			}
			return false
		}
		var descents []*ssa.BasicBlock
		for _, b := range f.Blocks {
			for _, ins := range b.Instrs {
				if call, ok := ins.(ssa.CallInstruction); ok && reenters(call.Common().StaticCallee()) {
					descents = append(descents, b)
				}
			}
		}
		if len(descents) == 0 {
			c.Lost(rule, key, "no recursive descent found")
			continue
		}
		n, bad := 0, 0
		var badPos token.Pos
		for _, b := range f.Blocks {
			after := false
			for _, d := range descents {
				if d != b && d.Dominates(b) {
					after = true
				}
			}
			if !after {
				continue
			}
			for _, ins := range b.Instrs {
				st, ok := ins.(*ssa.Store)
				if !ok {
					continue
				}
				ia, ok := st.Addr.(*ssa.IndexAddr)
				if !ok || !strings.HasSuffix(vpath(ia.X), ".lowLink") {
					continue
				}
				n++
				if !strings.Contains(vpath(st.Val), ".lowLink[") {
					bad++
					badPos = st.Pos()
				}
			}
		}
		switch {
		case n == 0:
			c.Lost(rule, key, "no low-link update after the recursive descent found")
		case bad > 0:
			c.Bad(rule, key, badPos, "a low-link update that runs after the descent into the child takes the child's index instead of its low-link: a back edge found deeper in the descent is forgotten and the strongly connected component is split")
		default:
			c.Ok(rule, key, f.Pos(), "the %d low-link update(s) after the recursive descent propagate lowLink[child]", n)
		}
	}
}
