package main

import (
	"fmt"
	"go/ast"
	"go/token"
	"go/types"
	"strings"
	"text/template/parse"

	"golang.org/x/tools/go/packages"
)

// astPkgs: generated typed-AST packages and the package that declares their NodeType.
// parsers/test/ast is not listed: test.tm does not set eventAST, so that directory is not
// produced by the generator (a stale leftover that no test regenerates).
var astPkgs = [][2]string{{"parsers/js/ast", "parsers/js"}, {"parsers/tm/ast", "parsers/tm"}}

// EXHAUST + IMPL (C21).
func ruleTYPEDAST(c *Ctx) {
	nAcc, nFac := 0, 0
	for _, pr := range astPkgs {
		ap, mp := c.Pkg(pr[0]), c.Pkg(pr[1])
		sp := c.Pkg(pr[1] + "/selector")
		if ap == nil || mp == nil || sp == nil {
			continue
		}
		// --- the factory
		var factory *ast.FuncDecl
		for _, f := range ap.Syntax {
			for _, d := range f.Decls {
				if fd, ok := d.(*ast.FuncDecl); ok && fd.Recv == nil && strings.HasPrefix(fd.Name.Name, "To") && strings.HasSuffix(fd.Name.Name, "Node") {
					factory = fd
				}
			}
		}
		if factory == nil {
			continue // no typed AST in this package
		}
		ntObj, _ := mp.Types.Scope().Lookup("NodeType").(*types.TypeName)
		if ntObj == nil {
			c.Lost("EXHAUST", pr[1]+".NodeType", "type not found")
			continue
		}
		// all NodeType constants
		consts := map[string]bool{}
		for _, n := range mp.Types.Scope().Names() {
			if k, ok := mp.Types.Scope().Lookup(n).(*types.Const); ok && types.Identical(k.Type(), ntObj.Type()) {
				consts[n] = true
			}
		}
		typeOf := map[string]string{} // NodeType const -> struct name returned by the factory
		ast.Inspect(factory.Body, func(n ast.Node) bool {
			cc, ok := n.(*ast.CaseClause)
			if !ok {
				return true
			}
			ret := ""
			for _, s := range cc.Body {
				if rs, ok := s.(*ast.ReturnStmt); ok && len(rs.Results) == 1 {
					switch x := rs.Results[0].(type) {
					case *ast.UnaryExpr:
						if cl, ok := x.X.(*ast.CompositeLit); ok {
							ret = types.ExprString(cl.Type)
						}
					case *ast.Ident:
						ret = x.Name
					}
				}
			}
			for _, e := range cc.List {
				if sel, ok := e.(*ast.SelectorExpr); ok {
					typeOf[sel.Sel.Name] = ret
				}
			}
			return true
		})
		{
			const rule = "EXHAUST"
			var missing []string
			for n := range consts {
				if _, ok := typeOf[n]; !ok && !strings.HasSuffix(n, "Max") && n != "NodeTypeMax" && n != "NumNodeTypes" {
					missing = append(missing, n)
				}
			}
			nFac++
			key := pr[0] + "." + factory.Name.Name
			if len(missing) > 0 {
				c.Bad(rule, key, factory.Pos(), "the node factory has no case for node type(s) %v: converting such a node panics", missing)
			} else {
				c.Ok(rule, key, factory.Pos(), "the factory switch covers all %d constants of %s.NodeType", len(consts), mp.Types.Name())
			}
		}
		// --- selectors: name -> admitted node types
		admitted := map[string][]string{}
		cats := map[string][]string{}
		for _, f := range mp.Syntax {
			for _, d := range f.Decls {
				gd, ok := d.(*ast.GenDecl)
				if !ok || gd.Tok != token.VAR {
					continue
				}
				for _, s := range gd.Specs {
					vs := s.(*ast.ValueSpec)
					for i, n := range vs.Names {
						if i < len(vs.Values) {
							if cl, ok := vs.Values[i].(*ast.CompositeLit); ok {
								if at, ok := cl.Type.(*ast.ArrayType); ok && types.ExprString(at.Elt) == "NodeType" {
									for _, e := range cl.Elts {
										cats[n.Name] = append(cats[n.Name], types.ExprString(e))
									}
								}
							}
						}
					}
				}
			}
		}
		collectSel := func(p *packages.Package, prefix string) {
			for _, f := range p.Syntax {
				for _, d := range f.Decls {
					gd, ok := d.(*ast.GenDecl)
					if !ok || gd.Tok != token.VAR {
						continue
					}
					for _, s := range gd.Specs {
						vs := s.(*ast.ValueSpec)
						for i, n := range vs.Names {
							if i >= len(vs.Values) {
								continue
							}
							switch v := vs.Values[i].(type) {
							case *ast.FuncLit:
								ast.Inspect(v.Body, func(m ast.Node) bool {
									if be, ok := m.(*ast.BinaryExpr); ok && be.Op == token.EQL {
										if sel, ok := be.Y.(*ast.SelectorExpr); ok {
											admitted[prefix+n.Name] = []string{sel.Sel.Name}
										}
									}
									return true
								})
							case *ast.CallExpr:
								if strings.HasSuffix(types.ExprString(v.Fun), "OneOf") {
									for _, a := range v.Args {
										if sel, ok := a.(*ast.SelectorExpr); ok {
											if v.Ellipsis.IsValid() {
												admitted[prefix+n.Name] = append(admitted[prefix+n.Name], cats[sel.Sel.Name]...)
											} else {
												admitted[prefix+n.Name] = append(admitted[prefix+n.Name], sel.Sel.Name)
											}
										}
									}
								}
							}
						}
					}
				}
			}
		}
		collectSel(sp, "selector.")
		collectSel(ap, "")
		nilT, _ := ap.Types.Scope().Lookup("NilNode").(*types.TypeName)
		// --- accessors
		const rule = "IMPL"
		for _, f := range ap.Syntax {
			for _, d := range f.Decls {
				fd, ok := d.(*ast.FuncDecl)
				if !ok || fd.Recv == nil || fd.Body == nil {
					continue
				}
				recv := recvName(fd)
				// the last selector of the navigation chain, and the asserted interface
				var lastSel string
				var asserted []ast.Expr
				var conv []string
				ast.Inspect(fd.Body, func(n ast.Node) bool {
					switch x := n.(type) {
					case *ast.CallExpr:
						if se, ok := x.Fun.(*ast.SelectorExpr); ok && len(x.Args) == 1 {
							switch se.Sel.Name {
							case "Child", "Children", "Next", "NextAll":
								if lastSel == "" || true {
									s := types.ExprString(x.Args[0])
									// outermost call is visited first; keep the first seen (the last step of the chain)
									if lastSel == "" {
										lastSel = s
									}
								}
							}
						}
					case *ast.TypeAssertExpr:
						if x.Type != nil {
							asserted = append(asserted, x.Type)
						}
					case *ast.CompositeLit:
						if id, ok := x.Type.(*ast.Ident); ok && len(x.Elts) == 1 {
							conv = append(conv, id.Name)
						}
					}
					return true
				})
				if lastSel == "" || (len(asserted) == 0 && len(conv) == 0) {
					continue
				}
				nAcc++
				key := fmt.Sprintf("%s.%s.%s", pr[0], recv, fd.Name.Name)
				adm, ok := admitted[lastSel]
				if !ok {
					c.Undec(rule, key, fd.Pos(), "selector %s is not one of the generated selectors", lastSel)
					continue
				}
				var probs []string
				for _, a := range asserted {
					it, _ := ap.TypesInfo.TypeOf(a).Underlying().(*types.Interface)
					if it == nil {
						continue
					}
					for _, nt := range adm {
						sn := typeOf[nt]
						tn, _ := ap.Types.Scope().Lookup(sn).(*types.TypeName)
						if tn == nil {
							probs = append(probs, fmt.Sprintf("node type %s has no struct", nt))
							continue
						}
						if !types.Implements(types.NewPointer(tn.Type()), it) {
							probs = append(probs, fmt.Sprintf("selector %s admits %s, whose type %s does not implement %s: the type assertion panics", lastSel, nt, sn, types.ExprString(a)))
						}
					}
					if nilT != nil && !types.Implements(types.NewPointer(nilT.Type()), it) {
						probs = append(probs, fmt.Sprintf("NilNode does not implement %s: an absent child panics in the assertion", types.ExprString(a)))
					}
				}
				for _, t := range conv {
					if _, isType := ap.Types.Scope().Lookup(t).(*types.TypeName); !isType || t == "NilNode" {
						continue
					}
					if len(adm) != 1 || typeOf[adm[0]] != t {
						probs = append(probs, fmt.Sprintf("the child selected by %s (%v) is wrapped as %s", lastSel, adm, t))
					}
				}
				if len(probs) > 0 {
					c.Bad(rule, key, fd.Pos(), "%s", strings.Join(uniqStrings(probs), "; "))
				} else {
					c.Ok(rule, key, fd.Pos(), "every node type admitted by %s (%d) satisfies the accessor's assertion/wrapper", lastSel, len(adm))
				}
			}
		}
	}
	if nFac < 2 || nAcc < 300 {
		c.add("IMPL", "count:", token.NoPos, CountDropped, true, "factories=%d (>=2), accessors=%d (>=300)", nFac, nAcc)
	}
}

// TMPL(step-scope): in go_ast.go.tmpl the navigation chain of an accessor is emitted by a
// range over the chain's steps; every name emitted for a step is built from the step (dot),
// not from the accessor's own field ($f).
func ruleTMPLSTEPSCOPE(c *Ctx) {
	const rule = "TMPL(step-scope)"
	files, err := c.templates()
	if err != nil {
		c.Lost(rule, "gen/templates", "%v", err)
		return
	}
	f := files["go_ast.go.tmpl"]
	if f == nil {
		c.Lost(rule, "go_ast.go.tmpl", "template not found")
		return
	}
	n := 0
	for _, tn := range sortedTreeKeys(f.Trees) {
		walkTmpl(f.Trees[tn].Root, nil, func(nd parse.Node, gs []tguard) {
			rn, ok := nd.(*parse.RangeNode)
			if !ok || !strings.Contains(rn.Pipe.String(), "DecodeField") {
				return
			}
			n++
			var outer []string
			walkTmpl(rn.List, nil, func(m parse.Node, _ []tguard) {
				if a, ok := m.(*parse.ActionNode); ok && strings.Contains(a.String(), "$f.") {
					outer = append(outer, a.String())
				}
			})
			key := fmt.Sprintf("go_ast.go.tmpl#%s:range(DecodeField)#%d", tn, n)
			if len(outer) > 0 {
				c.addT(rule, key, tmplPos(f, rn), Violation, "inside the range over the steps of a navigation chain %v refers to the accessor's own field instead of the step: with two overlapping multi-type fields the chain selects the wrong sibling and the child is returned by no accessor", outer)
			} else {
				c.addT(rule, key, tmplPos(f, rn), OK, "step selectors are named from the step's own field")
			}
		})
	}
	if n < 1 {
		c.addT(rule, "count:", "", CountDropped, "navigation-chain range not found in go_ast.go.tmpl")
	}
}
