package main

import (
	"fmt"
	"go/token"
	"go/types"

	"golang.org/x/tools/go/ssa"
)

// sharedAudited: in-place updates of shared TokenSet nodes that are idempotent by construction.
var sharedAudited = map[string]string{
	"syntax.rewriteArgs$2:Args": "both transforms passed to rewriteArgs are idempotent (a filter; add-if-missing followed by a sort), so visiting a shared node twice is harmless",
}

// SHARED: token set expressions are shared between named sets (a named set referenced from
// another one is the same node). A traversal that is started once per top-level set and
// updates nodes in place with a value computed from the node's own old value is applied twice
// to shared nodes unless the callback consults a visited set that outlives one traversal.
func ruleSHARED(c *Ctx) {
	const rule = "SHARED"
	synt := c.Pkg("syntax")
	if synt == nil {
		c.Lost(rule, "syntax", "package not loaded")
		return
	}
	tn, _ := synt.Types.Scope().Lookup("TokenSet").(*types.TypeName)
	if tn == nil {
		c.Lost(rule, "syntax.TokenSet", "type not found")
		return
	}
	ptrT := types.NewPointer(tn.Type())
	n := 0
	for _, p := range c.All {
		rel, _ := relPkg(p.Types)
		for _, f := range c.SrcFuncs(rel) {
			for _, b := range f.Blocks {
				for _, ins := range b.Instrs {
					call, ok := ins.(*ssa.Call)
					if !ok {
						continue
					}
					g := call.Common().StaticCallee()
					if g == nil || calleeName(g) != "syntax.TokenSet.ForEach" || len(call.Common().Args) != 2 {
						continue
					}
					mc, ok := call.Common().Args[1].(*ssa.MakeClosure)
					if !ok {
						continue
					}
					cb := mc.Fn.(*ssa.Function)
					n++
					repeated := inLoop(b)
					// self-dependent field updates in the callback
					var ts *ssa.Parameter
					for _, prm := range cb.Params {
						if types.Identical(prm.Type(), ptrT) {
							ts = prm
						}
					}
					if ts == nil {
						continue
					}
					for _, cbb := range cb.Blocks {
						for _, ci := range cbb.Instrs {
							st, ok := ci.(*ssa.Store)
							if !ok {
								continue
							}
							fa, ok := st.Addr.(*ssa.FieldAddr)
							if !ok || fa.X != ssa.Value(ts) {
								continue
							}
							fld := fieldName(fa.X.Type(), fa.Field)
							key := fmt.Sprintf("%s:%s", ssaFuncKey(cb), fld)
							if !dependsOnField(st.Val, ts, fa.Field, 0) {
								c.Ok(rule, key, st.Pos(), "stores a value that does not depend on the node's previous %s: idempotent", fld)
								continue
							}
							if !repeated {
								c.Ok(rule, key, st.Pos(), "the traversal is started once, TokenSet.ForEach visits each node once")
								continue
							}
							if why, ok := sharedAudited[key]; ok {
								c.Ok(rule, key, st.Pos(), "audited: %s", why)
								continue
							}
							// a branched lookup in a captured map keyed by the node dominating the store
							guarded := false
							for _, b2 := range cb.Blocks {
								for _, i2 := range b2.Instrs {
									lk, ok := i2.(*ssa.Lookup)
									if !ok || lk.Index != ssa.Value(ts) {
										continue
									}
									if ld, ok := lk.X.(*ssa.UnOp); ok {
										if _, isFree := ld.X.(*ssa.FreeVar); isFree && instrDominates(lk, st) {
											guarded = true
										}
									}
									if _, isFree := lk.X.(*ssa.FreeVar); isFree && instrDominates(lk, st) {
										guarded = true
									}
								}
							}
							if guarded {
								c.Ok(rule, key, st.Pos(), "update of %s is guarded by a visited set captured from outside the per-set traversal", fld)
							} else {
								c.Bad(rule, key, st.Pos(), "%s.%s is rewritten from its own old value inside a TokenSet.ForEach that is started once per top-level set (%s); nodes shared between named sets are rewritten twice", ts.Name(), fld, c.Rel(call.Pos()))
							}
						}
					}
				}
			}
		}
	}
	if n < 3 {
		c.add(rule, "count:", token.NoPos, CountDropped, true, "only %d TokenSet.ForEach call sites with a function literal found; 3 confirmed by hand", n)
	}
}

// dependsOnField: does v derive from a load of param.field?
func dependsOnField(v ssa.Value, param *ssa.Parameter, field int, d int) bool {
	if d > 10 || v == nil {
		return false
	}
	switch x := v.(type) {
	case *ssa.UnOp:
		if x.Op == token.MUL {
			if fa, ok := x.X.(*ssa.FieldAddr); ok && fa.X == ssa.Value(param) && fa.Field == field {
				return true
			}
		}
		return dependsOnField(x.X, param, field, d+1)
	case *ssa.BinOp:
		return dependsOnField(x.X, param, field, d+1) || dependsOnField(x.Y, param, field, d+1)
	case *ssa.Convert:
		return dependsOnField(x.X, param, field, d+1)
	case *ssa.ChangeType:
		return dependsOnField(x.X, param, field, d+1)
	case *ssa.IndexAddr:
		return dependsOnField(x.X, param, field, d+1) || dependsOnField(x.Index, param, field, d+1)
	case *ssa.Index:
		return dependsOnField(x.X, param, field, d+1) || dependsOnField(x.Index, param, field, d+1)
	case *ssa.Lookup:
		return dependsOnField(x.X, param, field, d+1) || dependsOnField(x.Index, param, field, d+1)
	case *ssa.Phi:
		for _, e := range x.Edges {
			if dependsOnField(e, param, field, d+1) {
				return true
			}
		}
	case *ssa.Call:
		for _, a := range x.Common().Args {
			if dependsOnField(a, param, field, d+1) {
				return true
			}
		}
	case *ssa.Extract:
		return dependsOnField(x.Tuple, param, field, d+1)
	case *ssa.Slice:
		return dependsOnField(x.X, param, field, d+1)
	}
	return false
}
