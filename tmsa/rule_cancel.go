package main

import (
	"fmt"
	"go/constant"
	"go/token"
	"go/types"
	"strings"

	"golang.org/x/tools/go/ssa"
)

// parserPkgs: packages holding generated (and hand-written sibling) parsers.
var parserPkgs = []string{"parsers/js", "parsers/tm", "parsers/test", "parsers/json", "parsers/simple"}

func isErrorType(t types.Type) bool {
	return t != nil && t.String() == "error"
}

// ctxErrFuncs computes, per package, the functions whose error result may carry ctx.Err():
// they return the result of an invoke of Err on a context.Context, or the error of such a function.
func ctxErrFuncs(c *Ctx, rel string) map[*ssa.Function]bool {
	S := map[*ssa.Function]bool{}
	funcs := c.SrcFuncs(rel)
	derives := func(f *ssa.Function, v ssa.Value) bool {
		seen := map[ssa.Value]bool{}
		var walk func(v ssa.Value, d int) bool
		walk = func(v ssa.Value, d int) bool {
			if v == nil || seen[v] || d > 12 {
				return false
			}
			seen[v] = true
			switch x := v.(type) {
			case *ssa.Call:
				cc := x.Common()
				if cc.IsInvoke() && cc.Method.Name() == "Err" && strings.HasSuffix(cc.Value.Type().String(), "context.Context") {
					return true
				}
				if g := resolveCallee(x); g != nil && S[g] {
					return true
				}
			case *ssa.Extract:
				return walk(x.Tuple, d+1)
			case *ssa.Phi:
				for _, e := range x.Edges {
					if walk(e, d+1) {
						return true
					}
				}
			case *ssa.MakeInterface:
				return walk(x.X, d+1)
			case *ssa.ChangeInterface:
				return walk(x.X, d+1)
			case *ssa.UnOp:
				if x.Op == token.MUL {
					if al, ok := x.X.(*ssa.Alloc); ok && al.Referrers() != nil {
						for _, r := range *al.Referrers() {
							if st, ok := r.(*ssa.Store); ok && st.Addr == ssa.Value(al) && walk(st.Val, d+1) {
								return true
							}
						}
					}
				}
			}
			return false
		}
		return walk(v, 0)
	}
	for changed := true; changed; {
		changed = false
		for _, f := range funcs {
			if S[f] {
				continue
			}
			res := f.Signature.Results()
			if res.Len() == 0 || !isErrorType(res.At(res.Len()-1).Type()) {
				continue
			}
			for _, b := range f.Blocks {
				for _, ins := range b.Instrs {
					if r, ok := ins.(*ssa.Return); ok && len(r.Results) > 0 {
						if derives(f, r.Results[len(r.Results)-1]) {
							S[f] = true
							changed = true
						}
					}
				}
			}
		}
	}
	return S
}

// ERRFLOW: no error that may carry ctx.Err() is dropped before Parse* returns.
func ruleERRFLOW(c *Ctx) {
	const rule = "ERRFLOW"
	total := 0
	for _, rel := range parserPkgs {
		S := ctxErrFuncs(c, rel)
		if len(S) == 0 {
			continue
		}
		for _, f := range c.SrcFuncs(rel) {
			ord := map[string]int{}
			for _, b := range f.Blocks {
				for _, ins := range b.Instrs {
					call, ok := ins.(*ssa.Call)
					if !ok {
						continue
					}
					g := resolveCallee(call)
					if g == nil || !S[g] {
						continue
					}
					total++
					key := ordKey(ord, fmt.Sprintf("%s:%s", ssaFuncKey(f), calleeName(g)))
					// the error component
					var errv ssa.Value = call
					if tup, ok := call.Type().(*types.Tuple); ok {
						errv = nil
						if call.Referrers() != nil {
							for _, r := range *call.Referrers() {
								if ex, ok := r.(*ssa.Extract); ok && ex.Index == tup.Len()-1 {
									errv = ex
								}
							}
						}
					}
					if errv == nil || errv.Referrers() == nil || len(*errv.Referrers()) == 0 {
						c.Bad(rule, key, call.Pos(), "the error returned by %s (it can be ctx.Err()) is discarded: after a cancellation the caller carries on with a result that was never computed", calleeName(g))
						continue
					}
					// forward slice to a Return
					seen := map[ssa.Value]bool{}
					reachesReturn := false
					var walk func(v ssa.Value, d int)
					walk = func(v ssa.Value, d int) {
						if v == nil || seen[v] || d > 10 || v.Referrers() == nil {
							return
						}
						seen[v] = true
						for _, r := range *v.Referrers() {
							switch y := r.(type) {
							case *ssa.Return:
								for _, res := range y.Results {
									if res == v {
										reachesReturn = true
									}
								}
							case *ssa.Phi:
								walk(y, d+1)
							case *ssa.MakeInterface:
								walk(y, d+1)
							case *ssa.ChangeInterface:
								walk(y, d+1)
							case *ssa.Store:
								if al, ok := y.Addr.(*ssa.Alloc); ok && al.Referrers() != nil && y.Val == v {
									for _, r2 := range *al.Referrers() {
										if ld, ok := r2.(*ssa.UnOp); ok && ld.Op == token.MUL {
											walk(ld, d+1)
										}
									}
								}
							}
						}
					}
					walk(errv, 0)
					// check-first: no other result of the call is used before the error was found
					// to be nil (a result computed under a cancelled context is not an answer)
					early := token.NoPos
					if _, isTup := call.Type().(*types.Tuple); isTup && call.Referrers() != nil {
						for _, r := range *call.Referrers() {
							ex, ok := r.(*ssa.Extract)
							if !ok || ssa.Value(ex) == errv || ex.Referrers() == nil {
								continue
							}
							for _, use := range *ex.Referrers() {
								if _, isDbg := use.(*ssa.DebugRef); isDbg {
									continue
								}
								if ret, isRet := use.(*ssa.Return); isRet {
									together := false
									for _, res := range ret.Results {
										if res == errv {
											together = true
										}
									}
									if together {
										continue
									}
								}
								checked := false
								ub := use.Block()
								if phi, isPhi := use.(*ssa.Phi); isPhi {
									// the use happens on the incoming edge
									for i, e := range phi.Edges {
										if e == ssa.Value(ex) {
											ub = phi.Block().Preds[i]
										}
									}
								}
								for _, gc := range flattenConds(governing(ub)) {
									bo, ok := gc.V.(*ssa.BinOp)
									if !ok {
										continue
									}
									isErrNil := (bo.X == errv && vpath(bo.Y) == "nil") || (bo.Y == errv && vpath(bo.X) == "nil")
									if isErrNil && ((bo.Op == token.NEQ && !gc.Pol) || (bo.Op == token.EQL && gc.Pol)) {
										checked = true
									}
								}
								if !checked {
									// harmless if every return reachable from here hands the error back
									// (the caller then ignores the other results), or is itself behind
									// the nil test
									escapes := false
									for _, rb := range f.Blocks {
										ret, isRet := rb.Instrs[len(rb.Instrs)-1].(*ssa.Return)
										if !isRet || !reachesWithout(ub, rb, nil) {
											continue
										}
										carries := false
										for _, res := range ret.Results {
											if res == errv || seen[res] {
												carries = true
											}
										}
										behind := false
										for _, gc := range flattenConds(governing(rb)) {
											if bo, ok := gc.V.(*ssa.BinOp); ok {
												isErrNil := (bo.X == errv && vpath(bo.Y) == "nil") || (bo.Y == errv && vpath(bo.X) == "nil")
												if isErrNil && ((bo.Op == token.NEQ && !gc.Pol) || (bo.Op == token.EQL && gc.Pol)) {
													behind = true
												}
											}
										}
										if !carries && !behind {
											escapes = true
										}
									}
									if escapes && early == token.NoPos {
										early = use.Pos()
										if early == token.NoPos {
											early = call.Pos()
										}
									}
								}
							}
						}
					}
					if reachesReturn && early != token.NoPos {
						c.Bad(rule, key, early, "a result of %s is used before its error (it can be ctx.Err()) was found to be nil: after a cancellation the caller acts on an answer that was never computed and the error can be skipped", calleeName(g))
					} else if reachesReturn {
						c.Ok(rule, key, call.Pos(), "the error of %s reaches a return of %s, and no other result is used before the error was found to be nil", calleeName(g), f.Name())
					} else {
						c.Bad(rule, key, call.Pos(), "the error returned by %s (it can be ctx.Err()) never reaches a return of %s: a cancellation is swallowed and the parse continues on a wrong answer", calleeName(g), f.Name())
					}
				}
			}
		}
	}
	if total < 10 {
		c.add(rule, "count:", token.NoPos, CountDropped, true, "only %d calls of functions that may return ctx.Err() found in the parser packages (>= 10 confirmed by hand)", total)
	}
}

// CANCEL: every shift of a cancellable parser is preceded by a bounded-period poll of the
// context; all poll sites of a package test the shared counter the same way.
func ruleCANCEL(c *Ctx) {
	const rule = "CANCEL"
	nPkgs := 0
	for _, rel := range parserPkgs {
		type site struct {
			f    *ssa.Function
			mask int64
			form string
			pos  token.Pos
		}
		var sites []site
		var loopsWithShift []string
		for _, f := range c.SrcFuncs(rel) {
			hasCtx := false
			for _, p := range f.Params {
				if strings.HasSuffix(p.Type().String(), "context.Context") {
					hasCtx = true
				}
			}
			if !hasCtx {
				continue
			}
			// poll sites: a Select on ctx.Done()
			for _, b := range f.Blocks {
				for _, ins := range b.Instrs {
					sel, ok := ins.(*ssa.Select)
					if !ok {
						continue
					}
					isCtx := false
					for _, st := range sel.States {
						if strings.Contains(vpath(st.Chan), "Done") {
							isCtx = true
						}
					}
					if !isCtx {
						continue
					}
					// the governing counter test
					s := site{f: f, mask: -1, pos: sel.Pos()}
					for _, g := range flattenConds(governing(b)) {
						l, op, r, ok := cmpNormV(g.V, g.Pol)
						if !ok {
							continue
						}
						if bo, isB := stripConv(l).(*ssa.BinOp); isB && bo.Op == token.AND && op == "==" && vpath(r) == "0" {
							if cst, ok := bo.Y.(*ssa.Const); ok && cst.Value != nil && cst.Value.Kind() == constant.Int {
								s.mask, _ = constant.Int64Val(cst.Value)
								s.form = "(counter & M) == 0"
							}
						} else if op == "==" && strings.Contains(strings.ToLower(vpath(l)), "counter") {
							s.form = "counter == " + vpath(r)
						}
					}
					// the ready branch returns ctx.Err()
					sites = append(sites, s)
				}
			}
			// shift loops: a loop that appends a stackEntry built from the next token
			for _, lp := range naturalLoops(f) {
				hasShift, hasPoll := false, false
				for b := range lp.Body {
					for _, ins := range b.Instrs {
						switch x := ins.(type) {
						case *ssa.Select:
							hasPoll = true
						case *ssa.Store:
							if fa, ok := x.Addr.(*ssa.FieldAddr); ok && fieldName(fa.X.Type(), fa.Field) == "sym" && strings.Contains(vpath(x.Val), "next") {
								hasShift = true
							}
						}
					}
				}
				if hasShift {
					key := fmt.Sprintf("%s:shift-loop", ssaFuncKey(f))
					loopsWithShift = append(loopsWithShift, key)
					if hasPoll {
						c.Ok(rule, key, lp.Header.Instrs[0].Pos(), "the loop that shifts tokens polls ctx.Done()")
					} else {
						c.Bad(rule, key, lp.Header.Instrs[0].Pos(), "a loop shifts tokens without polling the context: after a cancellation it runs to the end of the input")
					}
				}
			}
		}
		if len(sites) == 0 {
			continue
		}
		nPkgs++
		masks := map[int64]bool{}
		for i, s := range sites {
			key := fmt.Sprintf("%s:poll#%d", ssaFuncKey(s.f), i+1)
			switch {
			case s.mask < 0:
				c.Bad(rule, key, s.pos, "the context poll is not governed by `(shiftCounter & M) == 0` (found: %q); with a shared counter every site must use the mask form, an equality+reset at one site is starved by increments at the others", s.form)
			case (s.mask+1)&s.mask != 0 || s.mask > 0x1ff:
				c.Bad(rule, key, s.pos, "poll mask %#x must be 2^k-1 with k <= 9 (period <= 512 shifts)", s.mask)
			default:
				masks[s.mask] = true
				c.Ok(rule, key, s.pos, "polls every %d shifts", s.mask+1)
			}
		}
		if len(masks) > 1 {
			c.Bad(rule, rel+":mask-agreement", sites[0].pos, "poll sites of %s use different masks %v on one shared counter", rel, masks)
		}
	}
	if nPkgs < 3 {
		c.add(rule, "count:", token.NoPos, CountDropped, true, "only %d cancellable parser packages found (js, tm, test confirmed by hand)", nPkgs)
	}
}

// MONOTONE(poll-counter): the context is polled when (counter & M) == 0, so the counter has to
// keep counting for the whole parse. Inside a parser package, the counter cell may only be
// changed by adding a positive constant; it (or the session struct that holds it) may be
// re-initialised only outside every loop. A reset inside the parse loop (e.g. after each
// recovered syntax error) can keep the counter below M forever: the context is never polled and
// a cancelled parse runs to the end of the input.
func rulePOLLCOUNTER(c *Ctx) {
	const rule = "MONOTONE(poll-counter)"
	n := 0
	for _, rel := range parserPkgs {
		for _, f := range c.SrcFuncs(rel) {
			loops := naturalLoops(f)
			ord := map[string]int{}
			for _, b := range f.Blocks {
				for _, ins := range b.Instrs {
					st, ok := ins.(*ssa.Store)
					if !ok {
						continue
					}
					kind := ""
					if fa, ok := st.Addr.(*ssa.FieldAddr); ok && fieldName(fa.X.Type(), fa.Field) == "shiftCounter" {
						kind = "field"
					} else if pt, ok := st.Addr.Type().Underlying().(*types.Pointer); ok {
						if nt, ok := pt.Elem().(*types.Named); ok && nt.Obj().Name() == "session" {
							kind = "struct"
						}
					} else if al, ok := st.Addr.(*ssa.Alloc); ok && al.Comment == "shiftCounter" {
						kind = "field"
					}
					if al, ok := st.Addr.(*ssa.Alloc); ok && al.Comment == "shiftCounter" {
						kind = "field"
					}
					if kind == "" {
						continue
					}
					n++
					key := ordKey(ord, ssaFuncKey(f)+":counter-store")
					inLoop := innermostLoop(loops, b) != nil
					if kind == "field" {
						if bo, ok := st.Val.(*ssa.BinOp); ok && bo.Op == token.ADD {
							if k, ok := bo.Y.(*ssa.Const); ok && k.Value != nil && k.Int64() > 0 && vpath(bo.X) == vpath(st.Addr) {
								c.Ok(rule, key, st.Pos(), "the poll counter is advanced by a positive constant")
								continue
							}
						}
					}
					if !inLoop {
						c.Ok(rule, key, st.Pos(), "the poll counter is (re)initialised outside every loop")
						continue
					}
					c.Bad(rule, key, st.Pos(), "the poll counter is reset inside a loop (%s store): with a reset at least every %s shifts the test (counter & M) == 0 never holds, the context is never polled and a cancelled parse runs on", kind, "M")
				}
			}
		}
	}
	if n < 4 {
		c.add(rule, "count:", token.NoPos, CountDropped, true, "only %d stores to a poll counter found", n)
	}
}

// SOURCE(handler-identity): the generated ast.Parse hands the caller's ErrorHandler to the
// parser unchanged. A wrapper that consults the context (or anything else) changes what a
// syntax error does once the context is done: the parse returns a SyntaxError - neither the
// context's error nor the uncancelled result.
func ruleHANDLERID(c *Ctx) {
	const rule = "SOURCE(handler-identity)"
	n := 0
	for _, rel := range []string{"parsers/js/ast", "parsers/tm/ast", "parsers/test/ast", "parsers/json/ast", "parsers/simple/ast"} {
		f := c.SSAFunc(rel, "Parse")
		if f == nil {
			continue
		}
		var ehParam *ssa.Parameter
		for _, p := range f.Params {
			if nt, ok := p.Type().(*types.Named); ok && nt.Obj().Name() == "ErrorHandler" {
				ehParam = p
			}
		}
		if ehParam == nil {
			continue
		}
		for _, b := range f.Blocks {
			for _, ins := range b.Instrs {
				call, ok := ins.(*ssa.Call)
				if !ok {
					continue
				}
				g := call.Call.StaticCallee()
				if g == nil || g.Name() != "Init" || g.Signature.Recv() == nil {
					continue
				}
				for i, a := range call.Call.Args {
					if i == 0 {
						continue
					}
					if nt, ok := a.Type().(*types.Named); !ok || nt.Obj().Name() != "ErrorHandler" {
						continue
					}
					n++
					key := rel + ".Parse:Init-handler"
					v := a
					if ct, ok := v.(*ssa.ChangeType); ok {
						v = ct.X
					}
					if v == ssa.Value(ehParam) {
						c.Ok(rule, key, call.Pos(), "the caller's error handler is passed to the parser unchanged")
					} else {
						c.Bad(rule, key, call.Pos(), "ast.Parse passes %s instead of its own eh parameter to Parser.Init: a wrapped handler changes the outcome of a syntax error (e.g. once the context is done the parse returns a SyntaxError instead of the context's error or the recovered tree)", vpath(a))
					}
				}
			}
		}
	}
	if n < 2 {
		c.add(rule, "count:", token.NoPos, CountDropped, true, "only %d ast.Parse wrappers with an error handler found (js, tm confirmed by hand)", n)
	}
}

// USE(ctx.Err): a cancelled parse either returns the context's error or behaves exactly like an
// uncancelled one. So in the parser packages the value of ctx.Err() may only travel to a return;
// it must not decide anything else (skip events, stop flushing, change recovery): every call of
// Context.Err has all its uses in returns (possibly through a phi, an interface conversion or a
// named result).
func ruleCTXERRUSE(c *Ctx) {
	const rule = "USE(ctx.Err)"
	n := 0
	pkgs := append([]string{}, parserPkgs...)
	for _, p := range parserPkgs {
		pkgs = append(pkgs, p+"/ast")
	}
	for _, rel := range pkgs {
		for _, f := range c.SrcFuncs(rel) {
			ord := map[string]int{}
			for _, b := range f.Blocks {
				for _, ins := range b.Instrs {
					call, ok := ins.(*ssa.Call)
					if !ok || !call.Call.IsInvoke() || call.Call.Method.Name() != "Err" || !strings.HasSuffix(call.Call.Value.Type().String(), "context.Context") {
						continue
					}
					n++
					key := ordKey(ord, ssaFuncKey(f)+":ctx.Err")
					bad := token.NoPos
					seen := map[ssa.Value]bool{}
					var walk func(v ssa.Value, d int)
					walk = func(v ssa.Value, d int) {
						if seen[v] || d > 8 || v.Referrers() == nil {
							return
						}
						seen[v] = true
						for _, r := range *v.Referrers() {
							switch y := r.(type) {
							case *ssa.Return, *ssa.DebugRef:
							case *ssa.Phi:
								walk(y, d+1)
							case *ssa.MakeInterface:
								walk(y, d+1)
							case *ssa.ChangeInterface:
								walk(y, d+1)
							case *ssa.Store:
								if al, ok := y.Addr.(*ssa.Alloc); ok && y.Val == v && al.Referrers() != nil {
									for _, r2 := range *al.Referrers() {
										if ld, ok := r2.(*ssa.UnOp); ok && ld.Op == token.MUL {
											walk(ld, d+1)
										}
									}
								} else if bad == token.NoPos {
									bad = y.Pos()
								}
							default:
								if bad == token.NoPos {
									bad = r.Pos()
									if bad == token.NoPos {
										bad = call.Pos()
									}
								}
							}
						}
					}
					walk(call, 0)
					if bad == token.NoPos {
						c.Ok(rule, key, call.Pos(), "ctx.Err() is only returned")
					} else {
						c.Bad(rule, key, bad, "the value of ctx.Err() is used for something else than being returned: once the context is done the parser behaves differently (events, flushing, recovery) without returning the context's error")
					}
				}
			}
		}
	}
	if n < 5 {
		c.add(rule, "count:", token.NoPos, CountDropped, true, "only %d calls of ctx.Err() found in the parser packages (5 confirmed by hand)", n)
	}
}
