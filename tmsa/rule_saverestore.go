package main

import (
	"fmt"
	"go/token"

	"golang.org/x/tools/go/ssa"
)

// PAIR(save-restore): `old := x.f; x.f = v; descend(); x.f = old` makes x.f a dynamically scoped
// variable. Code of the same function that reads x.f after the descent means the *restored*
// value; every such read must be dominated by the restoring store. Moving the restore into a
// defer runs it after those reads: they see the value set for the descent (in
// typeCollector.nontermPhrase the low-link of a nonterminal is then propagated to itself
// instead of to its referrer).
func ruleSAVERESTORE(c *Ctx, pkgs ...string) {
	const rule = "PAIR(save-restore)"
	n := 0
	for _, rel := range pkgs {
		for _, f := range c.SrcFuncs(rel) {
			if f.Parent() != nil {
				continue
			}
			ord := map[string]int{}
			for _, b := range f.Blocks {
				for i, ins := range b.Instrs {
					s1, ok := ins.(*ssa.Store)
					if !ok {
						continue
					}
					fa, ok := s1.Addr.(*ssa.FieldAddr)
					if !ok {
						continue
					}
					path := vpath(fa)
					// saved: a load of the same field earlier in this block whose value is stored
					// back later (in this function or in a closure of it)
					var saved *ssa.UnOp
					for _, prev := range b.Instrs[:i] {
						if ld, ok := prev.(*ssa.UnOp); ok && ld.Op == token.MUL {
							if pa, ok := ld.X.(*ssa.FieldAddr); ok && vpath(pa) == path {
								saved = ld
							}
						}
					}
					if saved == nil || s1.Val == ssa.Value(saved) {
						continue
					}
					var restores []*ssa.Store
					deferred := false
					for _, b2 := range f.Blocks {
						for _, in2 := range b2.Instrs {
							if s2, ok := in2.(*ssa.Store); ok && s2 != s1 && s2.Val == ssa.Value(saved) {
								if a2, ok := s2.Addr.(*ssa.FieldAddr); ok && vpath(a2) == path {
									restores = append(restores, s2)
								}
							}
						}
					}
					for _, an := range f.AnonFuncs {
						for _, b2 := range an.Blocks {
							for _, in2 := range b2.Instrs {
								if s2, ok := in2.(*ssa.Store); ok {
									if a2, ok := s2.Addr.(*ssa.FieldAddr); ok && fieldName(a2.X.Type(), a2.Field) == fieldName(fa.X.Type(), fa.Field) {
										// the closure stores a captured copy of the saved value
										deferred = true
									}
								}
							}
						}
					}
					if len(restores) == 0 && !deferred {
						continue
					}
					// reads of the field after s1
					var lateReads []*ssa.UnOp
					for _, b2 := range f.Blocks {
						for j, in2 := range b2.Instrs {
							ld, ok := in2.(*ssa.UnOp)
							if !ok || ld.Op != token.MUL {
								continue
							}
							pa, ok := ld.X.(*ssa.FieldAddr)
							if !ok || vpath(pa) != path {
								continue
							}
							after := false
							if b2 == b {
								after = j > i
							} else {
								after = b.Dominates(b2)
							}
							if after {
								lateReads = append(lateReads, ld)
							}
						}
					}
					if len(lateReads) == 0 {
						continue
					}
					n++
					key := ordKey(ord, fmt.Sprintf("%s:%s", ssaFuncKey(f), path))
					bad := 0
					for _, ld := range lateReads {
						ok := false
						for _, r := range restores {
							if r.Block() == ld.Block() {
								for _, x := range r.Block().Instrs {
									if x == ssa.Instruction(r) {
										ok = true
										break
									}
									if x == ssa.Instruction(ld) {
										break
									}
								}
							} else if r.Block().Dominates(ld.Block()) {
								ok = true
							}
						}
						if !ok {
							bad++
						}
					}
					if bad > 0 {
						c.Bad(rule, key, s1.Pos(), "%s is saved, overwritten for the descent and restored, but %d read(s) of it later in the function are not dominated by the restoring store (the restore is deferred or conditional): they see the value meant for the callee", path, bad)
					} else {
						c.Ok(rule, key, s1.Pos(), "all %d later reads of %s come after the restoring store", len(lateReads), path)
					}
				}
			}
		}
	}
	if n < 1 {
		c.add(rule, "count:", token.NoPos, CountDropped, true, "no save/overwrite/restore of a field with later reads found (syntax.(*typeCollector).nontermPhrase confirmed by hand)")
	}
}
