package main

import (
	"fmt"
	"go/token"
	"go/types"

	"golang.org/x/tools/go/ssa"
)

// GUARD(lookup-index): `i, ok := m[k]` yields the zero index on a miss. Using i to index a slice
// is only meaningful on the ok path: every IndexAddr whose index is the value of a comma-ok map
// lookup must be governed by ok == true (a dropped `continue` after the "not found" diagnostic
// indexes element 0 — or panics on an empty slice).
func ruleLOOKUPIDX(c *Ctx, pkgs ...string) {
	const rule = "GUARD(lookup-index)"
	n := 0
	for _, rel := range pkgs {
		for _, f := range c.SrcFuncs(rel) {
			ord := map[string]int{}
			for _, b := range f.Blocks {
				for _, ins := range b.Instrs {
					lk, ok := ins.(*ssa.Lookup)
					if !ok || !lk.CommaOk {
						continue
					}
					if _, isMap := lk.X.Type().Underlying().(*types.Map); !isMap {
						continue
					}
					var val, okv *ssa.Extract
					for _, ref := range *lk.Referrers() {
						if e, isE := ref.(*ssa.Extract); isE {
							if e.Index == 0 {
								val = e
							} else {
								okv = e
							}
						}
					}
					if val == nil || okv == nil {
						continue
					}
					if bt, isB := val.Type().Underlying().(*types.Basic); !isB || bt.Info()&types.IsInteger == 0 {
						continue
					}
					// index uses of val (directly or through a phi with other definitions)
					for _, ref := range *val.Referrers() {
						ia, isIA := ref.(*ssa.IndexAddr)
						if !isIA || ia.Index != ssa.Value(val) {
							continue
						}
						if _, isSlice := ia.X.Type().Underlying().(*types.Slice); !isSlice {
							continue
						}
						n++
						key := ordKey(ord, fmt.Sprintf("%s:%s[%s]", ssaFuncKey(f), normalizePhi(vpath(ia.X)), normalizePhi(vpath(lk.X))+"[..]"))
						guarded := false
						for _, g := range flattenConds(governing(ia.Block())) {
							if g.V == ssa.Value(okv) && g.Pol {
								guarded = true
							}
						}
						if guarded {
							c.Ok(rule, key, ia.Pos(), "the looked-up index is used only on the ok path")
						} else {
							c.Bad(rule, key, ia.Pos(), "%s is indexed with the result of the map lookup %s[..] on a path where the lookup may have missed (ok is not known to be true): index 0 is used for an unknown key, or the access panics on an empty slice", normalizePhi(vpath(ia.X)), normalizePhi(vpath(lk.X)))
						}
					}
				}
			}
		}
	}
	if n < 2 {
		c.add(rule, "count:", token.NoPos, CountDropped, true, "only %d slice accesses indexed by a comma-ok lookup result found", n)
	}
}
