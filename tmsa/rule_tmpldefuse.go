package main

import (
	"fmt"
	"regexp"
	"sort"
	"strings"
	"text/template/parse"
)

// TMPL(def-use): helper functions of the generated Go parser are emitted under option/grammar
// guards, and so are their calls. For every helper defined in go_parser.go.tmpl, each call site
// must imply the definition: evaluating both guard formulas (and/or/not over the atomic
// conditions that occur in them) for every truth assignment, use => def. A definition guarded
// more narrowly than a use yields `undefined: helper` for the option combinations in between.
func ruleTMPLDEFUSE(c *Ctx) {
	const rule = "TMPL(def-use)"
	tf, err := c.templates()
	if err != nil {
		c.Lost(rule, "gen/templates", "%v", err)
		return
	}
	f := tf["go_parser.go.tmpl"]
	if f == nil {
		c.Lost(rule, "go_parser.go.tmpl", "template not found")
		return
	}
	// single-assignment template variables
	tmplVarDefs = map[string]string{}
	declared, assigned := map[string][]string{}, map[string]int{}
	for _, dn := range sortedTreeKeys(f.Trees) {
		walkTmpl(f.Trees[dn].Root, nil, func(n parse.Node, gs []tguard) {
			an, ok := n.(*parse.ActionNode)
			if !ok || len(an.Pipe.Decl) != 1 {
				return
			}
			v := an.Pipe.Decl[0].String()
			full := an.Pipe.String()
			if i := strings.Index(full, ":="); i >= 0 {
				declared[v] = append(declared[v], strings.TrimSpace(full[i+2:]))
			} else {
				assigned[v]++
			}
		})
	}
	for v, ds := range declared {
		if len(ds) == 1 && assigned[v] == 0 {
			tmplVarDefs[v] = ds[0]
		}
	}
	// guards under which each define is expanded from the file's top level / other defines
	type site struct {
		def string
		gs  []tguard
	}
	callers := map[string][]site{} // define name -> sites that expand it
	for _, dn := range sortedTreeKeys(f.Trees) {
		walkTmpl(f.Trees[dn].Root, nil, func(n parse.Node, gs []tguard) {
			if t, ok := n.(*parse.TemplateNode); ok {
				callers[t.Name] = append(callers[t.Name], site{dn, append([]tguard{}, gs...)})
			}
		})
	}
	// formula of "text at (define dn, guards gs) is emitted": conj(gs) && OR over callers(dn)
	var emitted func(dn string, gs []tguard, depth int) bform
	emitted = func(dn string, gs []tguard, depth int) bform {
		var conj []bform
		for _, g := range gs {
			if g.Kind != "if" {
				continue // range/with bodies: assume non-empty
			}
			fm := parseGuard(g.Pipe)
			if !g.Pol {
				fm = bform{op: "not", args: []bform{fm}}
			}
			conj = append(conj, fm)
		}
		if dn != f.Name && depth < 4 {
			var alts []bform
			for _, s := range callers[dn] {
				alts = append(alts, emitted(s.def, s.gs, depth+1))
			}
			if len(alts) > 0 {
				conj = append(conj, bform{op: "or", args: alts})
			}
		}
		return bform{op: "and", args: conj}
	}
	defRe := regexp.MustCompile(`(?m)^func (?:\([^)]*\) )?([a-zA-Z][A-Za-z0-9]*)\(`)
	type where struct {
		f   bform
		pos string
	}
	defs := map[string][]where{}
	type useT struct {
		name string
		w    where
	}
	var texts []struct {
		dn  string
		gs  []tguard
		txt string
		pos string
	}
	for _, dn := range sortedTreeKeys(f.Trees) {
		walkTmpl(f.Trees[dn].Root, nil, func(n parse.Node, gs []tguard) {
			tn, ok := n.(*parse.TextNode)
			if !ok {
				return
			}
			txt := string(tn.Text)
			texts = append(texts, struct {
				dn  string
				gs  []tguard
				txt string
				pos string
			}{dn, append([]tguard{}, gs...), txt, tmplPos(f, n)})
			for _, m := range defRe.FindAllStringSubmatch(txt, -1) {
				defs[m[1]] = append(defs[m[1]], where{emitted(dn, gs, 0), tmplPos(f, n)})
			}
		})
	}
	n := 0
	names := make([]string, 0, len(defs))
	for k := range defs {
		names = append(names, k)
	}
	sort.Strings(names)
	for _, name := range names {
		if len(name) < 4 {
			continue
		}
		callRe := regexp.MustCompile(`(^|[^A-Za-z0-9_."])` + regexp.QuoteMeta(name) + `\(`)
		var defF []bform
		for _, d := range defs[name] {
			defF = append(defF, d.f)
		}
		defAny := bform{op: "or", args: defF}
		ord := 0
		for _, t := range texts {
			// strip the definition itself
			txt := defRe.ReplaceAllString(t.txt, "func (")
			if !callRe.MatchString(txt) {
				continue
			}
			ord++
			n++
			key := fmt.Sprintf("go_parser.go.tmpl:%s#use%d", name, ord)
			use := emitted(t.dn, t.gs, 0)
			atoms := map[string]bool{}
			use.atoms(atoms)
			defAny.atoms(atoms)
			var as []string
			for a := range atoms {
				as = append(as, a)
			}
			sort.Strings(as)
			if len(as) > 14 {
				c.addT(rule, key, t.pos, Undecided, "too many atomic conditions (%d) to enumerate for %s", len(as), name)
				continue
			}
			bad := ""
			for mask := 0; mask < 1<<len(as); mask++ {
				env := map[string]bool{}
				for i, a := range as {
					env[a] = mask&(1<<i) != 0
				}
				if use.eval(env) && !defAny.eval(env) {
					var on []string
					for _, a := range as {
						if env[a] {
							on = append(on, a)
						}
					}
					bad = strings.Join(on, " && ")
					break
				}
			}
			if bad == "" {
				c.addT(rule, key, t.pos, OK, "the call of %s is emitted only when its definition is (%d atomic conditions enumerated)", name, len(as))
			} else {
				c.addT(rule, key, t.pos, Violation, "%s is called here under {%s} (all other conditions false), a combination for which no definition of %s is emitted (%s): the generated parser does not compile", name, bad, name, defs[name][0].pos)
			}
		}
	}
	if n < 20 {
		c.addT(rule, "count:", "", CountDropped, "only %d calls of template-defined helpers found in go_parser.go.tmpl", n)
	}
}

// bform is a boolean formula over atomic template conditions.
type bform struct {
	op   string // and | or | not | atom | true
	args []bform
	atom string
}

func (b bform) eval(env map[string]bool) bool {
	switch b.op {
	case "and":
		for _, a := range b.args {
			if !a.eval(env) {
				return false
			}
		}
		return true
	case "or":
		for _, a := range b.args {
			if a.eval(env) {
				return true
			}
		}
		return false
	case "not":
		return !b.args[0].eval(env)
	case "atom":
		return env[b.atom]
	}
	return true
}

func (b bform) atoms(out map[string]bool) {
	if b.op == "atom" {
		out[b.atom] = true
	}
	for _, a := range b.args {
		a.atoms(out)
	}
}

// parseGuard turns a template pipeline such as `and (or .A (gt .B 0)) (not .C)` into a formula;
// anything that is not and/or/not is an atom (normalised: `$.` == `.`).
func parseGuard(s string) bform {
	s = strings.TrimSpace(s)
	for strings.HasPrefix(s, "(") && matchingParen(s) == len(s)-1 {
		s = strings.TrimSpace(s[1 : len(s)-1])
	}
	fields := splitTop(s)
	if len(fields) > 1 {
		switch fields[0] {
		case "and", "or":
			var args []bform
			for _, a := range fields[1:] {
				args = append(args, parseGuard(a))
			}
			return bform{op: fields[0], args: args}
		case "not":
			return bform{op: "not", args: []bform{parseGuard(strings.Join(fields[1:], " "))}}
		}
	}
	if strings.Contains(s, ".Options.IsEnabled ") {
		// customisation switch: when a part is disabled the embedding template supplies its own
		return bform{op: "true"}
	}
	if v, ok := tmplVarDefs[s]; ok {
		return parseGuard(v)
	}
	return bform{op: "atom", atom: strings.ReplaceAll(s, "$.", ".")}
}

// tmplVarDefs: template variables of the file that are declared once (`{{ $v := pipeline }}`) and
// never re-assigned, with their defining pipeline; filled by ruleTMPLDEFUSE before parsing guards.
var tmplVarDefs = map[string]string{}

func matchingParen(s string) int {
	d := 0
	for i, r := range s {
		switch r {
		case '(':
			d++
		case ')':
			d--
			if d == 0 {
				return i
			}
		}
	}
	return -1
}

// splitTop splits on spaces outside parentheses and quotes.
func splitTop(s string) []string {
	var out []string
	d, start, inq := 0, 0, false
	for i, r := range s {
		switch {
		case r == '"':
			inq = !inq
		case inq:
		case r == '(':
			d++
		case r == ')':
			d--
		case r == ' ' && d == 0:
			if i > start {
				out = append(out, s[start:i])
			}
			start = i + 1
		}
	}
	if start < len(s) {
		out = append(out, s[start:])
	}
	return out
}
