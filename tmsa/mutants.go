package main

import (
	"encoding/json"
	"fmt"
	"os"
	"os/exec"
	"path/filepath"
	"regexp"
	"sort"
	"strings"
	"sync"
)

// The thorough tier re-runs the property's rules on scratch copies of the repository with one
// known breaking change applied each (reverted fixes, hand-written one-hunk mutants, and the
// confirmed changes written by independent sub-agents under /verif/seeded). A change listed
// as detected by this property must be reported; the scratch copy lives outside /repo and
// /verif and is removed right away.

type mutantSpec struct {
	Name  string   `json:"name"`
	Patch string   `json:"patch"`
	Props []string `json:"props"`
	What  string   `json:"what"`
}

type mutantResult struct {
	Name     string   `json:"name"`
	What     string   `json:"what,omitempty"`
	Applied  bool     `json:"applied"`
	Detected bool     `json:"detected"`
	Reports  []string `json:"reports,omitempty"`
}

func loadMutants(verif, prop string) []mutantSpec {
	var out []mutantSpec
	if b, err := os.ReadFile(filepath.Join(verif, "mutants", "index.json")); err == nil {
		var idx struct {
			Mutants []mutantSpec `json:"mutants"`
		}
		if json.Unmarshal(b, &idx) == nil {
			for _, m := range idx.Mutants {
				for _, p := range m.Props {
					if p == prop {
						m.Patch = filepath.Join(verif, "mutants", m.Patch)
						out = append(out, m)
					}
				}
			}
		}
	}
	dirs, _ := filepath.Glob(filepath.Join(verif, "seeded", "*", "meta.json"))
	sort.Strings(dirs)
	for _, mf := range dirs {
		b, err := os.ReadFile(mf)
		if err != nil {
			continue
		}
		var meta struct {
			Property   string   `json:"property"`
			DetectedBy []string `json:"detected_by"`
			Summary    string   `json:"summary"`
		}
		if json.Unmarshal(b, &meta) != nil {
			continue
		}
		for _, p := range meta.DetectedBy {
			if p == prop {
				d := filepath.Dir(mf)
				out = append(out, mutantSpec{Name: "seeded/" + filepath.Base(d), Patch: filepath.Join(d, "patch.diff"), What: meta.Summary})
			}
		}
	}
	return out
}

var vioRe = regexp.MustCompile(`kind=(\S+) rule=(\S+) site=(.*?) at=`)

func runMutants(repo, verif, prop string) []mutantResult {
	specs := loadMutants(verif, prop)
	res := make([]mutantResult, len(specs))
	self, _ := os.Executable()
	sem := make(chan struct{}, 4)
	var wg sync.WaitGroup
	for i, m := range specs {
		wg.Add(1)
		go func(i int, m mutantSpec) {
			defer wg.Done()
			sem <- struct{}{}
			defer func() { <-sem }()
			r := mutantResult{Name: m.Name, What: m.What}
			defer func() { res[i] = r }()
			dir, err := os.MkdirTemp("", "tmsa-mut-")
			if err != nil {
				return
			}
			defer os.RemoveAll(dir)
			rdir := filepath.Join(dir, "repo")
			if out, err := exec.Command("rsync", "-a", "--exclude", ".git", repo+"/", rdir+"/").CombinedOutput(); err != nil {
				r.Reports = []string{"copy failed: " + string(out)}
				return
			}
			os.MkdirAll(filepath.Join(dir, "verif"), 0o755)
			if b, err := os.ReadFile(filepath.Join(verif, "known_findings.json")); err == nil {
				os.WriteFile(filepath.Join(dir, "verif", "known_findings.json"), b, 0o644)
			}
			pf, err := os.Open(m.Patch)
			if err != nil {
				return
			}
			cmd := exec.Command("patch", "-p1", "-s", "--no-backup-if-mismatch")
			cmd.Dir = rdir
			cmd.Stdin = pf
			if out, err := cmd.CombinedOutput(); err != nil {
				pf.Close()
				r.Reports = []string{"patch does not apply to the current tree: " + strings.TrimSpace(string(out))}
				return
			}
			pf.Close()
			r.Applied = true
			chk := exec.Command(self, "check", "-p", prop, "-tier", "quick", "-repo", rdir, "-verif", filepath.Join(dir, "verif"))
			out, _ := chk.CombinedOutput()
			r.Detected = chk.ProcessState != nil && chk.ProcessState.ExitCode() == 1
			for _, line := range strings.Split(string(out), "\n") {
				if mm := vioRe.FindStringSubmatch(line); mm != nil && len(r.Reports) < 4 {
					r.Reports = append(r.Reports, fmt.Sprintf("%s %s %s", mm[1], mm[2], mm[3]))
				}
			}
		}(i, m)
	}
	wg.Wait()
	return res
}
