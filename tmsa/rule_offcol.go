package main

import (
	"fmt"
	"go/token"
	"go/types"

	"golang.org/x/tools/go/ssa"
)

// LOCKSTEP(offset-column): a status.SourceRange names one position twice, as a byte offset and
// as line:column (what the command line prints). Code that narrows a range inside one line by
// advancing Offset must advance Column by the same amount, in the same block.
func ruleOFFCOL(c *Ctx, pkgs ...string) {
	const rule = "LOCKSTEP(offset-column)"
	n := 0
	for _, rel := range pkgs {
		for _, f := range c.SrcFuncs(rel) {
			ord := map[string]int{}
			for _, b := range f.Blocks {
				// stores X.Offset = X.Offset + d and X.Column = X.Column + d' in this block
				type adv struct {
					st *ssa.Store
					d  ssa.Value
				}
				offs := map[ssa.Value]adv{}
				cols := map[ssa.Value]adv{}
				for _, ins := range b.Instrs {
					st, ok := ins.(*ssa.Store)
					if !ok {
						continue
					}
					fa, ok := st.Addr.(*ssa.FieldAddr)
					if !ok || !isSourceRange(fa.X.Type()) {
						continue
					}
					bo, ok := st.Val.(*ssa.BinOp)
					if !ok || bo.Op != token.ADD {
						continue
					}
					ld, ok := bo.X.(*ssa.UnOp)
					if !ok || ld.Op != token.MUL {
						continue
					}
					la, ok := ld.X.(*ssa.FieldAddr)
					if !ok || la.X != fa.X || la.Field != fa.Field {
						continue
					}
					switch fieldName(fa.X.Type(), fa.Field) {
					case "Offset":
						offs[fa.X] = adv{st, bo.Y}
					case "Column":
						cols[fa.X] = adv{st, bo.Y}
					}
				}
				for x, o := range offs {
					n++
					key := ordKey(ord, fmt.Sprintf("%s:%s", ssaFuncKey(f), vpath(x)))
					cl, ok := cols[x]
					switch {
					case !ok:
						c.Bad(rule, key, o.st.Pos(), "%s.Offset is advanced by %s but Column is not advanced in the same block: the printed line:column no longer names the byte at Offset", vpath(x), vpath(o.d))
					case vpath(cl.d) != vpath(o.d):
						c.Bad(rule, key, cl.st.Pos(), "%s.Offset is advanced by %s but Column by %s: the printed line:column no longer names the byte at Offset", vpath(x), vpath(o.d), vpath(cl.d))
					default:
						c.Ok(rule, key, o.st.Pos(), "Offset and Column of %s advance by the same amount %s", vpath(x), vpath(o.d))
					}
				}
				for x, cl := range cols {
					if _, ok := offs[x]; !ok {
						n++
						key := ordKey(ord, fmt.Sprintf("%s:%s", ssaFuncKey(f), vpath(x)))
						c.Bad(rule, key, cl.st.Pos(), "%s.Column is advanced by %s but Offset is not advanced in the same block", vpath(x), vpath(cl.d))
					}
				}
			}
		}
	}
	if n < 1 {
		c.add(rule, "count:", token.NoPos, CountDropped, true, "no in-line narrowing of a SourceRange found (compiler.parsePattern confirmed by hand)")
	}
}

func isSourceRange(t types.Type) bool {
	if p, ok := t.Underlying().(*types.Pointer); ok {
		t = p.Elem()
	}
	n, ok := t.(*types.Named)
	return ok && n.Obj().Name() == "SourceRange"
}
