package main

import (
	"fmt"
	"go/token"
	"sort"
	"strings"

	"golang.org/x/tools/go/ssa"
)

// AGREE(rule-value-kind): the Bison export prints every production through
// grammar.(*Grammar).ExprString(rule.Value), a switch over the expression kind whose default
// branch is log.Fatalf (process exit). The compiler builds Rule.Value in two places: from the
// expanded alternatives (kinds ExprString handles) and, for nonterminals extracted from mid-rule
// actions, from the Value of a syntax.Nonterm literal created in (*commandExtractor).extract.
// The kind of that literal must be one ExprString has a case for.
func ruleVALUEKIND(c *Ctx) {
	const rule = "AGREE(rule-value-kind)"
	es := c.SSAFunc("grammar", "(*Grammar).ExprString")
	ex := c.SSAFunc("compiler", "(*commandExtractor).extract")
	fin := c.SSAFunc("compiler", "(*commandExtractor).finalize")
	if es == nil || ex == nil || fin == nil {
		c.Lost(rule, "grammar.Grammar.ExprString", "ExprString / commandExtractor.extract / finalize not found")
		return
	}
	handled := map[int64]bool{}
	for _, b := range es.Blocks {
		for _, ins := range b.Instrs {
			bo, ok := ins.(*ssa.BinOp)
			if !ok || bo.Op != token.EQL || !strings.HasSuffix(vpath(bo.X), ".Kind") {
				continue
			}
			if k, ok := bo.Y.(*ssa.Const); ok && k.Value != nil {
				handled[k.Int64()] = true
			}
		}
	}
	if len(handled) < 5 {
		c.Lost(rule, "grammar.Grammar.ExprString:cases", "only %d kind cases found in ExprString", len(handled))
		return
	}
	// finalize: does Rule.Value take the nonterminal's Value as is?
	direct := false
	for _, b := range fin.Blocks {
		for _, ins := range b.Instrs {
			st, ok := ins.(*ssa.Store)
			if !ok {
				continue
			}
			fa, ok := st.Addr.(*ssa.FieldAddr)
			if !ok || fieldName(fa.X.Type(), fa.Field) != "Value" || !isNamedType(fa.X.Type(), "grammar", "Rule") {
				continue
			}
			if strings.HasSuffix(vpath(st.Val), ".Value") {
				direct = true
			}
		}
	}
	// extract: kind of the Expr literal stored into Nonterm.Value
	var kinds []int64
	var pos token.Pos
	for _, b := range ex.Blocks {
		for _, ins := range b.Instrs {
			st, ok := ins.(*ssa.Store)
			if !ok {
				continue
			}
			fa, ok := st.Addr.(*ssa.FieldAddr)
			if !ok || fieldName(fa.X.Type(), fa.Field) != "Value" || !isNamedType(fa.X.Type(), "syntax", "Nonterm") {
				continue
			}
			al, ok := st.Val.(*ssa.Alloc)
			if !ok {
				continue
			}
			for _, ref := range *al.Referrers() {
				if f2, ok := ref.(*ssa.FieldAddr); ok && fieldName(f2.X.Type(), f2.Field) == "Kind" {
					for _, r2 := range *f2.Referrers() {
						if s2, ok := r2.(*ssa.Store); ok {
							if k, ok := s2.Val.(*ssa.Const); ok && k.Value != nil {
								kinds = append(kinds, k.Int64())
								pos = st.Pos()
							}
						}
					}
				}
			}
		}
	}
	key := "compiler.commandExtractor.finalize:midrule-value"
	if len(kinds) == 0 {
		c.Lost(rule, key, "the expression literal of an extracted mid-rule nonterminal was not found")
		return
	}
	var hs []string
	for k := range handled {
		hs = append(hs, fmt.Sprint(k))
	}
	sort.Strings(hs)
	for _, k := range kinds {
		switch {
		case !direct:
			c.Ok(rule, key, pos, "Rule.Value of a mid-rule nonterminal is derived from (not equal to) the nonterminal's Value")
		case handled[k]:
			c.Ok(rule, key, pos, "Rule.Value of a mid-rule nonterminal has kind %d, which ExprString handles", k)
		default:
			c.Bad(rule, key, pos, "Rule.Value of a nonterminal extracted from a mid-rule action is the nonterminal's whole Value, an expression of kind %d (Choice); ExprString has cases for kinds {%s} only and ends in log.Fatalf(\"cannot stringify kind\"): writeBison = true on a grammar with a mid-rule action terminates the process instead of writing the export", k, strings.Join(hs, ","))
		}
	}
}
