package main

import (
	"fmt"
	"go/token"

	"golang.org/x/tools/go/ssa"
)

// LOSTWRITE(range-copy): `for _, e := range s` over a slice of structs copies the element into
// a per-iteration local. A store into a field of that copy changes the element only if it is
// written back; if nothing reads the copy after the store (no load of the local or of one of its
// fields is reachable before the next iteration overwrites it, and its address is not passed
// on), the assignment has no effect and the update the code meant to make is lost (C07: the
// de-duplicated child of a lookahead-trie node; C09: the token id of a backtracking checkpoint).
func ruleLOSTWRITE(c *Ctx, pkgs ...string) {
	const rule = "LOSTWRITE(range-copy)"
	n := 0
	for _, rel := range pkgs {
		for _, f := range c.SrcFuncs(rel) {
			ord := map[string]int{}
			for _, b := range f.Blocks {
				for _, ins := range b.Instrs {
					al, ok := ins.(*ssa.Alloc)
					if !ok || al.Heap || al.Referrers() == nil {
						continue
					}
					// the copy: its only whole-value store takes an element of a slice/array
					var init *ssa.Store
					whole := 0
					escapes := false
					var fieldStores []*ssa.Store
					for _, r := range *al.Referrers() {
						switch x := r.(type) {
						case *ssa.Store:
							if x.Addr == ssa.Value(al) {
								whole++
								init = x
							} else {
								escapes = true // the address itself is stored somewhere
							}
						case *ssa.FieldAddr:
							if x.Referrers() == nil {
								continue
							}
							for _, r2 := range *x.Referrers() {
								switch y := r2.(type) {
								case *ssa.Store:
									if y.Addr == ssa.Value(x) {
										fieldStores = append(fieldStores, y)
									} else {
										escapes = true
									}
								case *ssa.UnOp, *ssa.FieldAddr, *ssa.IndexAddr:
								default:
									escapes = true // address of a field passed on
								}
							}
						case *ssa.UnOp:
						case *ssa.DebugRef:
						default:
							escapes = true
						}
					}
					if whole != 1 || init == nil {
						continue
					}
					u, ok := init.Val.(*ssa.UnOp)
					if !ok || u.Op != token.MUL {
						continue
					}
					if _, ok := u.X.(*ssa.IndexAddr); !ok {
						continue
					}
					if len(fieldStores) == 0 {
						n++
						c.Trivial(rule, ordKey(ord, fmt.Sprintf("%s:%s", ssaFuncKey(f), al.Comment)), al.Pos(), "range copy %s is only read", al.Comment)
						continue
					}
					for _, st := range fieldStores {
						n++
						key := ordKey(ord, fmt.Sprintf("%s:%s", ssaFuncKey(f), al.Comment))
						if escapes {
							c.Ok(rule, key, st.Pos(), "the copy's address is passed on; the write is observable through it")
							continue
						}
						if readAfter(al, st, init) {
							c.Ok(rule, key, st.Pos(), "the field written in the range copy %s is read later in the iteration", al.Comment)
						} else {
							c.Bad(rule, key, st.Pos(), "the store into a field of the range copy %s is never read: the element of the slice keeps its old value and the update is lost", al.Comment)
						}
					}
				}
			}
		}
	}
	if n < 5 {
		c.add(rule, "count:", token.NoPos, CountDropped, true, "only %d range copies of struct elements found in %v", n, pkgs)
	}
}

// readAfter: is a load of al (or of a field/element inside it) reachable after st without
// passing the re-initialisation of the copy?
func readAfter(al *ssa.Alloc, st, init *ssa.Store) bool {
	isRead := func(ins ssa.Instruction) bool {
		u, ok := ins.(*ssa.UnOp)
		if !ok || u.Op != token.MUL {
			return false
		}
		v := u.X
		for {
			switch x := v.(type) {
			case *ssa.FieldAddr:
				v = x.X
				continue
			case *ssa.IndexAddr:
				v = x.X
				continue
			}
			break
		}
		return v == ssa.Value(al)
	}
	type pos struct {
		b *ssa.BasicBlock
		i int
	}
	seen := map[*ssa.BasicBlock]bool{}
	var walk func(b *ssa.BasicBlock, from int) bool
	walk = func(b *ssa.BasicBlock, from int) bool {
		for i := from; i < len(b.Instrs); i++ {
			if b.Instrs[i] == ssa.Instruction(init) {
				return false
			}
			if isRead(b.Instrs[i]) {
				return true
			}
		}
		for _, s := range b.Succs {
			if seen[s] {
				continue
			}
			seen[s] = true
			if walk(s, 0) {
				return true
			}
		}
		return false
	}
	for i, ins := range st.Block().Instrs {
		if ins == ssa.Instruction(st) {
			return walk(st.Block(), i+1)
		}
	}
	return false
}
