package main

import (
	"fmt"
	"go/token"
	"strings"

	"golang.org/x/tools/go/ssa"
)

// TYPESTATE(ch-tested): l.ch is the character under the cursor that has not been accounted for
// yet. The inlined "scan the next character" code overwrites it; on every path to such an
// overwrite the current value must have been compared (the newline test that keeps l.line in
// step, or the switch over l.ch) since it was last written — by a store or by a call of rewind,
// which positions the cursor *on* a character and counts lines only up to it. A rewind onto the
// final '\n' of a comment followed directly by the advance skips that newline uncounted.
func ruleCHTESTED(c *Ctx) {
	const rule = "TYPESTATE(ch-tested)"
	n := 0
	for _, rel := range lexerPkgs {
		// only lexers that track lines
		if c.SSAFunc(rel, "(*Lexer).Line") == nil {
			continue
		}
		for _, f := range c.SrcFuncs(rel) {
			if f.Signature.Recv() == nil || !strings.HasSuffix(f.Signature.Recv().Type().String(), ".Lexer") || len(f.Params) == 0 {
				continue
			}
			if f.Name() == "rewind" || f.Name() == "Init" || f.Name() == "Copy" {
				continue
			}
			recv := f.Params[0]
			isCh := func(addr ssa.Value) bool {
				fa, ok := addr.(*ssa.FieldAddr)
				return ok && fa.X == ssa.Value(recv) && fieldName(fa.X.Type(), fa.Field) == "ch"
			}
			hasStore := false
			for _, b := range f.Blocks {
				for _, ins := range b.Instrs {
					if st, ok := ins.(*ssa.Store); ok && isCh(st.Addr) {
						hasStore = true
					}
				}
			}
			if !hasStore {
				continue
			}
			const (
				fresh = 1
				clean = 2
			)
			// forward may-analysis: can a store to l.ch be reached in state "fresh"?
			transfer := func(b *ssa.BasicBlock, st int, report func(pos token.Pos)) int {
				for _, ins := range b.Instrs {
					switch y := ins.(type) {
					case *ssa.BinOp:
						// a comparison of a load of l.ch
						if y.Op == token.EQL || y.Op == token.NEQ || y.Op == token.LSS || y.Op == token.GTR || y.Op == token.LEQ || y.Op == token.GEQ {
							for _, op := range []ssa.Value{y.X, y.Y} {
								if ld, ok := stripConv(op).(*ssa.UnOp); ok && ld.Op == token.MUL && isCh(ld.X) {
									st = clean
								}
							}
						}
					case *ssa.Store:
						if isCh(y.Addr) {
							if k, isK := y.Val.(*ssa.Const); isK && k.Value != nil && k.Int64() == -1 {
								// end of input marker: nothing is skipped
								st = fresh
								continue
							}
							if st == fresh && report != nil {
								report(y.Pos())
							}
							st = fresh
						}
					case *ssa.Call:
						if g := y.Call.StaticCallee(); g != nil && g.Name() == "rewind" && len(y.Call.Args) > 0 && y.Call.Args[0] == ssa.Value(recv) {
							st = fresh
						}
					}
				}
				return st
			}
			in := map[*ssa.BasicBlock]map[int]bool{f.Blocks[0]: {fresh: true}}
			for changed := true; changed; {
				changed = false
				for _, b := range f.Blocks {
					for st := range in[b] {
						out := transfer(b, st, nil)
						for _, s := range b.Succs {
							if in[s] == nil {
								in[s] = map[int]bool{}
							}
							if !in[s][out] {
								in[s][out] = true
								changed = true
							}
						}
					}
				}
			}
			var bad []token.Pos
			for _, b := range f.Blocks {
				if in[b][fresh] {
					transfer(b, fresh, func(p token.Pos) { bad = append(bad, p) })
				}
			}
			n++
			key := ssaFuncKey(f) + ":advance"
			if len(bad) > 0 {
				c.Bad(rule, key, bad[0], "l.ch can be overwritten by the next character at %s on a path where the current character was never compared since it was set (by a store or by rewind): a newline under the cursor is skipped without l.line being updated", c.Fset.Position(bad[0]))
			} else {
				c.Ok(rule, key, f.Pos(), "every overwrite of l.ch is preceded by a comparison of the current character on all paths")
			}
		}
	}
	if n < 3 {
		c.add(rule, "count:", token.NoPos, CountDropped, true, "only %d lexer methods with an inlined character advance found", n)
	}
	_ = fmt.Sprint
}
