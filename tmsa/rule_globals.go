package main

import (
	"fmt"
	"go/token"
	"go/types"
	"sort"
	"strings"

	"golang.org/x/tools/go/ssa"
)

// scopeFuncs returns all source-level SSA functions of the generation scope packages.
func (c *Ctx) scopeFuncs() []*ssa.Function {
	var out []*ssa.Function
	for _, p := range c.genScope() {
		rel, _ := relPkg(p.Types)
		out = append(out, c.SrcFuncs(rel)...)
	}
	return out
}

// globalRoot follows an address back to a package-level variable, through field/index
// addressing and pointer loads.
func globalRoot(v ssa.Value, depth int) *ssa.Global {
	if depth > 12 {
		return nil
	}
	switch x := v.(type) {
	case *ssa.Global:
		return x
	case *ssa.FieldAddr:
		return globalRoot(x.X, depth+1)
	case *ssa.IndexAddr:
		return globalRoot(x.X, depth+1)
	case *ssa.Field:
		return globalRoot(x.X, depth+1)
	case *ssa.Index:
		return globalRoot(x.X, depth+1)
	case *ssa.UnOp:
		if x.Op == token.MUL {
			return globalRoot(x.X, depth+1)
		}
	case *ssa.Slice:
		return globalRoot(x.X, depth+1)
	case *ssa.ChangeType:
		return globalRoot(x.X, depth+1)
	case *ssa.Convert:
		return globalRoot(x.X, depth+1)
	case *ssa.Lookup:
		return globalRoot(x.X, depth+1)
	}
	return nil
}

// globalsAudited: package-level state that is written outside init, with the reason why it
// cannot carry information from one generation to the next.
var globalsAudited = map[string]string{}

// GLOBALS: no function on the generation path writes package-level state (an earlier
// generation in the same process cannot influence a later one).
// globalMapFields: struct fields that may hold a package-level map (field-based, flow-insensitive):
// a map loaded from a module global and stored into a field makes every update through that
// field an update of the package-level map.
func globalMapFields(funcs []*ssa.Function) map[*types.Var]*ssa.Global {
	held := map[*types.Var]*ssa.Global{}
	var src func(v ssa.Value, d int) *ssa.Global
	src = func(v ssa.Value, d int) *ssa.Global {
		if d > 6 {
			return nil
		}
		if _, ok := v.Type().Underlying().(*types.Map); !ok {
			return nil
		}
		switch y := v.(type) {
		case *ssa.UnOp:
			if y.Op != token.MUL {
				return nil
			}
			switch a := y.X.(type) {
			case *ssa.Global:
				if a.Pkg != nil {
					if _, in := relPkg(a.Pkg.Pkg); in {
						return a
					}
				}
			case *ssa.FieldAddr:
				if fld := fieldOf(a); fld != nil {
					return held[fld]
				}
			}
		case *ssa.Phi:
			for _, e := range y.Edges {
				if g := src(e, d+1); g != nil {
					return g
				}
			}
		case *ssa.ChangeType:
			return src(y.X, d+1)
		}
		return nil
	}
	for changed := true; changed; {
		changed = false
		for _, f := range funcs {
			for _, b := range f.Blocks {
				for _, ins := range b.Instrs {
					st, ok := ins.(*ssa.Store)
					if !ok {
						continue
					}
					fa, ok := st.Addr.(*ssa.FieldAddr)
					if !ok {
						continue
					}
					fld := fieldOf(fa)
					if fld == nil || held[fld] != nil {
						continue
					}
					if g := src(st.Val, 0); g != nil {
						held[fld] = g
						changed = true
					}
				}
			}
		}
	}
	return held
}

func ruleGLOBALS(c *Ctx) {
	const rule = "GLOBALS"
	funcs := c.scopeFuncs()
	n := 0
	held := globalMapFields(funcs)
	viaField := func(m ssa.Value) (*ssa.Global, *types.Var) {
		if ld, ok := m.(*ssa.UnOp); ok && ld.Op == token.MUL {
			if fa, ok := ld.X.(*ssa.FieldAddr); ok {
				if fld := fieldOf(fa); fld != nil && held[fld] != nil {
					return held[fld], fld
				}
			}
		}
		return nil, nil
	}
	for _, f := range funcs {
		if f.Name() == "init" || strings.HasPrefix(f.Name(), "init#") || (f.Parent() != nil && strings.HasPrefix(f.Parent().Name(), "init")) {
			continue
		}
		n++
		ord := map[string]int{}
		for _, b := range f.Blocks {
			for _, ins := range b.Instrs {
				var g *ssa.Global
				var what string
				switch x := ins.(type) {
				case *ssa.Store:
					g = globalRoot(x.Addr, 0)
					what = "store"
				case *ssa.MapUpdate:
					g = globalRoot(x.Map, 0)
					what = "map update"
					if g == nil {
						if gg, fld := viaField(x.Map); gg != nil {
							g = gg
							what = "map update through field " + fld.Name() + " (which is assigned the package-level map)"
						}
					}
				case *ssa.Call:
					// append/copy/delete/clear on global-rooted containers
					if bi, ok := x.Call.Value.(*ssa.Builtin); ok && len(x.Call.Args) > 0 {
						switch bi.Name() {
						case "delete", "clear", "copy":
							g = globalRoot(x.Call.Args[0], 0)
							what = bi.Name()
						}
					}
					// mutating methods of container types from package sync (and friends) whose
					// receiver is (inside) a package-level variable: a process-wide cache
					if cal := x.Call.StaticCallee(); cal != nil && cal.Pkg != nil && cal.Signature.Recv() != nil && len(x.Call.Args) > 0 {
						if pp := cal.Pkg.Pkg.Path(); pp == "sync" || pp == "sync/atomic" || pp == "container/list" {
							switch cal.Name() {
							case "Store", "LoadOrStore", "LoadAndDelete", "Delete", "Swap", "CompareAndSwap", "CompareAndDelete", "Range", "Add", "Put", "PushBack", "PushFront", "Clear":
								if cal.Name() != "Range" {
									g = globalRoot(x.Call.Args[0], 0)
									what = "(" + pp + ")." + cal.Name()
								}
							}
						}
					}
				}
				if g == nil || g.Pkg == nil {
					continue
				}
				if _, in := relPkg(g.Pkg.Pkg); !in {
					continue
				}
				ord[g.Name()]++
				key := fmt.Sprintf("%s:%s", ssaFuncKey(f), g.Name())
				if why, ok := globalsAudited[key]; ok {
					c.Ok(rule, key, ins.Pos(), "audited: %s", why)
					continue
				}
				c.Bad(rule, key, ins.Pos(), "%s to package-level variable %s.%s outside init: state survives into the next generation in the same process", what, g.Pkg.Pkg.Name(), g.Name())
			}
		}
	}
	c.Ok(rule, "scan", token.NoPos, "scanned %d functions of %d generation-scope packages for stores, map updates, delete/clear/copy rooted in a package-level variable", n, len(c.genScope()))
	if n < 800 {
		c.add(rule, "count:funcs", token.NoPos, CountDropped, true, "only %d functions in scope (expected >= 800)", n)
	}
}

// nondetAudited: sources of run-to-run variation on the generation path and where the value goes.
var nondetAudited = map[string]string{
	"gen.GenerateFile:time.Now":        "timing goes to gen.Stats (printed by the CLI), never to a Writer",
	"gen.GenerateFile:time.Since":      "timing goes to gen.Stats (printed by the CLI), never to a Writer",
	"parsers/tm.Parser.parse:select":   "non-blocking cancellation poll of the grammar parser: its only effect is returning ctx.Err() instead of a result",
	"lalr.compiler.buildLA:time.Now":   "timing goes to DebugInfo only under CollectStats, which GenerateFile never sets",
	"lalr.compiler.buildLA:time.Since": "timing goes to DebugInfo only under CollectStats, which GenerateFile never sets",
}

// NONDET: clock, randomness, environment, goroutines and select are enumerated and audited.
func ruleNONDET(c *Ctx) {
	const rule = "NONDET"
	funcs := c.scopeFuncs()
	bad := func(fn *types.Func) string {
		if fn == nil || fn.Pkg() == nil {
			return ""
		}
		p, n := fn.Pkg().Path(), fn.Name()
		switch p {
		case "time":
			switch n {
			case "Now", "Since", "Until", "After", "Tick", "NewTimer", "NewTicker", "Sleep", "AfterFunc":
				return "time." + n
			}
		case "math/rand", "math/rand/v2", "crypto/rand":
			return p + "." + n
		case "os":
			switch n {
			case "Getenv", "Environ", "LookupEnv", "Getpid", "Getppid", "Hostname", "Getwd", "Getuid", "TempDir", "MkdirTemp", "CreateTemp", "UserHomeDir":
				return "os." + n
			}
		case "runtime":
			switch n {
			case "NumGoroutine", "GOMAXPROCS", "NumCPU", "Stack", "Caller", "Callers", "ReadMemStats":
				return "runtime." + n
			}
		case "maphash", "hash/maphash":
			return p + "." + n
		}
		return ""
	}
	n := 0
	for _, f := range funcs {
		n++
		for _, b := range f.Blocks {
			for _, ins := range b.Instrs {
				var what string
				switch x := ins.(type) {
				case *ssa.Go:
					what = "go statement"
				case *ssa.Select:
					if !x.Blocking || len(x.States) > 1 {
						what = "select"
					} else {
						what = "select"
					}
				case ssa.CallInstruction:
					if callee := x.Common().StaticCallee(); callee != nil {
						if fn, ok := callee.Object().(*types.Func); ok {
							what = bad(fn)
						}
					}
				}
				if what == "" {
					continue
				}
				key := fmt.Sprintf("%s:%s", ssaFuncKey(f), what)
				if why, ok := nondetAudited[key]; ok {
					c.Ok(rule, key, ins.Pos(), "audited source of variation: %s", why)
					continue
				}
				c.Unaud(rule, key, ins.Pos(), "%s on the generation path is a source of run-to-run variation that is not in the audited table", what)
			}
		}
	}
	c.Ok(rule, "scan", token.NoPos, "scanned %d functions for clock/random/environment/runtime calls, go statements and select", n)
	c.MinCount(rule, "", 3)
}

// initFields returns the struct fields that receive slice values while package-level variables
// are initialised (init functions of the scope packages): storage reachable from them is
// package-level data.
func (c *Ctx) initFields() map[*types.Var]bool {
	out := map[*types.Var]bool{}
	for _, p := range c.genScope() {
		rel, _ := relPkg(p.Types)
		sp := c.SSAPkg(rel)
		if sp == nil {
			continue
		}
		var inits []*ssa.Function
		if f := sp.Func("init"); f != nil {
			inits = append(inits, f)
			inits = append(inits, f.AnonFuncs...)
		}
		for _, f := range inits {
			for _, b := range f.Blocks {
				for _, ins := range b.Instrs {
					if st, ok := ins.(*ssa.Store); ok {
						if fa, ok := st.Addr.(*ssa.FieldAddr); ok && hasSliceStorage(st.Val.Type(), 0) {
							if fld := fieldOf(fa); fld != nil {
								out[fld] = true
							}
						}
					}
				}
			}
		}
	}
	return out
}

// GLOBALS(append): appending to a slice that shares its backing array with package-level data
// (a sub-slice of a table built at init time) overwrites that data for the rest of the process.
func ruleGLOBALAPPEND(c *Ctx) {
	const rule = "GLOBALS(append)"
	a := c.aliasAnalysis()
	G := c.initFields()
	n := 0
	for _, f := range c.scopeFuncs() {
		if f.Name() == "init" || (f.Parent() != nil && f.Parent().Name() == "init") {
			continue
		}
		ord := map[string]int{}
		for _, b := range f.Blocks {
			for _, ins := range b.Instrs {
				call, ok := ins.(*ssa.Call)
				if !ok {
					continue
				}
				bi, ok := call.Common().Value.(*ssa.Builtin)
				if !ok || bi.Name() != "append" || len(call.Common().Args) == 0 {
					continue
				}
				n++
				var hit []string
				for rt := range a.roots(call.Common().Args[0]) {
					switch rt.kind {
					case rGlobal:
						hit = append(hit, rt.String())
					case rField:
						if G[rt.obj.(*types.Var)] {
							hit = append(hit, rt.String()+" (initialised at package init)")
						}
					}
				}
				if len(hit) == 0 {
					continue
				}
				sort.Strings(hit)
				key := ordKey(ord, ssaFuncKey(f)+":append("+normalizePhi(vpath(call.Common().Args[0]))+")")
				c.Bad(rule, key, call.Pos(), "append to a slice that may share its backing array with package-level data {%s}: spare capacity of the shared array is overwritten and a later generation in the same process sees the modified table", strings.Join(hit, ", "))
			}
		}
	}
	c.Ok(rule, "scan", token.NoPos, "%d append calls on the generation path checked against %d init-time slice fields and all package-level variables", n, len(G))
}
