package main

import (
	"fmt"
	"go/token"
	"strings"

	"golang.org/x/tools/go/ssa"
)

// utf16Converters: functions of package ls whose result is a number of UTF-16 code units.
var utf16Converters = map[string]string{
	"ls.utf16Len": "counts one unit per rune and two for runes above 0xffff",
}

// Rules over ls/server.go and cmd/textmapper/ls.go (C23).
func ruleLS(c *Ctx) {
	funcs := c.SrcFuncs("ls")
	if len(funcs) < 10 {
		c.Lost("UNITS(utf16)", "ls", "package ls not loaded")
		return
	}
	// --- UNITS(utf16): every Position.Character sent to the client is built from UTF-16 converters
	{
		const rule = "UNITS(utf16)"
		n := 0
		for _, f := range funcs {
			ord := map[string]int{}
			for _, b := range f.Blocks {
				for _, ins := range b.Instrs {
					st, ok := ins.(*ssa.Store)
					if !ok {
						continue
					}
					fa, ok := st.Addr.(*ssa.FieldAddr)
					if !ok || !strings.HasSuffix(strings.TrimPrefix(fa.X.Type().String(), "*"), "protocol.Position") {
						continue
					}
					fld := fieldName(fa.X.Type(), fa.Field)
					if fld != "Character" {
						continue
					}
					n++
					key := ordKey(ord, ssaFuncKey(f)+":Position.Character")
					var bad []string
					var walk func(v ssa.Value, d int)
					walk = func(v ssa.Value, d int) {
						if d > 8 {
							bad = append(bad, "…")
							return
						}
						switch x := stripConv(v).(type) {
						case *ssa.Const:
						case *ssa.BinOp:
							if x.Op == token.ADD || x.Op == token.SUB {
								walk(x.X, d+1)
								walk(x.Y, d+1)
							} else {
								bad = append(bad, vpath(x))
							}
						case *ssa.Call:
							if g := x.Common().StaticCallee(); g != nil {
								if _, ok := utf16Converters[calleeName(g)]; ok {
									return
								}
							}
							bad = append(bad, vpath(x))
						case *ssa.Phi:
							for _, e := range x.Edges {
								walk(e, d+1)
							}
						default:
							bad = append(bad, vpath(v))
						}
					}
					walk(st.Val, 0)
					if len(bad) == 0 {
						c.Ok(rule, key, st.Pos(), "Character is a sum of constants and UTF-16 unit counts (%s)", normalizePhi(vpath(st.Val)))
					} else {
						c.Bad(rule, key, st.Pos(), "Position.Character receives %s, which is not a count of UTF-16 code units (byte columns, byte lengths and raw offset differences differ from it as soon as the line holds non-ASCII text)", strings.Join(bad, ", "))
					}
				}
			}
		}
		if n < 1 {
			c.add(rule, "count:", token.NoPos, CountDropped, true, "no outbound lsp.Position construction found in package ls")
		}
		// the converter itself: two units for runes above 0xffff
		if f := c.SSAFunc("ls", "utf16Len"); f != nil {
			okSur := false
			for _, b := range f.Blocks {
				if len(b.Instrs) == 0 {
					continue
				}
				if ifi, ok := b.Instrs[len(b.Instrs)-1].(*ssa.If); ok {
					if l, op, _, ok := cmpNorm(ifi.Cond, true); ok && op == "<" && l == "65535" {
						okSur = true
					}
				}
			}
			if okSur {
				c.Ok(rule, "ls.utf16Len:surrogates", f.Pos(), "runes above 0xffff count as two units")
			} else {
				c.Bad(rule, "ls.utf16Len:surrogates", f.Pos(), "utf16Len must count two units for runes above 0xffff")
			}
		} else {
			c.Lost(rule, "ls.utf16Len", "audited converter ls.utf16Len not found")
		}
		// inbound: resolvePosition consumes two units for runes above 0xffff and rejects a position between them
		if f := c.SSAFunc("ls", "resolvePosition"); f != nil {
			sur, between := false, false
			for _, b := range f.Blocks {
				if len(b.Instrs) == 0 {
					continue
				}
				if ifi, ok := b.Instrs[len(b.Instrs)-1].(*ssa.If); ok {
					l, op, r, ok := cmpNorm(ifi.Cond, true)
					if ok && op == "<" && l == "65535" {
						sur = true
						// inside: col == 0 -> error
						for _, ins := range b.Succs[0].Instrs {
							if i2, ok := ins.(*ssa.If); ok {
								if _, op2, r2, ok := cmpNorm(i2.Cond, true); ok && op2 == "==" && r2 == "0" {
									between = true
								}
							}
						}
					}
					_ = r
				}
			}
			if sur && between {
				c.Ok(rule, "ls.resolvePosition:surrogates", f.Pos(), "inbound columns consume two units for runes above 0xffff and reject a position between the two units")
			} else {
				c.Bad(rule, "ls.resolvePosition:surrogates", f.Pos(), "resolvePosition must treat runes above 0xffff as two UTF-16 units (found=%v) and reject positions between them (found=%v)", sur, between)
			}
		} else {
			c.Lost(rule, "ls.resolvePosition", "function not found")
		}
	}
	// --- IDXGUARD: constant-index reads of client-supplied slices are dominated by a length test
	{
		const rule = "IDXGUARD"
		n := 0
		for _, f := range funcs {
			ord := map[string]int{}
			for _, b := range f.Blocks {
				for _, ins := range b.Instrs {
					ia, ok := ins.(*ssa.IndexAddr)
					if !ok {
						continue
					}
					p := vpath(ia.X)
					if !strings.HasPrefix(p, "params.") {
						continue
					}
					n++
					key := ordKey(ord, ssaFuncKey(f)+":"+p+"["+vpath(ia.Index)+"]")
					ok2 := false
					// a dominating comparison on len(<same slice>) that excludes the empty case
					for _, g := range flattenConds(governing(b)) {
						l, op, r, isC := cmpNorm(g.V, g.Pol)
						if !isC {
							continue
						}
						lenExpr := "len(" + p + ")"
						switch {
						case l == lenExpr && op == "==" && r != "0":
							ok2 = true
						case r == lenExpr && op == "==" && l != "0":
							ok2 = true
						case l == lenExpr && op == "!=" && r == "0":
							ok2 = true
						case r == lenExpr && op == "<" && l != "" && !strings.HasPrefix(l, "-"):
							ok2 = true // K < len, K >= 0
						case r == lenExpr && op == "<=" && l != "0" && !strings.HasPrefix(l, "-"):
							ok2 = true
						}
					}
					if ok2 {
						c.Ok(rule, key, ia.Pos(), "%s is indexed only after its length was checked", p)
					} else {
						c.Bad(rule, key, ia.Pos(), "%s[%s] is read from a client message without a dominating length check: an empty array panics the server", p, vpath(ia.Index))
					}
				}
			}
		}
		if n < 2 {
			c.add(rule, "count:", token.NoPos, CountDropped, true, "only %d indexed reads of client-supplied slices found (2 confirmed by hand)", n)
		}
	}
	// --- SEQ: no concurrency in the server; each change stores the document, type-checks it and publishes its own version
	{
		const rule = "SEQ"
		for _, f := range funcs {
			for _, b := range f.Blocks {
				for _, ins := range b.Instrs {
					if g, ok := ins.(*ssa.Go); ok {
						c.Bad(rule, ssaFuncKey(f)+":go", g.Pos(), "package ls starts a goroutine: handlers are serialised only until they reply, so diagnostics can be published out of request order and Server.docs is accessed concurrently")
					}
				}
			}
		}
		c.Ok(rule, "ls:no-goroutines", token.NoPos, "scanned %d functions of package ls for go statements", len(funcs))
		for _, name := range []string{"DidOpen", "DidChange"} {
			f := c.SSAFunc("ls", "(*Server)."+name)
			if f == nil {
				c.Lost(rule, "ls.Server."+name, "handler not found")
				continue
			}
			var tc *ssa.Call
			var store *ssa.MapUpdate
			for _, b := range f.Blocks {
				for _, ins := range b.Instrs {
					switch x := ins.(type) {
					case *ssa.Call:
						if g := x.Common().StaticCallee(); g != nil && g.Name() == "typecheck" {
							tc = x
						}
					case *ssa.MapUpdate:
						if strings.HasSuffix(vpath(x.Map), "s.docs") {
							store = x
						}
					}
				}
			}
			key := "ls.Server." + name
			switch {
			case tc == nil:
				c.Bad(rule, key, f.Pos(), "%s does not type-check the new content: no diagnostics are published for this version", name)
			case store == nil || !instrDominates(store, tc):
				c.Bad(rule, key, tc.Pos(), "%s must store the document before type-checking it (definition requests read Server.docs)", name)
			default:
				args := tc.Common().Args
				ver := ""
				if len(args) >= 4 {
					ver = vpath(args[3])
				}
				// every return that is not an error return is the result of typecheck: a silent
				// `return nil` publishes nothing for this version
				silent := token.NoPos
				for _, b := range f.Blocks {
					if ret, ok := b.Instrs[len(b.Instrs)-1].(*ssa.Return); ok && len(ret.Results) == 1 {
						v := ret.Results[0]
						if k, isK := v.(*ssa.Const); isK && k.Value == nil {
							silent = ret.Pos()
						}
						if ph, isPhi := v.(*ssa.Phi); isPhi {
							for _, e := range ph.Edges {
								if k, isK := e.(*ssa.Const); isK && k.Value == nil {
									silent = ret.Pos()
								}
							}
						}
					}
				}
				if silent != token.NoPos {
					c.Bad(rule, key, silent, "%s can return nil without calling typecheck: no diagnostics are published for that version of the document", name)
				} else if strings.Contains(ver, "params.TextDocument.Version") {
					c.Ok(rule, key, tc.Pos(), "stores the document, then publishes diagnostics for params.TextDocument.Version; no success return bypasses typecheck")
				} else {
					c.Bad(rule, key, tc.Pos(), "%s publishes diagnostics with version %q instead of the request's TextDocument.Version", name, ver)
				}
			}
		}
		// publish uses the version parameter
		if f := c.SSAFunc("ls", "(*Server).typecheck"); f != nil {
			ok := false
			for _, b := range f.Blocks {
				for _, ins := range b.Instrs {
					if st, ok2 := ins.(*ssa.Store); ok2 {
						if fa, ok3 := st.Addr.(*ssa.FieldAddr); ok3 && strings.HasSuffix(strings.TrimPrefix(fa.X.Type().String(), "*"), "PublishDiagnosticsParams") && fieldName(fa.X.Type(), fa.Field) == "Version" && vpath(st.Val) == "version" {
							ok = true
						}
					}
				}
			}
			if ok {
				c.Ok(rule, "ls.Server.typecheck:version", f.Pos(), "PublishDiagnosticsParams.Version is the version typecheck was called with")
			} else {
				c.Bad(rule, "ls.Server.typecheck:version", f.Pos(), "typecheck must publish the version it was called with")
			}
		}
		// the handler chain
		if f := c.SSAFunc("cmd/textmapper", "startLS"); f != nil {
			chain := false
			for _, b := range f.Blocks {
				for _, ins := range b.Instrs {
					if call, ok := ins.(*ssa.Call); ok {
						p := vpath(call)
						if strings.Contains(p, "Conn.Go(") || strings.HasSuffix(p, ".Go") || strings.Contains(p, ".Go(") {
							if strings.Contains(p, "protocol.Handlers(go.lsp.dev/protocol.ServerHandler(") {
								chain = true
							}
						}
					}
				}
			}
			if chain {
				c.Ok(rule, "cmd/textmapper.startLS:handler-chain", f.Pos(), "conn.Go receives protocol.Handlers(protocol.ServerHandler(server, …)): requests are handled one after another")
			} else {
				c.Bad(rule, "cmd/textmapper.startLS:handler-chain", f.Pos(), "the connection must be served by protocol.Handlers(protocol.ServerHandler(server, …)), the chain that serialises requests")
			}
		} else {
			c.Lost(rule, "cmd/textmapper.startLS", "function not found")
		}
	}
	// --- RANGE(single-line): the end of a diagnostic range is clamped to the first line of the error text
	{
		const rule = "RANGE(single-line)"
		f := c.SSAFunc("ls", "(*Server).typecheck")
		if f != nil {
			cut := false
			for _, b := range f.Blocks {
				for _, ins := range b.Instrs {
					if call, ok := ins.(*ssa.Call); ok {
						if g := call.Common().StaticCallee(); g != nil && calleeName(g) == "strings.Cut" && len(call.Common().Args) == 2 && vpath(call.Common().Args[1]) == `"\n"` {
							cut = true
						}
					}
				}
			}
			// the End position is computed from Offset + len(first line)
			endOK := false
			for _, b := range f.Blocks {
				for _, ins := range b.Instrs {
					if call, ok := ins.(*ssa.Call); ok {
						if g := call.Common().StaticCallee(); g != nil && g.Name() == "position" && len(call.Common().Args) == 2 {
							p := normalizePhi(vpath(call.Common().Args[1]))
							if strings.Contains(p, "+ len(strings.Cut(") && strings.Contains(p, "#0") {
								endOK = true
							}
						}
					}
				}
			}
			if cut && endOK {
				c.Ok(rule, "ls.Server.typecheck:end", f.Pos(), "the range ends at Offset + len(text up to the first newline): it stays on the start line and inside the document")
			} else {
				c.Bad(rule, "ls.Server.typecheck:end", f.Pos(), "the end of a diagnostic range must be derived from the error text cut at its first newline (strings.Cut(…, \"\\n\") found=%v, End = position(Offset+len(first line)) found=%v); multi-line origins otherwise yield an end column past the end of the line", cut, endOK)
			}
		}
	}
	_ = fmt.Sprint
}
