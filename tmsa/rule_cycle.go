package main

import (
	"fmt"
	"go/types"

	"golang.org/x/tools/go/ssa"
)

// CYCLE: values of syntax.TokenSet form pointer cycles by design (mutually recursive named
// sets share one node). Every function that recurses over a *TokenSet must therefore cut
// cycles with a set keyed by the node: a lookup m[param] that is branched on, and an insertion
// m[param] = … that dominates every recursive call. Unbounded recursion is a stack overflow,
// which is fatal (not recoverable) in Go.
func ruleCYCLE(c *Ctx) {
	const rule = "CYCLE"
	synt := c.Pkg("syntax")
	if synt == nil {
		c.Lost(rule, "syntax", "package syntax not loaded")
		return
	}
	tn, _ := synt.Types.Scope().Lookup("TokenSet").(*types.TypeName)
	if tn == nil {
		c.Lost(rule, "syntax.TokenSet", "type syntax.TokenSet not found")
		return
	}
	ptrT := types.NewPointer(tn.Type())
	isT := func(t types.Type) bool { return types.Identical(t, ptrT) }

	var funcs []*ssa.Function
	for _, p := range c.All {
		rel, _ := relPkg(p.Types)
		for _, f := range c.SrcFuncs(rel) {
			for _, prm := range f.Params {
				if isT(prm.Type()) {
					funcs = append(funcs, f)
					break
				}
			}
		}
	}
	if len(funcs) < 6 {
		c.Lost(rule, "funcs", "only %d functions take a *syntax.TokenSet (expected at least 6)", len(funcs))
	}
	inSet := map[*ssa.Function]bool{}
	for _, f := range funcs {
		inSet[f] = true
	}
	// resolve the callee of a call instruction, including closures calling themselves through
	// the captured variable they were assigned to
	resolve := func(f *ssa.Function, call ssa.CallInstruction) *ssa.Function {
		cc := call.Common()
		if g := cc.StaticCallee(); g != nil {
			return g
		}
		if cc.IsInvoke() {
			return nil
		}
		if ld, ok := cc.Value.(*ssa.UnOp); ok {
			if fv, ok := ld.X.(*ssa.FreeVar); ok && f.Parent() != nil {
				par := f.Parent()
				idx := -1
				for i, v := range f.FreeVars {
					if v == fv {
						idx = i
					}
				}
				for _, b := range par.Blocks {
					for _, ins := range b.Instrs {
						mc, ok := ins.(*ssa.MakeClosure)
						if !ok || idx < 0 || idx >= len(mc.Bindings) {
							continue
						}
						if mc.Fn != ssa.Value(f) {
							continue
						}
						cell := mc.Bindings[idx]
						// which closures are stored into that cell?
						for _, b2 := range par.Blocks {
							for _, ins2 := range b2.Instrs {
								if st, ok := ins2.(*ssa.Store); ok && st.Addr == cell {
									if mc2, ok := st.Val.(*ssa.MakeClosure); ok {
										if g, ok := mc2.Fn.(*ssa.Function); ok {
											return g
										}
									}
								}
							}
						}
					}
				}
			}
		}
		return nil
	}
	// call edges among the functions
	edges := map[*ssa.Function][]*ssa.Function{}
	type site struct {
		ins ssa.CallInstruction
		g   *ssa.Function
	}
	sites := map[*ssa.Function][]site{}
	for _, f := range funcs {
		for _, b := range f.Blocks {
			for _, ins := range b.Instrs {
				if call, ok := ins.(ssa.CallInstruction); ok {
					if g := resolve(f, call); g != nil && inSet[g] {
						edges[f] = append(edges[f], g)
						sites[f] = append(sites[f], site{call, g})
					}
				}
			}
		}
	}
	reach := func(from, to *ssa.Function) bool {
		seen := map[*ssa.Function]bool{}
		st := append([]*ssa.Function{}, edges[from]...)
		for len(st) > 0 {
			x := st[len(st)-1]
			st = st[:len(st)-1]
			if x == to {
				return true
			}
			if seen[x] {
				continue
			}
			seen[x] = true
			st = append(st, edges[x]...)
		}
		return false
	}
	n := 0
	for _, f := range funcs {
		if !reach(f, f) {
			continue
		}
		n++
		key := ssaFuncKey(f)
		var param *ssa.Parameter
		for _, prm := range f.Params {
			if isT(prm.Type()) {
				param = prm
			}
		}
		// lookups and insertions keyed by the parameter
		var lookups []*ssa.Lookup
		var inserts []*ssa.MapUpdate
		for _, b := range f.Blocks {
			for _, ins := range b.Instrs {
				switch x := ins.(type) {
				case *ssa.Lookup:
					if x.Index == ssa.Value(param) {
						lookups = append(lookups, x)
					}
				case *ssa.MapUpdate:
					if x.Key == ssa.Value(param) {
						inserts = append(inserts, x)
					}
				}
			}
		}
		branched := func(l *ssa.Lookup) bool {
			// the lookup (or a value extracted from it) feeds an If
			seen := map[ssa.Value]bool{}
			var walk func(v ssa.Value, d int) bool
			walk = func(v ssa.Value, d int) bool {
				if d > 4 || seen[v] || v.Referrers() == nil {
					return false
				}
				seen[v] = true
				for _, r := range *v.Referrers() {
					switch y := r.(type) {
					case *ssa.If:
						return true
					case *ssa.Extract:
						if walk(y, d+1) {
							return true
						}
					case *ssa.BinOp:
						if walk(y, d+1) {
							return true
						}
					case *ssa.UnOp:
						if walk(y, d+1) {
							return true
						}
					case *ssa.Phi:
						if walk(y, d+1) {
							return true
						}
					}
				}
				return false
			}
			return walk(l, 0)
		}
		bad := ""
		for _, s := range sites[f] {
			if !reach(s.g, f) && s.g != f {
				continue // not a recursive call
			}
			ok := false
			for _, ins := range inserts {
				if !instrDominates(ins, s.ins) {
					continue
				}
				for _, l := range lookups {
					if l.X == ins.Map || sameMapSource(l.X, ins.Map) {
						if instrDominates(l, ins) && branched(l) {
							ok = true
						}
					}
				}
			}
			if !ok {
				bad = fmt.Sprintf("recursive call at %s is not dominated by an insertion visited[%s] = … that follows a branched lookup visited[%s]", c.Rel(s.ins.Pos()), param.Name(), param.Name())
				c.Bad(rule, key, s.ins.Pos(), "%s recurses over *syntax.TokenSet (cyclic for mutually recursive named sets): %s; a cycle overflows the stack", key, bad)
				break
			}
		}
		if bad == "" {
			c.Ok(rule, key, f.Pos(), "every recursive call is dominated by visited[%s] = … after a branched lookup visited[%s] (%d lookups, %d insertions keyed by the node)", param.Name(), param.Name(), len(lookups), len(inserts))
		}
	}
	if n < 4 {
		c.add(rule, "count:", 0, CountDropped, true, "only %d recursive functions over *syntax.TokenSet found; 6 were confirmed by hand", n)
	}
}

// sameMapSource: two map values are loads of the same variable (captured or local).
func sameMapSource(a, b ssa.Value) bool {
	if a == b {
		return true
	}
	la, ok1 := a.(*ssa.UnOp)
	lb, ok2 := b.(*ssa.UnOp)
	if ok1 && ok2 {
		if la.X == lb.X {
			return true
		}
		fa, ok3 := la.X.(*ssa.FieldAddr)
		fb, ok4 := lb.X.(*ssa.FieldAddr)
		if ok3 && ok4 && fa.X == fb.X && fa.Field == fb.Field {
			return true
		}
	}
	return false
}

// instrDominates reports whether instruction a is executed before b on every path to b.
func instrDominates(a, b ssa.Instruction) bool {
	ba, bb := a.Block(), b.Block()
	if ba == nil || bb == nil || ba.Parent() != bb.Parent() {
		return false
	}
	if ba == bb {
		for _, ins := range ba.Instrs {
			if ins == a {
				return true
			}
			if ins == b {
				return false
			}
		}
		return false
	}
	return ba.Dominates(bb)
}
