package main

import (
	"fmt"
	"go/types"

	"golang.org/x/tools/go/ssa"
)

// LOCKSTEP(rule-copy): grammar.Rule embeds a *copy* of the lalr.Rule that was appended to
// lalr.Grammar.Rules. The table generator (minimization keys, tmRuleAction) reads the lalr copy,
// the templates (applyRule cases) read the grammar copy. Any store into a field of one copy
// after the split must be accompanied, in the same basic block and with the same value, by the
// store into the other copy.
func ruleRULECOPY(c *Ctx) {
	const rule = "LOCKSTEP(rule-copy)"
	isNamed := func(t types.Type, pkg, name string) bool {
		if p, ok := t.Underlying().(*types.Pointer); ok {
			t = p.Elem()
		}
		n, ok := t.(*types.Named)
		if !ok || n.Obj().Pkg() == nil {
			return false
		}
		rel, in := relPkg(n.Obj().Pkg())
		return in && rel == pkg && n.Obj().Name() == name
	}
	n := 0
	for _, f := range c.SrcFuncs("compiler") {
		type st struct {
			s     *ssa.Store
			field string
		}
		var viaGrammar, viaLalr []st
		for _, b := range f.Blocks {
			for _, ins := range b.Instrs {
				s, ok := ins.(*ssa.Store)
				if !ok {
					continue
				}
				fa, ok := s.Addr.(*ssa.FieldAddr)
				if !ok || !isNamed(fa.X.Type(), "lalr", "Rule") {
					continue
				}
				fld := fieldName(fa.X.Type(), fa.Field)
				switch x := fa.X.(type) {
				case *ssa.FieldAddr: // (*grammar.Rule).Rule
					if isNamed(x.X.Type(), "grammar", "Rule") {
						if _, local := x.X.(*ssa.Alloc); !local {
							viaGrammar = append(viaGrammar, st{s, fld})
						}
					}
				case *ssa.IndexAddr: // element of a []lalr.Rule
					viaLalr = append(viaLalr, st{s, fld})
				}
			}
		}
		if len(viaGrammar) == 0 {
			continue
		}
		ord := map[string]int{}
		pair := func(a st, others []st, side string) {
			n++
			key := ordKey(ord, fmt.Sprintf("%s:%s.%s", ssaFuncKey(f), side, a.field))
			for _, o := range others {
				if o.field == a.field && o.s.Block() == a.s.Block() && o.s.Val == a.s.Val {
					c.Ok(rule, key, a.s.Pos(), "store into the %s copy of Rule.%s is paired with the same value stored into the other copy in the same block", side, a.field)
					return
				}
			}
			c.Bad(rule, key, a.s.Pos(), "store into the %s copy of Rule.%s has no matching store (same block, same value) into the other copy: tables and generated actions disagree about the rule's %s", side, a.field, a.field)
		}
		for _, a := range viaGrammar {
			pair(a, viaLalr, "grammar")
		}
		for _, a := range viaLalr {
			pair(a, viaGrammar, "lalr")
		}
	}
	c.MinCount(rule, "compiler.", 2)
}
