package main

import (
	"fmt"
	"go/token"
	"go/types"
	"regexp"
	"sort"
	"strings"

	"golang.org/x/tools/go/ssa"
)

// instrsOf collects instructions of f and of all functions it (transitively) calls statically
// inside the same package.
func samePkgClosure(f *ssa.Function) []*ssa.Function {
	seen := map[*ssa.Function]bool{f: true}
	list := []*ssa.Function{f}
	for i := 0; i < len(list); i++ {
		g := list[i]
		for _, a := range g.AnonFuncs {
			if !seen[a] {
				seen[a] = true
				list = append(list, a)
			}
		}
		for _, b := range g.Blocks {
			for _, ins := range b.Instrs {
				if call, ok := ins.(ssa.CallInstruction); ok {
					if h := resolveCallee(call); h != nil && h.Pkg == f.Pkg && h.Blocks != nil && !seen[h] {
						seen[h] = true
						list = append(list, h)
					}
				}
			}
		}
	}
	return list
}

var (
	sigID    = `(?:φ|[A-Za-z_][\w.]*)`
	sigOwnRe = regexp.MustCompile(`^` + sigID + `\[` + sigID + `\]$`)
	sigSymRe = regexp.MustCompile(`^` + sigID + `(?:\[` + sigID + `\])?\[` + sigID + `\]$`)
	sigTgtRe = regexp.MustCompile(`^` + sigID + `\[` + sigID + `(?:\[` + sigID + `\])?\[\(` + sigID + ` \+ 1\)\]\]$`)
)

// FIELDCOV(minimize) and GUARD(entry): see DESIGN.md 3.5.
func ruleMINIMIZE(c *Ctx) {
	const rule = "FIELDCOV(minimize)"
	// 1. rule-class key
	f := c.SSAFunc("lalr", "computeRuleClasses")
	if f == nil {
		c.Lost(rule, "lalr.computeRuleClasses", "function not found")
	} else {
		want := map[string]string{
			"lhs": "r.LHS", "length": "t.RuleLen[", "action": "r.Action", "typ": "r.Type", "flags": "r.Flags",
			// generated parsers trim the range of a rule that ends with a nullable symbol
			// (fixTrailingWS, selected by rule number): such rules must not share a class with
			// rules that end with a non-nullable symbol
			"nulls": ".Get(",
		}
		got := map[string]string{}
		storeBlk := map[string]*ssa.BasicBlock{}
		var keyAlloc *ssa.Alloc
		for _, b := range f.Blocks {
			for _, ins := range b.Instrs {
				st, ok := ins.(*ssa.Store)
				if !ok {
					continue
				}
				fa, ok := st.Addr.(*ssa.FieldAddr)
				if !ok {
					continue
				}
				al, ok := fa.X.(*ssa.Alloc)
				if !ok || !strings.Contains(al.Type().String(), "ruleKey") {
					continue
				}
				keyAlloc = al
				got[fieldName(fa.X.Type(), fa.Field)] = vpath(st.Val)
				storeBlk[fieldName(fa.X.Type(), fa.Field)] = b
			}
		}
		// every component is filled on every path to the class lookup
		if keyAlloc != nil {
			var useBlk *ssa.BasicBlock
			for _, ref := range *keyAlloc.Referrers() {
				if ld, ok := ref.(*ssa.UnOp); ok {
					if useBlk == nil || ld.Block().Dominates(useBlk) {
						useBlk = ld.Block()
					}
				}
			}
			for k, sb := range storeBlk {
				if k == "nulls" {
					continue // set when a non-marker symbol exists; false is the right value for none
				}
				if useBlk != nil && sb != useBlk && !sb.Dominates(useBlk) {
					c.Bad(rule, "lalr.computeRuleClasses:ruleKey."+k+":unconditional", f.Pos(), "ruleKey.%s is filled only on some paths to the class lookup: on the other paths it is the zero value, which is also a legitimate %s (rules that differ in it share a class and their reduce states are merged)", k, k)
				}
			}
		}
		// the range value r is a copy of g.Rules[i]; its fields read as φ paths
		names := make([]string, 0, len(want))
		for k := range want {
			names = append(names, k)
		}
		sort.Strings(names)
		for _, k := range names {
			key := "lalr.computeRuleClasses:ruleKey." + k
			src, ok := got[k]
			w := want[k]
			w2 := strings.Replace(w, "r.", "g.Rules[", 1)
			norm := normalizePhi(src)
			hit := strings.Contains(src, w) || (strings.HasPrefix(w, "r.") && strings.Contains(norm, "g.Rules[") && strings.Contains(norm, "]."+strings.TrimPrefix(w, "r.")))
			if k == "nulls" {
				hit = strings.Contains(src, ".Get(") && strings.Contains(norm, ".RHS[")
				w = "nullability of the last non-marker right-hand-side symbol"
			}
			_ = w2
			switch {
			case !ok:
				c.Bad(rule, key, f.Pos(), "the rule-class key has no component %q: rules differing in it would share a class and their reduce states could be merged", k)
			case hit:
				c.Ok(rule, key, f.Pos(), "ruleKey.%s = %s", k, norm)
			default:
				c.Bad(rule, key, f.Pos(), "ruleKey.%s is computed from %s, expected %s… (merged states must reduce rules with equal LHS, length as popped by the parser (RuleLen, markers excluded), action, node type, flags and trailing-nullable shape)", k, norm, w)
			}
		}
		for k := range got {
			if _, ok := want[k]; !ok {
				c.Trivial(rule, "lalr.computeRuleClasses:ruleKey."+k, f.Pos(), "extra key component %s (finer classes are always safe)", k)
			}
		}
	}
	// 2. remapped fields
	m := c.SSAFunc("lalr", "minimize")
	if m == nil {
		c.Lost(rule, "lalr.minimize", "function not found")
		return
	}
	fields := map[string]bool{}
	for _, g := range samePkgClosure(m) {
		for _, b := range g.Blocks {
			for _, ins := range b.Instrs {
				st, ok := ins.(*ssa.Store)
				if !ok {
					continue
				}
				p := vpath(st.Addr)
				for _, fld := range []string{"Action", "FinalStates", "Markers", "FromTo", "Goto", "NumStates"} {
					if strings.HasPrefix(p, "t."+fld) || strings.HasPrefix(p, "t.DefaultEnc."+fld) {
						fields[fld] = true
					}
				}
			}
		}
	}
	for _, fld := range []string{"Action", "FinalStates", "Markers", "FromTo", "Goto", "NumStates"} {
		key := "lalr.minimize:remap." + fld
		if fields[fld] {
			c.Ok(rule, key, m.Pos(), "Tables.%s (holds or is indexed by state numbers) is rewritten when states are merged", fld)
		} else {
			c.Bad(rule, key, m.Pos(), "Tables.%s holds or is indexed by state numbers but is not rewritten by minimize: it would keep pre-merge state numbers", fld)
		}
	}
	// new fields of Tables/DefaultEnc of slice-of-int type must be classified
	known := map[string]bool{"Action": true, "Lalr": true, "Goto": true, "FromTo": true, "RuleLen": true, "FinalStates": true, "RuleSymbol": true,
		"Markers": true, "Lookaheads": true, "NumStates": true, "UsedLADepth": true, "SR": true, "RR": true, "DebugInfo": true, "Optimized": true, "DefaultEnc": true}
	if p := c.Pkg("lalr"); p != nil {
		for _, tn := range []string{"Tables", "DefaultEnc"} {
			if obj, ok := p.Types.Scope().Lookup(tn).(*types.TypeName); ok {
				if st, ok := obj.Type().Underlying().(*types.Struct); ok {
					for i := 0; i < st.NumFields(); i++ {
						if !known[st.Field(i).Name()] {
							c.Unaud(rule, "lalr."+tn+"."+st.Field(i).Name(), st.Field(i).Pos(), "new field %s.%s: decide whether it carries state numbers and must be remapped by minimize, then add it to the table", tn, st.Field(i).Name())
						}
					}
				}
			}
		}
	}
	// 3. refinement signature: (partition[i], then for every edge: symbol and partition[target])
	rf := c.SSAFunc("lalr", "refinePartitions")
	if rf == nil {
		c.Lost(rule, "lalr.refinePartitions", "function not found")
	} else {
		hasOwn, hasSym, hasTgt := false, false, false
		var sigSeen []string
		for _, b := range rf.Blocks {
			for _, ins := range b.Instrs {
				st, ok := ins.(*ssa.Store)
				if !ok {
					continue
				}
				// elements of the varargs array of append(sigParts, ...)
				if ia, ok := st.Addr.(*ssa.IndexAddr); ok {
					if al, ok := ia.X.(*ssa.Alloc); ok && al.Comment == "varargs" {
						p := normalizePhi(vpath(st.Val))
						sigSeen = append(sigSeen, p)
						switch {
						case sigOwnRe.MatchString(p):
							hasOwn = true
						case sigTgtRe.MatchString(p):
							hasTgt = true
						case sigSymRe.MatchString(p):
							hasSym = true
						}
					}
				}
			}
		}
		key := "lalr.refinePartitions:signature"
		if hasOwn && hasSym && hasTgt {
			c.Ok(rule, key, rf.Pos(), "signature = (own partition, then for every outgoing edge the symbol and the partition of the target)")
		} else {
			c.Bad(rule, key, rf.Pos(), "refinement signature must contain the state's own partition (%v), each edge symbol (%v) and the partition of each edge target (%v); appended values: %v", hasOwn, hasSym, hasTgt, sigSeen)
		}
	}
}

// GUARD(entry): generated parsers start at state <input index>; minimize may only keep that
// valid if it knows which states are entry states.
func ruleENTRYGUARD(c *Ctx) {
	const rule = "GUARD(entry)"
	m := c.SSAFunc("lalr", "minimize")
	if m == nil {
		c.Lost(rule, "lalr.minimize", "function not found")
		return
	}
	reads := false
	var pos token.Pos
	for _, g := range samePkgClosure(m) {
		for _, b := range g.Blocks {
			for _, ins := range b.Instrs {
				if fa, ok := ins.(*ssa.FieldAddr); ok && fieldName(fa.X.Type(), fa.Field) == "Inputs" && strings.HasSuffix(fa.X.Type().String(), "lalr.Grammar") {
					reads = true
					pos = fa.Pos()
				}
			}
		}
	}
	key := "lalr.minimize:entry-states"
	if reads {
		c.Ok(rule, key, pos, "minimize consults Grammar.Inputs (entry states 0..len(Inputs)-1 are referenced by index from the generated Parse* functions)")
	} else {
		c.Bad(rule, key, m.Pos(), "minimize never looks at Grammar.Inputs: two entry states with equal behaviour are merged and renumbered, while generated parsers keep starting input #i at state i")
	}
}

// GUARD(final): the initial partition of minimize consults Tables.FinalStates. The generated
// parse loop stops as soon as `state == end`, which is no parsing action and therefore not part
// of any action signature: a final state merged with a state of equal actions (a left-recursive
// no-eoi input: the state after `A` and the state after the first token both only shift) makes
// the parser stop — and accept — in the middle of a sentence.
func ruleFINALGUARD(c *Ctx) {
	const rule = "GUARD(final)"
	f := c.SSAFunc("lalr", "partitionStatesByAction")
	if f == nil {
		c.Lost(rule, "lalr.partitionStatesByAction", "function not found")
		return
	}
	var pos token.Pos
	reads := false
	fs := append([]*ssa.Function{f}, f.AnonFuncs...)
	for _, g := range fs {
		for _, b := range g.Blocks {
			for _, ins := range b.Instrs {
				if fa, ok := ins.(*ssa.FieldAddr); ok && fieldName(fa.X.Type(), fa.Field) == "FinalStates" {
					reads = true
					pos = fa.Pos()
				}
			}
		}
	}
	key := "lalr.partitionStatesByAction:final-states"
	if reads {
		c.Ok(rule, key, pos, "the initial partition consults Tables.FinalStates (reaching the final state ends the parse, so final states may only be merged with final states)")
	} else {
		c.Bad(rule, key, f.Pos(), "the initial partition never looks at Tables.FinalStates: a final state with the same parsing actions as an ordinary state is merged with it, and the generated parser stops (accepts) whenever it reaches the merged state")
	}
}

// MUSTPASS(compile-order) and GUARD(optimize-la) on lalr.Compile.
func ruleCOMPILEORDER(c *Ctx) {
	const rule = "MUSTPASS(compile-order)"
	f := c.SSAFunc("lalr", "Compile")
	if f == nil {
		c.Lost(rule, "lalr.Compile", "function not found")
		return
	}
	order := []string{"lalr.compiler.computeStates", "lalr.compiler.buildLA", "lalr.compiler.populateTables", "lalr.compiler.resolveWithLookahead", "lalr.compiler.reportConflicts", "lalr.minimize", "lalr.Optimize"}
	at := map[string]ssa.Instruction{}
	for _, b := range f.Blocks {
		for _, ins := range b.Instrs {
			if call, ok := ins.(ssa.CallInstruction); ok {
				if g := call.Common().StaticCallee(); g != nil {
					at[calleeName(g)] = ins
				}
			}
		}
	}
	for i := 0; i < len(order); i++ {
		a, ok := at[order[i]]
		if !ok {
			c.Lost(rule, "lalr.Compile:"+order[i], "lalr.Compile no longer calls %s", order[i])
			continue
		}
		for j := i + 1; j < len(order); j++ {
			b, ok := at[order[j]]
			if !ok {
				continue
			}
			key := fmt.Sprintf("lalr.Compile:%s<%s", strings.TrimPrefix(order[i], "lalr."), strings.TrimPrefix(order[j], "lalr."))
			bad := false
			if a.Block() == b.Block() {
				for _, ins := range a.Block().Instrs {
					if ins == b {
						bad = true
						break
					}
					if ins == a {
						break
					}
				}
			} else if reachesWithout(b.Block(), a.Block(), nil) {
				bad = true
			}
			if bad {
				c.Bad(rule, key, b.Pos(), "%s can run before %s; the later stage must see the tables the earlier one completes", order[j], order[i])
			} else {
				c.Ok(rule, key, a.Pos(), "%s always precedes %s", order[i], order[j])
			}
		}
	}
	// GUARD(optimize-la)
	const rule2 = "GUARD(optimize-la)"
	opt, ok := at["lalr.Optimize"]
	if !ok {
		return
	}
	okLA := false
	for _, g := range flattenConds(governing(opt.Block())) {
		l, op, r, isCmp := cmpNorm(g.V, g.Pol)
		if !isCmp {
			continue
		}
		s := l + " " + op + " " + r
		if strings.Contains(s, "UsedLADepth") && (op == "==" && (r == "0" || l == "0") || op == "<=" && r == "0" || op == "<" && r == "1") {
			okLA = true
		}
		if strings.Contains(s, "c.lookahead") && (op == "<=" && r == "1" || op == "<" && r == "2" || op == "==" && r == "1") {
			okLA = true
		}
	}
	key := "lalr.Compile:Optimize"
	if okLA {
		c.Ok(rule2, key, opt.Pos(), "Optimize runs only when no deep-lookahead pointer (Lalr value <= -3) was emitted: {%s}", strings.Join(condStrings(governing(opt.Block())), " ∧ "))
	} else {
		c.Bad(rule2, key, opt.Pos(), "Optimize is called under {%s}; resolveWithLookahead stores lookahead pointers (<= -3) into Lalr value cells whenever lookahead > 1, and Optimize routes every negative value other than -1/-2 to log.Fatal(\"rule index out of range\")", strings.Join(condStrings(governing(opt.Block())), " ∧ "))
	}
}

// DEDUP(marker-states): minimisation renumbers states with a map that is not monotone (state 7
// may become 2 and state 9 become 2 as well, with 8 -> 5 in between), so the state list of a
// marker must be de-duplicated against everything seen so far, not against the previous element
// only: the append of a remapped state to Markers[i].States is governed by a failed lookup of that
// very value in a set, which then records it. A repeated state becomes a duplicate key in the
// generated marker map (the parser does not build).
func ruleMARKERDEDUP(c *Ctx) {
	const rule = "DEDUP(marker-states)"
	key := "lalr.minimize:Markers.States"
	f := c.SSAFunc("lalr", "minimize")
	if f == nil {
		c.Lost(rule, key, "function not found")
		return
	}
	n := 0
	for _, b := range f.Blocks {
		for _, ins := range b.Instrs {
			call, ok := ins.(*ssa.Call)
			if !ok {
				continue
			}
			bi, ok := call.Call.Value.(*ssa.Builtin)
			if !ok || bi.Name() != "append" || len(call.Call.Args) != 2 {
				continue
			}
			// the list being rebuilt starts as Markers[i].States[:0]
			if !strings.Contains(normalizePhi(vpath(call.Call.Args[0])), "φ") && !strings.Contains(vpath(call.Call.Args[0]), ".States[") {
				continue
			}
			isStates := false
			var walk func(v ssa.Value, d int)
			walk = func(v ssa.Value, d int) {
				if d > 4 {
					return
				}
				switch x := v.(type) {
				case *ssa.Phi:
					for _, e := range x.Edges {
						walk(e, d+1)
					}
				case *ssa.Slice:
					if strings.HasSuffix(vpath(x.X), ".States") {
						isStates = true
					}
				}
			}
			walk(call.Call.Args[0], 0)
			if !isStates {
				continue
			}
			// the appended element (varargs slice of one element)
			var elem ssa.Value
			if sl, ok := call.Call.Args[1].(*ssa.Slice); ok {
				if al, ok := sl.X.(*ssa.Alloc); ok && al.Referrers() != nil {
					for _, r := range *al.Referrers() {
						if ia, ok := r.(*ssa.IndexAddr); ok && ia.Referrers() != nil {
							for _, r2 := range *ia.Referrers() {
								if st, ok := r2.(*ssa.Store); ok {
									elem = st.Val
								}
							}
						}
					}
				}
			}
			if elem == nil {
				continue
			}
			n++
			guarded, recorded := false, false
			var set ssa.Value
			for _, g := range flattenConds(governing(b)) {
				if g.Pol {
					continue
				}
				v := g.V
				if ex, ok := v.(*ssa.Extract); ok {
					v = ex.Tuple
				}
				if lk, ok := v.(*ssa.Lookup); ok && lk.Index == elem {
					guarded, set = true, lk.X
				}
			}
			if guarded {
				for _, in2 := range b.Instrs {
					if mu, ok := in2.(*ssa.MapUpdate); ok && mu.Map == set && mu.Key == elem {
						recorded = true
					}
				}
			}
			switch {
			case guarded && recorded:
				c.Ok(rule, key, call.Pos(), "a remapped state is appended only if it is not in the seen-set, and is then recorded")
			case guarded:
				c.Bad(rule, key, call.Pos(), "the seen-set that guards the append is never updated with the appended state")
			default:
				c.Bad(rule, key, call.Pos(), "remapped marker states are appended without a membership test against all states seen so far: the renumbering is not monotone, so a state can re-appear after another one and the generated marker map has a duplicate key")
			}
		}
	}
	if n < 1 {
		c.Lost(rule, key, "the rebuild of Markers[i].States was not found")
	}
}
