package main

import (
	"fmt"
	"go/types"
	"os"
	"strings"

	"golang.org/x/tools/go/ssa"
)

// DTX(pickLookahead): lalr.pickLookahead is a finite decision over the polarities with which
// the remaining lookahead alternatives mention one predicate. It is evaluated abstractly for
// every sequence of 1..4 alternatives over {positive, negated, independent}; the result must be:
// give up if some alternative does not depend on the predicate; else the unique positive
// alternative; else the unique negated one; else "cannot decide".
func rulePICKLOOKAHEAD(c *Ctx) {
	const rule = "DTX(pickLookahead)"
	f := c.SSAFunc("lalr", "pickLookahead")
	if f == nil || len(f.Params) != 2 {
		c.Lost(rule, "lalr.pickLookahead", "function not found")
		return
	}
	pols := []byte{'P', 'N', 'X'}
	var scen []string
	var gen func(prefix string, n int)
	gen = func(prefix string, n int) {
		if n == 0 {
			scen = append(scen, prefix)
			return
		}
		for _, p := range pols {
			gen(prefix+string(p), n-1)
		}
	}
	for n := 1; n <= 4; n++ {
		gen("", n)
	}
	nbad := 0
	for _, s := range scen {
		s := s
		ncall := 0
		cfg := &aiConfig{
			Call: func(callee string, args []AV, site ssa.CallInstruction) (AV, bool, bool) {
				if strings.HasSuffix(callee, "Lookahead.Accepts") {
					i := ncall
					ncall++
					if i >= len(s) {
						return nil, false, false
					}
					switch s[i] {
					case 'P':
						return avTuple{[]AV{avBool{false}, avBool{true}}}, true, false
					case 'N':
						return avTuple{[]AV{avBool{true}, avBool{true}}}, true, false
					default:
						return avTuple{[]AV{avBool{false}, avBool{false}}}, true, false
					}
				}
				return nil, false, false
			},
			Load: func(path string, t types.Type) (AV, bool) { return nil, false },
		}
		n := int64(len(s))
		ncall = 0
		outs := aiEval(f, []AV{avSym{Name: "input"}, avSym{Name: "lookaheads", Len: avInt{n, n}}}, cfg)
		// expectation
		wantOK, wantIdx, wantNeg := false, int64(-1), false
		if !strings.Contains(s, "X") {
			np, nn := strings.Count(s, "P"), strings.Count(s, "N")
			switch {
			case np == 1:
				wantOK, wantIdx, wantNeg = true, int64(strings.IndexByte(s, 'P')), false
			case nn == 1:
				wantOK, wantIdx, wantNeg = true, int64(strings.IndexByte(s, 'N')), true
			}
		}
		var probs []string
		if len(outs) != 1 {
			probs = append(probs, fmt.Sprintf("%d paths (a deterministic scenario must have one)", len(outs)))
		}
		for _, o := range outs {
			if o.Kind != "return" {
				probs = append(probs, "path: "+o.String())
				continue
			}
			if len(o.Ret) != 3 {
				probs = append(probs, "unexpected result "+o.String())
				continue
			}
			t := avTuple{o.Ret}
			gotOK, isB := t.E[2].(avBool)
			if !isB {
				probs = append(probs, "ok is not decided: "+avStr2(t.E[2]))
				continue
			}
			if gotOK.V != wantOK {
				probs = append(probs, fmt.Sprintf("ok=%v, expected %v", gotOK.V, wantOK))
				continue
			}
			if wantOK {
				idx, _ := t.E[0].(avInt)
				neg, _ := t.E[1].(avBool)
				if idx.Lo != wantIdx || idx.Hi != wantIdx || neg.V != wantNeg {
					probs = append(probs, fmt.Sprintf("picked (index=%s, negated=%v), expected (index=%d, negated=%v)", idx, neg.V, wantIdx, wantNeg))
				}
			}
		}
		if os.Getenv("DBG_PICK") != "" {
			fmt.Fprintln(os.Stderr, s, len(outs), probs)
		}
		key := "lalr.pickLookahead[" + s + "]"
		if len(probs) > 0 {
			nbad++
			c.Bad(rule, key, f.Pos(), "alternatives %s (P=requires the predicate, N=requires its negation, X=independent): %s", s, strings.Join(uniqStrings(probs), " | "))
		} else {
			c.Ok(rule, key, f.Pos(), "alternatives %s: ok=%v index=%d negated=%v", s, wantOK, wantIdx, wantNeg)
		}
	}
}
