package main

func init() {
	register(&Property{
		ID:          "X01",
		Explanation: "exploration only (not in MANIFEST): generic rules over every package",
		Rules:       []string{"LOSTWRITE(range-copy)", "COPY(struct-slices)", "RESET(scratch-set)"},
		Run: func(c *Ctx) {
			all := []string{"lalr", "lex", "compiler", "syntax", "grammar", "gen", "util/container", "util/set", "util/sparse", "util/graph", "util/diff", "util/ident", "ls", "status", "parsers/tm/ast", "parsers/js", "parsers/tm", "shiftdfa", "cmd/textmapper"}
			ruleLOSTWRITE(c, all...)
			ruleSTRUCTCOPY(c, all...)
			ruleSCRATCHSET(c, all...)
			ruleMINUPDATE(c, all...)
		},
	})
}
