package main

import (
	"fmt"
	"go/token"
	"go/types"
	"os"
	"strings"

	"golang.org/x/tools/go/ssa"
)

// packages whose code passes scratch buffers around
var aliasPkgs = []string{"util/container", "util/set", "util/sparse", "util/graph", "lalr", "lex", "syntax", "compiler", "gen", "grammar"}

func (c *Ctx) aliasAnalysis() *aliasAnalysis {
	if c.alias == nil {
		c.alias = newAliasAnalysis(c, aliasPkgs)
	}
	return c.alias
}

// ALIAS: at every call of a function that writes its result into a caller-supplied scratch
// buffer, no other slice operand may share storage with that buffer. onlyPkgs restricts the
// call sites that are reported (nil = all analysed packages).
func ruleALIAS(c *Ctx, onlyPkgs map[string]bool) {
	const rule = "ALIAS"
	a := c.aliasAnalysis()
	for _, f := range a.funcs {
		fk := ssaFuncKey(f)
		if onlyPkgs != nil {
			rel := ""
			if f.Pkg != nil {
				rel, _ = relPkg(f.Pkg.Pkg)
			} else if o := f.Origin(); o != nil && o.Pkg != nil {
				rel, _ = relPkg(o.Pkg.Pkg)
			}
			if !onlyPkgs[rel] {
				continue
			}
		}
		ord := map[string]int{}
		for _, b := range f.Blocks {
			for _, ins := range b.Instrs {
				call, ok := ins.(ssa.CallInstruction)
				if !ok {
					continue
				}
				g := call.Common().StaticCallee()
				if g == nil {
					continue
				}
				ws := a.scratchParams(g)
				if len(ws) == 0 {
					continue
				}
				args := call.Common().Args
				for _, w := range ws {
					if w >= len(args) {
						continue
					}
					key := ordKey(ord, fmt.Sprintf("%s:%s(%s)", fk, calleeName(g), g.Params[w].Name()))
					if cst, ok := args[w].(*ssa.Const); ok && cst.IsNil() {
						c.Trivial(rule, key, ins.Pos(), "scratch argument is nil: the callee allocates")
						continue
					}
					wr := a.roots(args[w])
					bad := false
					for r, arg := range args {
						if r == w || !hasSliceStorage(arg.Type(), 0) {
							continue
						}
						// only operands of the same element type can share an array
						if !sameSliceElem(arg.Type(), args[w].Type()) {
							continue
						}
						or := a.roots(arg)
						var common rootSet
						for rt := range wr {
							if or[rt] {
								if common == nil {
									common = rootSet{}
								}
								common[rt] = true
							}
						}
						if len(common) > 0 {
							bad = true
							c.Bad(rule, key, ins.Pos(), "operand %q of %s may be backed by the scratch buffer passed as %q (shared roots: %s): the callee overwrites %s[:0] while still reading the operand",
								g.Params[r].Name(), calleeName(g), g.Params[w].Name(), common.names(), g.Params[w].Name())
						}
					}
					if !bad {
						c.Ok(rule, key, ins.Pos(), "scratch %q roots {%s} are disjoint from the roots of every other slice operand", g.Params[w].Name(), wr.names())
					}
				}
			}
		}
	}
}

func sliceElems(t types.Type, out map[string]bool, depth int) {
	if depth > 3 {
		return
	}
	switch u := t.Underlying().(type) {
	case *types.Slice:
		out[types.TypeString(u.Elem().Underlying(), nil)] = true
	case *types.Struct:
		for i := 0; i < u.NumFields(); i++ {
			sliceElems(u.Field(i).Type(), out, depth+1)
		}
	}
}

func sameSliceElem(a, b types.Type) bool {
	ea, eb := map[string]bool{}, map[string]bool{}
	sliceElems(a, ea, 0)
	sliceElems(b, eb, 0)
	for k := range ea {
		if eb[k] {
			return true
		}
	}
	return false
}

// inLoop reports whether block b lies on a cycle of its function's CFG.
func inLoop(b *ssa.BasicBlock) bool {
	seen := map[*ssa.BasicBlock]bool{}
	var stack []*ssa.BasicBlock
	stack = append(stack, b.Succs...)
	for len(stack) > 0 {
		x := stack[len(stack)-1]
		stack = stack[:len(stack)-1]
		if x == b {
			return true
		}
		if seen[x] {
			continue
		}
		seen[x] = true
		stack = append(stack, x.Succs...)
	}
	return false
}

// ESCAPE: a slice that may be backed by a scratch buffer which is refilled later (the buffer
// is used as scratch inside a loop, or at two or more call sites of the function) must not be
// stored into memory that outlives the iteration, unless it went through a copying idiom.
func ruleESCAPE(c *Ctx, onlyPkgs map[string]bool) {
	const rule = "ESCAPE"
	a := c.aliasAnalysis()
	for _, f := range a.funcs {
		rel := ""
		if f.Pkg != nil {
			rel, _ = relPkg(f.Pkg.Pkg)
		}
		if onlyPkgs != nil && !onlyPkgs[rel] {
			continue
		}
		fk := ssaFuncKey(f)
		// scratch roots that are refilled
		count := map[root]int{}
		where := map[root]token.Pos{}
		for _, b := range f.Blocks {
			for _, ins := range b.Instrs {
				call, ok := ins.(ssa.CallInstruction)
				if !ok {
					continue
				}
				g := call.Common().StaticCallee()
				if g == nil {
					continue
				}
				for _, w := range a.scratchParams(g) {
					args := call.Common().Args
					if w >= len(args) {
						continue
					}
					if cst, ok := args[w].(*ssa.Const); ok && cst.IsNil() {
						continue
					}
					n := 1
					if inLoop(b) {
						n = 2
					}
					for rt := range a.roots(args[w]) {
						if rt.kind == rAlloc {
							if _, isCall := rt.obj.(*ssa.Call); isCall {
								continue
							}
						}
						if rt.kind == rFree {
							// a captured buffer outlives one invocation of the closure: the next
							// invocation refills it
							count[rt] += 2
						} else {
							count[rt] += n
						}
						where[rt] = ins.Pos()
					}
				}
			}
		}
		refilled := rootSet{}
		for rt, n := range count {
			if n >= 2 {
				refilled[rt] = true
			}
		}
		if len(refilled) == 0 {
			continue
		}
		ord := map[string]int{}
		check := func(val ssa.Value, pos token.Pos, how string) {
			if !hasSliceStorage(val.Type(), 0) {
				return
			}
			vr := a.roots(val)
			var hit rootSet
			for rt := range vr {
				if refilled[rt] {
					if hit == nil {
						hit = rootSet{}
					}
					hit[rt] = true
				}
			}
			key := ordKey(ord, fk+":"+how)
			if len(hit) > 0 {
				c.Bad(rule, key, pos, "a slice that may be backed by the refilled scratch buffer {%s} is %s; it is only valid until the next call that reuses the buffer", hit.names(), how)
			} else {
				c.Ok(rule, key, pos, "value %s does not share storage with the refilled scratch buffers {%s}", how, refilled.names())
			}
		}
		for _, b := range f.Blocks {
			for _, ins := range b.Instrs {
				switch x := ins.(type) {
				case *ssa.Store:
					if localAllocRoot(x.Addr) != nil {
						// a local struct literal that is itself stored/appended later is caught there
						continue
					}
					check(x.Val, x.Pos(), "stored into a heap location")
				case *ssa.MapUpdate:
					check(x.Value, x.Pos(), "stored into a map")
				case *ssa.Send:
					check(x.X, x.Pos(), "sent on a channel")
				case *ssa.Call:
					if g := x.Common().StaticCallee(); g != nil {
						if gs := a.sum[g]; gs != nil {
							for i := range gs.retains {
								if i < len(x.Common().Args) {
									check(x.Common().Args[i], x.Pos(), "passed to "+calleeName(g)+", which keeps the slice it is given")
								}
							}
						}
					}
					if bi, ok := x.Common().Value.(*ssa.Builtin); ok && bi.Name() == "append" && len(x.Common().Args) == 2 {
						// append(s, elems...): elements escape into s when they carry slices
						el := x.Common().Args[1]
						if st, ok := el.Type().Underlying().(*types.Slice); ok && hasSliceStorage(st.Elem(), 0) {
							check(el, x.Pos(), "appended as an element")
							// append(s, e): e lives in the compiler-made varargs array
							if sl, ok := el.(*ssa.Slice); ok {
								if al, ok := sl.X.(*ssa.Alloc); ok {
									for _, sv := range a.stores[f][al] {
										check(sv, x.Pos(), "appended as (part of) an element")
									}
								}
							}
						}
					}
				}
			}
		}
	}
}

// KEYCOPY: the interning containers (IntSliceMap.Get, IntSliceSet.Insert) are called with
// transient buffers as keys; what they retain must be a copy, never the caller's slice.
func ruleKEYCOPY(c *Ctx) {
	const rule = "KEYCOPY"
	a := c.aliasAnalysis()
	n := 0
	for _, f := range a.funcs {
		name := calleeName(f)
		if name != "util/container.IntSliceSet.Insert" && name != "util/container.IntSliceMap.Get" {
			continue
		}
		var key *ssa.Parameter
		for _, p := range f.Params {
			if _, ok := p.Type().Underlying().(*types.Slice); ok {
				key = p
			}
		}
		if key == nil {
			continue
		}
		n++
		k := name
		if f.Origin() != nil && f.Origin() != f {
			k = fmt.Sprintf("%s[%s]", name, strings.TrimPrefix(f.Name(), f.Origin().Name()))
		}
		retained := false
		var pos token.Pos = f.Pos()
		check := func(v ssa.Value, p token.Pos) {
			if !hasSliceStorage(v.Type(), 0) {
				return
			}
			for rt := range a.roots(v) {
				if rt.kind == rParam && rt.obj.(*ssa.Parameter) == key {
					retained = true
					pos = p
					if os.Getenv("TMSA_DEBUG") != "" {
						fmt.Fprintln(os.Stderr, "KEYCOPY", name, v.Name(), vpath(v), a.roots(v).names())
					}
				}
			}
		}
		for _, b := range f.Blocks {
			for _, ins := range b.Instrs {
				switch x := ins.(type) {
				case *ssa.Store:
					if localAllocRoot(x.Addr) == nil {
						check(x.Val, x.Pos())
					}
				case *ssa.MapUpdate:
					check(x.Value, x.Pos())
				case *ssa.Call:
					if bi, ok := x.Common().Value.(*ssa.Builtin); ok && bi.Name() == "append" && len(x.Common().Args) == 2 {
						el := x.Common().Args[1]
						if st, ok := el.Type().Underlying().(*types.Slice); ok && hasSliceStorage(st.Elem(), 0) {
							if sl, ok := el.(*ssa.Slice); ok {
								if al, ok := sl.X.(*ssa.Alloc); ok {
									for _, sv := range a.stores[f][al] {
										check(sv, x.Pos())
									}
								}
							}
						}
					} else if _, isBuiltin := x.Common().Value.(*ssa.Builtin); !isBuiltin && x.Common().StaticCallee() == nil && !x.Common().IsInvoke() {
						// the allocate callback receives the key: it must get the copy as well
						for _, arg := range x.Common().Args {
							check(arg, x.Pos())
						}
					}
				}
			}
		}
		if retained {
			c.Bad(rule, k, pos, "%s retains the caller's key slice (or hands it to the allocate callback) instead of a copy: callers pass reused buffers, so stored keys later compare equal to anything the buffer holds", name)
		} else {
			c.Ok(rule, k, pos, "only a clone of the key is stored")
		}
	}
	if n < 2 {
		c.add(rule, "count:", token.NoPos, CountDropped, true, "only %d interning container functions found (IntSliceSet.Insert and IntSliceMap.Get instances expected)", n)
	}
}
