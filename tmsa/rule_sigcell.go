package main

import (
	"fmt"
	"go/token"
	"strings"

	"golang.org/x/tools/go/ssa"
)

// SIGNATURE(lalr-cell): the initial partition of minimize keys lookahead states by the list of
// (terminal, action) cells of their Lalr row. Every value appended to the signature inside the
// row loop must be an injective image of the cell: the raw cell, or ruleClass[cell] for
// reductions. A constant standing in for a class of cells (e.g. "needs more lookahead") puts
// states with different continuations into one partition.
func ruleSIGCELL(c *Ctx) {
	const rule = "SIGNATURE(lalr-cell)"
	var fn *ssa.Function
	for _, f := range c.SrcFuncs("lalr") {
		if f.Parent() != nil && f.Parent().Name() == "partitionStatesByAction" {
			fn = f
		}
	}
	if fn == nil {
		c.Lost(rule, "lalr.partitionStatesByAction$1", "the state-signature closure of partitionStatesByAction was not found")
		return
	}
	loops := naturalLoops(fn)
	isLalrCell := func(v ssa.Value) bool {
		u, ok := stripConv(v).(*ssa.UnOp)
		if !ok || u.Op != token.MUL {
			return false
		}
		ia, ok := u.X.(*ssa.IndexAddr)
		return ok && strings.HasSuffix(vpath(ia.X), ".Lalr")
	}
	n := 0
	for _, b := range fn.Blocks {
		if innermostLoop(loops, b) == nil {
			continue
		}
		for _, ins := range b.Instrs {
			st, ok := ins.(*ssa.Store)
			if !ok {
				continue
			}
			ia, ok := st.Addr.(*ssa.IndexAddr)
			if !ok {
				continue
			}
			if al, ok := ia.X.(*ssa.Alloc); !ok || !strings.Contains(al.Comment, "varargs") || !strings.HasSuffix(al.Type().String(), "]int") {
				continue
			}
			n++
			key := fmt.Sprintf("%s:sig[%s]", ssaFuncKey(fn), vpath(ia.Index))
			// leaves of the stored value
			var bad []string
			cells := 0
			seen := map[ssa.Value]bool{}
			var walk func(v ssa.Value)
			walk = func(v ssa.Value) {
				if seen[v] {
					return
				}
				seen[v] = true
				switch y := v.(type) {
				case *ssa.Phi:
					for _, e := range y.Edges {
						walk(e)
					}
					return
				case *ssa.Const:
					bad = append(bad, "constant "+vpath(y))
					return
				}
				if isLalrCell(v) {
					cells++
					return
				}
				if u, ok := stripConv(v).(*ssa.UnOp); ok && u.Op == token.MUL {
					if ix, ok := u.X.(*ssa.IndexAddr); ok && isLalrCell(ix.Index) {
						base := ix.X
						if l, ok := base.(*ssa.UnOp); ok && l.Op == token.MUL {
							base = l.X // captured variable
						}
						switch base.(type) {
						case *ssa.FreeVar, *ssa.Parameter:
							cells++ // ruleClass[cell]
							return
						}
					}
				}
				bad = append(bad, vpath(v))
			}
			walk(st.Val)
			if len(bad) > 0 {
				c.Bad(rule, key, st.Pos(), "signature element is not an injective image of the Lalr cell on every path: %s", strings.Join(bad, ", "))
			} else {
				c.Ok(rule, key, st.Pos(), "signature element is the Lalr cell itself or ruleClass[cell] on all %d paths", cells)
			}
		}
	}
	if n < 2 {
		c.add(rule, "count:", token.NoPos, CountDropped, true, "only %d signature elements found inside the Lalr row loop (terminal and action confirmed by hand)", n)
	}
	// every (terminal, action) pair of the row is appended: no path from the loop body back to the
	// header around the append
	for _, lp := range loops {
		var ab *ssa.BasicBlock
		for b := range lp.Body {
			for _, ins := range b.Instrs {
				if call, ok := ins.(*ssa.Call); ok {
					if bi, ok := call.Call.Value.(*ssa.Builtin); ok && bi.Name() == "append" && innermostLoop(loops, b) == lp {
						ab = b
					}
				}
			}
		}
		if ab == nil {
			continue
		}
		key := ssaFuncKey(fn) + ":every-pair"
		skipped := false
		for _, s := range lp.Header.Succs {
			if lp.Body[s] && s != ab && reachesWithout(s, lp.Header, ab) {
				skipped = true
			}
		}
		if skipped {
			c.Bad(rule, key, ab.Instrs[0].Pos(), "some (terminal, action) pairs of a lookahead row are left out of the state's signature: states that differ only in those pairs (shift vs. nonassoc error on the same terminal) start in one partition, and the refinement only separates states by their transitions")
		} else {
			c.Ok(rule, key, ab.Instrs[0].Pos(), "every (terminal, action) pair of the row is appended to the signature")
		}
	}
}
