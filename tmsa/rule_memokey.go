package main

import (
	"go/token"
	"go/types"
	"strings"

	"golang.org/x/tools/go/ssa"
)

// AGREE(memo-key): the generated lookahead() memoizes its verdict per (offset, lookahead
// nonterminal). The nonterminal must be identified by the entry state (`start`, the value the
// state variable is initialised with): lalr.minimize keeps entry states apart (GUARD(entry)) but
// merges final states with each other (sigFinal classes), so a key built from `end` conflates
// different lookaheads at one offset whenever minimizeDFA is on.
func ruleMEMOKEY(c *Ctx) {
	const rule = "AGREE(memo-key)"
	n := 0
	for _, rel := range parserPkgs {
		f := c.SSAFunc(rel, "lookahead")
		if f == nil {
			continue
		}
		// map updates/lookups on a map[uint64]bool field named cache
		var keys []ssa.Value
		var pos token.Pos
		for _, b := range f.Blocks {
			for _, ins := range b.Instrs {
				switch y := ins.(type) {
				case *ssa.Lookup:
					if isCacheMap(y.X) {
						keys = append(keys, y.Index)
						pos = y.Pos()
					}
				case *ssa.MapUpdate:
					if isCacheMap(y.Map) {
						keys = append(keys, y.Key)
					}
				}
			}
		}
		if len(keys) == 0 {
			continue // no memoization in this parser
		}
		n++
		key := ssaFuncKey(f) + ":cache-key"
		// the entry-state parameter: the outside edge of the state phi compared in the loop header
		var startP, endP *ssa.Parameter
		for _, lp := range naturalLoops(f) {
			for _, ins := range lp.Header.Instrs {
				ifi, ok := ins.(*ssa.If)
				if !ok {
					continue
				}
				l, op, r, ok := cmpNormV(ifi.Cond, true)
				if !ok || op != "!=" {
					continue
				}
				phi, _ := stripConv(l).(*ssa.Phi)
				par, _ := stripConv(r).(*ssa.Parameter)
				if phi == nil || par == nil {
					phi, _ = stripConv(r).(*ssa.Phi)
					par, _ = stripConv(l).(*ssa.Parameter)
				}
				if phi == nil || par == nil {
					continue
				}
				for i, e := range phi.Edges {
					if !lp.Body[lp.Header.Preds[i]] {
						if sp, ok := stripConv(e).(*ssa.Parameter); ok {
							startP, endP = sp, par
						}
					}
				}
			}
		}
		if startP == nil {
			c.Lost(rule, key, "the `for state != end` loop of lookahead() with state initialised from a parameter was not found")
			continue
		}
		bad := ""
		for _, k := range keys {
			deps := map[ssa.Value]bool{}
			var walk func(v ssa.Value, d int)
			walk = func(v ssa.Value, d int) {
				if d > 8 || deps[v] {
					return
				}
				deps[v] = true
				switch y := v.(type) {
				case *ssa.BinOp:
					walk(y.X, d+1)
					walk(y.Y, d+1)
				case *ssa.Convert:
					walk(y.X, d+1)
				case *ssa.UnOp:
					walk(y.X, d+1)
				}
			}
			walk(k, 0)
			if deps[endP] {
				bad = "the cache key depends on the final state `" + endP.Name() + "`"
			} else if !deps[startP] {
				bad = "the cache key does not depend on the entry state `" + startP.Name() + "`"
			}
		}
		if bad != "" {
			c.Bad(rule, key, pos, "%s: minimize merges the final states of different lookahead nonterminals, so (?= S1) and (?= S2) at one offset share a cache slot", bad)
			continue
		}
		c.Ok(rule, key, pos, "the %d cache accesses are keyed by the token offset and the entry state `%s`, which minimize never merges", len(keys), startP.Name())
	}
	if n < 2 {
		c.add(rule, "count:", token.NoPos, CountDropped, true, "only %d memoizing lookahead() functions found (js and test confirmed by hand)", n)
	}
}

func isCacheMap(v ssa.Value) bool {
	if _, ok := v.Type().Underlying().(*types.Map); !ok {
		return false
	}
	return strings.HasSuffix(vpath(v), ".cache")
}
