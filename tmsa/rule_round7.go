package main

import (
	"fmt"
	"go/token"
	"go/types"
	"strings"

	"golang.org/x/tools/go/ssa"
)

// DTX(ambiguity-add): ambiguity.add(res, rule) folds the answers that precedence gives for the
// reducible rules of one terminal: the first answer is kept, an equal answer is kept, two
// different answers make the cell an unresolved conflict, and a conflict stays one. The function
// is evaluated by the abstract interpreter for all 5 x 5 pairs (stored answer, new answer) of the
// resolution enumeration; the value stored into a.res must be `new` when the stored answer is
// none or equal, and conflict otherwise.
func ruleAMBIGADD(c *Ctx) {
	const rule = "DTX(ambiguity-add)"
	fn := c.SSAFunc("lalr", "(*ambiguity).add")
	if fn == nil {
		c.Lost(rule, "lalr.ambiguity.add", "function not found")
		return
	}
	names := []string{"none", "doShift", "doReduce", "doError", "conflict"}
	vals := map[string]int64{}
	for _, n := range names {
		v, ok := c.enumConst("lalr", n)
		if !ok {
			c.Lost(rule, "lalr."+n, "constant not found")
			return
		}
		vals[n] = v
	}
	for _, prev := range names {
		for _, nw := range names[1:] {
			key := fmt.Sprintf("lalr.ambiguity.add[stored=%s,new=%s]", prev, nw)
			cfg := &aiConfig{
				Load: func(path string, t types.Type) (AV, bool) {
					if strings.HasSuffix(path, ".res") {
						return avInt{vals[prev], vals[prev]}, true
					}
					return nil, false
				},
				Lookup:       func(path string, k AV, commaOk bool, t types.Type) (AV, bool) { return nil, false },
				Call:         func(callee string, args []AV, site ssa.CallInstruction) (AV, bool, bool) { return nil, false, false },
				RecordStores: true,
			}
			outs := aiEval(fn, []AV{avSym{Name: "a"}, avInt{vals[nw], vals[nw]}, avSym{Name: "rule"}}, cfg)
			want := nw
			if prev != "none" && prev != nw {
				want = "conflict"
			}
			var probs []string
			if len(outs) == 0 {
				probs = append(probs, "no path")
			}
			for _, o := range outs {
				if o.Kind != "return" {
					probs = append(probs, "path: "+o.String())
					continue
				}
				got := ""
				for _, st := range o.Stores {
					if i := strings.Index(st, ".res = "); i >= 0 {
						got = strings.TrimSpace(st[i+len(".res = "):])
					}
				}
				if got == "" {
					probs = append(probs, "no store into a.res: "+strings.Join(o.Stores, "; "))
				} else if got != fmt.Sprint(vals[want]) {
					probs = append(probs, fmt.Sprintf("stores %s, want %s (%d)", got, want, vals[want]))
				}
			}
			switch {
			case len(probs) == 0:
				c.Ok(rule, key, fn.Pos(), "a.res = %s", want)
			case strings.Contains(strings.Join(probs, ";"), "stores "):
				c.Bad(rule, key, fn.Pos(), "ambiguity.add %s: when precedence answers differently for two reducible rules of one terminal the last answer wins and the cell is reported as resolved (a shift/reduce conflict is neither counted nor reported)", strings.Join(probs, "; "))
			default:
				c.Undec(rule, key, fn.Pos(), "%s", strings.Join(probs, "; "))
			}
		}
	}
}

// PASSTHROUGH(diff-operands): the two non-test callers of diff.LineDiff show the user the diff
// between two texts they name (the file on disk and the generated content; the dumps of the first
// and of the second object). The hunks apply to the first text and give the second only if the
// operands are those texts: each operand, followed back through phis and through `+ constant`,
// is a parameter, a conversion of a call result (os.ReadFile) or the result of a String() call -
// no other call (ReplaceAll, TrimSpace ...) rewrites it. Where an operand receives a constant note
// under a flag that is re-computed per operand (dump.Diff's d.incomplete), the flag read that
// governs the note lies after this operand's String() call and before the next one.
func ruleDIFFOPERANDS(c *Ctx) {
	const rule = "PASSTHROUGH(diff-operands)"
	n := 0
	for _, rel := range []string{"cmd/textmapper", "util/dump"} {
		for _, f := range c.SrcFuncs(rel) {
			var stringCalls []*ssa.Call
			for _, b := range f.Blocks {
				for _, ins := range b.Instrs {
					if call, ok := ins.(*ssa.Call); ok {
						if g := call.Call.StaticCallee(); g != nil && g.Name() == "String" && g.Signature.Recv() != nil {
							stringCalls = append(stringCalls, call)
						}
					}
				}
			}
			for _, b := range f.Blocks {
				for _, ins := range b.Instrs {
					call, ok := ins.(*ssa.Call)
					if !ok {
						continue
					}
					g := call.Call.StaticCallee()
					if g == nil || g.Pkg == nil || g.Name() != "LineDiff" || !strings.HasSuffix(g.Pkg.Pkg.Path(), "/util/diff") {
						continue
					}
					for ai, arg := range call.Call.Args {
						n++
						key := fmt.Sprintf("%s:LineDiff#%d", ssaFuncKey(f), ai)
						bad := ""
						badPos := call.Pos()
						leaves := 0
						seen := map[ssa.Value]bool{}
						var sources []*ssa.Call
						var adds []*ssa.BinOp
						var walk func(v ssa.Value, d int)
						walk = func(v ssa.Value, d int) {
							if seen[v] || d > 10 {
								return
							}
							seen[v] = true
							switch x := v.(type) {
							case *ssa.Phi:
								for _, e := range x.Edges {
									walk(e, d+1)
								}
							case *ssa.Parameter:
								leaves++
							case *ssa.Convert:
								// string(bytes) of a call result
								if ex, ok := x.X.(*ssa.Extract); ok {
									if _, isCall := ex.Tuple.(*ssa.Call); isCall {
										leaves++
										return
									}
								}
								if _, isCall := x.X.(*ssa.Call); isCall {
									leaves++
									return
								}
								walk(x.X, d+1)
							case *ssa.BinOp:
								if _, isK := x.Y.(*ssa.Const); isK && x.Op == token.ADD {
									adds = append(adds, x)
									walk(x.X, d+1)
									return
								}
								bad = "is computed by " + vpath(x)
								badPos = x.Pos()
							case *ssa.Call:
								if cg := x.Call.StaticCallee(); cg != nil && cg.Name() == "String" && cg.Signature.Recv() != nil {
									leaves++
									sources = append(sources, x)
									return
								}
								bad = "is rewritten by " + describeCall(x)
								badPos = x.Pos()
							default:
								bad = "comes from " + vpath(v)
							}
						}
						walk(arg, 0)
						// notes: the governing flag read belongs to this operand's String() call
						for _, add := range adds {
							if bad != "" || len(sources) != 1 {
								break
							}
							src := sources[0]
							for _, gc := range flattenConds(governing(add.Block())) {
								ld, ok := gc.V.(*ssa.UnOp)
								if !ok || ld.Op != token.MUL {
									continue
								}
								if _, isField := ld.X.(*ssa.FieldAddr); !isField {
									continue
								}
								// position of the flag read relative to the String() calls
								after := func(a, b ssa.Instruction) bool { // a after b
									if a.Block() == b.Block() {
										ia, ib := -1, -1
										for i, x := range a.Block().Instrs {
											if x == a {
												ia = i
											}
											if x == b {
												ib = i
											}
										}
										return ia > ib
									}
									return b.Block().Dominates(a.Block())
								}
								if !after(ld, src) {
									bad = fmt.Sprintf("gets the note %s under a flag read before its own String() call", vpath(add.Y))
									badPos = add.Pos()
								}
								for _, other := range stringCalls {
									if other != src && after(other, src) && after(ld, other) {
										bad = fmt.Sprintf("gets the note %s under %s as read after the String() call of another operand: the note about one text is appended to the other", vpath(add.Y), vpath(ld))
										badPos = add.Pos()
									}
								}
							}
						}
						switch {
						case bad != "":
							c.Bad(rule, key, badPos, "operand %d of diff.LineDiff %s: the rendered hunks are not a diff between the two texts the caller names (they do not apply to the first text, or an empty diff is printed for texts that differ)", ai, bad)
						case leaves == 0:
							c.Undec(rule, key, call.Pos(), "the origin of operand %d could not be followed", ai)
						default:
							c.Ok(rule, key, call.Pos(), "operand %d is a parameter, a converted call result or a String() result, extended only by constant notes that belong to it (%d origins, %d notes)", ai, leaves, len(adds))
						}
					}
				}
			}
		}
	}
	if n < 4 {
		c.add(rule, "count:", token.NoPos, CountDropped, true, "only %d operands of diff.LineDiff found in non-test callers (writer.Write and dump.Diff, two each)", n)
	}
}

// AGREE(scan-mode): lex.Compile parses every pattern with CharsetOptions{ScanBytes: scanBytes}
// (one symbol per byte, or per rune) and the scanners read Tables.ScanBytes to decide how to
// step through the input. The two agree only if the field is the parameter itself: a flag that is
// "optimised away" for some tables (ASCII-only symbol maps, say) makes Tables.Scan consume a
// whole rune per step of a DFA that was built, and is packed by shiftdfa, for bytes.
func ruleSCANMODE(c *Ctx) {
	const rule = "AGREE(scan-mode)"
	key := "lex.Compile:Tables.ScanBytes"
	f := c.SSAFunc("lex", "Compile")
	if f == nil {
		c.Lost(rule, key, "function not found")
		return
	}
	n := 0
	for _, b := range f.Blocks {
		for _, ins := range b.Instrs {
			st, ok := ins.(*ssa.Store)
			if !ok {
				continue
			}
			fa, ok := st.Addr.(*ssa.FieldAddr)
			if !ok || fieldName(fa.X.Type(), fa.Field) != "ScanBytes" || !isNamedType(fa.X.Type(), "lex", "Tables") {
				continue
			}
			n++
			if p, ok := stripConv(st.Val).(*ssa.Parameter); ok && p.Name() == "scanBytes" {
				c.Ok(rule, key, st.Pos(), "Tables.ScanBytes is the scanBytes parameter the patterns were parsed with")
			} else {
				c.Bad(rule, key, st.Pos(), "Tables.ScanBytes receives %s, not the scanBytes parameter the patterns were parsed with: for some tables Scan steps by runes through a DFA built (and packed by shiftdfa) for bytes", vpath(st.Val))
			}
		}
	}
	if n == 0 {
		c.Lost(rule, key, "no store into Tables.ScanBytes found in lex.Compile")
	}
}

// GUARD(rewritten-key-free): when entries of one map are copied into another under a rewritten
// key (convertPart strips the opt suffix from implied aliases when aliasIncludesOptSuffix is off),
// the rewrite is not injective: "Fooopt" and an explicitly spelled "Foo" meet. The rewritten key
// may only be used on an edge where a lookup of that very key found nothing; otherwise whichever
// entry is copied last wins and $Foo binds to the stack slot of Fooopt.
func ruleREWRITTENKEY(c *Ctx) {
	const rule = "GUARD(rewritten-key-free)"
	n := 0
	ord := map[string]int{}
	for _, f := range c.SrcFuncs("compiler") {
		for _, b := range f.Blocks {
			for _, ins := range b.Instrs {
				mu, ok := ins.(*ssa.MapUpdate)
				if !ok {
					continue
				}
				// only copies: the update runs once per entry of another collection
				if innermostLoop(naturalLoops(f), b) == nil {
					continue
				}
				type edge struct {
					v     ssa.Value
					conds []gcond
				}
				var edges []edge
				if ph, ok := mu.Key.(*ssa.Phi); ok {
					for i, e := range ph.Edges {
						edges = append(edges, edge{e, edgeConds(ph.Block().Preds[i], ph.Block())})
					}
				} else {
					edges = append(edges, edge{mu.Key, governing(b)})
				}
				for _, e := range edges {
					call, ok := e.v.(*ssa.Call)
					if !ok {
						continue
					}
					g := call.Call.StaticCallee()
					if g == nil || g.Pkg == nil || g.Pkg.Pkg.Path() != "strings" || (g.Name() != "TrimSuffix" && g.Name() != "TrimPrefix") {
						continue
					}
					n++
					key := ordKey(ord, ssaFuncKey(f)+":"+normalizePhi(vpath(mu.Map)))
					free := false
					for _, gc := range flattenConds(e.conds) {
						bo, ok := gc.V.(*ssa.BinOp)
						if !ok {
							continue
						}
						for _, side := range []ssa.Value{bo.X, bo.Y} {
							var lk *ssa.Lookup
							switch x := side.(type) {
							case *ssa.Lookup:
								lk = x
							case *ssa.Extract:
								lk, _ = x.Tuple.(*ssa.Lookup)
							}
							if lk != nil && lk.Index == e.v {
								free = true
							}
						}
						_ = gc
					}
					if free {
						c.Ok(rule, key, mu.Pos(), "the rewritten key %s is used only after a lookup of that key found nothing", vpath(e.v))
					} else {
						c.Bad(rule, key, mu.Pos(), "entries are copied under the rewritten key %s without testing that the key is free: with aliasIncludesOptSuffix = false a rule that mentions both Foo and Fooopt binds $Foo to whichever entry is copied last (the slot of Fooopt)", vpath(e.v))
					}
				}
			}
		}
	}
	if n < 1 {
		c.add(rule, "count:", token.NoPos, CountDropped, true, "no map copy under a rewritten key found (syntaxLoader.convertPart confirmed by hand)")
	}
}

// AGREE(fold-table): appendNamedSet closes a named Unicode class under case folding with the
// companion table of the table it found the class in: unicode.FoldCategory for a class from
// unicode.Categories, unicode.FoldScript for one from unicode.Scripts. A lookup in the other
// companion finds nothing (nil is silently appended as no ranges), and \p{Greek} under
// caseInsensitive no longer matches the cross-script fold partners of Greek letters.
func ruleFOLDTABLE(c *Ctx) {
	const rule = "AGREE(fold-table)"
	f := c.SSAFunc("lex", "appendNamedSet")
	if f == nil {
		c.Lost(rule, "lex.appendNamedSet", "function not found")
		return
	}
	globalOf := func(v ssa.Value) string {
		ld, ok := v.(*ssa.UnOp)
		if !ok || ld.Op != token.MUL {
			return ""
		}
		g, ok := ld.X.(*ssa.Global)
		if !ok || g.Pkg == nil || g.Pkg.Pkg.Path() != "unicode" {
			return ""
		}
		return g.Name()
	}
	companion := map[string]string{"FoldCategory": "Categories", "FoldScript": "Scripts"}
	n := 0
	for _, b := range f.Blocks {
		for _, ins := range b.Instrs {
			lk, ok := ins.(*ssa.Lookup)
			if !ok {
				continue
			}
			fold := globalOf(lk.X)
			want, isFold := companion[fold]
			if !isFold {
				continue
			}
			n++
			key := fmt.Sprintf("lex.appendNamedSet:unicode.%s", fold)
			found := ""
			for _, g := range flattenConds(governing(b)) {
				bo, ok := g.V.(*ssa.BinOp)
				if !ok {
					continue
				}
				for _, side := range []ssa.Value{bo.X, bo.Y} {
					if src, ok := side.(*ssa.Lookup); ok {
						if name := globalOf(src.X); name != "" && ((bo.Op == token.NEQ && g.Pol) || (bo.Op == token.EQL && !g.Pol)) {
							found = name
						}
					}
				}
				if found != "" {
					break
				}
			}
			switch found {
			case want:
				c.Ok(rule, key, lk.Pos(), "unicode.%s is consulted for a class found in unicode.%s", fold, want)
			case "":
				c.Undec(rule, key, lk.Pos(), "the table in which the class was found could not be read from the governing conditions")
			default:
				c.Bad(rule, key, lk.Pos(), "a class found in unicode.%s is folded with unicode.%s (the companion of unicode.%s): the lookup yields nil, nothing is added, and the class is not closed under case folding", found, fold, want)
			}
		}
	}
	if n < 2 {
		c.add(rule, "count:", token.NoPos, CountDropped, true, "only %d fold-table lookups found in appendNamedSet (FoldCategory and FoldScript confirmed by hand)", n)
	}
}

// THRESHOLD(is-recovering): the generated parser gets its error handler, recoverFromError and
// skipBrokenCode exactly when the grammar uses the error token, that is when the set of
// terminals that can follow `error` is non-empty. The value stored into IsRecovering must be the
// comparison of that length with zero (len > 0 / len != 0): any other threshold drops recovery
// for grammars whose only recovery rule is `stmt: error ';'`.
func ruleISRECOVERING(c *Ctx) {
	const rule = "THRESHOLD(is-recovering)"
	n := 0
	for _, f := range c.SrcFuncs("compiler") {
		for _, b := range f.Blocks {
			for _, ins := range b.Instrs {
				st, ok := ins.(*ssa.Store)
				if !ok {
					continue
				}
				fa, ok := st.Addr.(*ssa.FieldAddr)
				if !ok || fieldName(fa.X.Type(), fa.Field) != "IsRecovering" {
					continue
				}
				n++
				key := ssaFuncKey(f) + ":IsRecovering"
				l, op, r, ok := cmpNormV(st.Val, true)
				isLen := func(v ssa.Value) bool {
					call, ok := stripConv(v).(*ssa.Call)
					if !ok {
						return false
					}
					bi, ok := call.Call.Value.(*ssa.Builtin)
					return ok && bi.Name() == "len"
				}
				zero := func(v ssa.Value) bool {
					k, ok := v.(*ssa.Const)
					return ok && k.Value != nil && vpath(k) == "0"
				}
				switch {
				case !ok:
					c.Undec(rule, key, st.Pos(), "IsRecovering receives %s, not a comparison", vpath(st.Val))
				case (op == "<" && zero(l) && isLen(r)) || (op == "!=" && (zero(l) && isLen(r) || zero(r) && isLen(l))):
					c.Ok(rule, key, st.Pos(), "IsRecovering is `the set of terminals after error is non-empty`")
				default:
					c.Bad(rule, key, st.Pos(), "IsRecovering is %s %s %s, not a non-emptiness test: a grammar whose error token is followed by fewer terminals than the threshold is generated without error handler and recovery, and its parser stops at the first syntax error", vpath(l), op, vpath(r))
				}
			}
		}
	}
	if n < 1 {
		c.Lost(rule, "compiler:IsRecovering", "no store into IsRecovering found")
	}
}

// MINMAX(error-range): recoverFromError widens the error range [s, e) over the pending invalid
// tokens: the start may only move left. Every conditional replacement of s by a token's offset
// is governed by `tok.offset < s`; with the comparison flipped s jumps right past e and a
// SyntaxProblem with offset > endoffset is reported.
func ruleERRORRANGE(c *Ctx) {
	const rule = "MINMAX(error-range)"
	n := 0
	for _, rel := range parserPkgs {
		f := c.SSAFunc(rel, "(*Parser).recoverFromError")
		if f == nil {
			continue
		}
		ord := map[string]int{}
		for _, b := range f.Blocks {
			for _, ins := range b.Instrs {
				ph, ok := ins.(*ssa.Phi)
				if !ok || len(ph.Edges) != 2 {
					continue
				}
				for i, e := range ph.Edges {
					ld, ok := e.(*ssa.UnOp)
					if !ok || ld.Op != token.MUL || !strings.HasSuffix(vpath(ld.X), ".offset") || strings.HasSuffix(vpath(ld.X), ".endoffset") {
						continue
					}
					other := ph.Edges[1-i]
					if _, isPhi := other.(*ssa.Phi); !isPhi {
						continue
					}
					conds := edgeConds(b.Preds[i], b)
					if len(conds) == 0 {
						continue
					}
					l, op, r, ok := cmpNormV(conds[0].V, conds[0].Pol)
					if !ok {
						continue
					}
					if vpath(l) != vpath(e) && vpath(r) != vpath(e) {
						continue // not a compare-and-replace of the start (e.g. s = stack[pos].sym.offset)
					}
					n++
					key := ordKey(ord, rel+".Parser.recoverFromError:start")
					if (op == "<" || op == "<=") && vpath(l) == vpath(e) && r == other {
						c.Ok(rule, key, ph.Pos(), "the start of the error range is replaced by a token offset only when that offset is smaller")
					} else {
						c.Bad(rule, key, ph.Pos(), "the start of the error range is replaced by %s under `%s %s %s`: the start moves right, past the end computed from the same tokens, and a SyntaxProblem with offset > endoffset is reported", normalizePhi(vpath(e)), normalizePhi(vpath(l)), op, normalizePhi(vpath(r)))
					}
				}
			}
		}
	}
	if n < 2 {
		c.add(rule, "count:", token.NoPos, CountDropped, true, "only %d start-of-range updates found in recoverFromError (tm and js confirmed by hand)", n)
	}
}
