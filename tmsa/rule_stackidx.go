package main

import (
	"fmt"
	"go/ast"
	"go/constant"
	"go/token"
	"go/types"
	"strings"

	"golang.org/x/tools/go/packages"
)

// intLit reads a package-level `var name = []T{...}` / `[...]T{...}` of integer constants.
func intTable(p *packages.Package, name string) ([]int64, bool) {
	for _, f := range p.Syntax {
		for _, d := range f.Decls {
			gd, ok := d.(*ast.GenDecl)
			if !ok || gd.Tok != token.VAR {
				continue
			}
			for _, sp := range gd.Specs {
				vs := sp.(*ast.ValueSpec)
				for i, n := range vs.Names {
					if n.Name != name || i >= len(vs.Values) {
						continue
					}
					cl, ok := vs.Values[i].(*ast.CompositeLit)
					if !ok {
						return nil, false
					}
					var out []int64
					for _, e := range cl.Elts {
						tv, ok := p.TypesInfo.Types[e]
						if !ok || tv.Value == nil {
							return nil, false
						}
						v, ok := constant.Int64Val(constant.ToInt(tv.Value))
						if !ok {
							return nil, false
						}
						out = append(out, v)
					}
					return out, true
				}
			}
		}
	}
	return nil, false
}

func strTable(p *packages.Package, name string) ([]string, bool) {
	for _, f := range p.Syntax {
		for _, d := range f.Decls {
			gd, ok := d.(*ast.GenDecl)
			if !ok || gd.Tok != token.VAR {
				continue
			}
			for _, sp := range gd.Specs {
				vs := sp.(*ast.ValueSpec)
				for i, n := range vs.Names {
					if n.Name != name || i >= len(vs.Values) {
						continue
					}
					cl, ok := vs.Values[i].(*ast.CompositeLit)
					if !ok {
						return nil, false
					}
					var out []string
					for _, e := range cl.Elts {
						tv, ok := p.TypesInfo.Types[e]
						if !ok || tv.Value == nil || tv.Value.Kind() != constant.String {
							return nil, false
						}
						out = append(out, constant.StringVal(tv.Value))
					}
					return out, true
				}
			}
		}
	}
	return nil, false
}

// stackOff matches `len(stack)-K` (K constant) and returns K.
func stackOff(info *types.Info, e ast.Expr) (int64, bool) {
	be, ok := ast.Unparen(e).(*ast.BinaryExpr)
	if !ok || be.Op != token.SUB {
		return 0, false
	}
	call, ok := ast.Unparen(be.X).(*ast.CallExpr)
	if !ok || len(call.Args) != 1 {
		return 0, false
	}
	if id, ok := call.Fun.(*ast.Ident); !ok || id.Name != "len" {
		return 0, false
	}
	if id, ok := call.Args[0].(*ast.Ident); !ok || id.Name != "stack" {
		return 0, false
	}
	tv, ok := info.Types[be.Y]
	if !ok || tv.Value == nil {
		return 0, false
	}
	k, ok := constant.Int64Val(constant.ToInt(tv.Value))
	return k, ok
}

// STACKIDX: in generated applyRule, every stack reference of case i lies inside the right-hand
// side of rule i (or, for mid-rule nonterminals with an empty rule, inside the prefix).
func ruleSTACKIDX(c *Ctx) {
	const rule = "STACKIDX"
	nCases, nRefs := 0, 0
	for _, rel := range parserPkgs {
		p := c.Pkg(rel)
		if p == nil {
			continue
		}
		ruleLen, ok1 := intTable(p, "tmRuleLen")
		ruleSym, ok2 := intTable(p, "tmRuleSymbol")
		nonterms, _ := strTable(p, "tmNonterminals")
		_, fd := c.FuncDecl(rel, "Parser.applyRule")
		if fd == nil {
			continue
		}
		if !ok1 || !ok2 {
			c.Undec(rule, rel+":tables", fd.Pos(), "tmRuleLen/tmRuleSymbol are not constant composite literals any more")
			continue
		}
		numTokens := int64(-1)
		if tp := c.Pkg(rel + "/token"); tp != nil {
			if k, ok := tp.Types.Scope().Lookup("NumTokens").(*types.Const); ok {
				numTokens, _ = constant.Int64Val(constant.ToInt(k.Val()))
			}
		}
		var sw *ast.SwitchStmt
		ast.Inspect(fd.Body, func(n ast.Node) bool {
			if s, ok := n.(*ast.SwitchStmt); ok && sw == nil {
				if id, ok := s.Tag.(*ast.Ident); ok && id.Name == "rule" {
					sw = s
				}
			}
			return sw == nil
		})
		if sw == nil {
			c.Trivial(rule, rel+".Parser.applyRule", fd.Pos(), "applyRule has no per-rule code")
			continue
		}
		for _, cc := range sw.Body.List {
			cl := cc.(*ast.CaseClause)
			for _, ce := range cl.List {
				tv, ok := p.TypesInfo.Types[ce]
				if !ok || tv.Value == nil {
					continue
				}
				ri, _ := constant.Int64Val(constant.ToInt(tv.Value))
				if ri < 0 || ri >= int64(len(ruleLen)) {
					c.Bad(rule, fmt.Sprintf("%s.applyRule:case %d", rel, ri), ce.Pos(), "case %d is not a rule index (tmRuleLen has %d entries)", ri, len(ruleLen))
					continue
				}
				L := ruleLen[ri]
				midRule := false
				if L == 0 && numTokens >= 0 && ri < int64(len(ruleSym)) {
					nt := ruleSym[ri] - numTokens
					if nt >= 0 && nt < int64(len(nonterms)) && strings.Contains(nonterms[nt], "$") {
						midRule = true
					}
				}
				nCases++
				var probs []string
				refs := 0
				ast.Inspect(cl, func(n ast.Node) bool {
					switch x := n.(type) {
					case *ast.IndexExpr:
						if id, ok := x.X.(*ast.Ident); !ok || id.Name != "stack" {
							return true
						}
						k, ok := stackOff(p.TypesInfo, x.Index)
						if !ok {
							probs = append(probs, "stack["+types.ExprString(x.Index)+"]: not of the form len(stack)-K")
							return true
						}
						refs++
						if k < 1 || (!midRule && k > L) {
							probs = append(probs, fmt.Sprintf("stack[len(stack)-%d] lies outside the %d symbols of the rule", k, L))
						}
					case *ast.SliceExpr:
						if id, ok := x.X.(*ast.Ident); !ok || id.Name != "stack" {
							return true
						}
						refs++
						a, okA := int64(0), false
						if x.Low != nil {
							a, okA = stackOff(p.TypesInfo, x.Low)
						}
						b, okB := int64(0), true
						if x.High != nil {
							b, okB = stackOff(p.TypesInfo, x.High)
						}
						if !okA || !okB {
							probs = append(probs, "stack["+exprStr(x.Low)+":"+exprStr(x.High)+"]: not of the form len(stack)-A : len(stack)-B")
							return true
						}
						if !(0 <= b && b < a && (midRule || a <= L)) {
							probs = append(probs, fmt.Sprintf("stack[len(stack)-%d:len(stack)-%d] is not a non-empty sub-range of the %d symbols of the rule", a, b, L))
						}
						// fixTrailingWS gets exactly the whole right-hand side
						return true
					case *ast.CallExpr:
						if id, ok := x.Fun.(*ast.Ident); ok && id.Name == "fixTrailingWS" && len(x.Args) == 2 {
							if se, ok := x.Args[1].(*ast.SliceExpr); ok && se.High == nil {
								if a, ok := stackOff(p.TypesInfo, se.Low); ok && a != L {
									probs = append(probs, fmt.Sprintf("fixTrailingWS gets the last %d stack entries, the rule has %d symbols", a, L))
								}
							}
						}
					}
					return true
				})
				nRefs += refs
				key := fmt.Sprintf("%s.applyRule:case %d", rel, ri)
				if len(probs) > 0 {
					c.Bad(rule, key, ce.Pos(), "rule %d (length %d): %s", ri, L, strings.Join(uniqStrings(probs), "; "))
				} else if refs > 0 {
					c.Ok(rule, key, ce.Pos(), "%d stack references within the %d symbols of rule %d (mid-rule=%v)", refs, L, ri, midRule)
				} else {
					c.Trivial(rule, key, ce.Pos(), "no stack references")
				}
			}
		}
	}
	if nCases < 100 || nRefs < 150 {
		c.add(rule, "count:", token.NoPos, CountDropped, true, "applyRule cases=%d (>=100), stack references=%d (>=150)", nCases, nRefs)
	}
}
