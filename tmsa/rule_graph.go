package main

import (
	"fmt"
	"go/token"
	"sort"
	"strings"

	"golang.org/x/tools/go/ssa"
)

// Rules over util/graph (C26). Each is a structural necessary condition of the algorithm it is
// about; none decides the algorithm's result.

// WARSHALL(pivot-outermost): Matrix.Closure is Warshall's algorithm: [j,i] && [i,e] => [j,e].
// It computes the transitive closure only if the intermediate vertex i is the variable of the
// OUTERMOST loop (with the pivot in an inner loop, paths through a higher-numbered intermediate
// vertex are missed). In the triple loop, the edge tests must read HasEdge(x, pivot) and
// HasEdge(pivot, y) and the update must add (x, y), where pivot is the outermost induction
// variable.
func ruleWARSHALL(c *Ctx) {
	const rule = "WARSHALL(pivot-outermost)"
	f := c.SSAFunc("util/graph", "Matrix.Closure")
	if f == nil {
		f = c.SSAFunc("util/graph", "(*Matrix).Closure")
	}
	key := "util/graph.Matrix.Closure:pivot"
	if f == nil {
		c.Lost(rule, key, "function not found")
		return
	}
	loops := naturalLoops(f)
	// order loops by nesting (size of body)
	var outer *natLoop
	for _, l := range loops {
		if outer == nil || len(l.Body) > len(outer.Body) {
			outer = l
		}
	}
	if outer == nil || len(loops) < 3 {
		c.Lost(rule, key, "the triple loop was not found (%d loops)", len(loops))
		return
	}
	pivot, _, _ := outer.induction()
	if pivot == nil {
		c.Lost(rule, key, "the outermost loop has no induction variable")
		return
	}
	var tests, adds []*ssa.Call
	for _, b := range f.Blocks {
		for _, ins := range b.Instrs {
			call, ok := ins.(*ssa.Call)
			if !ok {
				continue
			}
			g := call.Call.StaticCallee()
			if g == nil {
				continue
			}
			switch g.Name() {
			case "HasEdge":
				tests = append(tests, call)
			case "AddEdge":
				adds = append(adds, call)
			}
		}
	}
	if len(tests) != 2 || len(adds) != 1 {
		c.Lost(rule, key, "expected two HasEdge tests and one AddEdge update, found %d and %d", len(tests), len(adds))
		return
	}
	arg := func(call *ssa.Call, i int) ssa.Value { return stripConv(call.Call.Args[i]) }
	// one test ends at the pivot, the other starts at it; the update joins the two other ends
	var into, outof *ssa.Call
	for _, t := range tests {
		switch {
		case arg(t, 2) == ssa.Value(pivot) && arg(t, 1) != ssa.Value(pivot):
			into = t
		case arg(t, 1) == ssa.Value(pivot) && arg(t, 2) != ssa.Value(pivot):
			outof = t
		}
	}
	if into == nil || outof == nil {
		c.Bad(rule, key, f.Pos(), "the two edge tests of Closure are not of the form HasEdge(x, pivot) / HasEdge(pivot, y) with pivot the OUTERMOST loop variable (%s): with the intermediate vertex in an inner loop the result is not the transitive closure", pivot.Comment)
		return
	}
	// the loops are reached for every matrix size: no return before the outermost loop
	for _, b := range f.Blocks {
		if len(b.Instrs) == 0 {
			continue
		}
		if _, isRet := b.Instrs[len(b.Instrs)-1].(*ssa.Return); isRet && reachesWithout(f.Blocks[0], b, outer.Header) && f.Blocks[0] != outer.Header {
			c.Bad(rule, "util/graph.Matrix.Closure:all-sizes", b.Instrs[len(b.Instrs)-1].Pos(), "Closure can return without entering its loops: a special case that skips the computation for some matrix sizes (two vertices that point at each other still need their self loops)")
		}
	}
	if arg(adds[0], 1) == arg(into, 1) && arg(adds[0], 2) == arg(outof, 2) {
		c.Ok(rule, key, adds[0].Pos(), "Closure tests HasEdge(x, pivot) and HasEdge(pivot, y) with the pivot in the outermost loop and adds (x, y)")
	} else {
		c.Bad(rule, key, adds[0].Pos(), "Closure adds an edge that does not join the source of the edge into the pivot with the target of the edge out of it")
	}
}

// CODEC(matrix-cell): AddEdge, HasEdge and Graph agree on the cell of edge (i, e): bit i*n+e;
// Graph decodes a set bit v as row v/n, column v%n.
func ruleMATRIXCELL(c *Ctx) {
	const rule = "CODEC(matrix-cell)"
	cell := func(name string) (string, token.Pos) {
		f := c.SSAFunc("util/graph", "Matrix."+name)
		if f == nil {
			return "", token.NoPos
		}
		for _, b := range f.Blocks {
			for _, ins := range b.Instrs {
				if call, ok := ins.(*ssa.Call); ok {
					if g := call.Call.StaticCallee(); g != nil && (g.Name() == "Set" || g.Name() == "Get") && len(call.Call.Args) == 2 {
						return vpath(call.Call.Args[1]), call.Pos()
					}
				}
			}
		}
		return "", token.NoPos
	}
	a, pa := cell("AddEdge")
	h, _ := cell("HasEdge")
	key := "util/graph.Matrix:cell(i,e)"
	want := "((i * m.n) + e)"
	switch {
	case a == "" || h == "":
		c.Lost(rule, key, "AddEdge/HasEdge do not address a bit of the set")
	case a != h:
		c.Bad(rule, key, pa, "AddEdge writes bit %s but HasEdge reads bit %s", a, h)
	case a != want:
		c.Bad(rule, key, pa, "edge (i, e) is stored at bit %s; row-major %s is what Graph() decodes (v/n, v%%n) and what makes distinct edges distinct bits", a, want)
	default:
		c.Ok(rule, key, pa, "AddEdge and HasEdge both address bit i*n+e")
	}
	// decoder
	g := c.SSAFunc("util/graph", "Matrix.Graph")
	key2 := "util/graph.Matrix.Graph:decode"
	if g == nil {
		c.Lost(rule, key2, "function not found")
		return
	}
	quo, rem := false, false
	for _, b := range g.Blocks {
		for _, ins := range b.Instrs {
			if bo, ok := ins.(*ssa.BinOp); ok {
				if bo.Op == token.QUO && strings.HasSuffix(vpath(bo.Y), "m.n") {
					quo = true
				}
				if bo.Op == token.REM && strings.HasSuffix(vpath(bo.Y), "m.n") {
					rem = true
				}
			}
		}
	}
	if quo && rem {
		c.Ok(rule, key2, g.Pos(), "Graph decodes a bit v as row v/n and column v%%n")
	} else {
		c.Bad(rule, key2, g.Pos(), "Graph does not decode a bit v as (v/n, v%%n) (found /n=%v %%n=%v)", quo, rem)
	}
}

// TRANSPOSE(direction): for every edge from -> to of the input, Transpose appends `from` to the
// list of `to` (and sizes that list by counting `to`). In the double loop over g, the value
// appended must be the outer index and the destination index the inner element, in both passes.
func ruleTRANSPOSE(c *Ctx) {
	const rule = "TRANSPOSE(direction)"
	f := c.SSAFunc("util/graph", "Transpose")
	key := "util/graph.Transpose:edge"
	if f == nil {
		c.Lost(rule, key, "function not found")
		return
	}
	loops := naturalLoops(f)
	n := 0
	for _, b := range f.Blocks {
		for _, ins := range b.Instrs {
			st, ok := ins.(*ssa.Store)
			if !ok {
				continue
			}
			ia, ok := st.Addr.(*ssa.IndexAddr)
			if !ok {
				continue
			}
			if _, tmp := ia.X.(*ssa.Alloc); tmp {
				continue // the variadic array of append
			}
			inner := innermostLoop(loops, b)
			if inner == nil {
				continue
			}
			// only stores inside a doubly nested loop
			var outer *natLoop
			for _, l := range loops {
				if l != inner && l.Body[inner.Header] && (outer == nil || len(l.Body) < len(outer.Body)) {
					outer = l
				}
			}
			if outer == nil {
				continue
			}
			// the element of the inner range: load of g[from][k]
			idx := vpath(ia.Index)
			val := vpath(st.Val)
			isElem := func(s string) bool { return strings.Count(s, "[") >= 2 && strings.HasPrefix(s, "g[") }
			switch {
			case strings.HasPrefix(val, "append(") && strings.Contains(vpath(ia.X), "φ") == false:
				n++
				k := fmt.Sprintf("%s#append", key)
				call, _ := st.Val.(*ssa.Call)
				appended := ""
				if call != nil && len(call.Call.Args) == 2 {
					if sl, ok := call.Call.Args[1].(*ssa.Slice); ok {
						if al, ok := sl.X.(*ssa.Alloc); ok {
							for _, ref := range *al.Referrers() {
								if ia2, ok := ref.(*ssa.IndexAddr); ok {
									for _, r2 := range *ia2.Referrers() {
										if s2, ok := r2.(*ssa.Store); ok {
											appended = vpath(s2.Val)
										}
									}
								}
							}
						}
					}
				}
				if isElem(idx) && !isElem(appended) && appended != "" {
					c.Ok(rule, k, st.Pos(), "ret[to] receives from (the outer index)")
				} else {
					c.Bad(rule, k, st.Pos(), "the reversed edge is stored as ret[%s] = append(.., %s): for an edge from -> to the list of `to` must receive `from`", normalizePhi(idx), normalizePhi(appended))
				}
			case strings.HasSuffix(val, " + 1)"):
				n++
				k := fmt.Sprintf("%s#count", key)
				if isElem(idx) {
					c.Ok(rule, k, st.Pos(), "list sizes are counted per target vertex")
				} else {
					c.Bad(rule, k, st.Pos(), "list sizes are counted per %s, not per target vertex: the pre-sized lists of the transposed graph overflow into each other", normalizePhi(idx))
				}
			}
		}
	}
	if n < 2 {
		c.Lost(rule, key, "the counting and appending stores of Transpose were not both found (%d)", n)
	}
}

// SENTINEL(dfs-height): LongestPath marks a vertex "in progress" with height -1, reports a cycle
// exactly when the DFS meets such a vertex, and returns nil under that flag before any path is
// assembled.
func ruleLONGESTPATH(c *Ctx) {
	const rule = "SENTINEL(dfs-height)"
	f := c.SSAFunc("util/graph", "LongestPath")
	key := "util/graph.LongestPath"
	if f == nil || len(f.AnonFuncs) == 0 {
		c.Lost(rule, key, "function (or its dfs closure) not found")
		return
	}
	dfs := f.AnonFuncs[0]
	// (a) in dfs: store height = -1 before the recursive calls; cycle = true only under height == -1
	marks, cycUnder := false, false
	for _, b := range dfs.Blocks {
		for _, ins := range b.Instrs {
			st, ok := ins.(*ssa.Store)
			if !ok {
				continue
			}
			p := vpath(st.Addr)
			if strings.HasSuffix(p, ".height") && vpath(st.Val) == "-1" {
				marks = true
			}
			if strings.HasSuffix(p, "cycle") && vpath(st.Val) == "true" {
				for _, g := range flattenConds(governing(b)) {
					if l, op, r, ok := cmpNorm(g.V, g.Pol); ok && op == "==" && (r == "-1" || l == "-1") {
						cycUnder = true
					}
				}
			}
		}
	}
	if marks && cycUnder {
		c.Ok(rule, key+":in-progress", dfs.Pos(), "a vertex is marked -1 while its successors are explored and meeting a -1 vertex sets the cycle flag")
	} else {
		c.Bad(rule, key+":in-progress", dfs.Pos(), "the in-progress marker (height = -1: %v) and the cycle flag under height == -1 (%v) do not both exist: a back edge is not recognised as a cycle", marks, cycUnder)
	}
	// (c) every vertex is explored: in the loop over all vertices the dfs call lies on every path
	{
		visited := false
		for _, lp := range naturalLoops(f) {
			var callB *ssa.BasicBlock
			for b := range lp.Body {
				for _, ins := range b.Instrs {
					if call, ok := ins.(*ssa.Call); ok {
						if g := resolveCallee(call); g == dfs {
							callB = b
						}
					}
				}
			}
			if callB == nil {
				continue
			}
			visited = true
			skipped := false
			for _, s := range lp.Header.Succs {
				if lp.Body[s] && s != callB && reachesWithout(s, lp.Header, callB) {
					skipped = true
				}
			}
			if skipped {
				c.Bad(rule, key+":all-vertices", callB.Instrs[0].Pos(), "the loop over the vertices can skip the dfs call for some vertex: a cycle that is not reachable from the explored vertices goes unnoticed and a path is returned for a cyclic graph")
			} else {
				c.Ok(rule, key+":all-vertices", callB.Instrs[0].Pos(), "dfs is started from every vertex")
			}
		}
		if !visited {
			c.Lost(rule, key+":all-vertices", "no loop calling the dfs closure found")
		}
	}
	// (d) every successor is explored: in dfs's loop over graph[i] the recursive call lies on every
	// path through the body (a successor that is skipped - a self-loop, say - is a cycle unnoticed)
	{
		found := false
		for _, lp := range naturalLoops(dfs) {
			var callB *ssa.BasicBlock
			for b := range lp.Body {
				for _, ins := range b.Instrs {
					call, ok := ins.(*ssa.Call)
					if !ok {
						continue
					}
					if g := resolveCallee(call); g == dfs {
						callB = b
					} else if ld, ok := call.Call.Value.(*ssa.UnOp); ok && ld.Op == token.MUL {
						if fv, ok := ld.X.(*ssa.FreeVar); ok && fv.Name() == "dfs" {
							callB = b
						}
					}
				}
			}
			if callB == nil {
				continue
			}
			found = true
			skipped := false
			for _, sc := range lp.Header.Succs {
				if lp.Body[sc] && sc != callB && reachesWithout(sc, lp.Header, callB) {
					skipped = true
				}
			}
			if skipped {
				c.Bad(rule, key+":all-successors", callB.Instrs[0].Pos(), "the loop over the successors of a vertex can skip the recursive call for some successor: an edge that is never followed (a self-loop, for one) is a cycle that goes unnoticed, and a path is returned for a cyclic graph")
			} else {
				c.Ok(rule, key+":all-successors", callB.Instrs[0].Pos(), "dfs descends into every successor")
			}
		}
		if !found {
			c.Lost(rule, key+":all-successors", "no loop with the recursive call found in the dfs closure")
		}
	}
	// (b) in LongestPath: a return of nil governed by the cycle flag dominates the path loop
	nilRet := false
	for _, b := range f.Blocks {
		if len(b.Instrs) == 0 {
			continue
		}
		ret, ok := b.Instrs[len(b.Instrs)-1].(*ssa.Return)
		if !ok || len(ret.Results) != 1 {
			continue
		}
		if k, ok := ret.Results[0].(*ssa.Const); ok && k.IsNil() {
			for _, g := range flattenConds(governing(b)) {
				if strings.HasSuffix(vpath(g.V), "cycle") && g.Pol {
					nilRet = true
				}
			}
		}
	}
	if nilRet {
		c.Ok(rule, key+":nil-on-cycle", f.Pos(), "nil is returned exactly under the cycle flag")
	} else {
		c.Bad(rule, key+":nil-on-cycle", f.Pos(), "no `return nil` governed by the cycle flag: a cyclic graph yields a path")
	}
}

// PAIR(scc-stack): in strongConnect every vertex pushed on the SCC stack is marked onStack, a
// component is emitted exactly under lowLink[v] == index[v], and every vertex of the emitted
// component is cleared from onStack before the stack is cut back to the component's base.
func ruleSCCSTACK(c *Ctx) {
	const rule = "PAIR(scc-stack)"
	f := c.SSAFunc("util/graph", "(*tarjan).strongConnect")
	key := "util/graph.tarjan.strongConnect"
	if f == nil {
		c.Lost(rule, key, "function not found")
		return
	}
	var setB, cbB, clearB, cutB *ssa.BasicBlock
	for _, b := range f.Blocks {
		for _, ins := range b.Instrs {
			switch y := ins.(type) {
			case *ssa.Call:
				if g := y.Call.StaticCallee(); g != nil {
					switch g.Name() {
					case "Set":
						setB = b
					case "Clear":
						clearB = b
					}
				} else if strings.HasSuffix(vpath(y.Call.Value), ".callback") {
					cbB = b
				}
			case *ssa.Store:
				if strings.HasSuffix(vpath(y.Addr), ".stack") {
					if sl, ok := y.Val.(*ssa.Slice); ok && sl.High != nil && sl.Low == nil {
						cutB = b
					}
				}
			}
		}
	}
	if setB == nil || cbB == nil || clearB == nil || cutB == nil {
		c.Lost(rule, key, "push/onStack.Set (%v), callback (%v), onStack.Clear (%v) or the stack cut (%v) not found", setB != nil, cbB != nil, clearB != nil, cutB != nil)
		return
	}
	// emission guard
	guard := false
	for _, g := range flattenConds(governing(cbB)) {
		if l, op, r, ok := cmpNorm(g.V, g.Pol); ok && op == "==" && (strings.Contains(l, ".lowLink[") && strings.Contains(r, ".index[") || strings.Contains(r, ".lowLink[") && strings.Contains(l, ".index[")) {
			guard = true
		}
	}
	if guard {
		c.Ok(rule, key+":emit-guard", cbB.Instrs[0].Pos(), "a component is emitted under lowLink[v] == index[v]")
	} else {
		c.Bad(rule, key+":emit-guard", cbB.Instrs[0].Pos(), "the component callback is not governed by lowLink[v] == index[v]")
	}
	// clear loop lies between the callback and the cut, under the same guard
	clearLoop := innermostLoop(naturalLoops(f), clearB)
	if clearLoop != nil && cbB.Dominates(clearLoop.Header) && !clearLoop.Body[cutB] && clearLoop.Header.Dominates(cutB) && cbB.Dominates(cutB) {
		c.Ok(rule, key+":clear-before-cut", clearB.Instrs[0].Pos(), "members of the emitted component are cleared from onStack before the stack is cut back")
	} else {
		c.Bad(rule, key+":clear-before-cut", cutB.Instrs[0].Pos(), "the stack is cut back without clearing onStack for the emitted component first (or outside the emission branch): later back edges into a finished component lower low-links")
	}
	if setB == f.Blocks[0] {
		c.Ok(rule, key+":push-marks", setB.Instrs[0].Pos(), "a vertex is pushed and marked onStack on entry")
	} else {
		c.Bad(rule, key+":push-marks", setB.Instrs[0].Pos(), "onStack.Set is not executed unconditionally on entry of strongConnect")
	}
}

// LOOPRANGE(closure): each of the three loops of Matrix.Closure visits every vertex: it starts at
// 0 and runs while v < m.n, with m.n itself as the bound. A shortened range (n-1, or a start at
// 1) never uses the last (first) vertex as intermediate vertex, source or target, and pairs
// connected only through it are missing from the closure.
func ruleCLOSURERANGE(c *Ctx) {
	const rule = "LOOPRANGE(closure)"
	f := c.SSAFunc("util/graph", "Matrix.Closure")
	if f == nil {
		f = c.SSAFunc("util/graph", "(*Matrix).Closure")
	}
	if f == nil {
		c.Lost(rule, "util/graph.Matrix.Closure", "function not found")
		return
	}
	loops := naturalLoops(f)
	sort.Slice(loops, func(i, j int) bool { return len(loops[i].Body) > len(loops[j].Body) })
	n := 0
	for i, lp := range loops {
		phi, dir, start := lp.induction()
		if phi == nil {
			continue
		}
		n++
		key := fmt.Sprintf("util/graph.Matrix.Closure:loop#%d", i+1)
		var bound ssa.Value
		op := ""
		for _, b := range []*ssa.BasicBlock{lp.Header} {
			if ifi, ok := b.Instrs[len(b.Instrs)-1].(*ssa.If); ok {
				if l, o, r, ok := cmpNormV(ifi.Cond, true); ok && stripConv(l) == ssa.Value(phi) {
					bound, op = r, o
				}
			}
		}
		st, isK := start.(*ssa.Const)
		switch {
		case dir != 1 || !isK || st.Value == nil || st.Int64() != 0:
			c.Bad(rule, key, phi.Pos(), "the loop over %s does not start at 0 and count upwards", phi.Comment)
		case bound == nil || op != "<" || vpath(bound) != "m.n":
			c.Bad(rule, key, phi.Pos(), "the loop over %s does not run while %s < m.n (found: %s %s): not every vertex is used, pairs connected only through a skipped vertex are missing from the closure", phi.Comment, phi.Comment, op, func() string {
				if bound == nil {
					return "?"
				}
				return vpath(bound)
			}())
		default:
			c.Ok(rule, key, phi.Pos(), "%s ranges over [0, m.n)", phi.Comment)
		}
	}
	if n < 3 {
		c.add(rule, "count:", token.NoPos, CountDropped, true, "only %d counting loops found in Matrix.Closure (3 expected)", n)
	}
}
