package main

import (
	"fmt"
	"go/token"
	"regexp"
	"strings"

	"golang.org/x/tools/go/ssa"
)

var lenMinusRe = regexp.MustCompile(`^\(len\((.+)\) - (\d+)\)$`)

// LOOPBOUND: a counting loop `for i < len(s)-K` (K > 0) whose body only ever reads s[i] (never
// s[i+j]) stops K elements early: the last elements are never inspected.
func ruleLOOPBOUND(c *Ctx, pkgs ...string) {
	const rule = "LOOPBOUND"
	n := 0
	for _, rel := range pkgs {
		for _, f := range c.SrcFuncs(rel) {
			ord := map[string]int{}
			for _, lp := range naturalLoops(f) {
				phi, dir, _ := lp.induction()
				if phi == nil || dir != 1 {
					continue
				}
				// header (or its first block) condition i < bound
				var bound ssa.Value
				for _, ins := range lp.Header.Instrs {
					if ifi, ok := ins.(*ssa.If); ok {
						if l, op, r, ok := cmpNormV(ifi.Cond, true); ok && op == "<" && stripConv(l) == ssa.Value(phi) {
							bound = r
						}
					}
				}
				if bound == nil {
					continue
				}
				n++
				m := lenMinusRe.FindStringSubmatch(vpath(bound))
				if m == nil {
					continue
				}
				sl := m[1]
				// how is the slice indexed in the body?
				plain, ahead := false, false
				for b := range lp.Body {
					for _, ins := range b.Instrs {
						var x, idx ssa.Value
						switch y := ins.(type) {
						case *ssa.IndexAddr:
							x, idx = y.X, y.Index
						case *ssa.Index:
							x, idx = y.X, y.Index
						case *ssa.Lookup:
							x, idx = y.X, y.Index
						default:
							continue
						}
						if vpath(x) != sl {
							continue
						}
						if stripConv(idx) == ssa.Value(phi) {
							plain = true
						} else if strings.Contains(vpath(idx), "+") {
							ahead = true
						}
					}
				}
				if !plain || ahead {
					continue
				}
				key := ordKey(ord, fmt.Sprintf("%s:for i < %s", ssaFuncKey(f), normalizePhi(vpath(bound))))
				c.Bad(rule, key, lp.Header.Instrs[0].Pos(), "the loop runs while i < %s but only reads %s[i]: the last %s element(s) of %s are never inspected", normalizePhi(vpath(bound)), sl, m[2], sl)
			}
		}
	}
	c.Ok(rule, "scan", token.NoPos, "%d counting loops in %v inspected: none stops short of the slice it scans element by element", n, pkgs)
}
