package main

import (
	"fmt"
	"go/constant"
	"go/token"
	"go/types"
	"strconv"
	"strings"

	"golang.org/x/tools/go/ssa"
)

// Rules over shiftdfa.Pack / (*Scanner).Scan (C24).
func ruleSHIFTDFA(c *Ctx) {
	pack := c.SSAFunc("shiftdfa", "Pack")
	scan := c.SSAFunc("shiftdfa", "(*Scanner).Scan")
	if pack == nil || scan == nil {
		c.Lost("INTERVAL(bitpack)", "shiftdfa.Pack", "Pack or Scanner.Scan not found")
		return
	}
	// guards of Pack: comparisons whose one branch returns an error
	type guard struct {
		l, op, r string
		pos      token.Pos
		b        *ssa.BasicBlock
	}
	var guards []guard
	for _, b := range pack.Blocks {
		if len(b.Instrs) == 0 {
			continue
		}
		ifi, ok := b.Instrs[len(b.Instrs)-1].(*ssa.If)
		if !ok {
			continue
		}
		// which branch returns a non-nil error directly?
		for i, s := range b.Succs {
			if len(s.Instrs) == 0 {
				continue
			}
			ret, ok := s.Instrs[len(s.Instrs)-1].(*ssa.Return)
			if !ok || len(ret.Results) != 2 {
				continue
			}
			if cst, isC := ret.Results[1].(*ssa.Const); isC && cst.IsNil() {
				continue
			}
			if l, op, r, ok := cmpNorm(ifi.Cond, i == 0); ok {
				guards = append(guards, guard{l, op, r, ifi.Cond.Pos(), b})
			}
		}
	}
	num := func(s string) (int64, bool) {
		v, err := strconv.ParseInt(s, 0, 64)
		return v, err == nil
	}
	// --- bit budget
	{
		const rule = "INTERVAL(bitpack)"
		// multiplier used for the per-state field
		mult := map[int64]int{}
		var actMul, actAdd int64 = -1, -1
		for _, b := range pack.Blocks {
			for _, ins := range b.Instrs {
				bo, ok := ins.(*ssa.BinOp)
				if !ok {
					continue
				}
				if cst, ok := bo.Y.(*ssa.Const); ok && cst.Value != nil && cst.Value.Kind() == constant.Int {
					k := cst.Int64()
					if bo.Op == token.MUL {
						p := normalizePhi(vpath(bo.X))
						if strings.Contains(p, "-1 -") {
							actMul = k
						} else {
							mult[k]++
						}
					}
					if bo.Op == token.ADD {
						if in, ok := bo.X.(*ssa.BinOp); ok && in.Op == token.MUL && strings.Contains(vpath(in.X), "-1 -") {
							actAdd = k
						}
					}
				}
			}
		}
		width := int64(0)
		for k, n := range mult {
			if n >= 2 && k > width {
				width = k
			}
		}
		if width == 0 {
			c.Undec(rule, "shiftdfa.Pack:field-width", pack.Pos(), "could not find the per-state field width (target*W and state*W)")
		} else {
			c.Ok(rule, "shiftdfa.Pack:field-width", pack.Pos(), "state fields are %d bits wide (target*%d, state*%d)", width, width, width)
		}
		// states guard
		okStates := false
		for _, g := range guards {
			if g.op == "<" && strings.Contains(g.r, "len(t.Dfa)") {
				if k, ok := num(g.l); ok && width > 0 {
					okStates = true
					key := "shiftdfa.Pack:max-states"
					onEoi := int64(0)
					if p := c.Pkg("shiftdfa"); p != nil {
						if tn, ok := p.Types.Scope().Lookup("Scanner").(*types.TypeName); ok {
							if st, ok := tn.Type().Underlying().(*types.Struct); ok {
								for i := 0; i < st.NumFields(); i++ {
									if arr, ok := st.Field(i).Type().(*types.Array); ok && st.Field(i).Name() == "onEoi" {
										onEoi = arr.Len()
									}
								}
							}
						}
					}
					// state index < k, shift = index*width, the field must fit a uint64: (k-1)*width+width <= 64
					// and a state number stored as target*width must stay below 2^width: (k-1)*width < 2^width
					switch {
					case k*width > 64:
						c.Bad(rule, key, g.pos, "Pack accepts up to %d states; state #%d is shifted by %d and its %d-bit field does not fit a uint64 row (needs %d bits)", k, k-1, (k-1)*width, width, k*width)
					case (k-1)*width >= 1<<uint(width):
						c.Bad(rule, key, g.pos, "target state %d is stored as %d which does not fit a %d-bit field", k-1, (k-1)*width, width)
					case onEoi > 0 && k > onEoi:
						c.Bad(rule, key, g.pos, "Pack accepts %d states but Scanner.onEoi has %d entries", k, onEoi)
					default:
						c.Ok(rule, key, g.pos, "states <= %d: largest shift %d + %d bits <= 64, largest state code %d < %d, onEoi has %d entries", k, (k-1)*width, width, (k-1)*width, int64(1)<<uint(width), onEoi)
					}
				}
			}
		}
		if !okStates {
			c.Bad(rule, "shiftdfa.Pack:max-states", pack.Pos(), "Pack does not bound the number of states")
		}
		// action guard
		okAct := false
		for _, g := range guards {
			if g.op == "<=" && strings.Contains(g.r, "-1 -") {
				if k, ok := num(g.l); ok && width > 0 && actMul > 0 {
					okAct = true
					key := "shiftdfa.Pack:max-action"
					if (k-1)*actMul+actAdd >= 1<<uint(width) {
						c.Bad(rule, key, g.pos, "actions up to %d are encoded as action*%d+%d = %d, which does not fit %d bits", k-1, actMul, actAdd, (k-1)*actMul+actAdd, width)
					} else if actAdd != 1 || actMul != 2 {
						c.Bad(rule, key, g.pos, "accept codes must be odd (action*2+1) to be told from state codes (even); found action*%d+%d", actMul, actAdd)
					} else {
						c.Ok(rule, key, g.pos, "actions < %d encode as action*2+1 <= %d < %d", k, (k-1)*2+1, int64(1)<<uint(width))
					}
				}
			}
		}
		if !okAct {
			c.Bad(rule, "shiftdfa.Pack:max-action", pack.Pos(), "Pack does not bound the action (token) number before packing it into a state field")
		}
		// Scan decodes with the same constants
		var mask, div, half int64 = -1, -1, -1
		for _, b := range scan.Blocks {
			for _, ins := range b.Instrs {
				if bo, ok := ins.(*ssa.BinOp); ok {
					if cst, ok := bo.Y.(*ssa.Const); ok && cst.Value != nil && cst.Value.Kind() == constant.Int {
						k, _ := constant.Int64Val(cst.Value)
						switch {
						case bo.Op == token.AND && k > 1:
							mask = k
						case bo.Op == token.QUO && k > 2:
							div = k
						case bo.Op == token.QUO && k == 2:
							half = k
						}
					}
				}
			}
		}
		key := "shiftdfa.Scanner.Scan:decode"
		if width > 0 && mask == (1<<uint(width))-1 && div == width && half == 2 {
			c.Ok(rule, key, scan.Pos(), "Scan masks with %d, divides state codes by %d and accept codes by 2: the inverse of Pack's encoding", mask, div)
		} else {
			c.Bad(rule, key, scan.Pos(), "Scan decodes with mask %d, state divisor %d, accept divisor %d; Pack encodes %d-bit fields (mask %d), state*%d, action*2+1", mask, div, half, width, (int64(1)<<uint(width))-1, width)
		}
	}
	// --- ASCII guard vs byte split
	{
		const rule = "CONSTAGREE(ascii)"
		var split int64 = -1
		for _, b := range pack.Blocks {
			if len(b.Instrs) == 0 {
				continue
			}
			if ifi, ok := b.Instrs[len(b.Instrs)-1].(*ssa.If); ok {
				if l, op, r, ok := cmpNorm(ifi.Cond, true); ok && op == "<" && strings.HasPrefix(l, "φ") {
					if k, ok := num(r); ok && k >= 64 && k < 256 {
						split = k
					}
				}
			}
		}
		found := false
		for _, g := range guards {
			if g.op == "<" && strings.Contains(g.r, "t.SymbolMap[") && strings.HasSuffix(g.r, ".Start") {
				if k, ok := num(g.l); ok {
					found = true
					key := "shiftdfa.Pack:ascii-guard"
					switch {
					case split < 0:
						c.Undec(rule, key, g.pos, "byte split constant of the per-byte loop not found")
					case k > split:
						c.Bad(rule, key, g.pos, "Pack gives every byte >= %d the symbol of the last symbol-map entry, which is right only if that entry starts at <= %d; the guard accepts automata whose last entry starts as high as %d, i.e. automata that distinguish among non-ASCII bytes", split, split, k)
					default:
						c.Ok(rule, key, g.pos, "guard constant %d <= byte split %d: all bytes >= %d belong to the last symbol-map entry", k, split, split)
					}
				}
			}
		}
		if !found {
			c.Bad(rule, "shiftdfa.Pack:ascii-guard", pack.Pos(), "Pack has no guard on the start of the last symbol-map entry although it maps all bytes >= 128 to that entry's symbol")
		}
	}
	// --- decode -1-target only valid without backtracking; single start state
	{
		const rule = "GUARD(nobacktrack)"
		bt, ss := false, false
		for _, g := range guards {
			s := g.l + " " + g.op + " " + g.r
			if strings.Contains(s, "len(t.Backtrack)") && (g.op == "!=" || g.op == "<") {
				bt = true
			}
			if strings.Contains(s, "len(t.StateMap)") {
				ss = true
			}
		}
		if bt {
			c.Ok(rule, "shiftdfa.Pack:backtrack", pack.Pos(), "tables with backtracking checkpoints are rejected (the decode -1-cell is the accept class only when actionStart = -1)")
		} else {
			c.Bad(rule, "shiftdfa.Pack:backtrack", pack.Pos(), "Pack decodes negative cells as -1-cell = action, which is wrong when the tables have backtracking checkpoints; they must be rejected")
		}
		if ss {
			c.Ok(rule, "shiftdfa.Pack:startconds", pack.Pos(), "tables with several start states are rejected")
		} else {
			c.Bad(rule, "shiftdfa.Pack:startconds", pack.Pos(), "Scan always starts in state 0; tables with several start conditions must be rejected")
		}
	}
	_ = fmt.Sprint
}

// GLOBALS for a package list: no package-level mutable state (results depend on arguments only).
func rulePKGGLOBALS(c *Ctx, pkgrels ...string) {
	const rule = "GLOBALS"
	for _, rel := range pkgrels {
		n := 0
		for _, f := range c.SrcFuncs(rel) {
			if f.Name() == "init" || (f.Parent() != nil && f.Parent().Name() == "init") {
				continue
			}
			n++
			for _, b := range f.Blocks {
				for _, ins := range b.Instrs {
					var g *ssa.Global
					what := ""
					switch x := ins.(type) {
					case *ssa.Store:
						g, what = globalRoot(x.Addr, 0), "store"
					case *ssa.MapUpdate:
						g, what = globalRoot(x.Map, 0), "map update"
					case ssa.CallInstruction:
						cc := x.Common()
						if callee := cc.StaticCallee(); callee != nil && len(cc.Args) > 0 {
							nm := calleeName(callee)
							if strings.HasPrefix(nm, "sync.Map.") || strings.HasPrefix(nm, "sync.Pool.") || strings.HasPrefix(nm, "sync/atomic.") {
								g, what = globalRoot(cc.Args[0], 0), "call of "+nm
							}
						}
					}
					if g == nil || g.Pkg == nil {
						continue
					}
					if r, in := relPkg(g.Pkg.Pkg); !in || r != rel {
						continue
					}
					key := fmt.Sprintf("%s:%s", ssaFuncKey(f), g.Name())
					c.Bad(rule, key, ins.Pos(), "%s on package-level variable %s.%s: the result of a later call can depend on earlier calls in the same process", what, g.Pkg.Pkg.Name(), g.Name())
				}
			}
		}
		c.Ok(rule, "scan:"+rel, token.NoPos, "scanned %d functions of %s for writes to package-level state (stores, map updates, sync.Map/Pool/atomic calls)", n, rel)
	}
}
