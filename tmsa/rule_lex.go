package main

import (
	"fmt"
	"go/ast"
	"go/token"
	"go/types"
	"regexp"
	"strings"

	"golang.org/x/tools/go/ssa"
)

// Rules over lex/generator.go and lex/lex.go (C09).

// DTX(accept-priority): among the rules accepting in one DFA state the one with the highest
// precedence wins; equal precedence with different actions is an error.
func ruleACCEPTPRIO(c *Ctx) {
	const rule = "DTX(accept-priority)"
	f := c.SSAFunc("lex", "(*generator).generate")
	if f == nil {
		c.Lost(rule, "lex.generator.generate", "function not found")
		return
	}
	var replaceOK, nilOK, errOK bool
	var bad []string
	for _, b := range f.Blocks {
		if len(b.Instrs) == 0 {
			continue
		}
		ifi, ok := b.Instrs[len(b.Instrs)-1].(*ssa.If)
		if !ok {
			continue
		}
		l, op, r, isCmp := cmpNorm(ifi.Cond, true)
		if !isCmp {
			continue
		}
		nl, nr := normalizePhi(l), normalizePhi(r)
		isAcc := func(s string) bool { return strings.HasPrefix(s, "φ.") || s == "φ" }
		switch {
		case op == "==" && (nl == "φ" && nr == "nil" || nr == "φ" && nl == "nil"):
			nilOK = true
		case strings.HasSuffix(nl, ".Precedence") && strings.HasSuffix(nr, ".Precedence") && (op == "<" || op == "<="):
			if op == "<" && isAcc(nl) && !isAcc(nr) {
				replaceOK = true
			} else {
				bad = append(bad, "the accepted rule is replaced when "+nl+" "+op+" "+nr+"; it must be replaced only by a rule of strictly higher precedence (accepted.Precedence < candidate.Precedence)")
			}
		case strings.HasSuffix(nl, ".Precedence") && strings.HasSuffix(nr, ".Precedence") && op == "==":
			// the error branch: also requires different actions
			for _, s := range b.Succs[:1] {
				for _, ins := range s.Instrs {
					if i2, ok := ins.(*ssa.If); ok {
						if l2, op2, r2, ok := cmpNorm(i2.Cond, true); ok && op2 == "!=" && strings.HasSuffix(l2, ".Action") && strings.HasSuffix(r2, ".Action") {
							errOK = true
						}
					}
				}
			}
		}
	}
	key := "lex.generator.generate:accept-choice"
	switch {
	case len(bad) > 0:
		c.Bad(rule, key, f.Pos(), "%s", strings.Join(bad, "; "))
	case !replaceOK || !nilOK:
		c.Bad(rule, key, f.Pos(), "accept choice not recognised: first-candidate test found=%v, strictly-higher-precedence test found=%v", nilOK, replaceOK)
	case !errOK:
		c.Bad(rule, key, f.Pos(), "two rules of equal precedence with different actions accepting the same text must be reported ('two rules are identical'); the test Precedence == Precedence && Action != Action was not found")
	default:
		c.Ok(rule, key, f.Pos(), "first candidate or strictly higher precedence replaces the accepted rule; equal precedence with a different action is an error")
	}
}

// FIELDCOV(checkpoint): backtracking checkpoints are shared only between transitions with the
// same target state AND the same accepted action.
func ruleCHECKPOINTKEY(c *Ctx) {
	const rule = "FIELDCOV(checkpoint)"
	f := c.SSAFunc("lex", "(*generator).generate")
	if f == nil {
		c.Lost(rule, "lex.generator.generate", "function not found")
		return
	}
	// the key of the dedupe map: type of the map bt
	var keyDesc []string
	hasTarget, hasAccept := false, false
	found := false
	for _, b := range f.Blocks {
		for _, ins := range b.Instrs {
			lk, ok := ins.(*ssa.Lookup)
			if !ok || !lk.CommaOk {
				continue
			}
			// a map whose values are ints and whose lookups gate the reuse of a checkpoint state
			mp := normalizePhi(vpath(lk.X))
			if !strings.Contains(mp, "φ") && !strings.Contains(mp, "bt") {
				continue
			}
			found = true
			// describe the key: struct fields stored into a local (possibly through copies), or a scalar
			var describe func(v ssa.Value, d int)
			describe = func(v ssa.Value, d int) {
				if d > 4 {
					return
				}
				if ld, ok := v.(*ssa.UnOp); ok {
					if al, ok := ld.X.(*ssa.Alloc); ok && al.Referrers() != nil {
						for _, r := range *al.Referrers() {
							switch y := r.(type) {
							case *ssa.Store:
								if y.Addr == ssa.Value(al) {
									describe(y.Val, d+1)
								}
							case *ssa.FieldAddr:
								if y.Referrers() == nil {
									continue
								}
								for _, r2 := range *y.Referrers() {
									if st, ok := r2.(*ssa.Store); ok {
										p := normalizePhi(vpath(st.Val))
										keyDesc = append(keyDesc, fieldName(y.X.Type(), y.Field)+"="+p)
										if strings.Contains(p, ".action[") {
											hasTarget = true
										}
										if strings.Contains(p, ".accept.Action") {
											hasAccept = true
										}
									}
								}
							}
						}
						return
					}
				}
				p := normalizePhi(vpath(v))
				keyDesc = append(keyDesc, p)
				if strings.Contains(p, ".action[") {
					hasTarget = true
				}
				if strings.Contains(p, ".accept.Action") {
					hasAccept = true
				}
			}
			describe(lk.Index, 0)
		}
	}
	key := "lex.generator.generate:checkpoint-key"
	switch {
	case !found:
		c.Trivial(rule, key, f.Pos(), "checkpoints are not shared (no dedupe map): always safe")
	case hasTarget && hasAccept:
		c.Ok(rule, key, f.Pos(), "checkpoint dedupe key = {%s}: target state and accepted action", strings.Join(uniqStrings(keyDesc), ", "))
	default:
		c.Bad(rule, key, f.Pos(), "checkpoints are shared by key {%s}; the key must contain both the target state (%v) and the accepted action (%v), otherwise a fallback returns another rule's token", strings.Join(uniqStrings(keyDesc), ", "), hasTarget, hasAccept)
	}
	// the emitted checkpoint carries the same two values
	okCP := false
	for _, b := range f.Blocks {
		for _, ins := range b.Instrs {
			if st, ok := ins.(*ssa.Store); ok {
				if fa, ok := st.Addr.(*ssa.FieldAddr); ok && strings.HasSuffix(fa.X.Type().String(), "lex.Checkpoint") && fieldName(fa.X.Type(), fa.Field) == "Action" {
					p := normalizePhi(vpath(st.Val))
					if strings.Contains(p, ".accept") || strings.Contains(p, "accept") {
						okCP = true
					}
				}
			}
		}
	}
	if okCP {
		c.Ok(rule, "lex.generator.generate:checkpoint-action", f.Pos(), "Checkpoint.Action is the action accepted in the state the transition leaves")
	} else {
		c.Bad(rule, "lex.generator.generate:checkpoint-action", f.Pos(), "Checkpoint.Action must be the accepted action of the source state")
	}
}

var (
	reBtEnc     = regexp.MustCompile(`^\(-1 - \((.+) - len\(g\.states\)\)\)$`)
	rePerm      = regexp.MustCompile(`^φ\[(.+)\]$|^permutation\[(.+)\]$`)
	reAccShift  = regexp.MustCompile(`^\((.+) - (φ|numBtStates)\)$`)
	reAccDecode = regexp.MustCompile(`^\((?:\(-1 - len\(t\.Backtrack\)\)|lex\.Tables\.ActionStart\(t\)) - (.+)\)$`)
)

func isActionStart(s string) bool {
	return strings.Contains(s, "len(t.Backtrack)") || strings.Contains(s, "ActionStart(")
}

// CODEC(lexdfa): writer (generator.generate) and reader (Tables.Scan) of the DFA cell classes.
func ruleLEXCODEC(c *Ctx) {
	const rule = "CODEC(lexdfa)"
	g := c.SSAFunc("lex", "(*generator).generate")
	scan := c.SSAFunc("lex", "(*Tables).Scan")
	if g == nil || scan == nil {
		c.Lost(rule, "lex", "generator.generate or Tables.Scan not found")
		return
	}
	// writer: default action encodings
	wr := map[string]bool{}
	for _, b := range g.Blocks {
		for _, ins := range b.Instrs {
			switch x := ins.(type) {
			case *ssa.Store:
				ia, ok := x.Addr.(*ssa.IndexAddr)
				if !ok || !strings.HasSuffix(normalizePhi(vpath(ia.X)), ".action") {
					continue
				}
				for _, v := range expandPhi(x.Val, 0) {
					p := normalizePhi(vpath(v))
					conds := governing(b)
					switch {
					case reBtEnc.MatchString(p):
						// under val >= len(g.states)
						ok := false
						for _, gc := range flattenConds(conds) {
							if l, op, r, isC := cmpNorm(gc.V, gc.Pol); isC && op == "<=" && l == "len(g.states)" && strings.Contains(normalizePhi(r), "φ") {
								ok = true
							}
						}
						if ok {
							wr["checkpoint"] = true
							c.Ok(rule, "lex.generator.generate:checkpoint-cell", x.Pos(), "checkpoint k is written as -1-k (cells in (actionStart, -1])")
						} else {
							c.Bad(rule, "lex.generator.generate:checkpoint-cell", x.Pos(), "the checkpoint encoding -1-(val-len(states)) must be applied exactly to val >= len(states)")
						}
					case reAccShift.MatchString(p):
						wr["accept-shift"] = true
						c.Ok(rule, "lex.generator.generate:accept-shift", x.Pos(), "accept cells -1-action are moved below the checkpoint range by subtracting the number of checkpoints")
					case p == "φ" || strings.HasPrefix(p, "(-1 - ") && strings.Contains(p, ".Action"):
						wr["accept"] = true
					}
				}
			}
		}
	}
	// default action -1 - acceptRule.Action
	for _, b := range g.Blocks {
		for _, ins := range b.Instrs {
			if bo, ok := ins.(*ssa.BinOp); ok {
				p := normalizePhi(vpath(bo))
				if strings.HasPrefix(p, "(-1 - ") && strings.HasSuffix(p, ".Action)") {
					wr["accept"] = true
					c.Ok(rule, "lex.generator.generate:accept-cell", bo.Pos(), "accepting cells are written as -1-action; -1 is the invalid-token action 0")
				}
			}
		}
	}
	for _, k := range []string{"checkpoint", "accept-shift", "accept"} {
		if !wr[k] {
			c.Bad(rule, "lex.generator.generate:"+k, g.Pos(), "writer encoding for the %s class not found in generate (expected: accept = -1-action, shifted by -numBtStates; checkpoint k = -1-k)", k)
		}
	}
	// the number subtracted equals the number of checkpoints returned
	// reader
	nAcc, nBt := 0, 0
	for _, b := range scan.Blocks {
		for _, ins := range b.Instrs {
			switch x := ins.(type) {
			case *ssa.BinOp:
				p := normalizePhi(vpath(x))
				m := reAccDecode.FindStringSubmatch(p)
				if m == nil {
					continue
				}
				// only decodes that are returned
				isRet := false
				if x.Referrers() != nil {
					for _, r := range *x.Referrers() {
						if _, ok := r.(*ssa.Return); ok {
							isRet = true
						}
					}
				}
				if !isRet {
					continue
				}
				nAcc++
				cellPath := vpath(x.Y)
				okLE := false
				for _, gc := range flattenConds(governing(b)) {
					l, op, r, isC := cmpNormV(gc.V, gc.Pol)
					if !isC {
						continue
					}
					if op == "<=" && l == x.Y && isActionStart(vpath(r)) {
						okLE = true
					}
					if op == "==" && (l == x.Y && isActionStart(vpath(r)) || r == x.Y && isActionStart(vpath(l))) {
						okLE = true
					}
				}
				key := ordKey(map[string]int{}, "lex.Tables.Scan:accept-decode:"+normalizePhi(cellPath))
				if nAcc > 1 {
					key = key + "#" + string(rune('0'+nAcc))
				}
				// the pending checkpoint wins over the invalid action: a test cell == actionStart
				// (followed by size > 0 -> return the checkpoint) dominates the decode
				okBack := false
				for _, b2 := range scan.Blocks {
					if len(b2.Instrs) == 0 || !b2.Dominates(b) {
						continue
					}
					if ifi, ok := b2.Instrs[len(b2.Instrs)-1].(*ssa.If); ok {
						l, op, r, isC := cmpNormV(ifi.Cond, true)
						if isC && op == "==" && (l == x.Y && isActionStart(vpath(r)) || r == x.Y && isActionStart(vpath(l))) {
							// its true branch tests size > 0 and returns
							for _, ins2 := range b2.Succs[0].Instrs {
								if i2, ok := ins2.(*ssa.If); ok {
									if l2, op2, r2, ok := cmpNorm(i2.Cond, true); ok && op2 == "<" && l2 == "0" && strings.HasPrefix(normalizePhi(r2), "φ") {
										okBack = true
									}
								}
							}
						}
					}
				}
				if okLE && !okBack {
					c.Bad(rule, key+":fallback", x.Pos(), "before reporting an invalid token (cell == actionStart) Scan must fall back to the last accepted position when one exists (size > 0); that test no longer dominates this return")
				} else if okLE {
					c.Ok(rule, key+":fallback", x.Pos(), "cell == actionStart with a recorded checkpoint (size > 0) returns the checkpoint instead of the invalid action")
				}
				if okLE {
					c.Ok(rule, key, x.Pos(), "actionStart - cell is computed only for cell <= actionStart (accept class)")
				} else {
					c.Bad(rule, key, x.Pos(), "actionStart - cell is returned as the action without excluding the other classes of the cell %s: a checkpoint cell (actionStart < cell < 0) or a state (cell >= 0) decodes to a bogus action", normalizePhi(cellPath))
				}
			case *ssa.IndexAddr:
				p := normalizePhi(vpath(x))
				if !strings.HasPrefix(p, "t.Backtrack[") {
					continue
				}
				nBt++
				idx := normalizePhi(vpath(x.Index))
				var cell ssa.Value
				if bo, ok := stripConv(x.Index).(*ssa.BinOp); ok && bo.Op == token.SUB && vpath(bo.X) == "-1" {
					cell = bo.Y
				}
				okGT, okNeg := false, false
				for _, gc := range flattenConds(governing(b)) {
					l, op, r, isC := cmpNormV(gc.V, gc.Pol)
					if !isC || cell == nil {
						continue
					}
					if op == "<" && isActionStart(vpath(l)) && r == cell {
						okGT = true
					}
					if op == "<" && l == cell && vpath(r) == "0" {
						okNeg = true
					}
				}
				key := "lex.Tables.Scan:checkpoint-decode"
				if nBt > 1 {
					key += "#" + string(rune('0'+nBt))
				}
				if cell != nil && okGT && okNeg {
					c.Ok(rule, key, x.Pos(), "Backtrack[-1-cell] is read only for actionStart < cell < 0")
				} else {
					c.Bad(rule, key, x.Pos(), "Backtrack is indexed with %s without establishing actionStart < cell < 0 (found: >actionStart=%v, <0=%v)", idx, okGT, okNeg)
				}
			}
		}
	}
	if nAcc < 2 || nBt < 1 {
		c.add(rule, "count:scan", 0, CountDropped, true, "Tables.Scan: %d accept decodes and %d checkpoint decodes found (2 and 1 confirmed by hand)", nAcc, nBt)
	}
}

// PAIR(checkpoint): recording a backtracking checkpoint always records both what was accepted
// and where: in Tables.Scan (action, size), in generated lexers (backupRule, backupOffset and,
// when keywords are hashed, backupHash).
func ruleCHECKPOINTPAIR(c *Ctx) {
	const rule = "PAIR(checkpoint)"
	type spec struct {
		pkg, fn string
		lead    string   // variable assigned from the checkpoint table
		with    []string // variables that must be assigned in the same block
		opt     []string // required only if the function declares them
	}
	specs := []spec{{"lex", "Tables.Scan", "action", []string{"size"}, nil}}
	for _, rel := range lexerPkgs {
		specs = append(specs, spec{rel, "Lexer.Next", "backupRule", []string{"backupOffset"}, []string{"backupHash"}})
	}
	n := 0
	for _, s := range specs {
		p, fd := c.FuncDecl(s.pkg, s.fn)
		if fd == nil {
			continue
		}
		declared := map[string]bool{}
		ast.Inspect(fd, func(nd ast.Node) bool {
			if id, ok := nd.(*ast.Ident); ok && p.TypesInfo.Defs[id] != nil {
				declared[id.Name] = true
			}
			return true
		})
		ord := 0
		ast.Inspect(fd.Body, func(nd ast.Node) bool {
			blk, ok := nd.(*ast.BlockStmt)
			if !ok {
				return true
			}
			assigned := map[string]bool{}
			var leadPos token.Pos
			for _, st := range blk.List {
				as, ok := st.(*ast.AssignStmt)
				if !ok {
					continue
				}
				for i, l := range as.Lhs {
					id, ok := l.(*ast.Ident)
					if !ok {
						continue
					}
					assigned[id.Name] = true
					if id.Name == s.lead && as.Tok == token.ASSIGN {
						// from the checkpoint table?
						var rhs ast.Expr
						if len(as.Rhs) == len(as.Lhs) {
							rhs = as.Rhs[i]
						} else if len(as.Rhs) > 0 {
							rhs = as.Rhs[0]
						}
						if rhs != nil {
							t := types.ExprString(rhs)
							if strings.Contains(t, "Backtrack") || strings.Contains(t, "bt.") || strings.Contains(t, "tmBacktracking") {
								leadPos = as.Pos()
							}
						}
					}
				}
			}
			if leadPos == token.NoPos {
				return true
			}
			n++
			ord++
			key := fmt.Sprintf("%s.%s:checkpoint#%d", s.pkg, s.fn, ord)
			var missing []string
			for _, w := range s.with {
				if !assigned[w] {
					missing = append(missing, w)
				}
			}
			for _, w := range s.opt {
				if declared[w] && !assigned[w] {
					missing = append(missing, w)
				}
			}
			if len(missing) > 0 {
				c.Bad(rule, key, leadPos, "a checkpoint records %s but not %v in the same step: a later fallback pairs the new rule with a stale position (or hash)", s.lead, missing)
			} else {
				c.Ok(rule, key, leadPos, "%s is recorded together with %v", s.lead, append(append([]string{}, s.with...), s.opt...))
			}
			return true
		})
	}
	if n < 6 {
		c.add(rule, "count:", token.NoPos, CountDropped, true, "only %d checkpoint recording sites found (Scan: 2, generated lexers: 2 each where backtracking is used)", n)
	}
}

// UNITS(scan-size): Tables.Scan has two integers called "start": the start-condition parameter
// and the loop-local offset of the rune being classified. The size it returns (and records at
// checkpoints) is an offset into text: every value that flows into the returned size is 0,
// len(text) or derived from the byte cursor - never the start-condition parameter, which has the
// same type. (At end of input the checkpoint branch records len(text): everything was consumed.)
func ruleSCANSIZE(c *Ctx) {
	const rule = "UNITS(scan-size)"
	key := "lex.Tables.Scan:size"
	f := c.SSAFunc("lex", "(*Tables).Scan")
	if f == nil || len(f.Params) < 3 {
		c.Lost(rule, key, "function not found")
		return
	}
	startCond := f.Params[1]
	n := 0
	bad := token.NoPos
	badSub := token.NoPos
	seen := map[ssa.Value]bool{}
	var walk func(v ssa.Value, d int)
	walk = func(v ssa.Value, d int) {
		if seen[v] || d > 10 {
			return
		}
		seen[v] = true
		n++
		switch x := v.(type) {
		case *ssa.Parameter:
			if x == startCond && bad == token.NoPos {
				bad = x.Pos()
			}
		case *ssa.Phi:
			for _, e := range x.Edges {
				walk(e, d+1)
			}
		case *ssa.BinOp:
			// the cursor advances by the width of the decoded rune: "cursor - k" is the start
			// of the current symbol only where every symbol is one byte wide
			if k, isConst := x.Y.(*ssa.Const); isConst && x.Op == token.SUB && k.Value != nil && k.Int64() != 0 && badSub == token.NoPos {
				bytesOnly := false
				for _, gc := range flattenConds(governing(x.Block())) {
					if strings.HasSuffix(vpath(gc.V), ".ScanBytes") && gc.Pol {
						bytesOnly = true
					}
				}
				if !bytesOnly {
					badSub = x.Pos()
				}
			}
			walk(x.X, d+1)
			walk(x.Y, d+1)
		case *ssa.Convert:
			walk(x.X, d+1)
		}
	}
	for _, b := range f.Blocks {
		if ret, ok := b.Instrs[len(b.Instrs)-1].(*ssa.Return); ok && len(ret.Results) == 2 {
			walk(ret.Results[0], 0)
			if bad != token.NoPos && ret.Pos() != token.NoPos {
				bad = ret.Pos()
			}
		}
	}
	switch {
	case n < 3:
		c.Lost(rule, key, "the size result of Scan was not found")
	case badSub != token.NoPos:
		c.Bad(rule, key, badSub, "the size Scan returns is computed as cursor - constant outside bytes mode: the cursor advances by the width of the decoded rune, so before a 2-4 byte character the reported size (or the checkpoint offset) ends inside that character")
	case bad != token.NoPos:
		c.Bad(rule, key, bad, "the start-condition parameter flows into the size Scan returns: a token length is reported in units of start conditions (a token that ends at the end of input is cut short or becomes an invalid token)")
	default:
		c.Ok(rule, key, f.Pos(), "the returned size is made of 0, len(text) and cursor offsets only, none of them cursor - constant outside bytes mode (%d values examined)", n)
	}
}

// GUARD(eoi-cycle): at the end of input every generated scanner (and Tables.Scan) keeps feeding
// the end-of-input symbol while the state is non-negative, without consuming anything. The scan
// therefore terminates only if the DFA has no cycle made of end-of-input transitions
// (`/a{eoi}*/` has one). generate() must refuse such tables: it follows action[EOI] from each
// state with a seen-set and reports an error on a repeat.
func ruleEOICYCLE(c *Ctx) {
	const rule = "GUARD(eoi-cycle)"
	key := "lex.generator.generate:eoi-cycle"
	f := c.SSAFunc("lex", "(*generator).generate")
	if f == nil {
		c.Lost(rule, key, "function not found")
		return
	}
	for _, lp := range naturalLoops(f) {
		// the loop advances along .action[0]
		follows := false
		var lookups []*ssa.Lookup
		for b := range lp.Body {
			for _, ins := range b.Instrs {
				switch x := ins.(type) {
				case *ssa.IndexAddr:
					if k, ok := x.Index.(*ssa.Const); ok && k.Value != nil && k.Int64() == 0 && strings.HasSuffix(vpath(x.X), ".action") {
						follows = true
					}
				case *ssa.Lookup:
					if _, isMap := x.X.Type().Underlying().(*types.Map); isMap {
						lookups = append(lookups, x)
					}
				}
			}
		}
		if !follows || len(lookups) == 0 {
			continue
		}
		// a repeat leads to a diagnostic and out of the function
		reports := false
		for _, b := range f.Blocks {
			if !lp.Header.Dominates(b) {
				continue
			}
			for _, ins := range b.Instrs {
				if call, ok := ins.(*ssa.Call); ok {
					if g := call.Call.StaticCallee(); g != nil && (g.Name() == "Add" || g.Name() == "Errorf") && strings.Contains(calleeName(g), "Status") {
						reports = true
					}
				}
			}
		}
		if reports {
			c.Ok(rule, key, lp.Header.Instrs[0].Pos(), "generate follows action[EOI] with a seen-set and reports a cycle of end-of-input transitions")
			return
		}
	}
	c.Bad(rule, key, f.Pos(), "generate never checks for a cycle of end-of-input transitions: a pattern such as /a{eoi}*/ compiles, and every scanner built from the tables spins forever at the end of the input")
}

// UNITS(scan-bytes): tables compiled in bytes mode have one symbol per byte value. Tables.Scan
// must then classify text[index] and advance by one; decoding a rune is correct only when
// t.ScanBytes is false. Every call of utf8.DecodeRune* in Scan is governed by the false edge
// of t.ScanBytes (decoding first and "falling back" for r > 0xff treats the two-byte encodings of
// U+0080..U+00FF as one symbol).
func ruleSCANBYTES(c *Ctx) {
	const rule = "UNITS(scan-bytes)"
	f := c.SSAFunc("lex", "(*Tables).Scan")
	if f == nil {
		c.Lost(rule, "lex.Tables.Scan", "function not found")
		return
	}
	n := 0
	for _, b := range f.Blocks {
		for _, ins := range b.Instrs {
			call, ok := ins.(*ssa.Call)
			if !ok {
				continue
			}
			g := call.Call.StaticCallee()
			if g == nil || g.Pkg == nil || g.Pkg.Pkg.Path() != "unicode/utf8" || !strings.HasPrefix(g.Name(), "DecodeRune") {
				continue
			}
			n++
			key := fmt.Sprintf("lex.Tables.Scan:decode#%d", n)
			runeMode := false
			for _, gc := range flattenConds(governing(b)) {
				if strings.HasSuffix(vpath(gc.V), ".ScanBytes") && !gc.Pol {
					runeMode = true
				}
			}
			if runeMode {
				c.Ok(rule, key, call.Pos(), "a rune is decoded only when t.ScanBytes is false")
			} else {
				c.Bad(rule, key, call.Pos(), "Scan decodes a rune on a path where t.ScanBytes may be true: in bytes mode every byte is a symbol of its own, a decoded U+0080..U+00FF consumes two bytes as one symbol")
			}
		}
	}
	if n < 1 {
		c.Lost(rule, "lex.Tables.Scan:decode", "no utf8.DecodeRune* call found")
	}
}
