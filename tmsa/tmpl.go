package main

import (
	"fmt"
	"os"
	"path/filepath"
	"sort"
	"strings"
	"text/template/parse"
)

// Template trees: gen/templates/*.tmpl parsed with text/template/parse (never executed).

type tmplFile struct {
	Name  string
	Path  string
	Trees map[string]*parse.Tree // define name -> tree (the file's top level is under its own name)
	Text  string
}

func (c *Ctx) templates() (map[string]*tmplFile, error) {
	if c.tmplFiles != nil || c.tmplErr != nil {
		return c.tmplFiles, c.tmplErr
	}
	dir := filepath.Join(c.Repo, "gen", "templates")
	names, err := filepath.Glob(filepath.Join(dir, "*.tmpl"))
	if err != nil || len(names) == 0 {
		c.tmplErr = fmt.Errorf("no templates under %s", dir)
		return nil, c.tmplErr
	}
	sort.Strings(names)
	out := map[string]*tmplFile{}
	for _, p := range names {
		b, err := os.ReadFile(p)
		if err != nil {
			c.tmplErr = err
			return nil, err
		}
		base := filepath.Base(p)
		t := parse.New(base)
		t.Mode = parse.SkipFuncCheck
		set := map[string]*parse.Tree{}
		if _, err := t.Parse(string(b), "{{", "}}", set); err != nil {
			c.tmplErr = fmt.Errorf("%s: %v", base, err)
			return nil, c.tmplErr
		}
		out[base] = &tmplFile{Name: base, Path: p, Trees: set, Text: string(b)}
	}
	c.tmplFiles = out
	return out, nil
}

// tguard is one enclosing condition of a template node.
type tguard struct {
	Pipe string
	Pol  bool
	Kind string // if | range | with
}

func guardsString(gs []tguard) string {
	var s []string
	for _, g := range gs {
		p := g.Pipe
		if !g.Pol {
			p = "not(" + p + ")"
		}
		if g.Kind != "if" {
			p = g.Kind + " " + p
		}
		s = append(s, p)
	}
	return strings.Join(s, " && ")
}

// walkTmpl visits every node with the stack of enclosing conditions.
func walkTmpl(n parse.Node, gs []tguard, visit func(n parse.Node, gs []tguard)) {
	if n == nil {
		return
	}
	visit(n, gs)
	switch x := n.(type) {
	case *parse.ListNode:
		if x == nil {
			return
		}
		for _, ch := range x.Nodes {
			walkTmpl(ch, gs, visit)
		}
	case *parse.IfNode:
		p := x.Pipe.String()
		walkTmpl(x.List, append(append([]tguard{}, gs...), tguard{p, true, "if"}), visit)
		if x.ElseList != nil {
			walkTmpl(x.ElseList, append(append([]tguard{}, gs...), tguard{p, false, "if"}), visit)
		}
	case *parse.RangeNode:
		p := x.Pipe.String()
		walkTmpl(x.List, append(append([]tguard{}, gs...), tguard{p, true, "range"}), visit)
		if x.ElseList != nil {
			walkTmpl(x.ElseList, append(append([]tguard{}, gs...), tguard{p, false, "range"}), visit)
		}
	case *parse.WithNode:
		p := x.Pipe.String()
		walkTmpl(x.List, append(append([]tguard{}, gs...), tguard{p, true, "with"}), visit)
		if x.ElseList != nil {
			walkTmpl(x.ElseList, append(append([]tguard{}, gs...), tguard{p, false, "with"}), visit)
		}
	}
}

// tmplPos renders file:line of a node.
func tmplPos(f *tmplFile, n parse.Node) string {
	off := int(n.Position())
	if off > len(f.Text) {
		off = len(f.Text)
	}
	return fmt.Sprintf("gen/templates/%s:%d", f.Name, 1+strings.Count(f.Text[:off], "\n"))
}

func (c *Ctx) addT(rule, key, pos string, st Status, format string, args ...any) {
	c.obs = append(c.obs, Ob{Rule: rule, Key: key, Pos: pos, Status: st, Fact: fmt.Sprintf(format, args...), NonTrivial: true})
}
