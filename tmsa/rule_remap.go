package main

import (
	"fmt"
	"go/token"
	"go/types"
	"strings"

	"golang.org/x/tools/go/ssa"
)

// GUARD(remap-markerfree): ActionVars.Remap maps a symbol position of the source rule to its
// index among the symbols that occupy parser stack slots. State markers are part of rule.RHS but
// are never pushed, so the value stored into the remap (generateTables' actualPos) must be the
// running count of pushed symbols — a counter variable that only ever grows by one next to an
// append of a non-marker symbol — and never a length of rule.RHS.
func ruleREMAP(c *Ctx) {
	const rule = "GUARD(remap-markerfree)"
	top := c.SSAFunc("compiler", "generateTables")
	if top == nil {
		c.Lost(rule, "compiler.generateTables", "function not found")
		return
	}
	var fs []*ssa.Function
	var add func(f *ssa.Function)
	add = func(f *ssa.Function) {
		fs = append(fs, f)
		for _, a := range f.AnonFuncs {
			add(a)
		}
	}
	add(top)
	n := 0
	for _, f := range fs {
		for _, b := range f.Blocks {
			for _, ins := range b.Instrs {
				mu, ok := ins.(*ssa.MapUpdate)
				if !ok {
					continue
				}
				mt, ok := mu.Map.Type().Underlying().(*types.Map)
				if !ok || !types.Identical(mt.Key(), types.Typ[types.Int]) || !types.Identical(mt.Elem(), types.Typ[types.Int]) {
					continue
				}
				// keyed by an expression position
				if !strings.HasSuffix(vpath(mu.Key), ".Pos") {
					continue
				}
				n++
				key := fmt.Sprintf("%s:remap#%d", ssaFuncKey(f), n)
				ld, ok := mu.Value.(*ssa.UnOp)
				if !ok || ld.Op != token.MUL {
					c.Bad(rule, key, mu.Pos(), "the remap entry for %s is %s, not the counter of pushed symbols: with a state marker earlier in the rule every later $-reference binds to the next stack slot", vpath(mu.Key), vpath(mu.Value))
					continue
				}
				// all stores to the counter variable
				var cell ssa.Value = ld.X
				okCounter, why := true, ""
				nInc := 0
				for _, g := range fs {
					for _, gb := range g.Blocks {
						for _, gi := range gb.Instrs {
							st, ok := gi.(*ssa.Store)
							if !ok || !sameVar(st.Addr, cell) {
								continue
							}
							if k, ok := st.Val.(*ssa.Const); ok && k.Value != nil && k.Int64() == 0 {
								continue
							}
							bo, ok := st.Val.(*ssa.BinOp)
							if !ok || bo.Op != token.ADD || vpath(bo.Y) != "1" {
								okCounter, why = false, "it is assigned "+vpath(st.Val)
								continue
							}
							nInc++
							for _, gc := range flattenConds(governing(gb)) {
								if l, op, r, ok := cmpNorm(gc.V, gc.Pol); ok && op == "==" && (strings.HasSuffix(l, ".Kind") || strings.HasSuffix(r, ".Kind")) {
									if kc, ok := c.enumConst("syntax", "StateMarker"); ok && (l == fmt.Sprint(kc) || r == fmt.Sprint(kc)) {
										okCounter, why = false, "it is incremented for state markers"
									}
								}
							}
						}
					}
				}
				if okCounter && nInc > 0 {
					c.Ok(rule, key, mu.Pos(), "the remap entry is the counter %s, which only grows by one per pushed symbol (%d increments, none for a state marker)", vpath(cell), nInc)
				} else {
					if why == "" {
						why = "it is never incremented"
					}
					c.Bad(rule, key, mu.Pos(), "the remap entry for %s is read from %s, which is not a count of pushed symbols: %s", vpath(mu.Key), vpath(cell), why)
				}
			}
		}
	}
	if n < 1 {
		c.Lost(rule, "compiler.generateTables:remap", "no store into the position remap (map[int]int keyed by expr.Pos) found")
	}
}

// sameVar: two addresses of the same captured/local variable (a free variable in a closure and
// the allocation in its parent are matched by name).
func sameVar(a, b ssa.Value) bool {
	if a == b {
		return true
	}
	name := func(v ssa.Value) string {
		switch y := v.(type) {
		case *ssa.FreeVar:
			return y.Name()
		case *ssa.Alloc:
			return y.Comment
		}
		return ""
	}
	na, nb := name(a), name(b)
	return na != "" && na == nb
}
