package main

import (
	"fmt"
	"go/token"
	"strings"

	"golang.org/x/tools/go/ssa"
)

// STAGEGATE: in compiler.(*compiler).compileParser a later pipeline stage is unreachable once
// an earlier one reported an error (later stages log.Fatal on models the earlier ones reject).
func ruleSTAGEGATE(c *Ctx) {
	const rule = "STAGEGATE"
	f := c.SSAFunc("compiler", "(*compiler).compileParser")
	if f == nil {
		c.Lost(rule, "compiler.compiler.compileParser", "function not found")
		return
	}
	stages := []string{"compiler.syntaxLoader.load", "compiler.checkSyntaxes", "syntax.PropagateLookaheads", "syntax.Instantiate", "syntax.ExtractTypes", "compiler.checkLookaheads", "syntax.Expand", "syntax.ResolveSets", "compiler.generateTables"}
	type st struct {
		name string
		call *ssa.Call
		err  ssa.Value
	}
	var found []st
	for _, b := range f.Blocks {
		for _, ins := range b.Instrs {
			call, ok := ins.(*ssa.Call)
			if !ok {
				continue
			}
			g := call.Common().StaticCallee()
			if g == nil {
				continue
			}
			n := calleeName(g)
			for _, s := range stages {
				if n == s {
					e := st{name: s, call: call}
					if isErrorType(call.Type()) {
						e.err = call
					} else if call.Referrers() != nil {
						for _, r := range *call.Referrers() {
							if ex, ok := r.(*ssa.Extract); ok && isErrorType(ex.Type()) {
								e.err = ex
							}
						}
					}
					found = append(found, e)
				}
			}
		}
	}
	byName := map[string]st{}
	for _, s := range found {
		byName[s.name] = s
	}
	for _, s := range stages {
		if _, ok := byName[s]; !ok {
			c.Lost(rule, "compiler.compileParser:"+s, "compileParser no longer calls %s", s)
		}
	}
	for i, a := range stages {
		sa, ok := byName[a]
		if !ok {
			continue
		}
		for _, b := range stages[i+1:] {
			sb, ok := byName[b]
			if !ok {
				continue
			}
			key := fmt.Sprintf("compiler.compileParser:%s=>%s", a[strings.LastIndex(a, ".")+1:], b[strings.LastIndex(b, ".")+1:])
			gated := false
			// path-based: from the error branch of the test on this stage's error no later stage is reachable
			var errSucc []*ssa.BasicBlock
			for _, bb := range f.Blocks {
				if len(bb.Instrs) == 0 {
					continue
				}
				ifi, ok := bb.Instrs[len(bb.Instrs)-1].(*ssa.If)
				if !ok {
					continue
				}
				l, op, r, isC := cmpNormV(ifi.Cond, true)
				if !isC || (op != "!=" && op != "==") {
					continue
				}
				isNil := func(v ssa.Value) bool { k, ok := v.(*ssa.Const); return ok && k.IsNil() }
				var other ssa.Value
				if isNil(r) {
					other = l
				} else if isNil(l) {
					other = r
				} else {
					continue
				}
				match := sa.err != nil && other == sa.err
				if call, ok := other.(*ssa.Call); ok && sa.err == nil && strings.Contains(vpath(call), ".Err(") && instrDominates(sa.call, call) {
					match = true
				}
				if !match {
					continue
				}
				if op == "!=" {
					errSucc = append(errSucc, bb.Succs[0])
				} else {
					errSucc = append(errSucc, bb.Succs[1])
				}
			}
			if len(errSucc) > 0 {
				gated = true
				for _, es := range errSucc {
					if reachesWithout(es, sb.call.Block(), nil) {
						gated = false
					}
				}
			}
			if gated {
				c.Ok(rule, key, sb.call.Pos(), "%s runs only if %s returned no error", b, a)
			} else {
				c.Bad(rule, key, sb.call.Pos(), "%s can run although %s reported an error: later stages exit the process on models an earlier stage rejected", b, a)
			}
			break // adjacent pair is enough: gating is transitive through dominance
		}
	}
}

// UNITS(bytes): status.SourceRange offsets and columns are byte based; values that count runes
// must not flow into them.
func ruleRANGEUNITS(c *Ctx) {
	const rule = "UNITS(bytes)"
	n := 0
	for _, rel := range []string{"compiler", "status", "lex", "syntax", "parsers/tm", "parsers/tm/ast", "gen", "grammar"} {
		for _, f := range c.SrcFuncs(rel) {
			// rune-unit sources
			tainted := map[ssa.Value]string{}
			for _, b := range f.Blocks {
				for _, ins := range b.Instrs {
					switch x := ins.(type) {
					case *ssa.Call:
						if g := x.Common().StaticCallee(); g != nil {
							switch calleeName(g) {
							case "unicode/utf8.RuneCountInString", "unicode/utf8.RuneCount", "unicode/utf16.Encode":
								tainted[x] = calleeName(g)
							}
						}
						if bi, ok := x.Common().Value.(*ssa.Builtin); ok && bi.Name() == "len" {
							if cv, ok := x.Common().Args[0].(*ssa.Convert); ok && strings.HasPrefix(cv.Type().String(), "[]rune") {
								tainted[x] = "len([]rune(…))"
							}
						}
					}
				}
			}
			if len(tainted) == 0 {
				continue
			}
			// forward
			changed := true
			for changed {
				changed = false
				for _, b := range f.Blocks {
					for _, ins := range b.Instrs {
						v, ok := ins.(ssa.Value)
						if !ok || tainted[v] != "" {
							continue
						}
						switch x := ins.(type) {
						case *ssa.BinOp:
							if s := tainted[x.X]; s != "" {
								tainted[v], changed = s, true
							} else if s := tainted[x.Y]; s != "" {
								tainted[v], changed = s, true
							}
						case *ssa.Convert:
							if s := tainted[x.X]; s != "" {
								tainted[v], changed = s, true
							}
						case *ssa.Phi:
							for _, e := range x.Edges {
								if s := tainted[e]; s != "" {
									tainted[v], changed = s, true
								}
							}
						}
					}
				}
			}
			ord := map[string]int{}
			for _, b := range f.Blocks {
				for _, ins := range b.Instrs {
					st, ok := ins.(*ssa.Store)
					if !ok {
						continue
					}
					fa, ok := st.Addr.(*ssa.FieldAddr)
					if !ok || !strings.HasSuffix(strings.TrimPrefix(fa.X.Type().String(), "*"), "status.SourceRange") {
						continue
					}
					fld := fieldName(fa.X.Type(), fa.Field)
					if src := tainted[st.Val]; src != "" {
						n++
						c.Bad(rule, ordKey(ord, ssaFuncKey(f)+":SourceRange."+fld), st.Pos(), "SourceRange.%s (bytes, like Offset/EndOffset) receives a value derived from %s (runes): line/column no longer match the byte offset when non-ASCII text precedes the position", fld, src)
					}
				}
			}
		}
	}
	c.Ok(rule, "scan", token.NoPos, "no rune-counting value flows into status.SourceRange fields in the compiler packages (%d violations)", n)
}
