package main

import (
	"fmt"
	"go/ast"
	"go/constant"
	"go/token"
	"go/types"
	"strings"

	"golang.org/x/tools/go/ssa"
)

// SHIFTWIDTH: a left shift by a constant is applied to a value wide enough to hold the result
// (the lookahead memoization key is uint64(offset) + uint64(end)<<40).
func ruleSHIFTWIDTH(c *Ctx) {
	const rule = "SHIFTWIDTH"
	n := 0
	for _, rel := range parserPkgs {
		for _, f := range c.SrcFuncs(rel) {
			ord := map[string]int{}
			for _, b := range f.Blocks {
				for _, ins := range b.Instrs {
					bo, ok := ins.(*ssa.BinOp)
					if !ok || bo.Op != token.SHL {
						continue
					}
					k, ok := bo.Y.(*ssa.Const)
					if !ok || k.Value == nil {
						continue
					}
					sh, _ := constant.Int64Val(constant.ToInt(k.Value))
					bt, ok := bo.X.Type().Underlying().(*types.Basic)
					if !ok {
						continue
					}
					w := int64(64)
					switch bt.Kind() {
					case types.Int8, types.Uint8:
						w = 8
					case types.Int16, types.Uint16:
						w = 16
					case types.Int32, types.Uint32:
						w = 32
					}
					if sh < 8 {
						continue
					}
					n++
					key := ordKey(ord, fmt.Sprintf("%s:<<%d", ssaFuncKey(f), sh))
					if sh >= w {
						c.Bad(rule, key, bo.Pos(), "a %d-bit value is shifted left by %d: the result is always 0 (the shift must be applied after widening, uint64(x)<<%d); in the lookahead cache key this makes different predicates at one offset share a cached answer", w, sh, sh)
					} else {
						c.Ok(rule, key, bo.Pos(), "%d-bit operand shifted by %d", w, sh)
					}
				}
			}
		}
	}
	if n < 2 {
		c.add(rule, "count:", token.NoPos, CountDropped, true, "only %d wide constant shifts found in the parser packages (2 memoization keys confirmed by hand)", n)
	}
}

// SIBLING(decision-list): the two emitted copies of every lookahead decision list (in
// applyRule and in lookaheadRule) test the same predicates with the same polarity and pick the
// same targets.
func ruleDECISIONSIBLING(c *Ctx) {
	const rule = "SIBLING(decision-list)"
	n := 0
	for _, rel := range parserPkgs {
		p := c.Pkg(rel)
		if p == nil {
			continue
		}
		extract := func(fn string) map[string]string {
			_, fd := c.FuncDecl(rel, fn)
			if fd == nil {
				return nil
			}
			out := map[string]string{}
			ast.Inspect(fd.Body, func(nd ast.Node) bool {
				sw, ok := nd.(*ast.SwitchStmt)
				if !ok {
					return true
				}
				if id, ok := sw.Tag.(*ast.Ident); !ok || id.Name != "rule" {
					return true
				}
				for _, cc := range sw.Body.List {
					cl := cc.(*ast.CaseClause)
					var sig []string
					isLA := false
					ast.Inspect(cl, func(m ast.Node) bool {
						switch x := m.(type) {
						case *ast.CallExpr:
							name := ""
							switch f := x.Fun.(type) {
							case *ast.Ident:
								name = f.Name
							case *ast.SelectorExpr:
								name = f.Sel.Name
							}
							if strings.HasPrefix(name, "At") || name == "lookahead" {
								isLA = true
								arg := ""
								if name == "lookahead" {
									for _, a := range x.Args {
										if tv, ok := p.TypesInfo.Types[a]; ok && tv.Value != nil {
											arg += "," + tv.Value.String()
										}
									}
								}
								sig = append(sig, "call "+name+arg)
							}
						case *ast.IfStmt:
							// polarity of the test
							cond := x.Cond
							neg := false
							if u, ok := ast.Unparen(cond).(*ast.UnaryExpr); ok && u.Op == token.NOT {
								neg = true
							}
							sig = append(sig, fmt.Sprintf("if neg=%v", neg))
						case *ast.AssignStmt:
							if len(x.Lhs) == 1 && len(x.Rhs) == 1 {
								l := types.ExprString(x.Lhs[0])
								if l == "sym" || strings.HasSuffix(l, ".sym.symbol") {
									if tv, ok := p.TypesInfo.Types[x.Rhs[0]]; ok && tv.Value != nil {
										sig = append(sig, "target "+tv.Value.String())
									}
								}
							}
						}
						return true
					})
					if !isLA {
						continue
					}
					for _, ce := range cl.List {
						if tv, ok := p.TypesInfo.Types[ce]; ok && tv.Value != nil {
							out[tv.Value.String()] = strings.Join(sig, "; ")
						}
					}
				}
				return false
			})
			return out
		}
		a := extract("Parser.applyRule")
		b := extract("lookaheadRule")
		if _, fd := c.FuncDecl(rel, "lookaheadRule"); fd == nil || (len(a) == 0 && len(b) == 0) {
			continue // lookaheads are not recursive in this parser: there is only one copy
		}
		norm := func(s string) string {
			// At<Name>(...) in applyRule corresponds to lookahead(...,input,final) in lookaheadRule; compare shape only
			parts := strings.Split(s, "; ")
			var o []string
			for _, x := range parts {
				if strings.HasPrefix(x, "call ") {
					o = append(o, "call")
				} else {
					o = append(o, x)
				}
			}
			return strings.Join(o, "; ")
		}
		for r, sa := range a {
			n++
			key := fmt.Sprintf("%s:rule %s", rel, r)
			sb, ok := b[r]
			switch {
			case !ok:
				c.Bad(rule, key, token.NoPos, "lookahead rule %s is decided in applyRule but has no copy in lookaheadRule (nested lookaheads would reduce it to the default target)", r)
			case norm(sa) != norm(sb):
				c.Bad(rule, key, token.NoPos, "the two copies of the decision list of rule %s disagree: applyRule {%s} vs lookaheadRule {%s}", r, sa, sb)
			default:
				c.Ok(rule, key, token.NoPos, "both copies: %s", norm(sa))
			}
		}
		for r := range b {
			if _, ok := a[r]; !ok {
				n++
				c.Bad(rule, fmt.Sprintf("%s:rule %s", rel, r), token.NoPos, "lookahead rule %s has a copy in lookaheadRule only", r)
			}
		}
	}
	if n < 5 {
		c.add(rule, "count:", token.NoPos, CountDropped, true, "only %d lookahead rules compared (js and test parsers have >= 5)", n)
	}
}
