package main

import (
	"go/token"
	"strings"

	"golang.org/x/tools/go/ssa"
)

// GUARD(empty-accept): a lexer rule must not match the empty string (the scanner would return
// empty tokens forever). lex.(*reCompiler).addPattern rejects a pattern when an accepting
// instruction is reachable from the pattern's first instruction without consuming input. The
// test has to cover both the instructions linked from the first one (c.out[ret+delta]) and the
// first instruction itself (c.out[ret]): patterns such as () or a{0} compile to no instruction
// at all, so the first instruction *is* the accepting one.
func ruleEMPTYACCEPT(c *Ctx) {
	const rule = "GUARD(empty-accept)"
	f := c.SSAFunc("lex", "(*reCompiler).addPattern")
	if f == nil {
		c.Lost(rule, "lex.reCompiler.addPattern", "function not found")
		return
	}
	// the first instruction: result of c.next() (also the returned value)
	var first ssa.Value
	for _, b := range f.Blocks {
		for _, ins := range b.Instrs {
			if call, ok := ins.(*ssa.Call); ok {
				if g := call.Call.StaticCallee(); g != nil && g.Name() == "next" && first == nil {
					first = call
				}
			}
		}
	}
	if first == nil {
		c.Lost(rule, "lex.reCompiler.addPattern:first", "the call c.next() that yields the pattern's first instruction was not found")
		return
	}
	self, linked := false, false
	var pos token.Pos = f.Pos()
	for _, b := range f.Blocks {
		if len(b.Instrs) == 0 {
			continue
		}
		ifi, ok := b.Instrs[len(b.Instrs)-1].(*ssa.If)
		if !ok {
			continue
		}
		bo, ok := ifi.Cond.(*ssa.BinOp)
		if !ok || bo.Op != token.NEQ {
			continue
		}
		if k, ok := bo.Y.(*ssa.Const); !ok || !k.IsNil() {
			continue
		}
		ld, ok := bo.X.(*ssa.UnOp)
		if !ok {
			continue
		}
		fa, ok := ld.X.(*ssa.FieldAddr)
		if !ok || fieldName(fa.X.Type(), fa.Field) != "rule" {
			continue
		}
		ia, ok := fa.X.(*ssa.IndexAddr)
		if !ok {
			continue
		}
		// the true branch reports the error
		reports := false
		for _, ins := range b.Succs[0].Instrs {
			if call, ok := ins.(*ssa.Call); ok {
				if g := call.Call.StaticCallee(); g != nil && strings.HasSuffix(g.Name(), "errorf") {
					reports = true
				}
			}
		}
		if !reports {
			continue
		}
		switch idx := ia.Index.(type) {
		case *ssa.Call:
			if idx == first {
				self = true
				pos = bo.Pos()
			}
		case *ssa.BinOp:
			if idx.Op == token.ADD && (idx.X == first || idx.Y == first) {
				linked = true
			}
		}
	}
	key := "lex.reCompiler.addPattern:accepts-empty"
	switch {
	case self && linked:
		c.Ok(rule, key, pos, "`accepts empty text` is reported for an accepting first instruction and for accepting instructions linked from it")
	case linked:
		c.Bad(rule, key, f.Pos(), "`accepts empty text` is reported only for instructions linked from the first one (c.out[ret+delta]); when the pattern compiles to no instruction — (), a{0} — the first instruction is the accepting one and is not tested: the rule is accepted and the lexer returns empty tokens")
	default:
		c.Lost(rule, key, "the empty-text test of addPattern was not recognised (self=%v linked=%v)", self, linked)
	}
}
