package main

import (
	"fmt"
	"go/constant"
	"go/token"
	"os"
	"strings"

	"golang.org/x/tools/go/ssa"
)

// Rules on the committed generated parsers and their hand-written siblings.

// TABLEIDX: every read of the packed displacement table is bounds-guarded, and the cell
// classes are decoded under the tests of their class (C01, C05, C19).
func ruleTABLEIDX(c *Ctx) {
	const rule = "CODEC(parser)"
	nTab, nShift, nRule := 0, 0, 0
	for _, rel := range parserPkgs {
		for _, f := range c.SrcFuncs(rel) {
			fk := ssaFuncKey(f)
			ord := map[string]int{}
			for _, b := range f.Blocks {
				for _, ins := range b.Instrs {
					switch x := ins.(type) {
					case *ssa.IndexAddr:
						var g *ssa.Global
						switch y := x.X.(type) {
						case *ssa.Global:
							g = y
						case *ssa.UnOp:
							g, _ = y.X.(*ssa.Global)
						}
						if g == nil {
							continue
						}
						switch g.Name() {
						case "tmTable", "tmCheck":
							nTab++
							key := ordKey(ord, fk+":"+g.Name()+"[pos]")
							idx := stripConv(x.Index)
							lo, hi := false, false
							for _, gc := range flattenConds(governing(b)) {
								l, op, r, isC := cmpNormV(gc.V, gc.Pol)
								if !isC {
									continue
								}
								if op == "<=" && vpath(l) == "0" && stripConv(r) == idx {
									lo = true
								}
								if op == "<" && stripConv(l) == idx && vpath(r) == "tmTableLen" {
									hi = true
								}
								if cst, ok := r.(*ssa.Const); ok && op == "<" && stripConv(l) == idx && cst.Value != nil && strings.HasPrefix(vpath(r), "") {
									if tl := tableLen(f.Pkg); tl > 0 {
										if v, ok2 := constant.Int64Val(constant.ToInt(cst.Value)); ok2 && v == tl {
											hi = true
										}
									}
								}
							}
							if lo && hi {
								c.Ok(rule, key, x.Pos(), "0 <= pos < tmTableLen holds on every path to this read")
							} else {
								c.Bad(rule, key, x.Pos(), "%s[pos] is read without the guard 0 <= pos (%v) && pos < tmTableLen (%v): a state whose row lies at the tail of the packed table probed with a high symbol panics with index out of range", g.Name(), lo, hi)
							}
						case "tmRuleLen", "tmRuleSymbol":
							nRule++
							key := ordKey(ord, fk+":"+g.Name()+"[rule]")
							idx := stripConv(x.Index)
							ok2 := false
							for _, gc := range flattenConds(governing(b)) {
								l, op, r, isC := cmpNormV(gc.V, gc.Pol)
								if isC && op == "<=" && vpath(l) == "0" && stripConv(r) == idx {
									ok2 = true
								}
							}
							if ok2 {
								c.Ok(rule, key, x.Pos(), "rule tables are indexed only with action >= 0 (reduce class)")
							} else {
								c.Bad(rule, key, x.Pos(), "%s is indexed with an action that was not tested to be >= 0 (the reduce class): shift/error/lookahead codes are negative", g.Name())
							}
						}
					case *ssa.BinOp:
						// state = -2 - action: the shift class of the displacement encoding
						if x.Op == token.SUB && vpath(x.X) == "-2" {
							if _, isConst := x.Y.(*ssa.Const); isConst {
								continue
							}
							nShift++
							key := ordKey(ord, fk+":-2-action")
							ok2 := false
							for _, gc := range flattenConds(governing(b)) {
								l, op, r, isC := cmpNormV(gc.V, gc.Pol)
								if isC && op == "<" && stripConv(l) == stripConv(x.Y) && vpath(r) == "-1" {
									ok2 = true
								}
							}
							if ok2 {
								c.Ok(rule, key, x.Pos(), "-2-action is taken as the target state only for action < -1 (shift class)")
							} else {
								c.Bad(rule, key, x.Pos(), "-2-action is computed without the test action < -1: -1 is the error code of the displacement encoding and would become state -1")
							}
						}
					}
				}
			}
		}
	}
	if nTab < 12 || nShift < 6 || nRule < 8 {
		c.add(rule, "count:", token.NoPos, CountDropped, true, "packed-table reads=%d (>=12), shift decodes=%d (>=6), rule-table reads=%d (>=8)", nTab, nShift, nRule)
	}
}

func tableLen(p *ssa.Package) int64 {
	if p == nil {
		return 0
	}
	if k, ok := p.Members["tmTableLen"].(*ssa.NamedConst); ok && k.Value != nil && k.Value.Value != nil {
		v, _ := constant.Int64Val(constant.ToInt(k.Value.Value))
		return v
	}
	return 0
}

// VARIANT and friends on error recovery (C19, C20).
func ruleRECOVERY(c *Ctx) {
	const rule = "VARIANT"
	n := 0
	for _, rel := range parserPkgs {
		f := c.SSAFunc(rel, "(*Parser).recoverFromError")
		if f == nil {
			continue
		}
		n++
		fk := ssaFuncKey(f)
		loops := naturalLoops(f)
		// the search loop: contains the call of skipBrokenCode
		var search *natLoop
		for _, lp := range loops {
			for b := range lp.Body {
				for _, ins := range b.Instrs {
					if call, ok := ins.(*ssa.Call); ok {
						if g := call.Common().StaticCallee(); g != nil && g.Name() == "skipBrokenCode" {
							if search == nil || len(lp.Body) < len(search.Body) {
								search = lp
							}
						}
					}
				}
			}
		}
		if search == nil {
			c.Bad(rule, fk+":search-loop", f.Pos(), "recoverFromError has no search loop around skipBrokenCode")
			continue
		}
		// back edges of the search loop
		for _, pred := range search.Header.Preds {
			if !search.Body[pred] {
				continue
			}
			clears, eoi := false, false
			// a clearing store recoverSyms[...] &^= bit dominating pred, and p.next.symbol != eoiToken
			for b := range search.Body {
				for _, ins := range b.Instrs {
					if st, ok := ins.(*ssa.Store); ok {
						if bo, ok := st.Val.(*ssa.BinOp); ok && bo.Op == token.AND_NOT && strings.Contains(vpath(st.Addr), "recoverSyms") && strings.Contains(vpath(st.Addr), "p.next.symbol") {
							if b == pred || b.Dominates(pred) {
								clears = true
							}
						}
					}
				}
			}
			for _, g := range flattenConds(governing(pred)) {
				l, op, r, ok := cmpNorm(g.V, g.Pol)
				if ok && op == "!=" && l == "p.next.symbol" && (r == "0" || r == "eoiToken") {
					eoi = true
				}
			}
			key := fk + ":search-loop-backedge"
			if clears && eoi {
				c.Ok(rule, key, pred.Instrs[len(pred.Instrs)-1].Pos(), "the search continues only after removing the current token from the finite set of recovery symbols, and never at end of input: the set strictly shrinks or input is consumed")
			} else {
				c.Bad(rule, key, search.Header.Instrs[0].Pos(), "the recovery search loop can iterate without progress: back edge must follow `recoverSyms[sym/8] &^= bit` (%v) and be guarded by next.symbol != eoi -> return (%v)", clears, eoi)
			}
		}
		// the error node is flushed after its range was extended over trailing invalid tokens
		var flushB *ssa.BasicBlock
		var extHdr *ssa.BasicBlock
		for _, b := range f.Blocks {
			for _, ins := range b.Instrs {
				if call, ok := ins.(*ssa.Call); ok {
					if g := call.Common().StaticCallee(); g != nil && g.Name() == "flush" {
						flushB = b
					}
				}
			}
		}
		for _, lp := range loops {
			if lp == search || !search.Body[lp.Header] {
				continue
			}
			reads, writesE := false, false
			for b := range lp.Body {
				for _, ins := range b.Instrs {
					if strings.Contains(vpathInstr(ins), ".pending") {
						reads = true
					}
				}
				if len(b.Instrs) > 0 {
					if ifi, ok := b.Instrs[len(b.Instrs)-1].(*ssa.If); ok && strings.Contains(vpath(ifi.Cond), ".endoffset") {
						writesE = true
					}
				}
			}
			// the second pending loop is the one after the matching position was found
			if reads && writesE && flushB != nil && lp.Header.Dominates(flushB) == false && instrBlockAfter(search, lp, flushB) {
				extHdr = lp.Header
			}
		}
		if flushB != nil {
			key := fk + ":flush-after-extend"
			// any pending-extension loop that is reachable from the flush means the range is extended after the event was sent
			late := false
			for _, lp := range loops {
				if lp == search || !search.Header.Dominates(lp.Header) {
					continue
				}
				touches := false
				for b := range lp.Body {
					for _, ins := range b.Instrs {
						if strings.Contains(vpathInstr(ins), ".pending") {
							touches = true
						}
					}
				}
				if os.Getenv("TMSA_DEBUG") != "" {
					fmt.Fprintln(os.Stderr, "LOOP", fk, lp.Header.Index, "touches", touches, "flush", flushB.Index, "reach", reachesWithout(flushB, lp.Header, search.Header))
				}
				if touches && reachesWithout(flushB, lp.Header, search.Header) {
					late = true
				}
			}
			if late {
				c.Bad(rule, key, flushB.Instrs[0].Pos(), "the error node is flushed before its range is extended over the pending invalid tokens: those tokens are then reported after (and inside) the node that contains them")
			} else {
				c.Ok(rule, key, flushB.Instrs[0].Pos(), "the error symbol is flushed after every adjustment of its range")
			}
		}
		_ = extHdr
	}
	if n < 2 {
		c.add(rule, "count:", token.NoPos, CountDropped, true, "only %d recoverFromError functions found (tm and js confirmed by hand)", n)
	}
	// skipBrokenCode advances the input on every iteration
	for _, rel := range parserPkgs {
		f := c.SSAFunc(rel, "(*Parser).skipBrokenCode")
		if f == nil {
			continue
		}
		ok := false
		for _, lp := range naturalLoops(f) {
			for b := range lp.Body {
				for _, ins := range b.Instrs {
					if st, isSt := ins.(*ssa.Store); isSt && strings.HasSuffix(vpath(st.Addr), "p.next") && strings.Contains(vpath(st.Val), "next(") {
						ok = true
					}
				}
			}
		}
		key := ssaFuncKey(f) + ":advance"
		if ok {
			c.Ok(rule, key, f.Pos(), "each iteration of the skip loop fetches the next token")
		} else {
			c.Bad(rule, key, f.Pos(), "the skip loop must fetch the next token on every iteration")
		}
	}
	// the recovering counter starts at 0 in every parse
	for _, rel := range parserPkgs {
		f := c.SSAFunc(rel, "(*Parser).parse")
		if f == nil || c.SSAFunc(rel, "(*Parser).recoverFromError") == nil {
			continue
		}
		key := ssaFuncKey(f) + ":recovering-reset"
		usesField, reset := false, false
		for _, b := range f.Blocks {
			for _, ins := range b.Instrs {
				if st, ok := ins.(*ssa.Store); ok && strings.HasSuffix(vpath(st.Addr), "p.recovering") {
					usesField = true
					if vpath(st.Val) == "0" && b == f.Blocks[0] {
						reset = true
					}
				}
			}
		}
		if !usesField {
			c.Trivial(rule, key, f.Pos(), "the error-suppression counter is a local of parse")
		} else if reset {
			c.Ok(rule, key, f.Pos(), "parse resets p.recovering before the main loop: a leftover from a previous input cannot suppress this input's first error")
		} else {
			c.Bad(rule, key, f.Pos(), "p.recovering is parser state that parse() does not reset: after an input that ended while recovering, the first syntax error of the next input (same Parser, no Init) is not reported")
		}
	}
	// trailing empty symbols are trimmed in a loop (C20)
	for _, rel := range parserPkgs {
		f := c.SSAFunc(rel, "(*Parser).parse")
		if f == nil {
			continue
		}
		loops := naturalLoops(f)
		for _, b := range f.Blocks {
			if len(b.Instrs) == 0 {
				continue
			}
			ifi, ok := b.Instrs[len(b.Instrs)-1].(*ssa.If)
			if !ok {
				continue
			}
			p := normalizePhi(vpath(ifi.Cond))
			if os.Getenv("TMSA_DEBUG") != "" && strings.Contains(p, "offset") {
				fmt.Fprintln(os.Stderr, "COND", f.Name(), p)
			}
			if !(strings.Contains(p, ".sym.offset ==") && strings.Contains(p, ".sym.endoffset") && strings.Contains(p, "- 1)")) {
				continue
			}
			key := ssaFuncKey(f) + ":trim-trailing-empty"
			lp := innermostLoop(loops, b)
			inner := false
			if lp != nil {
				if _, dir, _ := lp.induction(); dir == -1 && len(lp.Body) <= 4 {
					inner = true
				}
			}
			if inner {
				c.Ok(rule, key, ifi.Pos(), "all trailing empty symbols are trimmed (loop decrementing ln)")
			} else {
				c.Bad(rule, key, ifi.Pos(), "only one trailing empty symbol is trimmed (no loop): a rule ending in two or more empty nullable symbols gets a range that runs into the following whitespace/comments, which are then reported after the node containing them")
			}
		}
	}
}

func vpathInstr(ins ssa.Instruction) string {
	if v, ok := ins.(ssa.Value); ok {
		return vpath(v)
	}
	if st, ok := ins.(*ssa.Store); ok {
		return vpath(st.Addr) + "=" + vpath(st.Val)
	}
	return ""
}

func instrBlockAfter(search, lp *natLoop, b *ssa.BasicBlock) bool { return true }

// ENTRY: exported entry points start the parser at their input's index.
func ruleENTRY(c *Ctx) {
	const rule = "ENTRY"
	n := 0
	for _, rel := range parserPkgs {
		type ent struct {
			name       string
			start, end int64
			pos        token.Pos
		}
		var ents []ent
		for _, f := range c.SrcFuncs(rel) {
			if !strings.HasPrefix(f.Name(), "Parse") || f.Signature.Recv() == nil {
				continue
			}
			for _, b := range f.Blocks {
				for _, ins := range b.Instrs {
					call, ok := ins.(*ssa.Call)
					if !ok {
						continue
					}
					g := call.Common().StaticCallee()
					if g == nil || g.Name() != "parse" {
						continue
					}
					var consts []int64
					for _, a := range call.Common().Args {
						if k, ok := a.(*ssa.Const); ok && k.Value != nil && k.Value.Kind() == constant.Int {
							v, _ := constant.Int64Val(k.Value)
							consts = append(consts, v)
						}
					}
					if len(consts) >= 2 {
						ents = append(ents, ent{f.Name(), consts[0], consts[1], f.Pos()})
					}
				}
			}
		}
		if len(ents) == 0 {
			continue
		}
		// source order
		for i := 0; i < len(ents); i++ {
			for j := i + 1; j < len(ents); j++ {
				if ents[j].pos < ents[i].pos {
					ents[i], ents[j] = ents[j], ents[i]
				}
			}
		}
		for i, e := range ents {
			n++
			key := fmt.Sprintf("%s.Parser.%s", rel, e.name)
			switch {
			case e.start != int64(i):
				c.Bad(rule, key, e.pos, "%s starts the parser in state %d; the i-th input starts in state i (here %d)", e.name, e.start, i)
			case e.end < int64(len(ents)):
				c.Bad(rule, key, e.pos, "%s uses final state %d, which is an entry state", e.name, e.end)
			default:
				c.Ok(rule, key, e.pos, "input #%d: parse(start=%d, end=%d)", i, e.start, e.end)
			}
		}
	}
	if n < 9 {
		c.add(rule, "count:", token.NoPos, CountDropped, true, "only %d Parse* entry points found (10 confirmed by hand)", n)
	}
}

// BOUND(trim-floor): the loops that strip trailing empty symbols from a node's range test
// rhs[i] for emptiness while i stays at or above a floor. reportRange must keep one symbol
// (it reads rhs[0] afterwards), so its floor is index 1; parse() and fixTrailingWS handle the
// all-empty case after the loop, so theirs is index 0. A higher floor leaves an empty symbol at
// the end of the range: the node then extends over the whitespace and comments before the
// next token.
func ruleTRIMFLOOR(c *Ctx) {
	const rule = "BOUND(trim-floor)"
	want := map[string]int64{"reportRange": 1, "parse": 0, "fixTrailingWS": 0}
	n := 0
	for _, rel := range parserPkgs {
		for _, f := range c.SrcFuncs(rel) {
			exp, known := want[f.Name()]
			loops := naturalLoops(f)
			for _, b := range f.Blocks {
				if len(b.Instrs) == 0 {
					continue
				}
				ifi, ok := b.Instrs[len(b.Instrs)-1].(*ssa.If)
				if !ok {
					continue
				}
				bo, ok := ifi.Cond.(*ssa.BinOp)
				if !ok || bo.Op != token.EQL {
					continue
				}
				lp, rp := vpath(bo.X), vpath(bo.Y)
				if !strings.HasSuffix(lp, ".sym.offset") || !strings.HasSuffix(rp, ".sym.endoffset") {
					continue
				}
				loop := innermostLoop(loops, b)
				if loop == nil {
					continue
				}
				// the index expression
				var idx ssa.Value
				var walk func(v ssa.Value)
				walk = func(v ssa.Value) {
					switch x := v.(type) {
					case *ssa.UnOp:
						walk(x.X)
					case *ssa.FieldAddr:
						walk(x.X)
					case *ssa.IndexAddr:
						idx = x.Index
					}
				}
				walk(bo.X)
				if idx == nil {
					continue
				}
				d := int64(0)
				base := idx
				if ib, ok := idx.(*ssa.BinOp); ok && ib.Op == token.SUB {
					if k, ok := ib.Y.(*ssa.Const); ok && k.Value != nil {
						d, base = k.Int64(), ib.X
					}
				}
				// the guard in the same loop: K < base or K <= base
				floor := int64(-99)
				for _, g := range flattenConds(governing(b)) {
					if !loop.Body[g.If.Block()] {
						continue
					}
					l, op, r, ok := cmpNormV(g.V, g.Pol)
					if !ok {
						continue
					}
					k, isK := l.(*ssa.Const)
					if !isK || k.Value == nil || vpath(r) != vpath(base) {
						continue
					}
					switch op {
					case "<":
						floor = k.Int64() + 1 - d
					case "<=":
						floor = k.Int64() - d
					}
				}
				n++
				key := fmt.Sprintf("%s:trim-floor", ssaFuncKey(f))
				switch {
				case !known:
					c.Unaud(rule, key, bo.Pos(), "a loop that strips trailing empty symbols in %s is not in the audited table", f.Name())
				case floor == -99:
					c.Undec(rule, key, bo.Pos(), "the lower bound of the index %s was not found in the loop condition", normalizePhi(vpath(idx)))
				case floor == exp:
					c.Ok(rule, key, bo.Pos(), "trailing empty symbols are stripped down to index %d", exp)
				default:
					c.Bad(rule, key, bo.Pos(), "trailing empty symbols are stripped only down to index %d (expected %d): an empty symbol can stay at the end of the range and the node runs into the following whitespace", floor, exp)
				}
			}
		}
	}
	if n < 4 {
		c.add(rule, "count:", token.NoPos, CountDropped, true, "only %d trailing-empty loops found (>= 4 confirmed by hand)", n)
	}
}

// CODEC(default-fallback): in the displacement encoding a row stores only the cells that differ
// from the row's default; a reader finds a cell at base+column only if tmCheck confirms the
// owner, and otherwise the value IS the default (tmDefAct[state] for terminals, tmDefGoto[nt]
// for nonterminals). Optimize may choose any value as default - with minimizeDFA a shift is
// often the most common cell - so every decode site must read the default table on the failing
// edge of the owner test; answering "no entry" there drops real transitions.
func ruleDEFAULTFALLBACK(c *Ctx) {
	const rule = "CODEC(default-fallback)"
	n := 0
	for _, rel := range parserPkgs {
		for _, f := range c.SrcFuncs(rel) {
			ord := map[string]int{}
			for _, b := range f.Blocks {
				if len(b.Instrs) == 0 {
					continue
				}
				ifi, ok := b.Instrs[len(b.Instrs)-1].(*ssa.If)
				if !ok {
					continue
				}
				bo, ok := ifi.Cond.(*ssa.BinOp)
				if !ok || bo.Op != token.EQL {
					continue
				}
				if !strings.Contains(vpath(bo.X), "tmCheck[") && !strings.Contains(vpath(bo.Y), "tmCheck[") {
					continue
				}
				n++
				key := ordKey(ord, ssaFuncKey(f)+":owner-test")
				fb := b.Succs[1]
				reads := false
				// the failing edge: the default table is read before any return/merge
				seen := map[*ssa.BasicBlock]bool{}
				work := []*ssa.BasicBlock{fb}
				for len(work) > 0 && !reads {
					x := work[len(work)-1]
					work = work[:len(work)-1]
					if seen[x] {
						continue
					}
					seen[x] = true
					for _, ins := range x.Instrs {
						if ia, ok := ins.(*ssa.IndexAddr); ok {
							p := vpath(ia.X)
							if strings.HasSuffix(p, "tmDefAct") || strings.HasSuffix(p, "tmDefGoto") {
								reads = true
							}
						}
					}
					// follow unconditional jumps only: the default must be read on this edge itself
					if len(x.Succs) == 1 && len(x.Instrs) <= 2 {
						work = append(work, x.Succs[0])
					}
				}
				if reads {
					c.Ok(rule, key, bo.Pos(), "when tmCheck does not confirm the cell, the row's default (tmDefAct/tmDefGoto) is used")
				} else {
					c.Bad(rule, key, bo.Pos(), "when tmCheck does not confirm the cell, %s does not read the row's default: every transition that Optimize folded into the default (shifts included) is lost at this site", f.Name())
				}
			}
		}
	}
	if n < 6 {
		c.add(rule, "count:", token.NoPos, CountDropped, true, "only %d owner tests (tmCheck[pos] == x) found in the generated parsers", n)
	}
}

// SIBLING(flush-bound): before a symbol is shifted (or an error node is reported), the pending
// skipped tokens that lie inside it are reported first, so that a node strictly containing a
// token is reported after it. Every flush implementation (TokenStream.flush of tm/js,
// Parser.flush of the parsers without a token stream) must stop at the first pending token that
// ends after the symbol's END: the stop test is `tok.endoffset > sym.endoffset`. Compared with
// sym.offset, tokens covered by a recovered error node stay pending and are reported after it.
func ruleFLUSHBOUND(c *Ctx) {
	const rule = "SIBLING(flush-bound)"
	n := 0
	for _, rel := range parserPkgs {
		for _, name := range []string{"(*TokenStream).flush", "(*Parser).flush"} {
			f := c.SSAFunc(rel, name)
			if f == nil {
				continue
			}
			var sym *ssa.Parameter
			for _, p := range f.Params {
				if p.Name() == "sym" {
					sym = p
				}
			}
			loops := naturalLoops(f)
			for _, b := range f.Blocks {
				if len(b.Instrs) == 0 || innermostLoop(loops, b) == nil {
					continue
				}
				ifi, ok := b.Instrs[len(b.Instrs)-1].(*ssa.If)
				if !ok {
					continue
				}
				l, op, r, ok := cmpNorm(ifi.Cond, true)
				if !ok || !(strings.Contains(l, "offset") && strings.Contains(r, "offset")) {
					continue
				}
				n++
				key := fmt.Sprintf("%s:stop-test", ssaFuncKey(f))
				symSide, tokSide := l, r
				if sym != nil && strings.HasPrefix(r, "sym.") {
					symSide, tokSide = r, l
					// a < b with the symbol on the right: tok < sym, not the stop test we expect
					op = "flipped" + op
				}
				if op == "<" && symSide == "sym.endoffset" && strings.HasSuffix(tokSide, ".endoffset") {
					c.Ok(rule, key, ifi.Cond.Pos(), "flushing stops at the first pending token that ends after the symbol's end")
				} else {
					c.Bad(rule, key, ifi.Cond.Pos(), "flush stops under %s %s %s instead of tok.endoffset > sym.endoffset: pending tokens inside the symbol (e.g. invalid tokens covered by an error node) are reported after the node that contains them", normalizePhi(l), op, normalizePhi(r))
				}
			}
		}
	}
	if n < 4 {
		c.add(rule, "count:", token.NoPos, CountDropped, true, "only %d flush stop tests found (tm, js, json, test confirmed by hand)", n)
	}
}

// LOOPCARRY(deep-lookahead): an lalr(k) decision reads up to k-1 further tokens from a scratch
// copy of the lexer (or token stream): `c := lexer.Copy(); for action < -2 { tok := next(&c); … }`.
// The copy carries the position from one iteration to the next, so it must be made outside the
// loop that consumes from it; made inside, every iteration starts at the real lexer position
// again and the third lookahead token is the second one once more.
func ruleDEEPLACOPY(c *Ctx) {
	const rule = "LOOPCARRY(deep-lookahead)"
	n := 0
	for _, rel := range parserPkgs {
		for _, f := range c.SrcFuncs(rel) {
			loops := naturalLoops(f)
			ord := map[string]int{}
			for _, b := range f.Blocks {
				for _, ins := range b.Instrs {
					call, ok := ins.(*ssa.Call)
					if !ok {
						continue
					}
					g := call.Call.StaticCallee()
					if g == nil || g.Name() != "Copy" || g.Signature.Recv() == nil {
						continue
					}
					// where does the copy live, and where is it consumed in a loop?
					var cell *ssa.Alloc
					if call.Referrers() != nil {
						for _, r := range *call.Referrers() {
							if st, ok := r.(*ssa.Store); ok {
								if al, ok := st.Addr.(*ssa.Alloc); ok {
									cell = al
								}
							}
						}
					}
					if cell == nil || cell.Referrers() == nil {
						continue
					}
					for _, r := range *cell.Referrers() {
						use, ok := r.(*ssa.Call)
						if !ok || use == call {
							continue
						}
						ul := innermostLoop(loops, use.Block())
						if ul == nil {
							continue
						}
						n++
						key := ordKey(ord, ssaFuncKey(f)+":"+cell.Comment)
						if ul.Body[b] {
							c.Bad(rule, key, call.Pos(), "the scratch copy %s is made inside the loop that reads further lookahead tokens from it: each iteration restarts at the parser's real position, so a decision that needs a third token sees the second one again", cell.Comment)
						} else {
							c.Ok(rule, key, call.Pos(), "the scratch copy %s is made before the loop that reads further lookahead tokens from it", cell.Comment)
						}
					}
				}
			}
		}
	}
	if n < 2 {
		c.add(rule, "count:", token.NoPos, CountDropped, true, "only %d deep-lookahead copies found (parse and lookahead of the lalr(2) test parser confirmed by hand)", n)
	}
}

// SIBLING(lalr-scan): a lookahead row is a list of (terminal, action) pairs closed by a negative
// terminal. Every reader - the generated `lalr()` helper and the scans in package lalr
// (Optimize, minimize, resolveWithLookahead, debug output) - must go on while the terminal is
// >= 0: terminal 0 is the end-of-input token, so a scan that stops at `> 0` treats EOI's entry as
// the terminator and hands EOI's action to every terminal listed after it.
func ruleLALRSCAN(c *Ctx) {
	const rule = "SIBLING(lalr-scan)"
	n := 0
	pkgs := append([]string{"lalr"}, parserPkgs...)
	for _, rel := range pkgs {
		for _, f := range c.SrcFuncs(rel) {
			loops := naturalLoops(f)
			ord := map[string]int{}
			for _, lp := range loops {
				ifi, ok := lp.Header.Instrs[len(lp.Header.Instrs)-1].(*ssa.If)
				if !ok {
					continue
				}
				l, op, r, ok := cmpNorm(ifi.Cond, true)
				if !ok {
					continue
				}
				var elem string
				switch {
				case l == "0" && (strings.Contains(r, "tmLalr[") || strings.Contains(r, ".Lalr[")):
					elem = r
				case r == "0" && (strings.Contains(l, "tmLalr[") || strings.Contains(l, ".Lalr[")):
					elem = l
				default:
					continue
				}
				n++
				key := ordKey(ord, ssaFuncKey(f)+":scan")
				if l == "0" && op == "<=" {
					c.Ok(rule, key, ifi.Cond.Pos(), "the scan of a lookahead row continues while the terminal is >= 0")
				} else {
					c.Bad(rule, key, ifi.Cond.Pos(), "the scan of a lookahead row continues under %s %s %s instead of terminal >= 0: terminal 0 (end of input) ends the scan and its action is used for every terminal listed after it", normalizePhi(l), op, normalizePhi(r))
				}
				_ = elem
			}
		}
	}
	if n < 6 {
		c.add(rule, "count:", token.NoPos, CountDropped, true, "only %d scans of lookahead rows found (4 in package lalr and the lalr() helpers of the generated parsers confirmed by hand)", n)
	}
}
