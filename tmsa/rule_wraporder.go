package main

import (
	"go/token"
	"go/types"

	"golang.org/x/tools/go/ssa"
)

// MUSTPASS(conditional-outermost): syntax.Instantiate removes a disabled alternative only when
// the child of the Choice *is* the Conditional node (doExpr: `expr.Kind == Choice &&
// sub.Kind == Conditional`). compiler.convertRules therefore has to apply the [predicate] wrapper
// after every other wrapper of a rule (report clause, %prec): within one iteration of the rule
// loop no other wrapper allocation may be reachable from the Conditional one.
func ruleWRAPORDER(c *Ctx) {
	const rule = "MUSTPASS(conditional-outermost)"
	f := c.SSAFunc("compiler", "(*syntaxLoader).convertRules")
	if f == nil {
		c.Lost(rule, "compiler.syntaxLoader.convertRules", "function not found")
		return
	}
	condK, ok1 := c.enumConst("syntax", "Conditional")
	precK, ok2 := c.enumConst("syntax", "Prec")
	if !ok1 || !ok2 {
		c.Lost(rule, "syntax.Conditional", "expression kinds Conditional/Prec not found")
		return
	}
	// allocations of syntax.Expr literals by Kind
	kindOf := func(al *ssa.Alloc) (int64, bool) {
		for _, ref := range *al.Referrers() {
			fa, ok := ref.(*ssa.FieldAddr)
			if !ok || fieldName(fa.X.Type(), fa.Field) != "Kind" {
				continue
			}
			for _, r2 := range *fa.Referrers() {
				if st, ok := r2.(*ssa.Store); ok {
					if k, ok := st.Val.(*ssa.Const); ok && k.Value != nil {
						return k.Int64(), true
					}
				}
			}
		}
		return 0, false
	}
	var cond, others []*ssa.Alloc
	for _, b := range f.Blocks {
		for _, ins := range b.Instrs {
			al, ok := ins.(*ssa.Alloc)
			if !ok || !isNamedType(al.Type(), "syntax", "Expr") {
				continue
			}
			k, ok := kindOf(al)
			if !ok {
				continue
			}
			switch k {
			case condK:
				cond = append(cond, al)
			case precK:
				others = append(others, al)
			}
		}
	}
	key := "compiler.syntaxLoader.convertRules:predicate-last"
	if len(cond) == 0 || len(others) == 0 {
		c.Lost(rule, key, "convertRules no longer builds both a Conditional (%d) and a Prec (%d) wrapper", len(cond), len(others))
		return
	}
	loops := naturalLoops(f)
	for _, ca := range cond {
		lp := innermostLoop(loops, ca.Block())
		var hdr *ssa.BasicBlock
		if lp != nil {
			hdr = lp.Header
		}
		for _, oa := range others {
			after := false
			if ca.Block() == oa.Block() {
				for _, ins := range ca.Block().Instrs {
					if ins == ssa.Instruction(ca) {
						after = true // cond first, other later in the same block
						break
					}
					if ins == ssa.Instruction(oa) {
						break
					}
				}
			} else if hdr != nil {
				after = reachesWithout(ca.Block(), oa.Block(), hdr)
			} else {
				after = reachesWithout(ca.Block(), oa.Block(), nil)
			}
			if after {
				c.Bad(rule, key, oa.Pos(), "the %%prec wrapper can be applied after the [predicate] wrapper: the alternative becomes Prec(Conditional(..)), which Instantiate does not recognise as a conditional alternative — with the predicate false a phantom empty production with %%prec remains")
				return
			}
		}
	}
	c.Ok(rule, key, cond[0].Pos(), "the Conditional wrapper is allocated after the %%prec wrapper on every path of an iteration (it stays the direct child of the Choice)")
	_ = token.NoPos
}

// isNamedType: t (or the type it points to) is the named type pkgrel.name of this module.
func isNamedType(t types.Type, pkgrel, name string) bool {
	if p, ok := t.Underlying().(*types.Pointer); ok {
		t = p.Elem()
	}
	n, ok := t.(*types.Named)
	if !ok || n.Obj().Pkg() == nil {
		return false
	}
	rel, in := relPkg(n.Obj().Pkg())
	return in && rel == pkgrel && n.Obj().Name() == name
}
