package main

import (
	"fmt"
	"go/ast"
	"go/token"
	"strings"

	"golang.org/x/tools/go/ssa"
)

// GUARD(markerfree): state markers do not occupy parser stack slots; every count of right-hand
// side symbols that is later used as a stack depth skips them.
func ruleMARKERFREE(c *Ctx) {
	const rule = "GUARD(markerfree)"
	type site struct{ pkg, fn, what string }
	for _, s := range []site{{"compiler", "generateTables", "SymRefCount"}, {"lalr", "(*compiler).populateTables", "RuleLen"}} {
		f := c.SSAFunc(s.pkg, s.fn)
		key := fmt.Sprintf("%s.%s:%s", s.pkg, strings.Trim(s.fn, "(*)"), s.what)
		if f == nil {
			c.Lost(rule, key, "function not found")
			continue
		}
		found, ok := false, false
		var pos token.Pos = f.Pos()
		// the counter whose value is appended to RuleLen
		ruleLenCounters := map[*ssa.Phi]bool{}
		if s.what == "RuleLen" {
			for _, b := range f.Blocks {
				for _, ins := range b.Instrs {
					call, isCall := ins.(*ssa.Call)
					if !isCall {
						continue
					}
					bi, isB := call.Common().Value.(*ssa.Builtin)
					if !isB || bi.Name() != "append" || !strings.HasSuffix(vpath(call.Common().Args[0]), ".RuleLen") {
						continue
					}
					if sl, ok := call.Common().Args[1].(*ssa.Slice); ok {
						if al, ok := sl.X.(*ssa.Alloc); ok && al.Referrers() != nil {
							for _, r := range *al.Referrers() {
								if ia, ok := r.(*ssa.IndexAddr); ok && ia.Referrers() != nil {
									for _, r2 := range *ia.Referrers() {
										if st, ok := r2.(*ssa.Store); ok {
											if ph, ok := st.Val.(*ssa.Phi); ok {
												ruleLenCounters[ph] = true
											}
										}
									}
								}
							}
						}
					}
				}
			}
		}
		for _, b := range f.Blocks {
			for _, ins := range b.Instrs {
				var inc ssa.Value
				switch x := ins.(type) {
				case *ssa.Store:
					if s.what == "SymRefCount" && strings.HasSuffix(vpath(x.Addr), ".SymRefCount") {
						inc = x.Val
						pos = x.Pos()
					}
				case *ssa.BinOp:
					// RuleLen: the counter `len` (a phi named len) incremented by one
					if s.what == "RuleLen" && x.Op == token.ADD && vpath(x.Y) == "1" {
						if ph, isPhi := x.X.(*ssa.Phi); isPhi && ruleLenCounters[ph] {
							inc = x
							pos = x.Pos()
						}
					}
				}
				if inc == nil {
					continue
				}
				bo, isB := inc.(*ssa.BinOp)
				if !isB || bo.Op != token.ADD {
					if s.what == "SymRefCount" {
						found = true
						c.Bad(rule, key, pos, "SymRefCount is set to %s instead of counting the non-marker symbols of the rule: with a state marker in the rule every $-reference binds one stack slot too deep", normalizePhi(vpath(inc)))
						ok = true // reported
					}
					continue
				}
				found = true
				if hasCond(governing(b), func(p string, pol bool) bool { return !pol && strings.Contains(p, "IsStateMarker(") }) {
					ok = true
				} else {
					ok = true
					c.Bad(rule, key, pos, "%s counts a right-hand-side symbol without the test !IsStateMarker(): markers are not pushed on the parser stack, the count is used as a stack depth", s.what)
					found = false
					break
				}
			}
		}
		if found && ok {
			c.Ok(rule, key, pos, "%s counts only symbols for which IsStateMarker() is false", s.what)
		} else if !ok {
			c.Bad(rule, key, f.Pos(), "%s: no marker-skipping count of right-hand-side symbols found", s.what)
		}
	}
}

// LOCKSTEP(reference): a resolved $-reference reports the position whose stack index it carries.
func ruleREFPAIR(c *Ctx) {
	const rule = "LOCKSTEP(reference)"
	f := c.SSAFunc("grammar", "(*ActionVars).resolve")
	if f == nil {
		c.Lost(rule, "grammar.ActionVars.resolve", "function not found")
		return
	}
	n := 0
	// group stores by the Reference literal they build
	type lit struct{ pos, index, endPos, endIndex ssa.Value }
	lits := map[ssa.Value]*lit{}
	var order []ssa.Value
	for _, b := range f.Blocks {
		for _, ins := range b.Instrs {
			st, ok := ins.(*ssa.Store)
			if !ok {
				continue
			}
			fa, ok := st.Addr.(*ssa.FieldAddr)
			if !ok || !strings.HasSuffix(strings.TrimPrefix(fa.X.Type().String(), "*"), "grammar.Reference") {
				continue
			}
			l := lits[fa.X]
			if l == nil {
				l = &lit{}
				lits[fa.X] = l
				order = append(order, fa.X)
			}
			switch fieldName(fa.X.Type(), fa.Field) {
			case "Pos":
				l.pos = st.Val
			case "Index":
				l.index = st.Val
			case "EndPos":
				l.endPos = st.Val
			case "EndIndex":
				l.endIndex = st.Val
			}
		}
	}
	for i, k := range order {
		l := lits[k]
		for _, pr := range []struct {
			name       string
			pos, index ssa.Value
		}{{"Pos/Index", l.pos, l.index}, {"EndPos/EndIndex", l.endPos, l.endIndex}} {
			lk, ok := pr.index.(*ssa.Lookup)
			if !ok || !strings.HasSuffix(vpath(lk.X), ".Remap") {
				continue
			}
			n++
			key := fmt.Sprintf("grammar.ActionVars.resolve:Reference#%d.%s", i+1, pr.name)
			if pr.pos != nil && (pr.pos == lk.Index || vpath(pr.pos) == vpath(lk.Index)) {
				c.Ok(rule, key, lk.Pos(), "the reported position %s is the one whose stack index Remap[…] is returned", normalizePhi(vpath(lk.Index)))
			} else {
				c.Bad(rule, key, lk.Pos(), "Reference.%s: the index comes from Remap[%s] but the position is %s; the generator picks the value type by position, so the wrong alternative's type assertion is emitted", pr.name, normalizePhi(vpath(lk.Index)), normalizePhi(vpath(pr.pos)))
			}
		}
	}
	if n < 2 {
		c.add(rule, "count:", token.NoPos, CountDropped, true, "only %d Remap-indexed Reference fields found in resolve (2 confirmed by hand)", n)
	}
}

// LOOPSHAPE(marker-transparent): state markers are transparent; a loop over right-hand-side
// symbols that meets a marker goes on with the next symbol, it never stops at it.
func ruleMARKERLOOPS(c *Ctx) {
	const rule = "LOOPSHAPE(marker-transparent)"
	n := 0
	for _, rel := range []string{"grammar", "lalr", "gen", "compiler", "syntax"} {
		for _, f := range c.SrcFuncs(rel) {
			loops := naturalLoops(f)
			ord := map[string]int{}
			for _, b := range f.Blocks {
				if len(b.Instrs) == 0 {
					continue
				}
				ifi, ok := b.Instrs[len(b.Instrs)-1].(*ssa.If)
				if !ok {
					continue
				}
				v, pol := ifi.Cond, true
				for {
					if u, ok := v.(*ssa.UnOp); ok && u.Op == token.NOT {
						v, pol = u.X, !pol
						continue
					}
					break
				}
				call, ok := v.(*ssa.Call)
				if !ok {
					continue
				}
				g := call.Common().StaticCallee()
				if g == nil || calleeName(g) != "lalr.Sym.IsStateMarker" {
					continue
				}
				lp := innermostLoop(loops, b)
				// a test on r.RHS[e] where e does not vary in the innermost loop (RHS[len-1] inside
				// the loop over the rules) is a test on one fixed position
				if lp != nil && len(call.Common().Args) > 0 {
					if ld, ok := call.Common().Args[0].(*ssa.UnOp); ok && ld.Op == token.MUL {
						if ia, ok := ld.X.(*ssa.IndexAddr); ok && strings.HasSuffix(vpath(ia.X), ".RHS") {
							varies := false
							var walk func(v ssa.Value, d int)
							walk = func(v ssa.Value, d int) {
								if d > 4 || varies {
									return
								}
								switch x := v.(type) {
								case *ssa.Phi:
									if lp.Body[x.Block()] {
										varies = true
									}
								case *ssa.BinOp:
									walk(x.X, d+1)
									walk(x.Y, d+1)
								case *ssa.Convert:
									walk(x.X, d+1)
								}
							}
							walk(ia.Index, 0)
							if !varies {
								lp = nil
							}
						}
					}
				}
				if lp == nil {
					// a marker test on one fixed position of a right-hand side (rhs[len-1], rhs[0]) looks
					// at a marker where a symbol is meant
					if len(call.Common().Args) > 0 {
						if ld, ok := call.Common().Args[0].(*ssa.UnOp); ok && ld.Op == token.MUL {
							if ia, ok := ld.X.(*ssa.IndexAddr); ok && strings.HasSuffix(vpath(ia.X), ".RHS") {
								key := ordKey(ord, ssaFuncKey(f)+":marker-test-outside-loop")
								c.Bad(rule, key, ifi.Pos(), "IsStateMarker is tested on the single position %s of a right-hand side, outside any loop: when that position holds a marker the symbols next to it are never looked at (markers are transparent, the scan has to step over them)", normalizePhi(vpath(ld.X)))
							}
						}
					}
					continue
				}
				n++
				markerSucc := b.Succs[0]
				if !pol {
					markerSucc = b.Succs[1]
				}
				key := ordKey(ord, ssaFuncKey(f)+":marker-branch")
				if lp.Body[markerSucc] {
					c.Ok(rule, key, ifi.Pos(), "on a state marker the loop continues with the next symbol")
				} else {
					c.Bad(rule, key, ifi.Pos(), "the loop over right-hand-side symbols leaves the loop when it meets a state marker: symbols before/after the marker are ignored (markers are not symbols of the rule)")
				}
			}
		}
	}
	if n < 8 {
		c.add(rule, "count:", token.NoPos, CountDropped, true, "only %d marker tests inside loops found (>= 8 confirmed by hand)", n)
	}
}

// markerBranchAST complements the SSA rule: when the mutated loop has no back edge left it is
// not a natural loop any more, so the syntactic form is checked as well.
func ruleMARKERLOOPSAST(c *Ctx) {
	const rule = "LOOPSHAPE(marker-transparent)"
	for _, rel := range []string{"grammar", "lalr", "gen", "compiler", "syntax"} {
		p := c.Pkg(rel)
		if p == nil {
			continue
		}
		for _, file := range p.Syntax {
			for _, d := range file.Decls {
				fd, ok := d.(*ast.FuncDecl)
				if !ok || fd.Body == nil {
					continue
				}
				var loopDepth int
				ord := 0
				var visit func(n ast.Node) bool
				visit = func(n ast.Node) bool {
					switch x := n.(type) {
					case *ast.ForStmt, *ast.RangeStmt:
						loopDepth++
						var body *ast.BlockStmt
						if f, ok := x.(*ast.ForStmt); ok {
							body = f.Body
						} else {
							body = x.(*ast.RangeStmt).Body
						}
						ast.Inspect(body, visit)
						loopDepth--
						return false
					case *ast.IfStmt:
						if loopDepth == 0 {
							return true
						}
						call, ok := ast.Unparen(x.Cond).(*ast.CallExpr)
						if !ok {
							return true
						}
						sel, ok := call.Fun.(*ast.SelectorExpr)
						if !ok || sel.Sel.Name != "IsStateMarker" {
							return true
						}
						ord++
						for _, s := range x.Body.List {
							leaves := false
							switch y := s.(type) {
							case *ast.BranchStmt:
								leaves = y.Tok == token.BREAK
							case *ast.ReturnStmt:
								leaves = true
							}
							if leaves {
								c.Bad(rule, fmt.Sprintf("%s:marker-branch-ast#%d", c.funcKey(p, fd), ord), s.Pos(), "the loop over right-hand-side symbols stops at a state marker (break/return in the marker branch): symbols on the other side of the marker are ignored")
							}
						}
					}
					return true
				}
				ast.Inspect(fd.Body, visit)
			}
		}
	}
}
