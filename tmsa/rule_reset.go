package main

import (
	"fmt"
	"go/ast"
	"go/token"

	"golang.org/x/tools/go/ssa"
)

// RESET(histogram): a counter slice that outlives one iteration of a loop (allocated outside it,
// or received as a parameter), is bumped with s[k]++ inside the iteration and read back inside
// the same iteration, must be zeroed in that iteration before the first bump, under conditions
// no narrower than those of the read. Otherwise the counts of an earlier iteration (or of
// another user of the scratch slice) leak into the decision taken from the histogram.
func ruleRESET(c *Ctx, pkgs ...string) {
	const rule = "RESET(histogram)"
	n := 0
	for _, rel := range pkgs {
		for _, f := range c.SrcFuncs(rel) {
			loops := naturalLoops(f)
			ord := map[string]int{}
			type rmw struct {
				st *ssa.Store
				s  ssa.Value
			}
			var rmws []rmw
			for _, b := range f.Blocks {
				for _, ins := range b.Instrs {
					st, ok := ins.(*ssa.Store)
					if !ok {
						continue
					}
					ia, ok := st.Addr.(*ssa.IndexAddr)
					if !ok {
						continue
					}
					bo, ok := st.Val.(*ssa.BinOp)
					if !ok || bo.Op != token.ADD {
						continue
					}
					ld, ok := bo.X.(*ssa.UnOp)
					if !ok || ld.Op != token.MUL || !sameCell(ld.X, ia) {
						continue
					}
					if k, ok := bo.Y.(*ssa.Const); !ok || k.Value == nil || k.Int64() != 1 {
						continue
					}
					rmws = append(rmws, rmw{st, ia.X})
				}
			}
			for _, r := range rmws {
				// the iteration the histogram must be private to
				var iter *natLoop
				defBlock := (*ssa.BasicBlock)(nil)
				switch d := r.s.(type) {
				case *ssa.Parameter:
				case *ssa.MakeSlice:
					defBlock = d.Block()
				default:
					continue // fields, captured variables: ownership not visible here
				}
				for _, l := range loops {
					if defBlock != nil && l.Body[r.st.Block()] && !l.Body[defBlock] {
						if iter == nil || len(l.Body) > len(iter.Body) {
							iter = l
						}
					}
				}
				if defBlock != nil && iter == nil {
					continue // fresh zeroed allocation, single pass
				}
				inIter := func(b *ssa.BasicBlock) bool { return iter == nil || iter.Body[b] }
				// reads of the histogram inside the iteration (other than the bump itself)
				var reads []ssa.Instruction
				for _, b := range f.Blocks {
					if !inIter(b) {
						continue
					}
					for _, ins := range b.Instrs {
						switch y := ins.(type) {
						case *ssa.Slice:
							if y.X == r.s {
								reads = append(reads, y)
							}
						case *ssa.IndexAddr:
							if y.X != r.s {
								continue
							}
							for _, ref := range *y.Referrers() {
								if u, ok := ref.(*ssa.UnOp); ok && u.Op == token.MUL {
									isBump := false
									for _, ur := range *u.Referrers() {
										if bo, ok := ur.(*ssa.BinOp); ok && bo.Op == token.ADD {
											for _, br := range *bo.Referrers() {
												if st, ok := br.(*ssa.Store); ok && sameCell(st.Addr, y) {
													isBump = true
												}
											}
										}
									}
									if !isBump {
										reads = append(reads, u)
									}
								}
							}
						}
					}
				}
				if len(reads) == 0 {
					continue // accumulates across iterations on purpose
				}
				n++
				nm := c.localName(f, r.s)
				key := ordKey(ord, fmt.Sprintf("%s:%s[..]++", ssaFuncKey(f), nm))
				// zeroing loops inside the iteration
				type zl struct {
					loop *natLoop
					st   *ssa.Store
				}
				var zs []zl
				for _, l := range loops {
					if !inIter(l.Header) || l == iter || l.Body[r.st.Block()] {
						continue
					}
					phi, dir, _ := l.induction()
					if phi == nil || dir != 1 {
						continue
					}
					for b := range l.Body {
						for _, ins := range b.Instrs {
							st, ok := ins.(*ssa.Store)
							if !ok {
								continue
							}
							ia, ok := st.Addr.(*ssa.IndexAddr)
							if !ok || ia.X != r.s || stripConv(ia.Index) != ssa.Value(phi) {
								continue
							}
							if k, ok := st.Val.(*ssa.Const); ok && k.Value != nil && k.Int64() == 0 {
								zs = append(zs, zl{l, st})
							}
						}
					}
				}
				var why string
				okZ := false
				for _, z := range zs {
					// order: the zeroing loop comes before the bump in the iteration
					var avoid *ssa.BasicBlock
					if iter != nil {
						avoid = iter.Header
					}
					before := reachesWithoutOpt(z.loop.Header, r.st.Block(), avoid)
					after := reachesWithoutOpt(r.st.Block(), z.loop.Header, avoid)
					if !before || after {
						why = "a zeroing loop exists but does not precede the bump within the iteration"
						continue
					}
					// conditions of the zeroing loop (within the iteration) ⊆ conditions of every read
					zc := condSet(z.loop.Header, iter, z.loop)
					all := true
					for _, rd := range reads {
						rc := condSet(rd.Block(), iter, nil)
						for k := range zc {
							if !rc[k] {
								all = false
								why = fmt.Sprintf("the zeroing loop runs only under %s, which the read at %s does not require", k, c.Fset.Position(rd.Pos()))
							}
						}
					}
					// the zeroed prefix covers what is read: `for i := 0; i < B` vs reads of s[:B]
					if all {
						zb := ""
						for _, ins := range z.loop.Header.Instrs {
							if ifi, ok := ins.(*ssa.If); ok {
								if l, op, rr, ok := cmpNormV(ifi.Cond, true); ok {
									if _, isPhi := stripConv(l).(*ssa.Phi); isPhi {
										switch op {
										case "<":
											zb = vpath(rr)
										case "<=":
											zb = "(" + vpath(rr) + " + 1)"
										}
									}
								}
							}
						}
						for _, rd := range reads {
							if sl, ok := rd.(*ssa.Slice); ok && sl.High != nil && zb != "" {
								if hb := vpath(sl.High); hb != zb {
									all = false
									why = fmt.Sprintf("the zeroing loop clears %s[0:%s] but %s[:%s] is read back", nm, normalizePhi(zb), nm, normalizePhi(hb))
								}
							}
						}
					}
					if all {
						okZ = true
						break
					}
				}
				if okZ {
					c.Ok(rule, key, r.st.Pos(), "counter slice %s is zeroed inside the iteration before %s[k]++ and before the %d read(s) taken from it", nm, nm, len(reads))
					continue
				}
				if why == "" {
					why = "no loop storing 0 into it precedes the bump inside the iteration"
				}
				c.Bad(rule, key, r.st.Pos(), "counter slice %s outlives the iteration, is bumped and read back inside it, but %s: stale counts reach the decision", nm, why)
			}
		}
	}
	_ = n
	c.MinCount(rule, "lalr.", 2)
}

func reachesWithoutOpt(from, to, avoid *ssa.BasicBlock) bool {
	if avoid == nil {
		return reachesWithout(from, to, nil)
	}
	if from == avoid {
		return false
	}
	return reachesWithout(from, to, avoid)
}

// condSet: governing conditions of b that are decided inside iter (all when iter is nil),
// excluding the conditions of loop `self` itself.
func condSet(b *ssa.BasicBlock, iter, self *natLoop) map[string]bool {
	out := map[string]bool{}
	for _, g := range flattenConds(governing(b)) {
		if iter != nil && (!iter.Body[g.If.Block()] || g.If.Block() == iter.Header) {
			continue
		}
		if self != nil && self.Body[g.If.Block()] {
			continue
		}
		s := vpath(g.V)
		if !g.Pol {
			s = "!(" + s + ")"
		}
		out[s] = true
	}
	return out
}

// sameCell: two element addresses of the same slice value at the same index value (go/ssa does
// not share the address computation between the load and the store of s[k]++).
func sameCell(a ssa.Value, ia *ssa.IndexAddr) bool {
	b, ok := a.(*ssa.IndexAddr)
	return ok && (b == ia || b.X == ia.X && b.Index == ia.Index)
}

// localName: the source name of the variable an SSA value was first assigned to (`x := make(..)`),
// the parameter name, or the access path.
func (c *Ctx) localName(f *ssa.Function, v ssa.Value) string {
	if p, ok := v.(*ssa.Parameter); ok {
		return p.Name()
	}
	name := ""
	if syn := f.Syntax(); syn != nil && v.Pos().IsValid() {
		ast.Inspect(syn, func(n ast.Node) bool {
			as, ok := n.(*ast.AssignStmt)
			if !ok || len(as.Lhs) != len(as.Rhs) {
				return true
			}
			for i, r := range as.Rhs {
				if call, ok := r.(*ast.CallExpr); ok && (call.Lparen == v.Pos() || call.Pos() == v.Pos()) {
					if id, ok := as.Lhs[i].(*ast.Ident); ok {
						name = id.Name
					}
				}
			}
			return true
		})
	}
	if name == "" {
		return vpath(v)
	}
	return name
}
