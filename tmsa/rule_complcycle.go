package main

import (
	"fmt"
	"strings"

	"golang.org/x/tools/go/ssa"
)

// GUARD(complcycle): in the set closure an error is recorded exactly for a complement node
// whose operand is still on the Tarjan stack. Every append to Closure.err must be governed by
// "op == complement" and by "onStack.Get(w)" being true, both functions that evaluate a
// component must contain such a site, and Compute must return the accumulated error.
func ruleCOMPLCYCLE(c *Ctx) {
	const rule = "GUARD(complcycle)"
	compl, ok := c.enumConst("util/set", "complement")
	if !ok {
		c.Lost(rule, "util/set.complement", "constant util/set.complement not found")
		return
	}
	for _, name := range []string{"(*Closure).closure", "(*Closure).slowClosure"} {
		f := c.SSAFunc("util/set", name)
		if f == nil {
			c.Lost(rule, "util/set."+name, "function not found")
			continue
		}
		sites := 0
		for _, b := range f.Blocks {
			for _, ins := range b.Instrs {
				st, ok := ins.(*ssa.Store)
				if !ok {
					continue
				}
				fa, ok := st.Addr.(*ssa.FieldAddr)
				if !ok || fieldName(fa.X.Type(), fa.Field) != "err" {
					continue
				}
				sites++
				key := fmt.Sprintf("util/set.%s:err#%d", name, sites)
				cs := governing(b)
				isCompl := hasCond(cs, func(p string, pol bool) bool {
					return pol && strings.HasSuffix(p, fmt.Sprintf(".op == %d)", compl))
				})
				onStack := hasCond(cs, func(p string, pol bool) bool {
					return pol && strings.HasPrefix(p, "util/container.BitSet.Get(onStack,")
				})
				if isCompl && onStack {
					c.Ok(rule, key, st.Pos(), "error recorded under {%s}", strings.Join(condStrings(cs), " ∧ "))
				} else {
					c.Bad(rule, key, st.Pos(), "Closure.err is extended under {%s}; it must be governed by op == complement (%v) and onStack.Get(operand) (%v)", strings.Join(condStrings(cs), " ∧ "), isCompl, onStack)
				}
			}
		}
		if sites == 0 {
			c.Bad(rule, "util/set."+name+":err", f.Pos(), "%s never records a complement-on-cycle error", name)
		}
	}
	// Compute returns c.err.err()
	f := c.SSAFunc("util/set", "(*Closure).Compute")
	if f == nil {
		c.Lost(rule, "util/set.(*Closure).Compute", "function not found")
		return
	}
	okRet := true
	n := 0
	for _, b := range f.Blocks {
		for _, ins := range b.Instrs {
			if r, ok := ins.(*ssa.Return); ok {
				n++
				if len(r.Results) != 1 || !strings.HasPrefix(vpath(r.Results[0]), "util/set.ClosureError.err(c.err") {
					okRet = false
				}
			}
		}
	}
	if okRet && n > 0 {
		c.Ok(rule, "util/set.Closure.Compute:return", f.Pos(), "all %d returns yield c.err.err()", n)
	} else {
		c.Bad(rule, "util/set.Closure.Compute:return", f.Pos(), "Compute must return the accumulated ClosureError on every path")
	}
}
