package main

import (
	"fmt"
	"regexp"
	"sort"
	"strings"

	"golang.org/x/tools/go/ssa"
)

// SIBLING(resolvesets): the five work-list cases of syntax.ResolveSets must instantiate the
// sets their definitions call for, walk the rule in the right direction from the right
// position, and stop at the first non-nullable symbol:
//
//	Any     -> Any(sym) for every rhs symbol
//	First   -> First(sym), forward from the start, stop after a non-nullable symbol
//	Last    -> Last(sym), backward from the end, stop after a non-nullable symbol
//	Precede -> Last(sym), backward from pos-1; if the prefix is nullable: Precede(lhs)
//	Follow  -> First(sym), forward from pos+1; if the suffix is nullable: Follow(lhs)
func ruleRESOLVESETS(c *Ctx) {
	const rule = "SIBLING(resolvesets)"
	f := c.SSAFunc("syntax", "ResolveSets")
	if f == nil {
		c.Lost(rule, "syntax.ResolveSets", "function not found")
		return
	}
	ops := map[string]int64{}
	for _, n := range []string{"Any", "First", "Last", "Precede", "Follow"} {
		v, ok := c.enumConst("syntax", n)
		if !ok {
			c.Lost(rule, "syntax."+n, "SetOp constant not found")
			return
		}
		ops[n] = v
	}
	opName := map[int64]string{}
	for n, v := range ops {
		opName[v] = n
	}
	type want struct {
		inLoop  string // K instantiated inside the symbol loop
		dir     int
		start   *regexp.Regexp
		after   string // K instantiated after the loop when the walk was not scoped
		breakOn bool   // loop must stop on a non-nullable symbol
	}
	table := map[string]want{
		"Any":     {inLoop: "Any", dir: 1, start: regexp.MustCompile(`^(-1|0)$`)},
		"First":   {inLoop: "First", dir: 1, start: regexp.MustCompile(`^(-1|0)$`), breakOn: true},
		"Last":    {inLoop: "Last", dir: -1, start: regexp.MustCompile(`^\(len\(.*\) - 1\)$`), breakOn: true},
		"Precede": {inLoop: "Last", dir: -1, start: regexp.MustCompile(`\.pos - 1\)$`), after: "Precede", breakOn: true},
		"Follow":  {inLoop: "First", dir: 1, start: regexp.MustCompile(`\.pos \+ 1\)$`), after: "Follow", breakOn: true},
	}
	loops := naturalLoops(f)
	caseRe := regexp.MustCompile(`\.op == (\d+)\)$`)
	found := map[string][]string{}
	for _, b := range f.Blocks {
		for _, ins := range b.Instrs {
			call, ok := ins.(*ssa.Call)
			if !ok {
				continue
			}
			g := resolveCallee(call)
			if g == nil || g.Parent() != f || len(call.Common().Args) != 2 {
				continue
			}
			k, ok := call.Common().Args[0].(*ssa.Const)
			if !ok || k.Value == nil || !strings.HasSuffix(k.Type().String(), "syntax.SetOp") {
				continue
			}
			kname := opName[k.Int64()]
			// which case of the work-list switch?
			cs := governing(b)
			caseName := ""
			for _, gc := range flattenConds(cs) {
				if m := caseRe.FindStringSubmatch(vpath(gc.V)); m != nil && gc.Pol {
					var v int64
					fmt.Sscan(m[1], &v)
					caseName = opName[v]
				}
			}
			if caseName == "" {
				continue // the call in translate() etc.
			}
			w := table[caseName]
			lp := innermostLoop(loops, b)
			// the symbol loop is the loop whose induction variable indexes the rhs
			inSymLoop := false
			if lp != nil {
				if _, dir, start := lp.induction(); dir != 0 {
					arg := vpath(call.Common().Args[1])
					if strings.Contains(arg, "[") && !strings.HasSuffix(arg, ".lhs") {
						inSymLoop = true
						key := fmt.Sprintf("syntax.ResolveSets:case %s:%s(sym)", caseName, kname)
						found[caseName] = append(found[caseName], "loop:"+kname)
						var probs []string
						if kname != w.inLoop {
							probs = append(probs, fmt.Sprintf("instantiates %s(sym) but the definition of %s needs %s(sym)", kname, caseName, w.inLoop))
						}
						if dir != w.dir {
							probs = append(probs, fmt.Sprintf("walks the rule in direction %+d, expected %+d", dir, w.dir))
						}
						if st := vpath(start); !w.start.MatchString(st) {
							probs = append(probs, fmt.Sprintf("starts at %s, expected %s", st, w.start))
						}
						if w.breakOn {
							// an If on nullable.Get(sym) inside the loop: true continues, false leaves
							okBreak := false
							for lb := range lp.Body {
								if len(lb.Instrs) == 0 {
									continue
								}
								ifi, ok := lb.Instrs[len(lb.Instrs)-1].(*ssa.If)
								if !ok {
									continue
								}
								p := vpath(ifi.Cond)
								if !strings.HasPrefix(p, "util/container.BitSet.Get(") || !strings.Contains(strings.ToLower(p), "nullable") {
									continue
								}
								stays0, stays1 := lp.Body[lb.Succs[0]], lp.Body[lb.Succs[1]]
								if stays0 && !stays1 {
									okBreak = true
								} else {
									probs = append(probs, fmt.Sprintf("the nullable test has the wrong polarity: continues=%v/%v on true/false", stays0, stays1))
								}
							}
							if !okBreak && len(probs) == 0 {
								probs = append(probs, "the loop does not stop at the first non-nullable symbol (no branch on nullable.Get(sym) that leaves the loop when it is false)")
							}
						}
						if len(probs) > 0 {
							c.Bad(rule, key, call.Pos(), "%s", strings.Join(probs, "; "))
						} else {
							c.Ok(rule, key, call.Pos(), "%s(sym) in direction %+d from %s, stops after the first non-nullable symbol=%v", kname, dir, vpath(start), w.breakOn)
						}
					}
				}
			}
			if !inSymLoop {
				key := fmt.Sprintf("syntax.ResolveSets:case %s:%s(lhs)", caseName, kname)
				found[caseName] = append(found[caseName], "after:"+kname)
				notScoped := hasCond(cs, func(p string, pol bool) bool { return !pol && strings.HasPrefix(p, "φ") })
				switch {
				case w.after == "":
					c.Bad(rule, key, call.Pos(), "case %s must not fall through to the enclosing nonterminal (%s(lhs))", caseName, kname)
				case kname != w.after:
					c.Bad(rule, key, call.Pos(), "falls through to %s(lhs), the definition of %s needs %s(lhs)", kname, caseName, w.after)
				case !notScoped:
					c.Bad(rule, key, call.Pos(), "%s(lhs) must be included only when the walk ran off the rule (guard !scoped missing); governing: %s", kname, strings.Join(condStrings(cs), " ∧ "))
				default:
					c.Ok(rule, key, call.Pos(), "%s(lhs) included only when no non-nullable symbol stopped the walk", kname)
				}
			}
		}
	}
	for name, w := range table {
		got := found[name]
		sort.Strings(got)
		exp := []string{"loop:" + w.inLoop}
		if w.after != "" {
			exp = append([]string{"after:" + w.after}, exp...)
		}
		sort.Strings(exp)
		if strings.Join(got, ",") != strings.Join(exp, ",") {
			c.Bad(rule, "syntax.ResolveSets:case "+name, f.Pos(), "case %s instantiates {%s}, expected {%s}", name, strings.Join(got, ","), strings.Join(exp, ","))
		}
	}
	c.MinCount(rule, "", 7)
}
