package main

import (
	"fmt"
	"go/constant"
	"go/token"
	"go/types"
	"math"
	"sort"
	"strings"

	"golang.org/x/tools/go/ssa"
)

// A finite abstract evaluator over go/ssa ("DTX", decision-table extraction).
//
// A function is evaluated on *abstract* inputs chosen by the rule: known booleans, integer
// intervals, comparison-only ordinals (a value that may only be compared; its rank stands for
// the whole class of integers with that ordering), named opaque values, structs of these.
// Conditions that the abstract input does not decide are explored both ways. The result is the
// set of outcomes (returned abstract values + the recorded calls) per abstract input, which
// the rule compares with a specification table. This is abstract interpretation over a finite
// domain: no path constraint leaves the evaluator and nothing from /repo is executed.

type AV interface{ String() string }

type avBool struct{ V bool }
type avInt struct{ Lo, Hi int64 } // interval; Lo == Hi is a constant
type avOrd struct {               // comparison-only integer
	Name string
	Rank int
}
type avSym struct { // opaque named value
	Name string
	Len  AV // optional abstract length for slices/strings/maps
}
type avStruct struct{ F []AV }
type avTuple struct{ E []AV }
type avStr struct{ S string }
type avNil struct{}
type avPtr struct { // pointer into evaluator-local memory
	C    *aiCell
	Path []int // field path inside the cell
}
type avSymPtr struct{ Path string } // address inside opaque (heap) memory, named by access path
type avFunc struct{ F *ssa.Function }
type avApp struct { // result of an intercepted call, kept symbolically
	Fn   string
	Args []AV
}

type aiCell struct{ v AV }

func (v avBool) String() string { return fmt.Sprint(v.V) }
func (v avInt) String() string {
	if v.Lo == v.Hi {
		return fmt.Sprint(v.Lo)
	}
	lo, hi := fmt.Sprint(v.Lo), fmt.Sprint(v.Hi)
	if v.Lo == math.MinInt64 {
		lo = "-inf"
	}
	if v.Hi == math.MaxInt64 {
		hi = "+inf"
	}
	return "[" + lo + "," + hi + "]"
}
func (v avOrd) String() string { return fmt.Sprintf("%s#%d", v.Name, v.Rank) }
func (v avSym) String() string { return v.Name }
func (v avStruct) String() string {
	var p []string
	for _, f := range v.F {
		if f == nil {
			p = append(p, "_")
		} else {
			p = append(p, f.String())
		}
	}
	return "{" + strings.Join(p, " ") + "}"
}
func (v avTuple) String() string {
	var p []string
	for _, f := range v.E {
		if f == nil {
			p = append(p, "_")
		} else {
			p = append(p, f.String())
		}
	}
	return "(" + strings.Join(p, ", ") + ")"
}
func (v avStr) String() string    { return fmt.Sprintf("%q", v.S) }
func (v avNil) String() string    { return "nil" }
func (v avPtr) String() string    { return "&local" }
func (v avSymPtr) String() string { return "&" + v.Path }
func (v avFunc) String() string   { return "func " + v.F.Name() }
func (v avApp) String() string {
	var a []string
	for _, x := range v.Args {
		a = append(a, avStr2(x))
	}
	return v.Fn + "(" + strings.Join(a, ",") + ")"
}

type aiEvent struct {
	Callee string
	Args   []AV
	Pos    token.Pos
}

func (e aiEvent) String() string {
	var a []string
	for _, x := range e.Args {
		if x == nil {
			a = append(a, "_")
		} else {
			a = append(a, x.String())
		}
	}
	return e.Callee + "(" + strings.Join(a, ", ") + ")"
}

// aiOutcome is one explored path.
type aiOutcome struct {
	Ret    []AV
	Events []aiEvent
	Stores []string // stores to opaque memory: "path = value"
	Kind   string   // "return" | "panic" | "exit" | "cut" | "unsupported"
	Why    string
	Forks  int
}

func (o aiOutcome) String() string {
	var ev []string
	for _, e := range o.Events {
		ev = append(ev, e.String())
	}
	var r []string
	for _, x := range o.Ret {
		if x == nil {
			r = append(r, "_")
		} else {
			r = append(r, x.String())
		}
	}
	s := o.Kind
	if o.Kind == "return" {
		s = "return " + strings.Join(r, ", ")
	}
	if len(ev) > 0 {
		s += " after " + strings.Join(ev, "; ")
	}
	if len(o.Stores) > 0 {
		s += " with " + strings.Join(o.Stores, "; ")
	}
	if o.Why != "" {
		s += " (" + o.Why + ")"
	}
	return s
}

// aiConfig lets a rule choose the abstract input and intercept the constructs it cares about.
type aiConfig struct {
	// Load gives the abstract value of a load from opaque memory at the given access path
	// (e.g. "c.grammar.Precedence[shift].Associativity"); ok=false -> a fresh opaque value.
	Load func(path string, t types.Type) (AV, bool)
	// Lookup gives the result of a map lookup m[k] (commaOk: tuple of value, ok).
	Lookup func(path string, key AV, commaOk bool, t types.Type) (AV, bool)
	// Call intercepts a call: handled=true uses the returned value (and records an event when
	// record is true) instead of inlining/skipping the callee.
	Call func(callee string, args []AV, site ssa.CallInstruction) (ret AV, handled, record bool)
	// Inline decides whether a module callee without an interception is evaluated inline.
	Inline func(callee string) bool
	// RecordStores: stores to opaque memory are recorded in the outcome.
	RecordStores bool
	MaxForks     int
	MaxVisits    int
}

type aiRun struct {
	cfg      *aiConfig
	script   []bool
	used     int
	pending  [][]bool
	events   []aiEvent
	stores   []string
	forks    int
	depth    int
	abort    string // non-empty: path ended abnormally
	abortWhy string
	symMem   map[string]AV // stores to opaque memory made on this path (read back by later loads)
}

// aiEval evaluates fn on the given abstract arguments and returns all explored outcomes.
func aiEval(fn *ssa.Function, args []AV, cfg *aiConfig) []aiOutcome {
	if cfg.MaxForks == 0 {
		cfg.MaxForks = 14
	}
	if cfg.MaxVisits == 0 {
		cfg.MaxVisits = 6
	}
	var outs []aiOutcome
	work := [][]bool{nil}
	for len(work) > 0 && len(outs) < 4096 {
		script := work[len(work)-1]
		work = work[:len(work)-1]
		r := &aiRun{cfg: cfg, script: script, symMem: map[string]AV{}}
		ret := r.call(fn, args)
		o := aiOutcome{Events: r.events, Stores: r.stores, Forks: r.forks, Kind: "return"}
		if r.abort != "" {
			o.Kind, o.Why = r.abort, r.abortWhy
		} else if t, ok := ret.(avTuple); ok {
			o.Ret = t.E
		} else if ret != nil {
			o.Ret = []AV{ret}
		}
		outs = append(outs, o)
		work = append(work, r.pending...)
	}
	return outs
}

func (r *aiRun) fail(kind, why string) {
	if r.abort == "" {
		r.abort, r.abortWhy = kind, why
	}
}

// decide resolves an undecided condition using the script (exploring the other way later).
func (r *aiRun) decide() bool {
	if r.used < len(r.script) {
		v := r.script[r.used]
		r.used++
		return v
	}
	r.forks++
	if r.forks > r.cfg.MaxForks {
		r.fail("cut", "too many undecided conditions on one path")
		return false
	}
	// take false now, schedule true
	alt := append(append([]bool{}, r.script...), true)
	r.pending = append(r.pending, alt)
	r.script = append(r.script, false)
	r.used++
	return false
}

func zeroAV(t types.Type) AV {
	switch u := t.Underlying().(type) {
	case *types.Basic:
		switch {
		case u.Info()&types.IsBoolean != 0:
			return avBool{false}
		case u.Info()&types.IsInteger != 0:
			return avInt{0, 0}
		case u.Info()&types.IsString != 0:
			return avStr{""}
		}
		return avSym{Name: "zero"}
	case *types.Struct:
		s := avStruct{F: make([]AV, u.NumFields())}
		for i := range s.F {
			s.F[i] = zeroAV(u.Field(i).Type())
		}
		return s
	case *types.Slice, *types.Map:
		return avSym{Name: "nil", Len: avInt{0, 0}}
	case *types.Pointer, *types.Interface, *types.Signature, *types.Chan:
		return avNil{}
	case *types.Array:
		return avSym{Name: "zeroarray"}
	}
	return avSym{Name: "zero"}
}

func constAV(c *ssa.Const) AV {
	if c.Value == nil {
		return zeroAV(c.Type())
	}
	switch c.Value.Kind() {
	case constant.Bool:
		return avBool{constant.BoolVal(c.Value)}
	case constant.Int:
		if v, ok := constant.Int64Val(c.Value); ok {
			return avInt{v, v}
		}
		if v, ok := constant.Uint64Val(c.Value); ok && v <= math.MaxInt64 {
			return avInt{int64(v), int64(v)}
		}
	case constant.String:
		return avStr{constant.StringVal(c.Value)}
	}
	return avSym{Name: "const " + c.Value.String()}
}

func (r *aiRun) call(fn *ssa.Function, args []AV) AV {
	if r.abort != "" {
		return nil
	}
	if fn.Blocks == nil {
		return avSym{Name: "extern " + fn.Name()}
	}
	r.depth++
	defer func() { r.depth-- }()
	if r.depth > 8 {
		r.fail("cut", "inlining depth exceeded")
		return nil
	}
	env := map[ssa.Value]AV{}
	for i, p := range fn.Params {
		if i < len(args) && args[i] != nil {
			env[p] = args[i]
		} else {
			env[p] = avSym{Name: p.Name()}
		}
	}
	visits := map[*ssa.BasicBlock]int{}
	var prev *ssa.BasicBlock
	b := fn.Blocks[0]
	for {
		visits[b]++
		if visits[b] > r.cfg.MaxVisits {
			r.fail("cut", fmt.Sprintf("loop bound reached in %s", fn.Name()))
			return nil
		}
		// phis first (parallel assignment)
		var phiVals []AV
		var phis []*ssa.Phi
		for _, ins := range b.Instrs {
			phi, ok := ins.(*ssa.Phi)
			if !ok {
				break
			}
			idx := -1
			for i, p := range b.Preds {
				if p == prev {
					idx = i
				}
			}
			var v AV
			if idx >= 0 {
				v = r.val(env, phi.Edges[idx])
			}
			phis = append(phis, phi)
			phiVals = append(phiVals, v)
		}
		for i, phi := range phis {
			env[phi] = phiVals[i]
		}
		var next *ssa.BasicBlock
		for _, ins := range b.Instrs[len(phis):] {
			if r.abort != "" {
				return nil
			}
			switch x := ins.(type) {
			case *ssa.If:
				c := r.val(env, x.Cond)
				var take bool
				if cb, ok := c.(avBool); ok {
					take = cb.V
				} else {
					take = r.decide()
					// remember the decision for this SSA value (it may be tested again)
					env[x.Cond] = avBool{take}
				}
				if take {
					next = b.Succs[0]
				} else {
					next = b.Succs[1]
				}
			case *ssa.Jump:
				next = b.Succs[0]
			case *ssa.Return:
				if len(x.Results) == 0 {
					return avTuple{}
				}
				if len(x.Results) == 1 {
					return r.val(env, x.Results[0])
				}
				t := avTuple{}
				for _, res := range x.Results {
					t.E = append(t.E, r.val(env, res))
				}
				return t
			case *ssa.Panic:
				r.fail("panic", "")
				return nil
			case *ssa.Store:
				r.store(env, x)
			case *ssa.MapUpdate:
				if r.cfg.RecordStores {
					m := r.val(env, x.Map)
					r.stores = append(r.stores, fmt.Sprintf("%s[%s] = %s", avStr2(m), avStr2(r.val(env, x.Key)), avStr2(r.val(env, x.Value))))
				}
			case *ssa.DebugRef, *ssa.RunDefers:
			case *ssa.Defer, *ssa.Go, *ssa.Send:
				r.fail("unsupported", fmt.Sprintf("%T", x))
				return nil
			case ssa.Value:
				env[x] = r.instr(env, x)
			}
		}
		if next == nil {
			r.fail("unsupported", "block without terminator")
			return nil
		}
		prev, b = b, next
	}
}

func avStr2(v AV) string {
	if v == nil {
		return "_"
	}
	return v.String()
}

func (r *aiRun) val(env map[ssa.Value]AV, v ssa.Value) AV {
	switch x := v.(type) {
	case *ssa.Const:
		return constAV(x)
	case *ssa.Function:
		return avFunc{x}
	case *ssa.Global:
		return avSymPtr{Path: x.Pkg.Pkg.Name() + "." + x.Name()}
	case *ssa.Builtin:
		return avSym{Name: "builtin " + x.Name()}
	}
	if a, ok := env[v]; ok && a != nil {
		return a
	}
	return avSym{Name: "?" + v.Name()}
}

func (r *aiRun) store(env map[ssa.Value]AV, s *ssa.Store) {
	addr := r.val(env, s.Addr)
	val := r.val(env, s.Val)
	switch a := addr.(type) {
	case avPtr:
		a.C.v = setPath(a.C.v, a.Path, val)
	case avSymPtr:
		r.symMem[a.Path] = val
		if r.cfg.RecordStores {
			r.stores = append(r.stores, fmt.Sprintf("%s = %s", a.Path, avStr2(val)))
		}
	default:
		if r.cfg.RecordStores {
			r.stores = append(r.stores, fmt.Sprintf("*%s = %s", avStr2(addr), avStr2(val)))
		}
	}
}

func setPath(base AV, path []int, val AV) AV {
	if len(path) == 0 {
		return val
	}
	st, ok := base.(avStruct)
	if !ok {
		return base // store into something we do not model
	}
	nf := append([]AV{}, st.F...)
	if path[0] < len(nf) {
		nf[path[0]] = setPath(nf[path[0]], path[1:], val)
	}
	return avStruct{F: nf}
}

func getPath(base AV, path []int) AV {
	for _, i := range path {
		st, ok := base.(avStruct)
		if !ok || i >= len(st.F) {
			return avSym{Name: "?field"}
		}
		base = st.F[i]
	}
	return base
}

func fieldName(t types.Type, i int) string {
	u := t.Underlying()
	if p, ok := u.(*types.Pointer); ok {
		u = p.Elem().Underlying()
	}
	if st, ok := u.(*types.Struct); ok && i < st.NumFields() {
		return st.Field(i).Name()
	}
	return fmt.Sprintf("f%d", i)
}

func (r *aiRun) instr(env map[ssa.Value]AV, v ssa.Value) AV {
	switch x := v.(type) {
	case *ssa.Alloc:
		return avPtr{C: &aiCell{v: zeroAV(x.Type().Underlying().(*types.Pointer).Elem())}}
	case *ssa.FieldAddr:
		base := r.val(env, x.X)
		switch b := base.(type) {
		case avPtr:
			return avPtr{C: b.C, Path: append(append([]int{}, b.Path...), x.Field)}
		case avSymPtr:
			return avSymPtr{Path: b.Path + "." + fieldName(x.X.Type(), x.Field)}
		case avSym:
			return avSymPtr{Path: b.Name + "." + fieldName(x.X.Type(), x.Field)}
		}
		return avSymPtr{Path: avStr2(base) + "." + fieldName(x.X.Type(), x.Field)}
	case *ssa.IndexAddr:
		base := r.val(env, x.X)
		idx := r.val(env, x.Index)
		return avSymPtr{Path: ptrName(base) + "[" + avStr2(idx) + "]"}
	case *ssa.Field:
		base := r.val(env, x.X)
		if st, ok := base.(avStruct); ok && x.Field < len(st.F) && st.F[x.Field] != nil {
			return st.F[x.Field]
		}
		return avSym{Name: avStr2(base) + "." + fieldName(x.X.Type(), x.Field)}
	case *ssa.Index:
		return avSym{Name: avStr2(r.val(env, x.X)) + "[" + avStr2(r.val(env, x.Index)) + "]"}
	case *ssa.UnOp:
		return r.unop(env, x)
	case *ssa.BinOp:
		return aiBinOp(x.Op, r.val(env, x.X), r.val(env, x.Y), x.X.Type())
	case *ssa.Phi:
		return avSym{Name: "?phi"}
	case *ssa.Convert:
		return convertAV(r.val(env, x.X), x.Type())
	case *ssa.ChangeType:
		return r.val(env, x.X)
	case *ssa.ChangeInterface:
		return r.val(env, x.X)
	case *ssa.MakeInterface:
		return r.val(env, x.X)
	case *ssa.Extract:
		t := r.val(env, x.Tuple)
		if tt, ok := t.(avTuple); ok && x.Index < len(tt.E) {
			return tt.E[x.Index]
		}
		return avSym{Name: fmt.Sprintf("%s.%d", avStr2(t), x.Index)}
	case *ssa.Lookup:
		m := r.val(env, x.X)
		k := r.val(env, x.Index)
		if r.cfg.Lookup != nil {
			if v, ok := r.cfg.Lookup(ptrName(m), k, x.CommaOk, x.Type()); ok {
				return v
			}
		}
		name := ptrName(m) + "[" + avStr2(k) + "]"
		if x.CommaOk {
			return avTuple{E: []AV{avSym{Name: name}, avSym{Name: name + ".ok"}}}
		}
		return avSym{Name: name}
	case *ssa.Slice:
		base := r.val(env, x.X)
		s := avSym{Name: ptrName(base) + "[:]"}
		if x.High != nil {
			if hi, ok := r.val(env, x.High).(avInt); ok && x.Low == nil {
				s.Len = hi
			}
		}
		return s
	case *ssa.MakeSlice:
		return avSym{Name: "make@" + x.Name(), Len: r.val(env, x.Len)}
	case *ssa.MakeMap:
		return avSym{Name: "makemap@" + x.Name(), Len: avInt{0, 0}}
	case *ssa.MakeClosure:
		return avFunc{x.Fn.(*ssa.Function)}
	case *ssa.TypeAssert:
		return avSym{Name: avStr2(r.val(env, x.X)) + ".(T)"}
	case *ssa.Call:
		return r.doCall(env, x)
	case *ssa.Range, *ssa.Next, *ssa.Select, *ssa.MakeChan:
		return avSym{Name: "?" + v.Name()}
	}
	return avSym{Name: "?" + v.Name()}
}

func ptrName(v AV) string {
	switch p := v.(type) {
	case avSymPtr:
		return p.Path
	case avSym:
		return p.Name
	}
	return avStr2(v)
}

func convertAV(v AV, t types.Type) AV {
	if bt, ok := t.Underlying().(*types.Basic); ok && bt.Info()&types.IsInteger != 0 {
		switch v.(type) {
		case avInt, avOrd:
			return v // width changes are ignored for the small constants involved; intervals stay sound for widening conversions only
		}
	}
	return v
}

func (r *aiRun) unop(env map[ssa.Value]AV, x *ssa.UnOp) AV {
	v := r.val(env, x.X)
	switch x.Op {
	case token.NOT:
		if b, ok := v.(avBool); ok {
			return avBool{!b.V}
		}
		return avSym{Name: "!" + avStr2(v)}
	case token.SUB:
		if i, ok := v.(avInt); ok && i.Lo != math.MinInt64 && i.Hi != math.MaxInt64 {
			return avInt{-i.Hi, -i.Lo}
		}
		return avSym{Name: "-" + avStr2(v)}
	case token.MUL: // load
		switch p := v.(type) {
		case avPtr:
			return getPath(p.C.v, p.Path)
		case avSymPtr:
			if sv, ok := r.symMem[p.Path]; ok {
				return sv
			}
			if r.cfg.Load != nil {
				if lv, ok := r.cfg.Load(p.Path, x.Type()); ok {
					return lv
				}
			}
			return avSym{Name: p.Path}
		case avSym:
			if r.cfg.Load != nil {
				if lv, ok := r.cfg.Load("*"+p.Name, x.Type()); ok {
					return lv
				}
			}
			return avSym{Name: "*" + p.Name}
		}
		return avSym{Name: "*" + avStr2(v)}
	}
	return avSym{Name: x.Op.String() + avStr2(v)}
}

func cmpInts(op token.Token, a, b avInt) (bool, bool) {
	switch op {
	case token.EQL:
		if a.Lo == a.Hi && b.Lo == b.Hi && a.Lo == b.Lo {
			return true, true
		}
		if a.Hi < b.Lo || b.Hi < a.Lo {
			return false, true
		}
	case token.NEQ:
		if v, ok := cmpInts(token.EQL, a, b); ok {
			return !v, true
		}
	case token.LSS:
		if a.Hi < b.Lo {
			return true, true
		}
		if a.Lo >= b.Hi {
			return false, true
		}
	case token.LEQ:
		if a.Hi <= b.Lo {
			return true, true
		}
		if a.Lo > b.Hi {
			return false, true
		}
	case token.GTR:
		return cmpInts(token.LSS, b, a)
	case token.GEQ:
		return cmpInts(token.LEQ, b, a)
	}
	return false, false
}

func satAdd(a, b int64) int64 {
	if a == math.MinInt64 || b == math.MinInt64 {
		return math.MinInt64
	}
	if a == math.MaxInt64 || b == math.MaxInt64 {
		return math.MaxInt64
	}
	s := a + b
	if (a > 0 && b > 0 && s < 0) || s > math.MaxInt64/2 {
		return math.MaxInt64
	}
	if (a < 0 && b < 0 && s > 0) || s < math.MinInt64/2 {
		return math.MinInt64
	}
	return s
}

func aiBinOp(op token.Token, a, b AV, t types.Type) AV {
	name := func() AV { return avSym{Name: "(" + avStr2(a) + " " + op.String() + " " + avStr2(b) + ")"} }
	switch x := a.(type) {
	case avBool:
		if y, ok := b.(avBool); ok {
			switch op {
			case token.EQL:
				return avBool{x.V == y.V}
			case token.NEQ:
				return avBool{x.V != y.V}
			case token.AND, token.LAND:
				return avBool{x.V && y.V}
			case token.OR, token.LOR:
				return avBool{x.V || y.V}
			}
		}
	case avInt:
		if y, ok := b.(avInt); ok {
			switch op {
			case token.EQL, token.NEQ, token.LSS, token.LEQ, token.GTR, token.GEQ:
				if v, ok := cmpInts(op, x, y); ok {
					return avBool{v}
				}
				return name()
			case token.ADD:
				return avInt{satAdd(x.Lo, y.Lo), satAdd(x.Hi, y.Hi)}
			case token.SUB:
				if y.Lo == math.MinInt64 || y.Hi == math.MaxInt64 {
					return avInt{math.MinInt64, math.MaxInt64}
				}
				return avInt{satAdd(x.Lo, -y.Hi), satAdd(x.Hi, -y.Lo)}
			case token.MUL:
				if x.Lo == x.Hi && y.Lo == y.Hi && abs64(x.Lo) < 1<<31 && abs64(y.Lo) < 1<<31 {
					return avInt{x.Lo * y.Lo, x.Lo * y.Lo}
				}
				if y.Lo == y.Hi && y.Lo >= 0 && y.Lo < 1<<20 && abs64(x.Lo) < 1<<40 && abs64(x.Hi) < 1<<40 {
					return avInt{x.Lo * y.Lo, x.Hi * y.Lo}
				}
			case token.SHL:
				if y.Lo == y.Hi && y.Lo >= 0 && y.Lo < 32 && x.Lo >= 0 && x.Hi < 1<<30 {
					return avInt{x.Lo << uint(y.Lo), x.Hi << uint(y.Lo)}
				}
			case token.AND:
				if y.Lo == y.Hi && y.Lo >= 0 {
					if x.Lo == x.Hi && x.Lo >= 0 {
						return avInt{x.Lo & y.Lo, x.Lo & y.Lo}
					}
					return avInt{0, y.Lo}
				}
			case token.QUO:
				if y.Lo == y.Hi && y.Lo > 0 && x.Lo >= 0 && x.Hi != math.MaxInt64 {
					return avInt{x.Lo / y.Lo, x.Hi / y.Lo}
				}
			case token.REM:
				if y.Lo == y.Hi && y.Lo > 0 && x.Lo >= 0 {
					if x.Lo == x.Hi {
						return avInt{x.Lo % y.Lo, x.Lo % y.Lo}
					}
					return avInt{0, y.Lo - 1}
				}
			}
			return avInt{math.MinInt64, math.MaxInt64}
		}
	case avOrd:
		if y, ok := b.(avOrd); ok {
			switch op {
			case token.EQL:
				return avBool{x.Rank == y.Rank}
			case token.NEQ:
				return avBool{x.Rank != y.Rank}
			case token.LSS:
				return avBool{x.Rank < y.Rank}
			case token.LEQ:
				return avBool{x.Rank <= y.Rank}
			case token.GTR:
				return avBool{x.Rank > y.Rank}
			case token.GEQ:
				return avBool{x.Rank >= y.Rank}
			}
			return avSym{Name: "ord-arith(" + x.Name + op.String() + y.Name + ")"}
		}
	case avStr:
		if y, ok := b.(avStr); ok {
			switch op {
			case token.EQL:
				return avBool{x.S == y.S}
			case token.NEQ:
				return avBool{x.S != y.S}
			case token.ADD:
				return avStr{x.S + y.S}
			}
		}
	case avNil:
		if _, ok := b.(avNil); ok {
			switch op {
			case token.EQL:
				return avBool{true}
			case token.NEQ:
				return avBool{false}
			}
		}
	case avSym:
		// reflexive comparisons of the same opaque value
		if y, ok := b.(avSym); ok && x.Name == y.Name && !strings.HasPrefix(x.Name, "?") {
			switch op {
			case token.EQL, token.LEQ, token.GEQ:
				return avBool{true}
			case token.NEQ, token.LSS, token.GTR:
				return avBool{false}
			}
		}
	}
	return name()
}

func abs64(x int64) int64 {
	if x < 0 {
		return -x
	}
	return x
}

func (r *aiRun) doCall(env map[ssa.Value]AV, call *ssa.Call) AV {
	cc := call.Common()
	var args []AV
	for _, a := range cc.Args {
		args = append(args, r.val(env, a))
	}
	if bi, ok := cc.Value.(*ssa.Builtin); ok {
		switch bi.Name() {
		case "len", "cap":
			switch a := args[0].(type) {
			case avSym:
				if a.Len != nil {
					return a.Len
				}
				if r.cfg.Load != nil {
					if lv, ok := r.cfg.Load("len("+a.Name+")", call.Type()); ok {
						return lv
					}
				}
				return avSym{Name: "len(" + a.Name + ")"}
			case avStr:
				return avInt{int64(len(a.S)), int64(len(a.S))}
			}
			return avInt{0, math.MaxInt64}
		case "append":
			return avSym{Name: "append(" + avStr2(args[0]) + ")", Len: avInt{0, math.MaxInt64}}
		case "min", "max":
			return avSym{Name: bi.Name() + "(…)"}
		}
		return avSym{Name: "builtin " + bi.Name()}
	}
	name := ""
	var callee *ssa.Function
	if g := cc.StaticCallee(); g != nil {
		callee = g
		name = calleeName(g)
	} else if cc.IsInvoke() {
		name = "invoke " + cc.Method.Name()
		args = append([]AV{r.val(env, cc.Value)}, args...)
	} else if f, ok := r.val(env, cc.Value).(avFunc); ok {
		callee = f.F
		name = calleeName(f.F)
	} else {
		name = "dynamic " + avStr2(r.val(env, cc.Value))
	}
	if r.cfg.Call != nil {
		if ret, handled, record := r.cfg.Call(name, args, call); handled {
			if record {
				r.events = append(r.events, aiEvent{Callee: name, Args: args, Pos: call.Pos()})
			}
			if ret == nil {
				ret = avSym{Name: name + "()"}
			}
			return ret
		}
	}
	if callee != nil && callee.Blocks != nil && r.cfg.Inline != nil && r.cfg.Inline(name) {
		// closures: bind free variables is not modelled; only closed functions are inlined
		if len(callee.FreeVars) == 0 {
			return r.call(callee, args)
		}
	}
	switch name {
	case "log.Fatal", "log.Fatalf", "log.Fatalln", "os.Exit", "log.Panic", "log.Panicf":
		r.events = append(r.events, aiEvent{Callee: name, Args: nil, Pos: call.Pos()})
		r.fail("exit", name)
		return nil
	}
	var an []string
	for _, a := range args {
		an = append(an, avStr2(a))
	}
	return avSym{Name: name + "(" + strings.Join(an, ",") + ")"}
}

// outcomeSet renders a set of outcomes canonically (sorted, deduplicated).
func outcomeSet(outs []aiOutcome) []string {
	m := map[string]bool{}
	for _, o := range outs {
		m[o.String()] = true
	}
	var l []string
	for s := range m {
		l = append(l, s)
	}
	sort.Strings(l)
	return l
}
