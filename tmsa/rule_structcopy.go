package main

import (
	"fmt"
	"go/token"
	"go/types"

	"golang.org/x/tools/go/ssa"
)

// COPY(struct-slices): `clone := *p` copies slice headers, not their backing arrays. If the
// copy is then handed to a function that writes a slice field F of its parameter in place
// (append into spare capacity, copy(), element stores), the original's F is modified too unless
// clone.F was given its own backing array first. For every whole-struct copy into a local
// whose address reaches such a call, a store of a fresh value to clone.F must dominate the call.
// (C01: the input's private copy of a shared final state gets the end-of-input transition;
// written into the shared array it makes inner contexts accept too.)
func ruleSTRUCTCOPY(c *Ctx, pkgs ...string) {
	const rule = "COPY(struct-slices)"
	n := 0
	// which slice fields of parameter i does a function write in place?
	writesOf := func(g *ssa.Function, pi int) map[int]token.Pos {
		out := map[int]token.Pos{}
		if g == nil || g.Blocks == nil || pi >= len(g.Params) {
			return out
		}
		p := g.Params[pi]
		fieldOf := func(v ssa.Value) (int, bool) {
			// v is (derived from) a load of p.F
			for d := 0; d < 6; d++ {
				switch x := v.(type) {
				case *ssa.UnOp:
					if x.Op == token.MUL {
						if fa, ok := x.X.(*ssa.FieldAddr); ok && fa.X == ssa.Value(p) {
							return fa.Field, true
						}
					}
					return 0, false
				case *ssa.Slice:
					v = x.X
				case *ssa.IndexAddr:
					v = x.X
				default:
					return 0, false
				}
			}
			return 0, false
		}
		for _, b := range g.Blocks {
			for _, ins := range b.Instrs {
				switch x := ins.(type) {
				case *ssa.Store:
					if ia, ok := x.Addr.(*ssa.IndexAddr); ok {
						if f, ok := fieldOf(ia.X); ok {
							out[f] = x.Pos()
						}
					}
				case *ssa.Call:
					if bi, ok := x.Call.Value.(*ssa.Builtin); ok && (bi.Name() == "copy" || bi.Name() == "append") && len(x.Call.Args) > 0 {
						if f, ok := fieldOf(x.Call.Args[0]); ok {
							out[f] = x.Pos()
						}
					}
				}
			}
		}
		return out
	}
	for _, rel := range pkgs {
		for _, f := range c.SrcFuncs(rel) {
			ord := map[string]int{}
			for _, b := range f.Blocks {
				for _, ins := range b.Instrs {
					st, ok := ins.(*ssa.Store)
					if !ok {
						continue
					}
					al, ok := st.Addr.(*ssa.Alloc)
					if !ok {
						continue
					}
					ld, ok := st.Val.(*ssa.UnOp)
					if !ok || ld.Op != token.MUL {
						continue
					}
					stt, ok := al.Type().Underlying().(*types.Pointer).Elem().Underlying().(*types.Struct)
					if !ok {
						continue
					}
					if _, isAlloc := ld.X.(*ssa.Alloc); isAlloc {
						continue // copy of another local
					}
					if _, isIdx := ld.X.(*ssa.IndexAddr); isIdx {
						// element copies are covered by LOSTWRITE; here: copies of *p
					}
					hasSlice := false
					for i := 0; i < stt.NumFields(); i++ {
						if _, ok := stt.Field(i).Type().Underlying().(*types.Slice); ok {
							hasSlice = true
						}
					}
					if !hasSlice {
						continue
					}
					// values that carry the copy's address
					carriers := map[ssa.Value]bool{al: true}
					for changed := true; changed; {
						changed = false
						for _, b2 := range f.Blocks {
							for _, in2 := range b2.Instrs {
								if phi, ok := in2.(*ssa.Phi); ok && !carriers[phi] {
									for _, e := range phi.Edges {
										if carriers[e] {
											carriers[phi], changed = true, true
										}
									}
								}
							}
						}
					}
					// fresh stores to fields of the copy
					fresh := map[int][]*ssa.Store{}
					if al.Referrers() != nil {
						for _, r := range *al.Referrers() {
							if fa, ok := r.(*ssa.FieldAddr); ok && fa.Referrers() != nil {
								for _, r2 := range *fa.Referrers() {
									if s2, ok := r2.(*ssa.Store); ok && s2.Addr == ssa.Value(fa) {
										// not a copy of the source's own field, and not an append onto the
										// (still shared) field itself
										shared := func(v ssa.Value) bool {
											if u, ok := v.(*ssa.UnOp); ok && u.Op == token.MUL {
												if sfa, ok := u.X.(*ssa.FieldAddr); ok && sfa.Field == fa.Field && (sfa.X == ld.X || sfa.X == ssa.Value(al)) {
													return true
												}
											}
											return false
										}
										if shared(s2.Val) {
											continue
										}
										if ac, ok := s2.Val.(*ssa.Call); ok {
											if bi, ok := ac.Call.Value.(*ssa.Builtin); ok && bi.Name() == "append" && len(ac.Call.Args) > 0 && shared(ac.Call.Args[0]) {
												continue
											}
										}
										fresh[fa.Field] = append(fresh[fa.Field], s2)
									}
								}
							}
						}
					}
					// in-place writes of a slice field of the copy in this very function: append onto
					// the field, copy() into it, element stores, or handing it to a callee that writes
					// its slice parameter in place
					for _, b2 := range f.Blocks {
						for _, in2 := range b2.Instrs {
							var fld = -1
							var what string
							fieldLoad := func(v ssa.Value) (int, bool) {
								for d := 0; d < 4; d++ {
									switch x := v.(type) {
									case *ssa.UnOp:
										if x.Op == token.MUL {
											if fa, ok := x.X.(*ssa.FieldAddr); ok && fa.X == ssa.Value(al) {
												return fa.Field, true
											}
										}
										return 0, false
									case *ssa.Slice:
										v = x.X
									default:
										return 0, false
									}
								}
								return 0, false
							}
							switch y := in2.(type) {
							case *ssa.Call:
								if bi, ok := y.Call.Value.(*ssa.Builtin); ok && (bi.Name() == "append" || bi.Name() == "copy") && len(y.Call.Args) > 0 {
									if fl, ok := fieldLoad(y.Call.Args[0]); ok {
										fld, what = fl, bi.Name()
									}
								} else if g := y.Call.StaticCallee(); g != nil {
									for ai, a := range y.Call.Args {
										if fl, ok := fieldLoad(a); ok && writesSliceParam(g, ai) {
											fld, what = fl, g.Name()
										}
									}
								}
							case *ssa.Store:
								if ia, ok := y.Addr.(*ssa.IndexAddr); ok {
									if fl, ok := fieldLoad(ia.X); ok {
										fld, what = fl, "element store"
									}
								}
							}
							if fld < 0 {
								continue
							}
							if _, ok := stt.Field(fld).Type().Underlying().(*types.Slice); !ok {
								continue
							}
							if !(st.Block() == b2 || st.Block().Dominates(b2)) {
								continue
							}
							n++
							key := ordKey(ord, fmt.Sprintf("%s:%s.%s<-%s", ssaFuncKey(f), al.Comment, stt.Field(fld).Name(), what))
							ok2 := false
							for _, s2 := range fresh[fld] {
								if s2.Block() == st.Block() || s2.Block().Dominates(b2) {
									ok2 = true
								}
								if s2.Block() == b2 {
									for _, x := range b2.Instrs {
										if x == ssa.Instruction(s2) {
											ok2 = true
										}
										if x == in2 {
											break
										}
									}
								}
							}
							if ok2 {
								c.Ok(rule, key, in2.Pos(), "%s.%s has its own backing array before it is written in place (%s)", al.Comment, stt.Field(fld).Name(), what)
							} else {
								c.Bad(rule, key, in2.Pos(), "%s is a value copy of %s; its slice field %s is written in place (%s) while it still shares the original's backing array: the original (and every other holder of that slice) changes too", al.Comment, normalizePhi(vpath(ld.X)), stt.Field(fld).Name(), what)
							}
						}
					}
					// does the copy's address escape into the heap (stored, or appended to a slice)?
					var escapeAt *ssa.BasicBlock
					var escapePos token.Pos
					for _, b2 := range f.Blocks {
						for _, in2 := range b2.Instrs {
							switch y := in2.(type) {
							case *ssa.Store:
								if carriers[y.Val] {
									// &copy stored into an element (append's varargs included) or a field
									switch y.Addr.(type) {
									case *ssa.IndexAddr, *ssa.FieldAddr:
										escapeAt, escapePos = b2, y.Pos()
									}
								}
							}
						}
					}
					if escapeAt != nil {
						named, _ := al.Type().Underlying().(*types.Pointer).Elem().(*types.Named)
						for _, g := range c.SrcFuncs(rel) {
							for pi, prm := range g.Params {
								pt, ok := prm.Type().(*types.Pointer)
								if !ok || named == nil || !types.Identical(pt.Elem(), named) {
									continue
								}
								for fld := range writesOf(g, pi) {
									if _, ok := stt.Field(fld).Type().Underlying().(*types.Slice); !ok {
										continue
									}
									n++
									key := ordKey(ord, fmt.Sprintf("%s:%s.%s->%s", ssaFuncKey(f), al.Comment, stt.Field(fld).Name(), g.Name()))
									ok2 := false
									for _, s2 := range fresh[fld] {
										// in the block of the copy itself every path from the copy passes it
										if s2.Block() == escapeAt || s2.Block().Dominates(escapeAt) || s2.Block() == st.Block() {
											ok2 = true
										}
									}
									if ok2 {
										c.Ok(rule, key, escapePos, "%s.%s gets its own backing array before the copy becomes reachable by %s, which writes that field in place", al.Comment, stt.Field(fld).Name(), g.Name())
									} else {
										c.Bad(rule, key, escapePos, "%s is a value copy of %s that is stored where %s can reach it; %s writes the slice field %s in place, but %s.%s still shares the original's backing array: the original is modified too", al.Comment, normalizePhi(vpath(ld.X)), g.Name(), g.Name(), stt.Field(fld).Name(), al.Comment, stt.Field(fld).Name())
									}
								}
							}
						}
					}
					for _, b2 := range f.Blocks {
						for _, in2 := range b2.Instrs {
							call, ok := in2.(*ssa.Call)
							if !ok {
								continue
							}
							g := call.Call.StaticCallee()
							if g == nil {
								continue
							}
							for ai, a := range call.Call.Args {
								if !carriers[a] {
									continue
								}
								if !(st.Block() == b2 || st.Block().Dominates(b2) || reachesWithout(st.Block(), b2, nil)) {
									continue
								}
								for fld, wpos := range writesOf(g, ai) {
									if _, ok := stt.Field(fld).Type().Underlying().(*types.Slice); !ok {
										continue
									}
									n++
									key := ordKey(ord, fmt.Sprintf("%s:%s.%s->%s", ssaFuncKey(f), al.Comment, stt.Field(fld).Name(), g.Name()))
									ok2 := false
									for _, s2 := range fresh[fld] {
										if s2.Block() == b2 || s2.Block().Dominates(b2) || s2.Block() == st.Block() {
											ok2 = true
										}
									}
									_ = wpos
									if ok2 {
										c.Ok(rule, key, call.Pos(), "%s.%s gets its own backing array before %s writes it in place", al.Comment, stt.Field(fld).Name(), g.Name())
									} else {
										c.Bad(rule, key, call.Pos(), "%s is a value copy of %s and %s writes its slice field %s in place, but %s.%s still shares the original's backing array: the original is modified too", al.Comment, normalizePhi(vpath(ld.X)), g.Name(), stt.Field(fld).Name(), al.Comment, stt.Field(fld).Name())
									}
								}
							}
						}
					}
				}
			}
		}
	}
	if n < 1 {
		c.add(rule, "count:", token.NoPos, CountDropped, true, "no struct copy whose slice field is written in place through a callee found (computeStates' clone of the final state confirmed by hand)")
	}
}

// writesSliceParam: does g write the elements of its slice parameter pi in place (element
// stores, copy into it, sort/append onto it)?
func writesSliceParam(g *ssa.Function, pi int) bool {
	if g == nil || g.Blocks == nil || pi >= len(g.Params) {
		return false
	}
	p := g.Params[pi]
	if _, ok := p.Type().Underlying().(*types.Slice); !ok {
		return false
	}
	derived := func(v ssa.Value) bool {
		for d := 0; d < 4; d++ {
			switch x := v.(type) {
			case *ssa.Slice:
				v = x.X
			default:
				return v == ssa.Value(p)
			}
		}
		return false
	}
	for _, b := range g.Blocks {
		for _, ins := range b.Instrs {
			switch x := ins.(type) {
			case *ssa.Store:
				if ia, ok := x.Addr.(*ssa.IndexAddr); ok && derived(ia.X) {
					return true
				}
			case *ssa.Call:
				if bi, ok := x.Call.Value.(*ssa.Builtin); ok && (bi.Name() == "append" || bi.Name() == "copy") && len(x.Call.Args) > 0 && derived(x.Call.Args[0]) {
					return true
				}
				if cal := x.Call.StaticCallee(); cal != nil && cal.Pkg != nil && (cal.Pkg.Pkg.Path() == "sort" || cal.Pkg.Pkg.Path() == "slices") {
					for _, a := range x.Call.Args {
						v := a
						if mi, ok := v.(*ssa.MakeInterface); ok {
							v = mi.X
						}
						if ct, ok := v.(*ssa.ChangeType); ok {
							v = ct.X
						}
						if derived(v) && (cal.Name() == "Strings" || cal.Name() == "Ints" || cal.Name() == "Sort" || cal.Name() == "Slice" || cal.Name() == "SortFunc" || cal.Name() == "Reverse") {
							return true
						}
					}
				}
			}
		}
	}
	return false
}
