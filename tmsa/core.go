package main

import (
	"fmt"
	"go/ast"
	"go/token"
	"go/types"
	"os"
	"path/filepath"
	"sort"
	"strings"
	"text/template/parse"

	"golang.org/x/tools/go/callgraph"
	"golang.org/x/tools/go/callgraph/cha"
	"golang.org/x/tools/go/callgraph/vta"
	"golang.org/x/tools/go/packages"
	"golang.org/x/tools/go/ssa"
	"golang.org/x/tools/go/ssa/ssautil"
)

const modPath = "github.com/inspirer/textmapper"

// Status of one obligation.
type Status string

const (
	OK           Status = "ok"
	Violation    Status = "violation"
	Undecided    Status = "undecided"
	Unaudited    Status = "unaudited"
	AnchorLost   Status = "anchor-lost"
	CountDropped Status = "count-dropped"
)

// Ob is one obligation (rule instance) evaluated by a run.
type Ob struct {
	Rule       string `json:"rule"`
	Key        string `json:"instance_key"`
	Pos        string `json:"pos,omitempty"`
	Status     Status `json:"status"`
	Fact       string `json:"fact"`
	NonTrivial bool   `json:"nontrivial,omitempty"`
}

// Ctx is the loaded program plus the obligations collected so far.
type Ctx struct {
	Repo  string
	Tier  string
	Fset  *token.FileSet
	Pkgs  map[string]*packages.Package // by import path, module packages only
	All   []*packages.Package          // module packages, sorted
	NFunc int

	prog      *ssa.Program
	ssaPkgs   map[string]*ssa.Package
	chaG      *callgraph.Graph
	vtaG      *callgraph.Graph
	tmpls     map[string]*parse.Tree // lazily: "file.tmpl" or "file.tmpl#define" -> tree
	tmplErr   error
	tmplFiles map[string]*tmplFile

	loaded []*packages.Package
	alias  *aliasAnalysis
	obs    []Ob
	notes  []string // assumptions / remarks for the evidence file
}

// Load type-checks every package of the module rooted at repo.
func Load(repo, tier string) (*Ctx, error) {
	os.Unsetenv("GOWORK")
	cfg := &packages.Config{
		Mode: packages.LoadAllSyntax,
		Dir:  repo,
		Env:  append(os.Environ(), "GOWORK=off", "GOFLAGS=-mod=mod", "GOPROXY=off"),
	}
	pkgs, err := packages.Load(cfg, "./...")
	if err != nil {
		return nil, err
	}
	c := &Ctx{Repo: repo, Tier: tier, Pkgs: map[string]*packages.Package{}}
	var errs []string
	packages.Visit(pkgs, nil, func(p *packages.Package) {
		for _, e := range p.Errors {
			errs = append(errs, e.Error())
		}
	})
	if len(errs) > 0 {
		sort.Strings(errs)
		if len(errs) > 10 {
			errs = errs[:10]
		}
		return nil, fmt.Errorf("type-check/load errors (the tree must build):\n  %s", strings.Join(errs, "\n  "))
	}
	for _, p := range pkgs {
		if p.PkgPath == modPath || strings.HasPrefix(p.PkgPath, modPath+"/") {
			c.Pkgs[p.PkgPath] = p
			c.All = append(c.All, p)
			c.Fset = p.Fset
		}
	}
	sort.Slice(c.All, func(i, j int) bool { return c.All[i].PkgPath < c.All[j].PkgPath })
	if len(c.All) < 30 {
		return nil, fmt.Errorf("only %d packages of %s were loaded from %s; expected at least 30", len(c.All), modPath, repo)
	}
	for _, p := range c.All {
		for _, f := range p.Syntax {
			for _, d := range f.Decls {
				if _, ok := d.(*ast.FuncDecl); ok {
					c.NFunc++
				}
			}
		}
	}
	c.loaded = pkgs
	return c, nil
}

// Pkg returns the module package with the given path relative to the module root ("" = root).
func (c *Ctx) Pkg(rel string) *packages.Package {
	if rel == "" {
		return c.Pkgs[modPath]
	}
	return c.Pkgs[modPath+"/"+rel]
}

// --- SSA ------------------------------------------------------------------------------------

func (c *Ctx) buildSSA() {
	if c.prog != nil {
		return
	}
	prog, _ := ssautil.AllPackages(c.loaded, ssa.InstantiateGenerics)
	prog.Build()
	c.prog = prog
	c.ssaPkgs = map[string]*ssa.Package{}
	for _, p := range prog.AllPackages() {
		c.ssaPkgs[p.Pkg.Path()] = p
	}
}

// Prog returns the SSA program (built on first use).
func (c *Ctx) Prog() *ssa.Program { c.buildSSA(); return c.prog }

// SSAPkg returns the SSA package for a module-relative path.
func (c *Ctx) SSAPkg(rel string) *ssa.Package {
	c.buildSSA()
	if rel == "" {
		return c.ssaPkgs[modPath]
	}
	return c.ssaPkgs[modPath+"/"+rel]
}

// SSAFunc resolves "pkgrel.Func" or "pkgrel.(*T).Method" / "pkgrel.T.Method".
func (c *Ctx) SSAFunc(pkgrel, name string) *ssa.Function {
	p := c.SSAPkg(pkgrel)
	if p == nil {
		return nil
	}
	if strings.HasPrefix(name, "(") || strings.Contains(name, ".") {
		ptr := false
		recv, meth := "", ""
		if strings.HasPrefix(name, "(*") {
			ptr = true
			i := strings.Index(name, ")")
			recv, meth = name[2:i], name[i+2:]
		} else {
			i := strings.Index(name, ".")
			recv, meth = name[:i], name[i+1:]
		}
		tn, _ := p.Pkg.Scope().Lookup(recv).(*types.TypeName)
		if tn == nil {
			return nil
		}
		var t types.Type = tn.Type()
		if ptr {
			t = types.NewPointer(t)
		}
		sel := c.prog.MethodSets.MethodSet(t).Lookup(p.Pkg, meth)
		if sel == nil {
			return nil
		}
		return c.prog.MethodValue(sel)
	}
	return p.Func(name)
}

// SrcFuncs returns every SSA function (including anonymous ones) whose source is in the
// given module-relative package.
func (c *Ctx) SrcFuncs(pkgrel string) []*ssa.Function {
	p := c.SSAPkg(pkgrel)
	if p == nil {
		return nil
	}
	var out []*ssa.Function
	var add func(f *ssa.Function)
	add = func(f *ssa.Function) {
		if f == nil || f.Blocks == nil {
			return
		}
		out = append(out, f)
		for _, a := range f.AnonFuncs {
			add(a)
		}
	}
	for _, m := range p.Members {
		switch m := m.(type) {
		case *ssa.Function:
			add(m)
		case *ssa.Type:
			for _, t := range []types.Type{m.Type(), types.NewPointer(m.Type())} {
				ms := c.prog.MethodSets.MethodSet(t)
				for i := 0; i < ms.Len(); i++ {
					f := c.prog.MethodValue(ms.At(i))
					if f != nil && f.Pkg == p && f.Synthetic == "" {
						add(f)
					}
				}
			}
		}
	}
	seen := map[*ssa.Function]bool{}
	var uniq []*ssa.Function
	for _, f := range out {
		if !seen[f] {
			seen[f] = true
			uniq = append(uniq, f)
		}
	}
	sort.Slice(uniq, func(i, j int) bool { return uniq[i].Pos() < uniq[j].Pos() })
	return uniq
}

// CHA returns the class-hierarchy call graph of the whole program.
func (c *Ctx) CHA() *callgraph.Graph {
	c.buildSSA()
	if c.chaG == nil {
		c.chaG = cha.CallGraph(c.prog)
	}
	return c.chaG
}

// VTA returns the VTA-refined call graph.
func (c *Ctx) VTA() *callgraph.Graph {
	if c.vtaG == nil {
		c.vtaG = vta.CallGraph(ssautil.AllFunctions(c.Prog()), c.CHA())
	}
	return c.vtaG
}

// --- positions and reporting ----------------------------------------------------------------

// Rel renders a position relative to the repository root.
func (c *Ctx) Rel(pos token.Pos) string {
	if !pos.IsValid() || c.Fset == nil {
		return ""
	}
	p := c.Fset.Position(pos)
	f := p.Filename
	if r, err := filepath.Rel(c.Repo, f); err == nil && !strings.HasPrefix(r, "..") {
		f = r
	}
	return fmt.Sprintf("%s:%d:%d", f, p.Line, p.Column)
}

func (c *Ctx) add(rule, key string, pos token.Pos, st Status, nontrivial bool, format string, args ...any) {
	c.obs = append(c.obs, Ob{Rule: rule, Key: key, Pos: c.Rel(pos), Status: st, Fact: fmt.Sprintf(format, args...), NonTrivial: nontrivial})
}

// Ok records a discharged obligation.
func (c *Ctx) Ok(rule, key string, pos token.Pos, format string, args ...any) {
	c.add(rule, key, pos, OK, true, format, args...)
}

// Trivial records a discharged obligation that needed no real argument (counted, not "non-trivial").
func (c *Ctx) Trivial(rule, key string, pos token.Pos, format string, args ...any) {
	c.add(rule, key, pos, OK, false, format, args...)
}

// Bad records a violated obligation.
func (c *Ctx) Bad(rule, key string, pos token.Pos, format string, args ...any) {
	c.add(rule, key, pos, Violation, true, format, args...)
}

// Undec records an instance the rule could not decide (unknown idiom); it fails the check.
func (c *Ctx) Undec(rule, key string, pos token.Pos, format string, args ...any) {
	c.add(rule, key, pos, Undecided, true, format, args...)
}

// Unaud records a site that is missing from an audit table.
func (c *Ctx) Unaud(rule, key string, pos token.Pos, format string, args ...any) {
	c.add(rule, key, pos, Unaudited, true, format, args...)
}

// Lost records an anchor (function, field, template) that no longer resolves.
func (c *Ctx) Lost(rule, key string, format string, args ...any) {
	c.add(rule, key, token.NoPos, AnchorLost, true, format, args...)
}

// Note records an assumption for the evidence file.
func (c *Ctx) Note(format string, args ...any) {
	s := fmt.Sprintf(format, args...)
	for _, n := range c.notes {
		if n == s {
			return
		}
	}
	c.notes = append(c.notes, s)
}

// MinCount fails the run if fewer than n obligations of the rule (optionally with a key
// prefix) were evaluated: a rule that matches nothing passes vacuously forever.
func (c *Ctx) MinCount(rule, keyPrefix string, n int) {
	got := 0
	for _, o := range c.obs {
		if o.Rule == rule && strings.HasPrefix(o.Key, keyPrefix) {
			got++
		}
	}
	if got < n {
		c.add(rule, "count:"+keyPrefix, token.NoPos, CountDropped, true,
			"rule %s matched %d instances with key prefix %q; at least %d were confirmed by hand on the pinned tree", rule, got, keyPrefix, n)
	}
}

// --- small AST helpers ----------------------------------------------------------------------

// FuncDecl finds a function or method declaration: name is "F" or "T.M" (receiver T or *T).
func (c *Ctx) FuncDecl(pkgrel, name string) (*packages.Package, *ast.FuncDecl) {
	p := c.Pkg(pkgrel)
	if p == nil {
		return nil, nil
	}
	recv, fn := "", name
	if i := strings.Index(name, "."); i >= 0 {
		recv, fn = name[:i], name[i+1:]
	}
	for _, f := range p.Syntax {
		for _, d := range f.Decls {
			fd, ok := d.(*ast.FuncDecl)
			if !ok || fd.Name.Name != fn {
				continue
			}
			if recvName(fd) == recv {
				return p, fd
			}
		}
	}
	return p, nil
}

func recvName(fd *ast.FuncDecl) string {
	if fd.Recv == nil || len(fd.Recv.List) == 0 {
		return ""
	}
	t := fd.Recv.List[0].Type
	for {
		switch x := t.(type) {
		case *ast.StarExpr:
			t = x.X
			continue
		case *ast.IndexExpr:
			t = x.X
			continue
		case *ast.IndexListExpr:
			t = x.X
			continue
		case *ast.ParenExpr:
			t = x.X
			continue
		case *ast.Ident:
			return x.Name
		}
		return ""
	}
}

// funcKey names a declaration as pkgrel.(T).F.
func (c *Ctx) funcKey(p *packages.Package, fd *ast.FuncDecl) string {
	rel := strings.TrimPrefix(strings.TrimPrefix(p.PkgPath, modPath), "/")
	if r := recvName(fd); r != "" {
		return rel + "." + r + "." + fd.Name.Name
	}
	return rel + "." + fd.Name.Name
}

// relPkg returns the module-relative path of a types.Package ("" if outside the module).
func relPkg(p *types.Package) (string, bool) {
	if p == nil {
		return "", false
	}
	if p.Path() == modPath {
		return "", true
	}
	if strings.HasPrefix(p.Path(), modPath+"/") {
		return strings.TrimPrefix(p.Path(), modPath+"/"), true
	}
	return "", false
}

// ssaFuncKey is a stable name for an SSA function: pkgrel.(T).F[$n].
func ssaFuncKey(f *ssa.Function) string {
	if f == nil {
		return "<nil>"
	}
	if f.Parent() != nil {
		// anonymous function: parent key + ordinal
		for i, a := range f.Parent().AnonFuncs {
			if a == f {
				return fmt.Sprintf("%s$%d", ssaFuncKey(f.Parent()), i+1)
			}
		}
	}
	rel := ""
	if f.Pkg != nil {
		rel, _ = relPkg(f.Pkg.Pkg)
		if _, in := relPkg(f.Pkg.Pkg); !in {
			rel = f.Pkg.Pkg.Path()
		}
	} else if o := f.Object(); o != nil && o.Pkg() != nil {
		rel = o.Pkg().Path()
	}
	name := f.Name()
	if sig := f.Signature; sig != nil && sig.Recv() != nil {
		t := sig.Recv().Type()
		if pt, ok := t.(*types.Pointer); ok {
			t = pt.Elem()
		}
		if nt, ok := t.(*types.Named); ok {
			name = nt.Obj().Name() + "." + name
		}
	}
	return rel + "." + name
}
