package main

import (
	"fmt"
	"go/token"
	"strings"

	"golang.org/x/tools/go/ssa"
)

// SENTINEL(allTokensMarker): with lalr(k) / verbose conflict explanations the lookahead sets hold
// goto indices plus the sentinel c.allTokensMarker == len(follow) ("followed by anything", for
// no-eoi inputs), which is one past the last goto. A function that compares a value with the
// sentinel believes the value may be the sentinel; every table access whose index is computed
// from that value (FromTo[2*gt+1], follow[gt]) must be governed by value != sentinel.
func ruleSENTINELIDX(c *Ctx) {
	const rule = "SENTINEL(allTokensMarker)"
	n := 0
	for _, f := range c.SrcFuncs("lalr") {
		// values compared with the sentinel
		type cmp struct {
			v    ssa.Value
			cond *ssa.BinOp
		}
		var cmps []cmp
		for _, b := range f.Blocks {
			for _, ins := range b.Instrs {
				bo, ok := ins.(*ssa.BinOp)
				if !ok || (bo.Op != token.EQL && bo.Op != token.NEQ) {
					continue
				}
				switch {
				case strings.HasSuffix(vpath(bo.Y), ".allTokensMarker"):
					cmps = append(cmps, cmp{bo.X, bo})
				case strings.HasSuffix(vpath(bo.X), ".allTokensMarker"):
					cmps = append(cmps, cmp{bo.Y, bo})
				}
			}
		}
		if len(cmps) == 0 {
			continue
		}
		ord := map[string]int{}
		for _, b := range f.Blocks {
			for _, ins := range b.Instrs {
				ia, ok := ins.(*ssa.IndexAddr)
				if !ok {
					continue
				}
				// does the index depend on a compared value?
				for _, cm := range cmps {
					dep := false
					var walk func(v ssa.Value, d int)
					walk = func(v ssa.Value, d int) {
						if d > 5 || dep {
							return
						}
						if v == cm.v {
							dep = true
							return
						}
						switch y := v.(type) {
						case *ssa.BinOp:
							walk(y.X, d+1)
							walk(y.Y, d+1)
						case *ssa.Convert:
							walk(y.X, d+1)
						}
					}
					walk(ia.Index, 0)
					if !dep {
						continue
					}
					n++
					key := ordKey(ord, fmt.Sprintf("%s:%s[%s]", ssaFuncKey(f), normalizePhi(vpath(ia.X)), normalizePhi(vpath(ia.Index))))
					guarded := false
					for _, g := range flattenConds(governing(b)) {
						if g.V == ssa.Value(cm.cond) {
							// cond is (v == marker): need false; (v != marker): need true
							if (cm.cond.Op == token.EQL && !g.Pol) || (cm.cond.Op == token.NEQ && g.Pol) {
								guarded = true
							}
						}
					}
					if guarded {
						c.Ok(rule, key, ia.Pos(), "the access is reached only when the value is not the all-tokens sentinel")
					} else {
						c.Bad(rule, key, ia.Pos(), "%s is indexed by an expression of a value that this function compares with c.allTokensMarker, on a path where it may still be the sentinel (== len(follow), one past the last goto): index out of range for no-eoi inputs", normalizePhi(vpath(ia.X)))
					}
				}
			}
		}
	}
	// provenance: an element of a state's la set is a goto index or the sentinel (buildLA stores
	// the marker into these sets for no-eoi inputs), whether or not the function that reads it
	// says so. A goto-table access indexed by such an element in a function that never compares
	// it with the sentinel is unguarded by construction.
	for _, f := range c.SrcFuncs("lalr") {
		compared := map[ssa.Value]bool{}
		var elems []ssa.Value
		for _, b := range f.Blocks {
			for _, ins := range b.Instrs {
				switch x := ins.(type) {
				case *ssa.BinOp:
					if x.Op == token.EQL || x.Op == token.NEQ {
						if strings.HasSuffix(vpath(x.Y), ".allTokensMarker") {
							compared[x.X] = true
						}
						if strings.HasSuffix(vpath(x.X), ".allTokensMarker") {
							compared[x.Y] = true
						}
					}
				case *ssa.UnOp:
					if x.Op != token.MUL {
						continue
					}
					if ia, ok := x.X.(*ssa.IndexAddr); ok && strings.Contains(vpath(ia.X), ".la[") {
						elems = append(elems, x)
					}
				}
			}
		}
		ord := map[string]int{}
		for _, el := range elems {
			if compared[el] {
				continue // handled above
			}
			for _, b := range f.Blocks {
				for _, ins := range b.Instrs {
					ia, ok := ins.(*ssa.IndexAddr)
					if !ok || !strings.HasSuffix(vpath(ia.X), ".FromTo") {
						continue
					}
					dep := false
					var walk func(v ssa.Value, d int)
					walk = func(v ssa.Value, d int) {
						if d > 5 || dep {
							return
						}
						if v == el {
							dep = true
							return
						}
						switch y := v.(type) {
						case *ssa.BinOp:
							walk(y.X, d+1)
							walk(y.Y, d+1)
						case *ssa.Convert:
							walk(y.X, d+1)
						}
					}
					walk(ia.Index, 0)
					if !dep {
						continue
					}
					n++
					key := ordKey(ord, fmt.Sprintf("%s:la-element:%s[%s]", ssaFuncKey(f), normalizePhi(vpath(ia.X)), normalizePhi(vpath(ia.Index))))
					c.Bad(rule, key, ia.Pos(), "%s is indexed by an element of a state's la set, which holds goto indices and, for no-eoi inputs, the sentinel c.allTokensMarker (== len(follow), one past the last goto); this function never compares the element with the sentinel: index out of range when a conflict of such a grammar is explained (the language server compiles with Verbose)", normalizePhi(vpath(ia.X)))
				}
			}
		}
	}
	if n < 4 {
		c.add(rule, "count:", token.NoPos, CountDropped, true, "only %d table accesses indexed by a possibly-sentinel value found (resolveWithLookahead, explainConflict/reduceRuleInfo and the trie builder confirmed by hand)", n)
	}
}

// SENTINEL(universe): under useTransitions the follow sets hold goto indices 0..len(follow)-1
// plus the sentinel c.allTokensMarker == len(follow). The universe of the sparse-set builder and
// of the bit sets derived from it must contain the sentinel: its size is 1 + len(follow). With
// len(follow) the sentinel is one past the end and inserting it panics (only when the count is a
// multiple of the bit-set word size does the rounding not hide it).
func ruleSENTINELUNIVERSE(c *Ctx) {
	const rule = "SENTINEL(universe)"
	key := "lalr.compiler.buildLA:followSize"
	f := c.SSAFunc("lalr", "(*compiler).buildLA")
	if f == nil {
		c.Lost(rule, key, "function not found")
		return
	}
	marker := ""
	for _, b := range f.Blocks {
		for _, ins := range b.Instrs {
			if st, ok := ins.(*ssa.Store); ok {
				if fa, ok := st.Addr.(*ssa.FieldAddr); ok && fieldName(fa.X.Type(), fa.Field) == "allTokensMarker" {
					marker = vpath(st.Val)
				}
			}
		}
	}
	if marker == "" {
		c.Lost(rule, key, "the assignment of c.allTokensMarker was not found")
		return
	}
	for _, b := range f.Blocks {
		for _, ins := range b.Instrs {
			phi, ok := ins.(*ssa.Phi)
			if !ok || len(phi.Edges) != 2 {
				continue
			}
			var term, trans string
			for _, e := range phi.Edges {
				p := vpath(e)
				if strings.HasSuffix(p, ".Terminals") {
					term = p
				} else {
					trans = p
				}
			}
			if term == "" || !strings.Contains(trans, marker) {
				continue
			}
			if trans == "(1 + "+marker+")" || trans == "("+marker+" + 1)" {
				c.Ok(rule, key, phi.Pos(), "under useTransitions the universe of the follow sets is %s, which contains the sentinel %s", trans, marker)
			} else {
				c.Bad(rule, key, phi.Pos(), "under useTransitions the universe of the follow sets is %s but the sentinel allTokensMarker is %s: the sentinel lies outside the universe and inserting it indexes past the end of the builder's arrays", trans, marker)
			}
			return
		}
	}
	c.Lost(rule, key, "the universe size (Terminals vs. number of gotos) was not found")
}
