package main

import (
	"fmt"
	"go/types"

	"golang.org/x/tools/go/ssa"
)

// LOOPSHAPE(collect-all): resolveWithLookahead gathers, per conflicting rule, *all* goto
// transitions on the conflict terminal found in the rule's lookahead set (after LALR merging one
// terminal can be reached through several left contexts, each with its own continuation). The
// loops that fill the rule -> transitions maps must run to exhaustion: their only exit is the
// loop header. An early break keeps the first context only and the deeper lookahead is decided
// from a part of the continuations.
func ruleCOLLECTALL(c *Ctx) {
	const rule = "LOOPSHAPE(collect-all)"
	f := c.SSAFunc("lalr", "(*compiler).resolveWithLookahead")
	if f == nil {
		c.Lost(rule, "lalr.compiler.resolveWithLookahead", "function not found")
		return
	}
	loops := naturalLoops(f)
	n := 0
	seen := map[*natLoop]bool{}
	for _, b := range f.Blocks {
		for _, ins := range b.Instrs {
			mu, ok := ins.(*ssa.MapUpdate)
			if !ok {
				continue
			}
			mt, ok := mu.Map.Type().Underlying().(*types.Map)
			if !ok {
				continue
			}
			if _, isSlice := mt.Elem().Underlying().(*types.Slice); !isSlice {
				continue
			}
			// only collections that grow an entry: value is an append of the entry itself
			call, ok := mu.Value.(*ssa.Call)
			if !ok {
				continue
			}
			if bi, ok := call.Call.Value.(*ssa.Builtin); !ok || bi.Name() != "append" {
				continue
			}
			lp := innermostLoop(loops, b)
			if lp == nil || seen[lp] {
				continue
			}
			seen[lp] = true
			n++
			key := fmt.Sprintf("lalr.compiler.resolveWithLookahead:collect#%d", n)
			early := false
			for bb := range lp.Body {
				if bb == lp.Header {
					continue
				}
				for _, s := range bb.Succs {
					if !lp.Body[s] {
						early = true
					}
				}
			}
			if early {
				c.Bad(rule, key, mu.Pos(), "the loop collecting transitions into %s can be left before its range is exhausted: only a prefix of the transitions on the conflict terminal reaches the lookahead trie", vpath(mu.Map))
			} else {
				c.Ok(rule, key, mu.Pos(), "the loop collecting into %s leaves only through its header (all transitions are visited)", vpath(mu.Map))
			}
		}
	}
	if n < 1 {
		c.Lost(rule, "lalr.compiler.resolveWithLookahead:collect", "no collecting loop (m[k] = append(m[k], ...)) found")
	}
}
