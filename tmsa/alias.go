package main

import (
	"fmt"
	"go/token"
	"go/types"
	"sort"
	"strings"

	"golang.org/x/tools/go/ssa"
)

// A small field-based may-alias analysis for slices ("which backing arrays may this value
// share?"), enough for the one aliasing discipline the repository has: scratch buffers passed
// as a `reuse` argument. Roots are parameters, heap fields (by field object), package-level
// variables and allocation sites. The analysis is flow-insensitive inside a function and
// field-based across functions (a store into field F makes every load of F carry the stored
// roots). It over-approximates; the two rules built on it (ALIAS, ESCAPE) report a violation
// only when a scratch root provably reaches the offending operand in this abstraction.

type rootKind int

const (
	rParam rootKind = iota
	rField
	rGlobal
	rAlloc
	rFree
)

type root struct {
	kind rootKind
	obj  any // *ssa.Parameter | *types.Var (field) | *ssa.Global | ssa.Value (alloc site) | *ssa.FreeVar
}

func (r root) String() string {
	switch r.kind {
	case rParam:
		return "param " + r.obj.(*ssa.Parameter).Name()
	case rField:
		v := r.obj.(*types.Var)
		return "field " + v.Name()
	case rGlobal:
		return "global " + r.obj.(*ssa.Global).Name()
	case rAlloc:
		return "alloc@" + r.obj.(ssa.Value).Name()
	case rFree:
		return "captured " + r.obj.(*ssa.FreeVar).Name()
	}
	return "?"
}

type rootSet map[root]bool

func (s rootSet) addAll(o rootSet) bool {
	ch := false
	for r := range o {
		if !s[r] {
			s[r] = true
			ch = true
		}
	}
	return ch
}

func (s rootSet) names() string {
	var n []string
	for r := range s {
		n = append(n, r.String())
	}
	sort.Strings(n)
	return strings.Join(n, ", ")
}

// aliasSummary describes a function: which parameters' storage may be returned, which
// non-parameter roots may be returned, and which parameters' storage is written.
type aliasSummary struct {
	returns map[int]bool
	retRoot rootSet
	writes  map[int]bool
	scratch map[int]bool // parameters that are reset with p[:0] and refilled
	retains map[int]bool // slice parameters stored (uncopied) into memory that outlives the call
}

type aliasAnalysis struct {
	c       *Ctx
	funcs   []*ssa.Function
	sum     map[*ssa.Function]*aliasSummary
	held    map[*types.Var]rootSet // field-based: roots stored into a heap field
	stores  map[*ssa.Function]map[ssa.Value][]ssa.Value
	memo    map[ssa.Value]rootSet
	reach   map[*ssa.Alloc]map[ssa.Instruction][]ssa.Value
	changed bool
}

// summaryOverrides: callees whose result never shares storage with their arguments although a
// path-insensitive reading suggests otherwise (each confirmed by reading).
var summaryOverrides = map[string]string{
	"slices.Clone":      "returns a fresh copy",
	"util/sparse.Union": "either returns one of the input sets, or a slice that outgrew reuse, or (when it still fits in reuse) slices.Clone(ret): the guard `cap(reuse) >= len(ret)` covers exactly the case where ret still shares reuse's array",
	"strings.Split":     "fresh", "strings.Fields": "fresh", "sort.Strings": "no result",
}

func hasSliceStorage(t types.Type, depth int) bool {
	if depth > 3 {
		return false
	}
	switch u := t.Underlying().(type) {
	case *types.Slice:
		return true
	case *types.Struct:
		for i := 0; i < u.NumFields(); i++ {
			if hasSliceStorage(u.Field(i).Type(), depth+1) {
				return true
			}
		}
	}
	return false
}

func newAliasAnalysis(c *Ctx, pkgrels []string) *aliasAnalysis {
	a := &aliasAnalysis{c: c, sum: map[*ssa.Function]*aliasSummary{}, held: map[*types.Var]rootSet{}, stores: map[*ssa.Function]map[ssa.Value][]ssa.Value{}}
	for _, rel := range pkgrels {
		a.funcs = append(a.funcs, c.SrcFuncs(rel)...)
	}
	// also instantiations of generic functions reachable by static calls
	seen := map[*ssa.Function]bool{}
	for _, f := range a.funcs {
		seen[f] = true
	}
	for i := 0; i < len(a.funcs); i++ {
		f := a.funcs[i]
		for _, b := range f.Blocks {
			for _, ins := range b.Instrs {
				if ci, ok := ins.(ssa.CallInstruction); ok {
					if g := ci.Common().StaticCallee(); g != nil && !seen[g] && g.Blocks != nil && g.Pkg == nil && g.Origin() != nil {
						if _, in := relPkg(g.Origin().Pkg.Pkg); in {
							seen[g] = true
							a.funcs = append(a.funcs, g)
						}
					}
				}
			}
		}
	}
	for _, f := range a.funcs {
		a.sum[f] = &aliasSummary{returns: map[int]bool{}, retRoot: rootSet{}, writes: map[int]bool{}, scratch: map[int]bool{}, retains: map[int]bool{}}
		st := map[ssa.Value][]ssa.Value{}
		for _, b := range f.Blocks {
			for _, ins := range b.Instrs {
				if s, ok := ins.(*ssa.Store); ok {
					if al := localAllocRoot(s.Addr); al != nil {
						st[al] = append(st[al], s.Val)
					}
				}
			}
		}
		a.stores[f] = st
	}
	for round := 0; round < 12; round++ {
		a.changed = false
		a.memo = map[ssa.Value]rootSet{}
		for _, f := range a.funcs {
			a.summarize(f)
		}
		if !a.changed {
			break
		}
	}
	a.memo = map[ssa.Value]rootSet{}
	return a
}

// localAllocRoot returns the function-local Alloc an address is based on (through field and
// index addressing), or nil.
func localAllocRoot(v ssa.Value) *ssa.Alloc {
	for i := 0; i < 16; i++ {
		switch x := v.(type) {
		case *ssa.Alloc:
			return x
		case *ssa.FieldAddr:
			v = x.X
		case *ssa.IndexAddr:
			// indexing a local array; indexing a slice leaves the local frame
			if _, ok := x.X.Type().Underlying().(*types.Pointer); ok {
				v = x.X
			} else {
				return nil
			}
		default:
			return nil
		}
	}
	return nil
}

func calleeName(g *ssa.Function) string {
	if g == nil {
		return ""
	}
	if o := g.Origin(); o != nil {
		g = o
	}
	if obj, ok := g.Object().(*types.Func); ok && obj != nil {
		return methodKey(obj)
	}
	return ssaFuncKey(g)
}

func paramIndex(f *ssa.Function, p *ssa.Parameter) int {
	for i, q := range f.Params {
		if q == p {
			return i
		}
	}
	return -1
}

func (a *aliasAnalysis) roots(v ssa.Value) rootSet {
	if r, ok := a.memo[v]; ok {
		return r
	}
	res := rootSet{}
	a.memo[v] = res // cycle cut (phis); completed below
	a.rootsInto(v, res, map[ssa.Value]bool{})
	return res
}

func (a *aliasAnalysis) rootsInto(v ssa.Value, out rootSet, visiting map[ssa.Value]bool) {
	if v == nil || visiting[v] {
		return
	}
	visiting[v] = true
	switch x := v.(type) {
	case *ssa.Parameter:
		if hasSliceStorage(x.Type(), 0) || isPointerLike(x.Type()) {
			out[root{rParam, x}] = true
		}
	case *ssa.FreeVar:
		out[root{rFree, x}] = true
	case *ssa.Global:
		out[root{rGlobal, x}] = true
	case *ssa.Const:
	case *ssa.MakeSlice:
		out[root{rAlloc, x}] = true
	case *ssa.Alloc:
		{
			// address of a local: as a slice source (x[:]) it is its own array
			if _, isArr := x.Type().Underlying().(*types.Pointer).Elem().Underlying().(*types.Array); isArr {
				out[root{rAlloc, x}] = true
			}
		}
	case *ssa.Slice:
		a.rootsInto(x.X, out, visiting)
	case *ssa.Phi:
		for _, e := range x.Edges {
			a.rootsInto(e, out, visiting)
		}
	case *ssa.ChangeType:
		a.rootsInto(x.X, out, visiting)
	case *ssa.Convert:
		a.rootsInto(x.X, out, visiting)
	case *ssa.MakeInterface:
		a.rootsInto(x.X, out, visiting)
	case *ssa.TypeAssert:
		a.rootsInto(x.X, out, visiting)
	case *ssa.ChangeInterface:
		a.rootsInto(x.X, out, visiting)
	case *ssa.Field:
		a.rootsInto(x.X, out, visiting)
	case *ssa.Extract:
		a.rootsInto(x.Tuple, out, visiting)
	case *ssa.Index:
		a.rootsInto(x.X, out, visiting)
	case *ssa.Lookup:
		a.rootsInto(x.X, out, visiting)
	case *ssa.Next:
		a.rootsInto(x.Iter, out, visiting)
	case *ssa.Range:
		a.rootsInto(x.X, out, visiting)
	case *ssa.FieldAddr:
		a.rootsInto(x.X, out, visiting)
	case *ssa.IndexAddr:
		a.rootsInto(x.X, out, visiting)
	case *ssa.UnOp:
		if x.Op != token.MUL {
			return
		}
		if !hasSliceStorage(x.Type(), 0) && !isPointerLike(x.Type()) {
			return
		}
		if al := localAllocRoot(x.X); al != nil {
			for _, sv := range a.reaching(x, al) {
				a.rootsInto(sv, out, visiting)
			}
			return
		}
		switch ad := x.X.(type) {
		case *ssa.FieldAddr:
			fld := fieldOf(ad)
			if fld != nil {
				out[root{rField, fld}] = true
				out.addAll(a.held[fld])
			}
		case *ssa.IndexAddr:
			a.rootsInto(ad.X, out, visiting)
		case *ssa.Global:
			out[root{rGlobal, ad}] = true
		case *ssa.FreeVar:
			out[root{rFree, ad}] = true
			// values stored through the captured variable in the enclosing function
			if par := ad.Parent().Parent(); par != nil {
				for _, b := range par.Blocks {
					for _, ins := range b.Instrs {
						if mc, ok := ins.(*ssa.MakeClosure); ok && mc.Fn == ad.Parent() {
							for i, fv := range ad.Parent().FreeVars {
								if fv == ad && i < len(mc.Bindings) {
									if al := localAllocRoot(mc.Bindings[i]); al != nil {
										for _, sv := range a.stores[par][al] {
											a.rootsInto(sv, out, visiting)
										}
									}
								}
							}
						}
					}
				}
			}
		default:
			a.rootsInto(x.X, out, visiting)
		}
	case *ssa.Call:
		a.callRoots(x, out, visiting)
	}
}

func isPointerLike(t types.Type) bool {
	switch t.Underlying().(type) {
	case *types.Pointer, *types.Map, *types.Interface:
		return true
	}
	return false
}

func fieldOf(fa *ssa.FieldAddr) *types.Var {
	t := fa.X.Type().Underlying()
	if p, ok := t.(*types.Pointer); ok {
		t = p.Elem().Underlying()
	}
	if st, ok := t.(*types.Struct); ok && fa.Field < st.NumFields() {
		return st.Field(fa.Field).Origin()
	}
	return nil
}

func (a *aliasAnalysis) callRoots(call *ssa.Call, out rootSet, visiting map[ssa.Value]bool) {
	cc := call.Common()
	if bi, ok := cc.Value.(*ssa.Builtin); ok {
		switch bi.Name() {
		case "append":
			a.rootsInto(cc.Args[0], out, visiting)
			out[root{rAlloc, call}] = true
		case "min", "max", "len", "cap":
		}
		return
	}
	if !hasSliceStorage(call.Type(), 0) && !isPointerLike(call.Type()) {
		if _, isTuple := call.Type().(*types.Tuple); !isTuple {
			return
		}
	}
	g := cc.StaticCallee()
	if g != nil {
		if _, ok := summaryOverrides[calleeName(g)]; ok {
			out[root{rAlloc, call}] = true
			return
		}
		if s := a.sum[g]; s != nil {
			args := cc.Args
			for i := range s.returns {
				if i < len(args) {
					a.rootsInto(args[i], out, visiting)
				}
			}
			out.addAll(s.retRoot)
			out[root{rAlloc, call}] = true
			return
		}
	}
	// unknown callee (dynamic, interface, outside the analysed packages): the result may share
	// storage with any slice-carrying argument
	for _, arg := range cc.Args {
		if hasSliceStorage(arg.Type(), 0) {
			a.rootsInto(arg, out, visiting)
		}
	}
	out[root{rAlloc, call}] = true
}

func (a *aliasAnalysis) summarize(f *ssa.Function) {
	s := a.sum[f]
	mark := func(m map[int]bool, i int) {
		if i >= 0 && !m[i] {
			m[i] = true
			a.changed = true
		}
	}
	for _, b := range f.Blocks {
		for _, ins := range b.Instrs {
			switch x := ins.(type) {
			case *ssa.Return:
				for _, r := range x.Results {
					if !hasSliceStorage(r.Type(), 0) {
						continue
					}
					for rt := range a.roots(r) {
						switch rt.kind {
						case rParam:
							mark(s.returns, paramIndex(f, rt.obj.(*ssa.Parameter)))
						case rField, rGlobal:
							if !s.retRoot[rt] {
								s.retRoot[rt] = true
								a.changed = true
							}
						}
					}
				}
			case *ssa.Slice:
				if hc, ok := x.High.(*ssa.Const); ok && hc.Value != nil && hc.Int64() == 0 && x.Low == nil {
					for rt := range a.roots(x.X) {
						if rt.kind == rParam {
							mark(s.scratch, paramIndex(f, rt.obj.(*ssa.Parameter)))
						}
					}
				}
			case *ssa.Store:
				// element store through a slice derived from a parameter
				if ia, ok := x.Addr.(*ssa.IndexAddr); ok {
					for rt := range a.roots(ia.X) {
						if rt.kind == rParam {
							mark(s.writes, paramIndex(f, rt.obj.(*ssa.Parameter)))
						}
					}
				}
				// a slice parameter stored as is into memory that outlives the call
				if al := localAllocRoot(x.Addr); al == nil || al.Heap {
					if _, isSl := x.Val.Type().Underlying().(*types.Slice); isSl {
						for _, p := range ownBacking(x.Val, f) {
							mark(s.retains, paramIndex(f, p))
						}
					} else if ld, ok := x.Val.(*ssa.UnOp); ok && hasSliceStorage(x.Val.Type(), 0) {
						// a struct literal built in a local and stored by value
						if loc, ok := ld.X.(*ssa.Alloc); ok && !loc.Heap {
							for _, v := range a.stores[f][loc] {
								if _, isSl := v.Type().Underlying().(*types.Slice); isSl {
									for _, p := range ownBacking(v, f) {
										mark(s.retains, paramIndex(f, p))
									}
								}
							}
						}
					}
				}
				// heap field store: field-based propagation
				if fa, ok := x.Addr.(*ssa.FieldAddr); ok && localAllocRoot(fa) == nil && (hasSliceStorage(x.Val.Type(), 0)) {
					if fld := fieldOf(fa); fld != nil {
						hs := a.held[fld]
						if hs == nil {
							hs = rootSet{}
							a.held[fld] = hs
						}
						for rt := range a.roots(x.Val) {
							if (rt.kind == rField || rt.kind == rGlobal) && !hs[rt] && rt.obj != fld {
								hs[rt] = true
								a.changed = true
							}
						}
					}
				}
			case *ssa.Call:
				cc := x.Common()
				if bi, ok := cc.Value.(*ssa.Builtin); ok {
					if bi.Name() == "append" || bi.Name() == "copy" || bi.Name() == "clear" {
						for rt := range a.roots(cc.Args[0]) {
							if rt.kind == rParam {
								mark(s.writes, paramIndex(f, rt.obj.(*ssa.Parameter)))
							}
						}
					}
					continue
				}
				if g := cc.StaticCallee(); g != nil {
					if gs := a.sum[g]; gs != nil {
						for i := range gs.writes {
							if i < len(cc.Args) {
								for rt := range a.roots(cc.Args[i]) {
									if rt.kind == rParam {
										mark(s.writes, paramIndex(f, rt.obj.(*ssa.Parameter)))
									}
								}
							}
						}
						for i := range gs.retains {
							if i < len(cc.Args) {
								for _, p := range ownBacking(cc.Args[i], f) {
									mark(s.retains, paramIndex(f, p))
								}
							}
						}
						for i := range gs.scratch {
							if i < len(cc.Args) {
								for rt := range a.roots(cc.Args[i]) {
									if rt.kind == rParam {
										mark(s.scratch, paramIndex(f, rt.obj.(*ssa.Parameter)))
									}
								}
							}
						}
					}
				}
			}
		}
	}
}

// scratchParams returns the parameter indices of g that are scratch buffers: their storage is
// written and may be returned.
func (a *aliasAnalysis) scratchParams(g *ssa.Function) []int {
	s := a.sum[g]
	if s == nil {
		return nil
	}
	var out []int
	for i := range s.scratch {
		{
			if i < len(g.Params) {
				if _, ok := g.Params[i].Type().Underlying().(*types.Slice); ok {
					out = append(out, i)
				}
			}
		}
	}
	sort.Ints(out)
	return out
}

func describeCall(call ssa.CallInstruction) string {
	g := call.Common().StaticCallee()
	if g == nil {
		return "dynamic call"
	}
	return calleeName(g)
}

func ordKey(m map[string]int, base string) string {
	m[base]++
	if m[base] == 1 {
		return base
	}
	return fmt.Sprintf("%s#%d", base, m[base])
}

// reaching returns the values whose stores into the local variable al may reach the load ld
// (a whole-variable store kills earlier stores; stores into a field or element accumulate).
// Variables captured by closures or passed by address fall back to all stores.
func (a *aliasAnalysis) reaching(ld *ssa.UnOp, al *ssa.Alloc) []ssa.Value {
	f := al.Parent()
	all := a.stores[f][al]
	if a.reach == nil {
		a.reach = map[*ssa.Alloc]map[ssa.Instruction][]ssa.Value{}
	}
	m, ok := a.reach[al]
	if !ok {
		m = a.computeReach(f, al)
		a.reach[al] = m
	}
	if m == nil {
		return all
	}
	if r, ok := m[ld]; ok {
		return r
	}
	return all
}

func (a *aliasAnalysis) computeReach(f *ssa.Function, al *ssa.Alloc) map[ssa.Instruction][]ssa.Value {
	// the variable must only be used by loads, stores and field/index addressing
	var addrs []ssa.Value
	addrs = append(addrs, al)
	isAddr := map[ssa.Value]bool{al: true}
	for i := 0; i < len(addrs); i++ {
		refs := addrs[i].Referrers()
		if refs == nil {
			return nil
		}
		for _, r := range *refs {
			switch x := r.(type) {
			case *ssa.Store:
				if isAddr[x.Val] {
					return nil // address escapes
				}
			case *ssa.UnOp:
			case *ssa.FieldAddr:
				if !isAddr[x] {
					isAddr[x] = true
					addrs = append(addrs, x)
				}
			case *ssa.IndexAddr:
				if !isAddr[x] {
					isAddr[x] = true
					addrs = append(addrs, x)
				}
			case *ssa.DebugRef:
			default:
				return nil // call argument, closure binding, ...
			}
		}
	}
	type state map[ssa.Value]bool
	in := map[*ssa.BasicBlock]state{}
	out := map[*ssa.BasicBlock]state{}
	res := map[ssa.Instruction][]ssa.Value{}
	transfer := func(b *ssa.BasicBlock, st state, record bool) state {
		cur := state{}
		for k := range st {
			cur[k] = true
		}
		for _, ins := range b.Instrs {
			switch x := ins.(type) {
			case *ssa.Store:
				if x.Addr == ssa.Value(al) {
					cur = state{x.Val: true}
				} else if isAddr[x.Addr] {
					cur[x.Val] = true
				}
			case *ssa.UnOp:
				if record && x.Op == token.MUL && isAddr[x.X] {
					var vals []ssa.Value
					for v := range cur {
						vals = append(vals, v)
					}
					res[x] = vals
				}
			}
		}
		return cur
	}
	changed := true
	for iter := 0; changed && iter < 100; iter++ {
		changed = false
		for _, b := range f.Blocks {
			st := state{}
			for _, p := range b.Preds {
				for k := range out[p] {
					st[k] = true
				}
			}
			in[b] = st
			o := transfer(b, st, false)
			if len(o) != len(out[b]) {
				changed = true
			} else {
				for k := range o {
					if !out[b][k] {
						changed = true
					}
				}
			}
			out[b] = o
		}
	}
	for _, b := range f.Blocks {
		transfer(b, in[b], true)
	}
	return res
}

// ownBacking: the slice parameters of f whose own backing array v shares (v is the parameter
// itself, a re-slice of it, or a phi/conversion of those; struct literals stored by value are
// followed into their fields by the caller).
func ownBacking(v ssa.Value, f *ssa.Function) []*ssa.Parameter {
	var out []*ssa.Parameter
	seen := map[ssa.Value]bool{}
	var walk func(v ssa.Value, d int)
	walk = func(v ssa.Value, d int) {
		if d > 8 || seen[v] {
			return
		}
		seen[v] = true
		switch y := v.(type) {
		case *ssa.Parameter:
			if y.Parent() == f {
				if _, ok := y.Type().Underlying().(*types.Slice); ok {
					out = append(out, y)
				}
			}
		case *ssa.Slice:
			walk(y.X, d+1)
		case *ssa.Phi:
			for _, e := range y.Edges {
				walk(e, d+1)
			}
		case *ssa.ChangeType:
			walk(y.X, d+1)
		case *ssa.Convert:
			walk(y.X, d+1)
		}
	}
	walk(v, 0)
	return out
}
