package main

import (
	"go/token"
	"strings"

	"golang.org/x/tools/go/ssa"
)

// GUARD(explicit-id): a lexeme may carry an explicit identifier `name (id): /re/`. The syntax
// admits spellings that are no identifiers (hyphens, quoted ids). Every explicit id that
// reaches resolver.addToken (in traverseLexer and parseFlexDeclarations) is the result of
// ident.Produce(id, UpperCase); the raw spelling never does.
func ruleEXPLICITID(c *Ctx) {
	const rule = "GUARD(explicit-id)"
	n := 0
	for _, fname := range []string{"traverseLexer", "parseFlexDeclarations"} {
		f := c.SSAFunc("compiler", "(*lexerCompiler)."+fname)
		if f == nil {
			c.Lost(rule, "compiler.lexerCompiler."+fname, "function not found")
			continue
		}
		for _, b := range f.Blocks {
			for _, ins := range b.Instrs {
				call, ok := ins.(*ssa.Call)
				if !ok {
					continue
				}
				g := call.Call.StaticCallee()
				if g == nil || g.Name() != "addToken" || len(call.Call.Args) < 3 {
					continue
				}
				id := call.Call.Args[2]
				// leaves of the id value with the conditions of the edge they arrive on
				type leaf struct {
					v     ssa.Value
					conds []gcond
				}
				var leaves []leaf
				var walk func(v ssa.Value, conds []gcond, d int)
				walk = func(v ssa.Value, conds []gcond, d int) {
					if d > 6 {
						return
					}
					if p, ok := v.(*ssa.Phi); ok {
						for i, e := range p.Edges {
							pred := p.Block().Preds[i]
							cs := append(append([]gcond{}, conds...), flattenConds(governing(pred))...)
							cs = append(cs, flattenConds(edgeConds(pred, p.Block()))...)
							walk(e, cs, d+1)
						}
						return
					}
					leaves = append(leaves, leaf{v, conds})
				}
				walk(id, nil, 0)
				for _, lf := range leaves {
					if k, ok := lf.v.(*ssa.Const); ok && k.Value != nil {
						continue // "" : no explicit id
					}
					if cl, ok := lf.v.(*ssa.Call); ok {
						if h := cl.Call.StaticCallee(); h != nil && h.Name() == "Produce" {
							n++
							if len(cl.Call.Args) == 2 && isEnumConst(c, cl.Call.Args[1], "util/ident", "UpperCase") {
								c.Ok(rule, "compiler.lexerCompiler."+fname+":id=Produce", cl.Pos(), "an explicit id with lower-case letters goes through ident.Produce(id, UpperCase)")
							} else {
								c.Bad(rule, "compiler.lexerCompiler."+fname+":id=Produce", cl.Pos(), "explicit terminal ids must be produced in the UpperCase style")
							}
							continue
						}
					}
					// the raw spelling
					n++
					key := "compiler.lexerCompiler." + fname + ":id=raw"
					c.Bad(rule, key, call.Pos(), "the explicit id %s reaches addToken verbatim (conditions: %s): an id the grammar syntax admits but that is no identifier (FOO-BAR, a quoted '+', mixed case) becomes an invalid or wrongly cased constant; every explicit id goes through ident.Produce(id, UpperCase), which leaves well-formed upper-case identifiers unchanged", normalizePhi(vpath(lf.v)), strings.Join(condStrings(lf.conds), " && "))
				}
			}
		}
	}
	if n < 2 {
		c.add(rule, "count:", token.NoPos, CountDropped, true, "only %d explicit-id paths into addToken found (raw and produced confirmed by hand)", n)
	}
}

func isEnumConst(c *Ctx, v ssa.Value, pkgrel, name string) bool {
	k, ok := v.(*ssa.Const)
	if !ok || k.Value == nil {
		return false
	}
	want, ok := c.enumConst(pkgrel, name)
	return ok && k.Int64() == want
}
