package main

import (
	"go/token"
	"strings"

	"golang.org/x/tools/go/ssa"
)

// GUARD(explicit-id): a lexeme may carry an explicit identifier `name (id): /re/`. Terminal
// identifiers are upper-case in generated code; traverseLexer passes an explicit id through
// ident.Produce(.., UpperCase) unless it is already free of lower-case letters. The raw
// spelling may therefore reach resolver.addToken only on the false edge of
// strings.ContainsFunc(id, unicode.IsLower).
func ruleEXPLICITID(c *Ctx) {
	const rule = "GUARD(explicit-id)"
	f := c.SSAFunc("compiler", "(*lexerCompiler).traverseLexer")
	if f == nil {
		c.Lost(rule, "compiler.lexerCompiler.traverseLexer", "function not found")
		return
	}
	n := 0
	for _, b := range f.Blocks {
		for _, ins := range b.Instrs {
			call, ok := ins.(*ssa.Call)
			if !ok {
				continue
			}
			g := call.Call.StaticCallee()
			if g == nil || g.Name() != "addToken" || len(call.Call.Args) < 3 {
				continue
			}
			id := call.Call.Args[2]
			// leaves of the id value with the conditions of the edge they arrive on
			type leaf struct {
				v     ssa.Value
				conds []gcond
			}
			var leaves []leaf
			var walk func(v ssa.Value, conds []gcond, d int)
			walk = func(v ssa.Value, conds []gcond, d int) {
				if d > 6 {
					return
				}
				if p, ok := v.(*ssa.Phi); ok {
					for i, e := range p.Edges {
						pred := p.Block().Preds[i]
						cs := append(append([]gcond{}, conds...), flattenConds(governing(pred))...)
						cs = append(cs, flattenConds(edgeConds(pred, p.Block()))...)
						walk(e, cs, d+1)
					}
					return
				}
				leaves = append(leaves, leaf{v, conds})
			}
			walk(id, nil, 0)
			for _, lf := range leaves {
				if k, ok := lf.v.(*ssa.Const); ok && k.Value != nil {
					continue // "" : no explicit id
				}
				if cl, ok := lf.v.(*ssa.Call); ok {
					if h := cl.Call.StaticCallee(); h != nil && h.Name() == "Produce" {
						n++
						if len(cl.Call.Args) == 2 && isEnumConst(c, cl.Call.Args[1], "util/ident", "UpperCase") {
							c.Ok(rule, "compiler.lexerCompiler.traverseLexer:id=Produce", cl.Pos(), "an explicit id with lower-case letters goes through ident.Produce(id, UpperCase)")
						} else {
							c.Bad(rule, "compiler.lexerCompiler.traverseLexer:id=Produce", cl.Pos(), "explicit terminal ids must be produced in the UpperCase style")
						}
						continue
					}
				}
				// the raw spelling
				n++
				key := "compiler.lexerCompiler.traverseLexer:id=raw"
				ok := false
				for _, gc := range lf.conds {
					cc, isCall := gc.V.(*ssa.Call)
					if !isCall || gc.Pol {
						continue
					}
					h := cc.Call.StaticCallee()
					if h == nil || h.Name() != "ContainsFunc" || len(cc.Call.Args) != 2 {
						continue
					}
					if fn, isFn := cc.Call.Args[1].(*ssa.Function); isFn && fn.Name() == "IsLower" && fn.Pkg != nil && fn.Pkg.Pkg.Path() == "unicode" && vpath(cc.Call.Args[0]) == vpath(lf.v) {
						ok = true
					}
				}
				if ok {
					c.Ok(rule, key, call.Pos(), "the explicit id is used verbatim only when strings.ContainsFunc(id, unicode.IsLower) is false")
				} else {
					c.Bad(rule, key, call.Pos(), "the explicit id %s reaches addToken verbatim on a path that does not exclude lower-case letters (conditions: %s): a mixed-case id such as foo-Bar is neither upper-cased nor sanitised", normalizePhi(vpath(lf.v)), strings.Join(condStrings(lf.conds), " && "))
				}
			}
		}
	}
	if n < 2 {
		c.add(rule, "count:", token.NoPos, CountDropped, true, "only %d explicit-id paths into addToken found (raw and produced confirmed by hand)", n)
	}
}

func isEnumConst(c *Ctx, v ssa.Value, pkgrel, name string) bool {
	k, ok := v.(*ssa.Const)
	if !ok || k.Value == nil {
		return false
	}
	want, ok := c.enumConst(pkgrel, name)
	return ok && k.Int64() == want
}
