package main

import (
	"fmt"
	"sort"
	"strings"

	"golang.org/x/tools/go/ssa"
)

// DTX(setalg): the dispatch of container.Merge / container.Intersect over {finite, co-finite}
// operands must implement A∪B / A∩B. The function is evaluated abstractly for each of the 16
// combinations of (Inverse, len(Set)==0) per operand; the symbolic result (which helper, which
// operand order, which polarity) is compared, over all subsets of a 3-element universe, with
// the set identity computed by the checker. The helpers combine/intersect/subtract are taken
// at their documented meaning (sorted union, intersection, difference); their loops are not
// examined.

type smallSet struct {
	inv bool
	m   uint8 // bitmask over {0,1,2}
}

func ssUnion(a, b smallSet) smallSet {
	switch {
	case !a.inv && !b.inv:
		return smallSet{false, a.m | b.m}
	case a.inv && b.inv:
		return smallSet{true, a.m & b.m}
	case a.inv:
		return smallSet{true, a.m &^ b.m}
	default:
		return smallSet{true, b.m &^ a.m}
	}
}

func ssInter(a, b smallSet) smallSet {
	switch {
	case !a.inv && !b.inv:
		return smallSet{false, a.m & b.m}
	case a.inv && b.inv:
		return smallSet{true, a.m | b.m}
	case a.inv:
		return smallSet{false, b.m &^ a.m}
	default:
		return smallSet{false, a.m &^ b.m}
	}
}

// evalSetExpr interprets the symbolic Set component of a result.
func evalSetExpr(v AV, a, b smallSet) (uint8, bool) {
	switch x := v.(type) {
	case avSym:
		switch x.Name {
		case "a.Set":
			return a.m, true
		case "b.Set":
			return b.m, true
		case "nil":
			return 0, true
		}
	case avApp:
		if len(x.Args) < 2 {
			return 0, false
		}
		p, ok1 := evalSetExpr(x.Args[0], a, b)
		q, ok2 := evalSetExpr(x.Args[1], a, b)
		if !ok1 || !ok2 {
			return 0, false
		}
		switch x.Fn {
		case "util/container.combine":
			return p | q, true
		case "util/container.intersect":
			return p & q, true
		case "util/container.subtract":
			return p &^ q, true
		}
	}
	return 0, false
}

func ruleSETALG(c *Ctx) {
	const rule = "DTX(setalg)"
	type target struct {
		name string
		spec func(a, b smallSet) smallSet
	}
	for _, tg := range []target{{"Merge", ssUnion}, {"Intersect", ssInter}} {
		fn := c.SSAFunc("util/container", tg.name)
		if fn == nil || len(fn.Params) != 3 {
			c.Lost(rule, "util/container."+tg.name, "function container.%s(a, b IntSet, reuse []int) not found", tg.name)
			continue
		}
		cfg := &aiConfig{
			Inline: func(callee string) bool { return callee == "util/container.IntSet.Empty" },
			Call: func(callee string, args []AV, site ssa.CallInstruction) (AV, bool, bool) {
				switch callee {
				case "util/container.combine", "util/container.intersect", "util/container.subtract":
					return avApp{Fn: callee, Args: args}, true, false
				}
				return nil, false, false
			},
		}
		for ai := 0; ai < 4; ai++ {
			for bi := 0; bi < 4; bi++ {
				mk := func(name string, st int) (AV, bool, bool) {
					inv, empty := st&1 == 1, st&2 == 2
					ln := AV(avInt{1, 1 << 40})
					if empty {
						ln = avInt{0, 0}
					}
					return avStruct{F: []AV{avBool{inv}, avSym{Name: name + ".Set", Len: ln}}}, inv, empty
				}
				aV, aInv, aEmpty := mk("a", ai)
				bV, bInv, bEmpty := mk("b", bi)
				key := fmt.Sprintf("util/container.%s[a:inv=%v,len0=%v;b:inv=%v,len0=%v]", tg.name, aInv, aEmpty, bInv, bEmpty)
				outs := aiEval(fn, []AV{aV, bV, avSym{Name: "reuse"}}, cfg)
				var problems []string
				var seen []string
				for _, o := range outs {
					seen = append(seen, o.String())
					if o.Kind != "return" || len(o.Ret) != 1 {
						problems = append(problems, "path does not return a set: "+o.String())
						continue
					}
					st, ok := o.Ret[0].(avStruct)
					if !ok || len(st.F) != 2 {
						problems = append(problems, "result is not an IntSet literal: "+o.String())
						continue
					}
					inv, ok := st.F[0].(avBool)
					if !ok {
						problems = append(problems, "result polarity is not decided by the operands' (Inverse, empty) state: "+o.String())
						continue
					}
					// all concrete operands consistent with the abstract state
					for am := 0; am < 8; am++ {
						if (am == 0) != aEmpty {
							continue
						}
						for bm := 0; bm < 8; bm++ {
							if (bm == 0) != bEmpty {
								continue
							}
							A, B := smallSet{aInv, uint8(am)}, smallSet{bInv, uint8(bm)}
							want := tg.spec(A, B)
							got, ok := evalSetExpr(st.F[1], A, B)
							if !ok {
								problems = append(problems, "result set expression not understood: "+st.F[1].String())
								am, bm = 8, 8
								continue
							}
							if got != want.m || inv.V != want.inv {
								problems = append(problems, fmt.Sprintf("for A=%s B=%s the result %s denotes %s, the identity requires %s",
									showSS(A), showSS(B), o.String(), showSS(smallSet{inv.V, got}), showSS(want)))
								am, bm = 8, 8
							}
						}
					}
				}
				sort.Strings(seen)
				if len(outs) == 0 {
					problems = append(problems, "no path explored")
				}
				if len(problems) > 0 {
					sort.Strings(problems)
					problems = uniqStrings(problems)
					kind := Violation
					if strings.Contains(problems[0], "not understood") || strings.Contains(problems[0], "not decided") || strings.Contains(problems[0], "does not return") {
						kind = Undecided
					}
					c.add(rule, key, fn.Pos(), kind, true, "%s", strings.Join(problems, " | "))
				} else {
					c.Ok(rule, key, fn.Pos(), "all %d paths yield %s = the %s identity on every pair of subsets of a 3-element universe", len(outs), strings.Join(uniqStrings(seen), " / "), tg.name)
				}
			}
		}
	}
	c.MinCount(rule, "", 32)

	// Complement flips the polarity and nothing else.
	fn := c.SSAFunc("util/container", "IntSet.Complement")
	if fn == nil {
		c.Lost(rule, "util/container.IntSet.Complement", "method not found")
		return
	}
	for _, inv := range []bool{false, true} {
		outs := aiEval(fn, []AV{avStruct{F: []AV{avBool{inv}, avSym{Name: "a.Set"}}}}, &aiConfig{})
		key := fmt.Sprintf("util/container.IntSet.Complement[inv=%v]", inv)
		ok := len(outs) == 1 && outs[0].Kind == "return" && len(outs[0].Ret) == 1
		if ok {
			st, isSt := outs[0].Ret[0].(avStruct)
			ok = isSt && len(st.F) == 2 && st.F[0] == AV(avBool{!inv}) && avStr2(st.F[1]) == "a.Set"
		}
		if ok {
			c.Ok(rule, key, fn.Pos(), "returns {%v a.Set}", !inv)
		} else {
			c.Bad(rule, key, fn.Pos(), "Complement must return the same elements with flipped polarity; got %v", outcomeSet(outs))
		}
	}
}

// ruleSETEQ: IntSet.Equals distinguishes a set from its complement and sets of different size.
func ruleSETEQ(c *Ctx) {
	const rule = "DTX(setalg)"
	fn := c.SSAFunc("util/container", "IntSet.Equals")
	if fn == nil || len(fn.Params) != 2 {
		c.Lost(rule, "util/container.IntSet.Equals", "method not found")
		return
	}
	mk := func(name string, inv bool, ln int64) AV {
		return avStruct{F: []AV{avBool{inv}, avSym{Name: name + ".Set", Len: avInt{ln, ln}}}}
	}
	for _, sc := range []struct {
		ai, bi bool
		al, bl int64
		want   string
	}{
		{false, false, 0, 0, "true"}, {true, true, 0, 0, "true"}, {false, true, 0, 0, "false"}, {true, false, 0, 0, "false"},
		{false, false, 1, 2, "false"}, {true, true, 2, 1, "false"}, {false, true, 2, 2, "false"}, {true, false, 3, 3, "false"},
	} {
		outs := aiEval(fn, []AV{mk("a", sc.ai, sc.al), mk("b", sc.bi, sc.bl)}, &aiConfig{})
		key := fmt.Sprintf("util/container.IntSet.Equals[inv=%v/%v,len=%d/%d]", sc.ai, sc.bi, sc.al, sc.bl)
		ok := len(outs) > 0
		for _, o := range outs {
			if o.Kind != "return" || len(o.Ret) != 1 || avStr2(o.Ret[0]) != sc.want {
				ok = false
			}
		}
		if ok {
			c.Ok(rule, key, fn.Pos(), "returns %s on all %d paths", sc.want, len(outs))
		} else {
			c.Bad(rule, key, fn.Pos(), "Equals must return %s (a set never equals its complement or a set of another size); paths: %v", sc.want, outcomeSet(outs))
		}
	}
}

func showSS(s smallSet) string {
	var e []string
	for i := 0; i < 3; i++ {
		if s.m&(1<<i) != 0 {
			e = append(e, fmt.Sprint(i))
		}
	}
	p := ""
	if s.inv {
		p = "~"
	}
	return p + "{" + strings.Join(e, ",") + "}"
}
