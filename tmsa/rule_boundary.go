package main

import (
	"fmt"
	"go/token"
	"regexp"
	"strings"

	"golang.org/x/tools/go/ssa"
)

var termCountRe = regexp.MustCompile(`(^|\.)(len\([A-Za-z_.φ0-9\[\]]*\.Terminals\)|[A-Za-z_.]*\.Terminals|[A-Za-z_.]*NumTokens|[A-Za-z_.]*NumTerminals)$`)

// BOUNDARY(terminals): symbols are numbered terminals first: s is a terminal iff s < T and the
// nonterminal with index n is symbol T+n (n >= 0). Every comparison of a symbol with the
// terminal count T, or of a difference s-T with zero, must cut exactly there: `s < T` / `s >= T`
// / `s-T < 0` / `s-T >= 0`. The off-by-one forms `s > T`, `s <= T`, `s-T > 0`, `s-T <= 0`
// silently treat nonterminal #0 (the first one declared) as a terminal.
func ruleBOUNDARY(c *Ctx, pkgs ...string) {
	const rule = "BOUNDARY(terminals)"
	n := 0
	isT0 := func(s string) bool {
		return termCountRe.MatchString(s) && !strings.Contains(s, " - ") && !strings.Contains(s, " + ")
	}
	for _, rel := range pkgs {
		// locals that only ever hold the terminal count (terms := len(m.Terminals)), visible in
		// the function that declares them and, as free variables, in its closures
		alias := map[*ssa.Function]map[string]bool{}
		for _, f := range c.SrcFuncs(rel) {
			for _, b := range f.Blocks {
				for _, ins := range b.Instrs {
					al, ok := ins.(*ssa.Alloc)
					if !ok || al.Comment == "" || al.Referrers() == nil {
						continue
					}
					stores, all := 0, true
					for _, ref := range *al.Referrers() {
						if st, ok := ref.(*ssa.Store); ok && st.Addr == ssa.Value(al) {
							stores++
							if !isT0(vpath(st.Val)) {
								all = false
							}
						}
					}
					if stores > 0 && all {
						if alias[f] == nil {
							alias[f] = map[string]bool{}
						}
						alias[f][al.Comment] = true
					}
				}
			}
		}
		for _, f := range c.SrcFuncs(rel) {
			isT := func(s string) bool {
				if isT0(s) {
					return true
				}
				for g := f; g != nil; g = g.Parent() {
					if alias[g][s] {
						return true
					}
				}
				return false
			}
			ord := map[string]int{}
			for _, b := range f.Blocks {
				for _, ins := range b.Instrs {
					bo, ok := ins.(*ssa.BinOp)
					if !ok {
						continue
					}
					switch bo.Op {
					case token.LSS, token.LEQ, token.GTR, token.GEQ:
					default:
						continue
					}
					l, op, r, ok := cmpNorm(bo, true)
					if !ok {
						continue
					}
					// forms: V ? T   |   T ? V   |   (V - T) ? 0   |   0 ? (V - T)
					kind := ""
					switch {
					case isT(r) && !isT(l):
						kind = "V" + op + "T"
					case isT(l) && !isT(r):
						kind = "T" + op + "V"
					case r == "0" && strings.HasPrefix(l, "(") && isT(strings.TrimSuffix(l[strings.LastIndex(l, " - ")+3:], ")")) && strings.Contains(l, " - "):
						kind = "D" + op + "0"
					case l == "0" && strings.HasPrefix(r, "(") && strings.Contains(r, " - ") && isT(strings.TrimSuffix(r[strings.LastIndex(r, " - ")+3:], ")")):
						kind = "0" + op + "D"
					default:
						continue
					}
					// values that are counts, not symbols, are out of scope: len(...) on the other side
					other := l
					if strings.HasPrefix(kind, "T") || strings.HasPrefix(kind, "0") {
						other = r
					}
					if strings.HasPrefix(other, "len(") {
						continue
					}
					n++
					key := ordKey(ord, fmt.Sprintf("%s:%s %s %s", ssaFuncKey(f), normalizePhi(l), op, normalizePhi(r)))
					switch kind {
					case "V<T", "T<=V", "D<0", "0<=D":
						c.Ok(rule, key, bo.Pos(), "cuts the symbol range exactly at the terminal count")
					default:
						c.Bad(rule, key, bo.Pos(), "comparison %s %s %s is off by one at the terminal/nonterminal boundary: the first nonterminal (symbol == terminal count) falls on the terminal side", normalizePhi(l), op, normalizePhi(r))
					}
				}
			}
		}
	}
	if n < 20 {
		c.add(rule, "count:", token.NoPos, CountDropped, true, "only %d symbol/terminal-count comparisons found (>= 20 confirmed on the pinned tree)", n)
	}
}
