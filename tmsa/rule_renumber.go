package main

import (
	"fmt"
	"go/types"

	"golang.org/x/tools/go/ssa"
)

// FIELDCOV(renumber): nonterminals are renumbered twice on the way to the tables (Instantiate:
// one per template instance; Rearrange: a permutation). Symbol numbers are held in four kinds
// of records — Expr.Symbol (references), ArgRef.Symbol (what $-references of semantic actions
// resolve against, including their types), TokenSet.Symbol and Input.Nonterm. Every renumbering
// pass must write each of them: code reachable from the pass (static calls, closures and
// function values inside package syntax) contains a store into that field.
func ruleRENUMBER(c *Ctx) {
	const rule = "FIELDCOV(renumber)"
	holders := [][2]string{{"Expr", "Symbol"}, {"ArgRef", "Symbol"}, {"TokenSet", "Symbol"}, {"Input", "Nonterm"}}
	for _, entry := range []string{"Instantiate", "(*Model).Rearrange"} {
		f := c.SSAFunc("syntax", entry)
		if f == nil {
			c.Lost(rule, "syntax."+entry, "function not found")
			continue
		}
		// reachable functions inside package syntax
		seen := map[*ssa.Function]bool{}
		var visit func(g *ssa.Function)
		visit = func(g *ssa.Function) {
			if g == nil || seen[g] || g.Blocks == nil {
				return
			}
			if g != f && g.Name() == "Rearrange" {
				return // the other pass: it permutes whatever numbers it finds
			}
			if g.Pkg != f.Pkg && (g.Parent() == nil || !seen[g.Parent()]) {
				return
			}
			seen[g] = true
			for _, a := range g.AnonFuncs {
				visit(a)
			}
			for _, b := range g.Blocks {
				for _, ins := range b.Instrs {
					if call, ok := ins.(ssa.CallInstruction); ok {
						visit(call.Common().StaticCallee())
					}
					for _, op := range ins.Operands(nil) {
						if op == nil || *op == nil {
							continue
						}
						switch y := (*op).(type) {
						case *ssa.Function:
							visit(y)
						case *ssa.MakeClosure:
							if fn, ok := y.Fn.(*ssa.Function); ok {
								visit(fn)
							}
						}
					}
				}
			}
		}
		visit(f)
		written := map[[2]string]bool{}
		for g := range seen {
			for _, b := range g.Blocks {
				for _, ins := range b.Instrs {
					st, ok := ins.(*ssa.Store)
					if !ok {
						continue
					}
					fa, ok := st.Addr.(*ssa.FieldAddr)
					if !ok {
						continue
					}
					t := fa.X.Type()
					if p, ok := t.Underlying().(*types.Pointer); ok {
						t = p.Elem()
					}
					if n, ok := t.(*types.Named); ok && n.Obj().Pkg() == f.Pkg.Pkg {
						written[[2]string{n.Obj().Name(), fieldName(fa.X.Type(), fa.Field)}] = true
					}
				}
			}
		}
		for _, h := range holders {
			key := fmt.Sprintf("syntax.%s:%s.%s", entry, h[0], h[1])
			if written[h] {
				c.Ok(rule, key, f.Pos(), "%s writes %s.%s (%d functions reachable inside package syntax)", entry, h[0], h[1], len(seen))
			} else {
				c.Bad(rule, key, f.Pos(), "%s renumbers nonterminals but no code reachable from it writes %s.%s: the numbers held there keep referring to the old numbering (for ArgRef: a $-reference of a semantic action is typed after an unrelated nonterminal)", entry, h[0], h[1])
			}
		}
	}
}
