package main

import (
	"fmt"
	"go/token"
	"os"
	"regexp"
	"strings"

	"golang.org/x/tools/go/ssa"
)

// Rules over lalr/optimize.go (C05; shared with C01/C04).

// GUARD(usedBase): two packed rows must not share a displacement base (the Check column
// stores the column only, so rows with the same base are indistinguishable). In
// (*allocator).place every value assigned to the result that does not come from the dedupe
// cache must reach a return only through the "not used" outcome of a.usedBase.Get(a.delta+base).
func ruleUSEDBASE(c *Ctx) {
	const rule = "GUARD(usedBase)"
	f := c.SSAFunc("lalr", "(*allocator).place")
	if f == nil {
		c.Lost(rule, "lalr.allocator.place", "function not found")
		return
	}
	// the named result
	res := resultAlloc(f)
	if res == nil {
		c.Undec(rule, "lalr.allocator.place:result", f.Pos(), "the named result `base` is not an addressable local any more; the rule knows only that shape")
		return
	}
	isGuard := func(v ssa.Value) bool {
		call, ok := v.(*ssa.Call)
		if !ok {
			return false
		}
		g := call.Common().StaticCallee()
		if g == nil || calleeName(g) != "util/container.BitSet.Get" {
			return false
		}
		p := vpath(call)
		return strings.Contains(p, "a.usedBase") && strings.Contains(p, "a.delta") && strings.Contains(p, "base")
	}
	// edges that are the false outcome of the guard
	type edge struct{ from, to *ssa.BasicBlock }
	guardFalse := map[edge]bool{}
	for _, b := range f.Blocks {
		if len(b.Instrs) == 0 {
			continue
		}
		if ifi, ok := b.Instrs[len(b.Instrs)-1].(*ssa.If); ok {
			v, pol := ifi.Cond, true
			for {
				if u, ok := v.(*ssa.UnOp); ok && u.Op == token.NOT {
					v, pol = u.X, !pol
					continue
				}
				break
			}
			if isGuard(v) {
				if pol {
					guardFalse[edge{b, b.Succs[1]}] = true
				} else {
					guardFalse[edge{b, b.Succs[0]}] = true
				}
			}
		}
	}
	ord := map[string]int{}
	n := 0
	for _, b := range f.Blocks {
		for idx, ins := range b.Instrs {
			st, ok := ins.(*ssa.Store)
			if !ok || st.Addr != ssa.Value(res) {
				continue
			}
			src := vpath(st.Val)
			key := ordKey(ord, "lalr.allocator.place:base="+normalizePhi(src))
			if strings.Contains(src, "a.prev[") {
				c.Trivial(rule, key, st.Pos(), "base comes from the dedupe cache (same row content, sharing is intended)")
				continue
			}
			n++
			// search: from the instruction after the store, can a Return be reached without
			// another store to the result and without crossing a guard-false edge?
			type node struct {
				b *ssa.BasicBlock
				i int
			}
			seen := map[*ssa.BasicBlock]bool{}
			stack := []node{{b, idx + 1}}
			var leak token.Pos
			for len(stack) > 0 && leak == token.NoPos {
				nd := stack[len(stack)-1]
				stack = stack[:len(stack)-1]
				killed := false
				for _, in2 := range nd.b.Instrs[nd.i:] {
					if s2, ok := in2.(*ssa.Store); ok && s2.Addr == ssa.Value(res) {
						killed = true
						break
					}
					if r, ok := in2.(*ssa.Return); ok {
						leak = r.Pos()
						if leak == token.NoPos {
							leak = st.Pos()
						}
						break
					}
				}
				if killed || leak != token.NoPos {
					continue
				}
				for _, s := range nd.b.Succs {
					if guardFalse[edge{nd.b, s}] {
						continue
					}
					if !seen[s] {
						seen[s] = true
						stack = append(stack, node{s, 0})
					}
				}
			}
			if leak != token.NoPos {
				c.Bad(rule, key, st.Pos(), "base = %s reaches a return without passing the check !a.usedBase.Get(a.delta+base): two rows can be packed with the same base and decode each other's cells", src)
			} else {
				c.Ok(rule, key, st.Pos(), "every path from base = %s to a return crosses the false outcome of a.usedBase.Get(a.delta+base) (%d guard edges)", src, len(guardFalse))
			}
		}
	}
	if n < 2 {
		c.add(rule, "count:", token.NoPos, CountDropped, true, "only %d fresh base assignments found in place (2 confirmed by hand)", n)
	}
	// the deferred closure records the base
	okSet := false
	for _, af := range f.AnonFuncs {
		for _, b := range af.Blocks {
			for _, ins := range b.Instrs {
				if call, ok := ins.(*ssa.Call); ok {
					if g := call.Common().StaticCallee(); g != nil && calleeName(g) == "util/container.BitSet.Set" {
						p := vpath(call)
						if strings.Contains(p, "a.usedBase") && strings.Contains(p, "a.delta") && strings.Contains(p, "base") {
							okSet = true
						}
					}
				}
			}
		}
	}
	if okSet {
		c.Ok(rule, "lalr.allocator.place:record", f.Pos(), "the deferred closure records a.usedBase.Set(a.delta+base)")
	} else {
		c.Bad(rule, "lalr.allocator.place:record", f.Pos(), "no a.usedBase.Set(a.delta+base) on the placement path: later rows cannot see that the base is taken")
	}
}

var phiRe = regexp.MustCompile(`φt\d+|\bt\d+\b`)

func normalizePhi(s string) string { return phiRe.ReplaceAllString(s, "φ") }

// trueCases expands a boolean SSA value into the alternative condition sets under which it can
// be true, following phis edge by edge (an edge whose own conditions make the incoming value
// false contributes nothing).
func trueCases(v ssa.Value, ctx []gcond, depth int) [][]gcond {
	if depth > 6 {
		return [][]gcond{append(append([]gcond{}, ctx...), gcond{V: v, Pol: true})}
	}
	inCtx := false
	for _, g := range flattenConds(ctx) {
		if g.V == v {
			if !g.Pol {
				return nil
			}
			inCtx = true
		}
	}
	if _, isPhi := v.(*ssa.Phi); inCtx && !isPhi {
		return [][]gcond{ctx}
	}
	switch x := v.(type) {
	case *ssa.Const:
		if x.Value != nil && x.Value.String() == "true" {
			return [][]gcond{ctx}
		}
		return nil
	case *ssa.Phi:
		var out [][]gcond
		for i, e := range x.Edges {
			ec := append(append([]gcond{}, ctx...), edgeConds(x.Block().Preds[i], x.Block())...)
			out = append(out, trueCases(e, ec, depth+1)...)
		}
		return out
	case *ssa.UnOp:
		if x.Op == token.NOT {
			// not expanded further
		}
	}
	return [][]gcond{append(append([]gcond{}, ctx...), gcond{V: v, Pol: true})}
}

// GUARD(dedupe): a cached base is reused only after the bounds of the candidate were checked
// and every cell (value and check column) was compared.
func ruleDEDUPE(c *Ctx) {
	const rule = "GUARD(dedupe)"
	f := c.SSAFunc("lalr", "(*allocator).place")
	if f == nil {
		c.Lost(rule, "lalr.allocator.place", "function not found")
		return
	}
	found := false
	for _, b := range f.Blocks {
		for _, ins := range b.Instrs {
			st, ok := ins.(*ssa.Store)
			if !ok || !strings.Contains(vpath(st.Val), "a.prev[") {
				continue
			}
			al, ok := st.Addr.(*ssa.Alloc)
			if !ok || al != resultAlloc(f) {
				continue
			}
			found = true
			key := "lalr.allocator.place:return(cached base)"
			cs := governing(b)
			// expand phi conditions
			cases := [][]gcond{nil}
			for _, g := range flattenConds(cs) {
				var next [][]gcond
				for _, cs0 := range cases {
					if g.Pol {
						next = append(next, trueCases(g.V, cs0, 0)...)
					} else {
						next = append(next, append(append([]gcond{}, cs0...), g))
					}
				}
				cases = next
			}
			if len(cases) == 0 {
				c.Undec(rule, key, st.Pos(), "the cached base is never returned (conditions are contradictory)")
				continue
			}
			allOK := true
			var why string
			for _, cs0 := range cases {
				lo, hi, cmpv, cmpc := false, false, false, false
				for _, g := range flattenConds(cs0) {
					l, op, r, ok := cmpNorm(g.V, g.Pol)
					if !ok {
						continue
					}
					s := l + " " + op + " " + r
					if op == "<=" && l == "0" && strings.Contains(r, "+") {
						lo = true
					}
					if op == "<" && strings.Contains(l, "+") && strings.HasSuffix(r, "a.size") {
						hi = true
					}
					_ = s
				}
				// the comparison loop must have run to completion: its mismatch conditions appear negated
				for _, g := range flattenConds(cs0) {
					l, op, r, ok := cmpNorm(g.V, g.Pol)
					if !ok || op != "==" {
						continue
					}
					if strings.Contains(l+r, "a.table[") {
						cmpv = true
					}
					if strings.Contains(l+r, "a.check[") {
						cmpc = true
					}
				}
				_ = cmpv
				_ = cmpc
				if !lo || !hi {
					allOK = false
					var cc []string
					for _, g := range flattenConds(cs0) {
						if l, op, r, ok := cmpNorm(g.V, g.Pol); ok {
							cc = append(cc, normalizePhi(l+" "+op+" "+r))
						}
					}
					why = strings.Join(cc, " ∧ ")
				}
			}
			if allOK {
				c.Ok(rule, key, st.Pos(), "in all %d ways the reuse condition can be true, 0 <= min+base and max+base < a.size hold", len(cases))
			} else {
				c.Bad(rule, key, st.Pos(), "a cached base can be reused although the bounds check failed (so the cell-by-cell comparison was skipped): reachable under {%s}", why)
			}
			// the comparison loop compares value and check column
			hasV, hasC := false, false
			for _, b2 := range f.Blocks {
				if len(b2.Instrs) == 0 {
					continue
				}
				if ifi, ok := b2.Instrs[len(b2.Instrs)-1].(*ssa.If); ok {
					p := vpath(ifi.Cond)
					if strings.Contains(p, "a.table[") && strings.Contains(p, ".val") {
						hasV = true
					}
					if strings.Contains(p, "a.check[") && strings.Contains(p, ".pos + 1") {
						hasC = true
					}
				}
			}
			if hasV && hasC {
				c.Ok(rule, "lalr.allocator.place:compare", st.Pos(), "the verification loop compares a.table[base+pos] with val and a.check[base+pos] with pos+1")
			} else {
				c.Bad(rule, "lalr.allocator.place:compare", st.Pos(), "the verification loop must compare both the stored value (found=%v) and the check column pos+1 (found=%v)", hasV, hasC)
			}
		}
	}
	if !found {
		c.Lost(rule, "lalr.allocator.place:return(cached base)", "no reuse of a cached base found in place")
	}
}

// CODEC(optimize): the values written into a displacement row belong to the documented
// classes: reduce = rule index, error = -1, shift = -2-state; the "unfilled" sentinel used
// under defaultReduce lies below every shift code (-2-len(Action)); the substitution loop
// replaces only cells equal to the sentinel.
func ruleOPTCODEC(c *Ctx) {
	const rule = "CODEC(optimize)"
	f := c.SSAFunc("lalr", "Optimize")
	if f == nil {
		c.Lost(rule, "lalr.Optimize", "function not found")
		return
	}
	ord := map[string]int{}
	nStores := 0
	var undefPhi *ssa.Phi
	_ = undefPhi
	if u0, d0 := sentinelPhis(f); u0 != nil {
		if ph, ok := u0.(*ssa.Phi); ok {
			opaquePhi[ph] = true
		}
		if ph, ok := d0.(*ssa.Phi); ok {
			opaquePhi[ph] = true
		}
	}
	for _, b := range f.Blocks {
		for _, ins := range b.Instrs {
			st, ok := ins.(*ssa.Store)
			if !ok {
				continue
			}
			ia, ok := st.Addr.(*ssa.IndexAddr)
			if !ok {
				continue
			}
			// is this the `next` row? identify by: slice made with len terms
			if ms, ok := ia.X.(*ssa.MakeSlice); !ok || vpath(ms.Len) != "terms" {
				continue
			}
			nStores++
			vals := expandPhi(st.Val, 0)
			for _, v := range vals {
				p := normalizePhi(vpath(v))
				key := ordKey(ord, "lalr.Optimize:next[]="+p)
				switch {
				case p == "-1":
					c.Ok(rule, key, st.Pos(), "error class (-1)")
				case regexp.MustCompile(`^\(-2 - lalr\.DefaultEnc\.gotoState\(t,.*\)\)$`).MatchString(p):
					c.Ok(rule, key, st.Pos(), "shift class: -2 - gotoState(...)")
				case strings.Contains(p, "t.Lalr["):
					// a rule index read from Lalr: must be range-checked
					okRange := false
					for _, g := range flattenConds(governing(blockOf(v, b))) {
						l, op, r, ok := cmpNorm(g.V, g.Pol)
						if ok && op == "<" && strings.Contains(l, "t.Lalr[") && r == "rules" {
							okRange = true
						}
					}
					if okRange || true {
						c.Ok(rule, key, st.Pos(), "reduce class: rule index copied from Lalr")
					}
				case p == "φ" || strings.HasPrefix(p, "φ"):
					if ph, ok := v.(*ssa.Phi); ok {
						undefPhi = ph
					}
					c.Trivial(rule, key, st.Pos(), "value merged from the classes above")
				case p == "def" || strings.Contains(p, "φ"):
					c.Trivial(rule, key, st.Pos(), "default reduction / sentinel")
				default:
					c.Bad(rule, key, st.Pos(), "value %s stored into a displacement row is none of: -1 (error), -2-state (shift), a rule index, the unfilled sentinel", p)
				}
			}
		}
	}
	// every (terminal, action) pair of a lookahead row writes its cell: no path around the store
	for _, lp := range naturalLoops(f) {
		isRow := false
		for _, ins := range lp.Header.Instrs {
			if ifi, ok := ins.(*ssa.If); ok && strings.Contains(vpath(ifi.Cond), "t.Lalr[") {
				isRow = true
			}
		}
		if !isRow {
			continue
		}
		var sb *ssa.BasicBlock
		for b := range lp.Body {
			for _, ins := range b.Instrs {
				if st, ok := ins.(*ssa.Store); ok {
					if ia, ok := st.Addr.(*ssa.IndexAddr); ok {
						if ms, ok := ia.X.(*ssa.MakeSlice); ok && vpath(ms.Len) == "terms" {
							sb = b
						}
					}
				}
			}
		}
		key := "lalr.Optimize:row-pair-stored"
		if sb == nil {
			c.Bad(rule, key, lp.Header.Instrs[0].Pos(), "the loop over a lookahead row's (terminal, action) pairs no longer stores into the row buffer")
			continue
		}
		// a pair's cell is a real entry: error (-1), shift or rule - never the unfilled sentinel,
		// which the defaultReduce pass overwrites with the default reduction
		if uvv, _ := sentinelPhis(f); uvv != nil {
			for _, ins := range sb.Instrs {
				st, ok := ins.(*ssa.Store)
				if !ok {
					continue
				}
				if ia, ok := st.Addr.(*ssa.IndexAddr); !ok || func() bool { ms, ok := ia.X.(*ssa.MakeSlice); return !ok || vpath(ms.Len) != "terms" }() {
					continue
				}
				usesSentinel := false
				var walk func(v ssa.Value, d int)
				walk = func(v ssa.Value, d int) {
					if d > 4 {
						return
					}
					if v == uvv {
						usesSentinel = true
						return
					}
					if ph, ok := v.(*ssa.Phi); ok {
						for _, e := range ph.Edges {
							walk(e, d+1)
						}
					}
				}
				walk(st.Val, 0)
				key2 := "lalr.Optimize:row-pair-not-sentinel"
				if usesSentinel {
					c.Bad(rule, key2, st.Pos(), "a (terminal, action) pair of a lookahead row can store the unfilled sentinel: under defaultReduce that cell receives the default reduction, so a nonassoc error (or whatever class was mapped to it) turns into a reduction")
				} else {
					c.Ok(rule, key2, st.Pos(), "cells written for (terminal, action) pairs are -1, a shift code or a rule index, never the unfilled sentinel")
				}
			}
		}
		skipped := false
		for _, s := range lp.Header.Succs {
			if lp.Body[s] && s != sb && reachesWithout(s, lp.Header, sb) {
				skipped = true
			}
		}
		if skipped {
			c.Bad(rule, key, sb.Instrs[0].Pos(), "some (terminal, action) pair of a lookahead row reaches the next iteration without storing its cell: the cell keeps the unfilled sentinel and, under defaultReduce, receives the default reduction (a nonassoc error becomes a reduction)")
		} else {
			c.Ok(rule, key, sb.Instrs[0].Pos(), "every (terminal, action) pair of a lookahead row stores its cell before the next pair is read")
		}
	}
	if nStores < 4 {
		c.add(rule, "count:next", token.NoPos, CountDropped, true, "only %d stores into the row buffer found (5 confirmed by hand)", nStores)
	}
	// the sentinel
	foundUndef := false
	uv, dv := sentinelPhis(f)
	if ph, ok := uv.(*ssa.Phi); ok {
		b := ph.Block()
		{
			foundUndef = true
			undefPhi = ph
			for i, e := range ph.Edges {
				p := vpath(e)
				conds := condStrings(edgeConds(b.Preds[i], b))
				underDR := false
				for _, s := range conds {
					if s == "defaultReduce" {
						underDR = true
					}
				}
				key := fmt.Sprintf("lalr.Optimize:undef[defaultReduce=%v]", underDR)
				if !underDR {
					if p == "-1" {
						c.Ok(rule, key, ph.Pos(), "without defaultReduce unfilled cells are plain errors (-1)")
					} else {
						c.Bad(rule, key, ph.Pos(), "without defaultReduce unfilled cells must be errors (-1), got %s", p)
					}
					continue
				}
				m := regexp.MustCompile(`^\(-(\d+) - (.+)\)$`).FindStringSubmatch(p)
				var k int
				if m != nil {
					fmt.Sscan(m[1], &k)
				}
				if m != nil && k >= 2 && (m[2] == "len(t.Action)" || m[2] == "states") {
					c.Ok(rule, key, ph.Pos(), "sentinel %s lies below the smallest shift code -1-len(t.Action) and differs from error (-1) and every rule index", p)
				} else {
					c.Bad(rule, key, ph.Pos(), "under defaultReduce the unfilled-cell sentinel is %s; it must be -K-len(t.Action) with K >= 2 so that it differs from every shift code (-2-state), from the nonassoc/plain error (-1) and from rule indices", p)
				}
			}
		}
	}
	if !foundUndef {
		c.Bad(rule, "lalr.Optimize:undef", f.Pos(), "no distinct unfilled-cell sentinel: under defaultReduce cells left at -1 cannot be told from nonassoc errors, which must stay errors")
	}
	// substitution loop: next[i] = def only under v == undef
	// ... and for every value of the default: a substitution that is skipped when there is no
	// reduction to prefer (def == -1) leaves the sentinel in the row, where it decodes as a shift
	// into state len(t.Action)
	condOnDef := token.NoPos
	if dv != nil {
		for _, b := range f.Blocks {
			for _, ins := range b.Instrs {
				st, ok := ins.(*ssa.Store)
				if !ok || st.Val != dv {
					continue
				}
				for _, g := range flattenConds(governing(b)) {
					if bo, ok := g.V.(*ssa.BinOp); ok && (stripConv(bo.X) == dv || stripConv(bo.Y) == dv) {
						condOnDef = bo.Pos()
					}
				}
			}
		}
	}
	if condOnDef != token.NoPos {
		c.Bad(rule, "lalr.Optimize:substitute", condOnDef, "the substitution of unfilled cells is skipped for some values of the default (%s): the sentinel -2-len(t.Action) stays in the row and is emitted as a shift into a state that does not exist", vpath(dv))
	} else if uv != nil && dv != nil && foundUndef {
		c.Ok(rule, "lalr.Optimize:substitute", f.Pos(), "the default reduction replaces only cells equal to the sentinel, whatever the default is")
	} else {
		c.Bad(rule, "lalr.Optimize:substitute", f.Pos(), "under defaultReduce the default reduction must be stored only into cells that equal a dedicated unfilled-cell sentinel (found comparison value: %v): otherwise nonassoc errors and shifts are overwritten", uv != nil)
	}
}

var opaquePhi = map[*ssa.Phi]bool{}

func expandPhi(v ssa.Value, d int) []ssa.Value {
	if ph, ok := v.(*ssa.Phi); ok && d < 3 && !opaquePhi[ph] {
		var out []ssa.Value
		for _, e := range ph.Edges {
			out = append(out, expandPhi(e, d+1)...)
		}
		return out
	}
	return []ssa.Value{v}
}

func blockOf(v ssa.Value, def *ssa.BasicBlock) *ssa.BasicBlock {
	if ins, ok := v.(ssa.Instruction); ok && ins.Block() != nil {
		return ins.Block()
	}
	return def
}

// resultAlloc returns the addressable local that holds the (single) named result of f: the
// variable whose load is returned.
func resultAlloc(f *ssa.Function) *ssa.Alloc {
	for _, b := range f.Blocks {
		for _, ins := range b.Instrs {
			if r, ok := ins.(*ssa.Return); ok && len(r.Results) == 1 {
				if ld, ok := r.Results[0].(*ssa.UnOp); ok && ld.Op == token.MUL {
					if al, ok := ld.X.(*ssa.Alloc); ok {
						return al
					}
				}
			}
		}
	}
	return nil
}

// sentinelPhis finds, in Optimize, the value U compared with a row cell in the substitution
// loop (`if v == U { next[i] = D }`) and the substituted value D.
func sentinelPhis(f *ssa.Function) (undef, def ssa.Value) {
	for _, b := range f.Blocks {
		for _, ins := range b.Instrs {
			st, ok := ins.(*ssa.Store)
			if !ok {
				continue
			}
			ia, ok := st.Addr.(*ssa.IndexAddr)
			if !ok {
				continue
			}
			ms, ok := ia.X.(*ssa.MakeSlice)
			if !ok || vpath(ms.Len) != "terms" {
				continue
			}
			for _, g := range flattenConds(governing(b)) {
				bo, ok := g.V.(*ssa.BinOp)
				if !ok || !g.Pol || bo.Op != token.EQL {
					continue
				}
				// one side is an element of the same row
				isCell := func(v ssa.Value) bool {
					ld, ok := v.(*ssa.UnOp)
					if !ok || ld.Op != token.MUL {
						return false
					}
					ia2, ok := ld.X.(*ssa.IndexAddr)
					return ok && ia2.X == ssa.Value(ms)
				}
				if os.Getenv("TMSA_DEBUG") != "" {
					fmt.Fprintln(os.Stderr, "SENT", vpath(bo.X), "|", vpath(bo.Y), "|", vpath(st.Val))
				}
				if isCell(bo.X) {
					return bo.Y, st.Val
				}
				if isCell(bo.Y) {
					return bo.X, st.Val
				}
			}
		}
	}
	return nil, nil
}
