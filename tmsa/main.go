// Command tmsa decides structural necessary conditions of the textmapper properties
// C01..C30 by static analysis of /repo's current source. Nothing from /repo is executed.
package main

import (
	"flag"
	"fmt"
	"os"
	"sort"
	"strconv"
	"strings"
	"time"
)

var registry = map[string]*Property{}

func register(p *Property) { registry[p.ID] = p }

func main() {
	if len(os.Args) < 2 {
		fmt.Fprintln(os.Stderr, "usage: tmsa check -p <id> [-tier quick|thorough] [-repo /repo] [-verif /verif] | tmsa list")
		os.Exit(2)
	}
	switch os.Args[1] {
	case "list":
		ids := make([]string, 0, len(registry))
		for id := range registry {
			ids = append(ids, id)
		}
		sort.Strings(ids)
		for _, id := range ids {
			fmt.Println(id)
		}
	case "check":
		fs := flag.NewFlagSet("check", flag.ExitOnError)
		id := fs.String("p", "", "property id")
		tier := fs.String("tier", "quick", "quick|thorough")
		repo := fs.String("repo", "/repo", "repository root")
		verif := fs.String("verif", "/verif", "verification root (evidence, known findings)")
		fs.Parse(os.Args[2:])
		ids := strings.Split(*id, ",")
		if *id == "ALL" {
			ids = nil
			for k := range registry {
				if !strings.HasPrefix(k, "X") {
					ids = append(ids, k)
				}
			}
			sort.Strings(ids)
		}
		for _, one := range ids {
			if registry[one] == nil {
				fmt.Fprintf(os.Stderr, "tmsa: unknown property %q\n", one)
				os.Exit(2)
			}
		}
		seed, _ := strconv.Atoi(os.Getenv("VERIF_SEED"))
		t0 := time.Now()
		c, err := Load(*repo, *tier)
		if err != nil {
			// A tree that does not load cannot be analysed; this is a failed check, not a pass.
			fmt.Fprintln(os.Stderr, "tmsa: load failed:", err)
			worst := 0
			for _, one := range ids {
				c = &Ctx{Repo: *repo, Tier: *tier}
				c.add("LOAD", "load", 0, Undecided, true, "the repository did not load/type-check: %v", err)
				if rc := finish(c, registry[one], *verif, seed, t0, nil); rc > worst {
					worst = rc
				}
			}
			os.Exit(worst)
		}
		worst := 0
		for _, one := range ids {
			p := registry[one]
			c.obs, c.notes = nil, nil
			t1 := time.Now()
			if len(ids) == 1 {
				t1 = t0
			}
			func() {
				defer func() {
					if r := recover(); r != nil {
						c.add("PANIC", "checker", 0, Undecided, true, "checker panicked: %v", r)
						if os.Getenv("TMSA_DEBUG") != "" {
							panic(r)
						}
					}
				}()
				p.Run(c)
			}()
			if d := os.Getenv("TMSA_DUMP"); d != "" {
				for _, o := range c.obs {
					if strings.HasPrefix(o.Rule, d) {
						fmt.Printf("DUMP %s %s [%v] %s\n", o.Rule, o.Key, o.Status, o.Fact)
					}
				}
			}
			var extra map[string]any
			rc := 0
			if *tier == "thorough" {
				mres := runMutants(*repo, *verif, p.ID)
				det, app := 0, 0
				for _, m := range mres {
					if m.Applied {
						app++
						if m.Detected {
							det++
						} else {
							fmt.Printf("tmsa: checker regression: breaking change %s is no longer reported by %s\n", m.Name, p.ID)
							rc = 2
						}
					}
				}
				extra = map[string]any{"mutants": mres, "mutants_total": len(mres), "mutants_applied": app, "mutants_detected": det,
					"mutants_rule": "each listed breaking change (reverted fix, hand-written mutant, or independently seeded regression) is applied to a scratch copy of /repo and the property's rules are re-run on the copy; all applied ones must be reported"}
				fmt.Printf("thorough: %d breaking changes applied to scratch copies, %d reported\n", app, det)
			}
			frc := finish(c, p, *verif, seed, t1, extra)
			if frc == 0 && rc != 0 {
				frc = rc
			}
			if frc > worst {
				worst = frc
			}
		}
		os.Exit(worst)
	default:
		fmt.Fprintln(os.Stderr, "tmsa: unknown command", os.Args[1])
		os.Exit(2)
	}
}
