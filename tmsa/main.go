// Command tmsa decides structural necessary conditions of the textmapper properties
// C01..C30 by static analysis of /repo's current source. Nothing from /repo is executed.
package main

import (
	"flag"
	"fmt"
	"os"
	"sort"
	"strconv"
	"time"
)

var registry = map[string]*Property{}

func register(p *Property) { registry[p.ID] = p }

func main() {
	if len(os.Args) < 2 {
		fmt.Fprintln(os.Stderr, "usage: tmsa check -p <id> [-tier quick|thorough] [-repo /repo] [-verif /verif] | tmsa list")
		os.Exit(2)
	}
	switch os.Args[1] {
	case "list":
		ids := make([]string, 0, len(registry))
		for id := range registry {
			ids = append(ids, id)
		}
		sort.Strings(ids)
		for _, id := range ids {
			fmt.Println(id)
		}
	case "check":
		fs := flag.NewFlagSet("check", flag.ExitOnError)
		id := fs.String("p", "", "property id")
		tier := fs.String("tier", "quick", "quick|thorough")
		repo := fs.String("repo", "/repo", "repository root")
		verif := fs.String("verif", "/verif", "verification root (evidence, known findings)")
		fs.Parse(os.Args[2:])
		p := registry[*id]
		if p == nil {
			fmt.Fprintf(os.Stderr, "tmsa: unknown property %q\n", *id)
			os.Exit(2)
		}
		seed, _ := strconv.Atoi(os.Getenv("VERIF_SEED"))
		t0 := time.Now()
		c, err := Load(*repo, *tier)
		if err != nil {
			// A tree that does not load cannot be analysed; this is a failed check, not a pass.
			fmt.Fprintln(os.Stderr, "tmsa: load failed:", err)
			c = &Ctx{Repo: *repo, Tier: *tier}
			c.add("LOAD", "load", 0, Undecided, true, "the repository did not load/type-check: %v", err)
			os.Exit(finish(c, p, *verif, seed, t0, nil))
		}
		func() {
			defer func() {
				if r := recover(); r != nil {
					c.add("PANIC", "checker", 0, Undecided, true, "checker panicked: %v", r)
					if os.Getenv("TMSA_DEBUG") != "" {
						panic(r)
					}
				}
			}()
			p.Run(c)
		}()
		os.Exit(finish(c, p, *verif, seed, t0, nil))
	default:
		fmt.Fprintln(os.Stderr, "tmsa: unknown command", os.Args[1])
		os.Exit(2)
	}
}

