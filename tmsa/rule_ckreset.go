package main

import (
	"go/token"
	"strings"

	"golang.org/x/tools/go/ssa"
)

// RESET(checkpoint): the backtracking checkpoint of a generated lexer (backupRule) belongs to
// one token. On every way into the scanning loop — function entry and each `goto restart` after
// a skipped token — its value must be the constant -1; a checkpoint that survives a restart
// makes the next token's no-match path rewind to an offset inside the previous token.
func ruleCKRESET(c *Ctx) {
	const rule = "RESET(checkpoint)"
	n := 0
	for _, rel := range lexerPkgs {
		f := c.SSAFunc(rel, "(*Lexer).Next")
		if f == nil {
			continue
		}
		loops := naturalLoops(f)
		// loads backupRule = tmBacktracking[state] (even slot: the index is not "x + 1")
		var loads []*ssa.UnOp
		for _, b := range f.Blocks {
			for _, ins := range b.Instrs {
				u, ok := ins.(*ssa.UnOp)
				if !ok || u.Op != token.MUL {
					continue
				}
				ia, ok := u.X.(*ssa.IndexAddr)
				if !ok || !strings.HasSuffix(vpath(ia.X), "tmBacktracking") {
					continue
				}
				if bo, ok := ia.Index.(*ssa.BinOp); ok && bo.Op == token.ADD {
					if k, ok := bo.Y.(*ssa.Const); ok && k.Value != nil && k.Int64() == 1 {
						continue
					}
				}
				loads = append(loads, u)
			}
		}
		if len(loads) == 0 {
			continue // lexer without backtracking
		}
		n++
		key := ssaFuncKey(f) + ":backupRule"
		lp := innermostLoop(loops, loads[0].Block())
		if lp == nil {
			c.Lost(rule, key, "the checkpoint is no longer recorded inside the scanning loop")
			continue
		}
		// header phis fed by those loads
		isLoad := map[ssa.Value]bool{}
		for _, l := range loads {
			isLoad[l] = true
			for _, r := range *l.Referrers() {
				if cv, ok := r.(*ssa.Convert); ok {
					isLoad[cv] = true
				}
			}
		}
		var bad []string
		nphi := 0
		for _, ins := range lp.Header.Instrs {
			phi, ok := ins.(*ssa.Phi)
			if !ok {
				break
			}
			// does an in-loop edge carry a checkpoint load (through in-loop phis)?
			fed := false
			seen := map[ssa.Value]bool{}
			var walkIn func(v ssa.Value)
			walkIn = func(v ssa.Value) {
				if seen[v] || fed {
					return
				}
				seen[v] = true
				if isLoad[v] {
					fed = true
					return
				}
				if p, ok := v.(*ssa.Phi); ok && lp.Body[p.Block()] && p != phi {
					for _, e := range p.Edges {
						walkIn(e)
					}
				}
			}
			for i, e := range phi.Edges {
				if lp.Body[lp.Header.Preds[i]] {
					walkIn(e)
				}
			}
			if !fed {
				continue
			}
			nphi++
			// all values entering from outside the loop are -1
			seenO := map[ssa.Value]bool{}
			var walkOut func(v ssa.Value)
			walkOut = func(v ssa.Value) {
				if v == ssa.Value(phi) {
					bad = append(bad, "its own value from the previous token")
					return
				}
				if seenO[v] {
					return
				}
				seenO[v] = true
				switch y := v.(type) {
				case *ssa.Phi:
					for _, e := range y.Edges {
						walkOut(e)
					}
				case *ssa.Const:
					if y.Value == nil || y.Int64() != -1 {
						bad = append(bad, "constant "+vpath(y))
					}
				default:
					bad = append(bad, normalizePhi(vpath(v)))
				}
			}
			for i, e := range phi.Edges {
				if !lp.Body[lp.Header.Preds[i]] {
					walkOut(e)
				}
			}
		}
		if nphi == 0 {
			c.Lost(rule, key, "no loop-carried checkpoint variable fed from tmBacktracking found in the scanning loop")
			continue
		}
		if len(bad) > 0 {
			c.Bad(rule, key, lp.Header.Instrs[0].Pos(), "the checkpoint rule can enter the scanning loop with a value other than -1 (%s): a checkpoint recorded for an earlier (skipped) token survives `goto restart`", strings.Join(bad, ", "))
			continue
		}
		c.Ok(rule, key, lp.Header.Instrs[0].Pos(), "the checkpoint rule is -1 on every edge entering the scanning loop (entry and every restart)")
	}
	c.MinCount(rule, "parsers/", 3)
}
