package main

import (
	"go/token"
	"go/types"

	"golang.org/x/tools/go/ssa"
)

// FRESH(lookahead): the lookahead token p.next is parser state that survives a parse. Every read
// of it inside (*Parser).parse must be dominated by a definition made in the same call: a store
// into p.next (whole or a field) or a call to a method of p that stores into it (fetchNext).
// Otherwise the second Parse on a reused Parser starts from the previous input's lookahead.
func ruleFRESH(c *Ctx) {
	const rule = "FRESH(lookahead)"
	for _, rel := range parserPkgs {
		f := c.SSAFunc(rel, "(*Parser).parse")
		if f == nil || len(f.Params) == 0 {
			continue
		}
		recv := f.Params[0]
		isNext := func(v ssa.Value) bool { // address inside p.next
			for {
				switch y := v.(type) {
				case *ssa.FieldAddr:
					if y.X == ssa.Value(recv) {
						st := recv.Type().(*types.Pointer).Elem().Underlying().(*types.Struct)
						return st.Field(y.Field).Name() == "next"
					}
					v = y.X
				default:
					return false
				}
			}
		}
		writesNext := map[*ssa.Function]bool{}
		var fnWrites func(g *ssa.Function) bool
		fnWrites = func(g *ssa.Function) bool {
			if g == nil || g.Blocks == nil || len(g.Params) == 0 {
				return false
			}
			if w, ok := writesNext[g]; ok {
				return w
			}
			writesNext[g] = false
			// unconditional store into recv.next in the entry-dominating part: any block that
			// dominates every return
			r0 := g.Params[0]
			for _, b := range g.Blocks {
				domAll := true
				for _, rb := range g.Blocks {
					if len(rb.Instrs) > 0 {
						if _, ok := rb.Instrs[len(rb.Instrs)-1].(*ssa.Return); ok && !b.Dominates(rb) {
							domAll = false
						}
					}
				}
				if !domAll {
					continue
				}
				for _, ins := range b.Instrs {
					if st, ok := ins.(*ssa.Store); ok {
						v := st.Addr
						for {
							fa, ok := v.(*ssa.FieldAddr)
							if !ok {
								break
							}
							if fa.X == ssa.Value(r0) {
								if stt, ok := r0.Type().(*types.Pointer); ok {
									if s, ok := stt.Elem().Underlying().(*types.Struct); ok && s.Field(fa.Field).Name() == "next" {
										writesNext[g] = true
									}
								}
								break
							}
							v = fa.X
						}
					}
				}
			}
			return writesNext[g]
		}
		type def struct {
			b   *ssa.BasicBlock
			idx int
		}
		var defs []def
		type read struct {
			b   *ssa.BasicBlock
			idx int
			pos token.Pos
		}
		var reads []read
		for _, b := range f.Blocks {
			for i, ins := range b.Instrs {
				switch y := ins.(type) {
				case *ssa.Store:
					if isNext(y.Addr) {
						defs = append(defs, def{b, i})
					}
				case *ssa.Call:
					if g := resolveCallee(y); g != nil && len(y.Call.Args) > 0 && y.Call.Args[0] == ssa.Value(recv) && fnWrites(g) {
						defs = append(defs, def{b, i})
					}
				case *ssa.UnOp:
					if y.Op == token.MUL && isNext(y.X) {
						reads = append(reads, read{b, i, y.Pos()})
					}
				}
			}
		}
		bad := 0
		var first token.Pos
		for _, r := range reads {
			ok := false
			for _, d := range defs {
				if d.b == r.b && d.idx < r.idx || d.b != r.b && d.b.Dominates(r.b) {
					ok = true
					break
				}
			}
			if !ok {
				if bad == 0 {
					first = r.pos
				}
				bad++
			}
		}
		key := ssaFuncKey(f) + ":p.next"
		if len(reads) == 0 {
			c.Lost(rule, key, "parse no longer reads p.next: the lookahead protocol moved, re-audit")
			continue
		}
		if bad > 0 {
			c.Bad(rule, key, first, "%d of %d reads of p.next in parse are not dominated by a definition made in the same call (store into p.next or a fetch through a method of p): a reused Parser starts from the previous input's lookahead", bad, len(reads))
			continue
		}
		c.Ok(rule, key, f.Pos(), "all %d reads of p.next in parse are dominated by one of %d definitions made in the same call", len(reads), len(defs))
	}
	c.MinCount(rule, "parsers/", 5)
}
