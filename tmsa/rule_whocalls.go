package main

import (
	"fmt"
	"go/token"
	"sort"
	"strings"

	"golang.org/x/tools/go/ssa"
)

// WHOCALLS(Lexer.Next): a generated parser sees the token sequence *after* the tokens injected
// by the grammar's (space)/comment/invalid classes were filtered out. The filter lives in two
// sibling functions (fetchNext reports the ignored tokens, lookaheadNext drops them); every
// call of (*Lexer).Next made from parser code (anything but the lexer's and the token stream's
// own files) must be inside one of them, and the two must skip the same token kinds. A raw
// lexer.Next() in a lookahead path turns a comment between two lookahead tokens into a syntax
// error.
func ruleWHOCALLS(c *Ctx) {
	const rule = "WHOCALLS(Lexer.Next)"
	n := 0
	for _, rel := range parserPkgs {
		filters := map[string][]int64{}
		for _, f := range c.SrcFuncs(rel) {
			file := c.Fset.Position(f.Pos()).Filename
			base := file[strings.LastIndex(file, "/")+1:]
			if strings.HasPrefix(base, "lexer") || strings.HasPrefix(base, "stream") || strings.HasSuffix(base, "_test.go") {
				continue
			}
			ord := map[string]int{}
			for _, b := range f.Blocks {
				for _, ins := range b.Instrs {
					call, ok := ins.(*ssa.Call)
					if !ok {
						continue
					}
					g := call.Call.StaticCallee()
					if g == nil || g.Name() != "Next" || g.Signature.Recv() == nil || !strings.HasSuffix(g.Signature.Recv().Type().String(), ".Lexer") {
						continue
					}
					n++
					key := ordKey(ord, ssaFuncKey(f)+":Lexer.Next")
					// the caller filters: the token value feeds a switch/compare chain whose match
					// loops back to the call
					var kinds []int64
					loops := false
					for _, ref := range *call.Referrers() {
						bo, ok := ref.(*ssa.BinOp)
						if !ok || bo.Op != token.EQL {
							continue
						}
						k, ok := bo.Y.(*ssa.Const)
						if !ok || k.Value == nil {
							continue
						}
						kinds = append(kinds, k.Int64())
						for _, r2 := range *bo.Referrers() {
							if ifi, ok := r2.(*ssa.If); ok && reachesWithout(ifi.Block().Succs[0], b, nil) {
								loops = true
							}
						}
					}
					sort.Slice(kinds, func(i, j int) bool { return kinds[i] < kinds[j] })
					if len(kinds) > 0 && loops {
						filters[ssaFuncKey(f)] = kinds
						c.Ok(rule, key, call.Pos(), "the token is matched against %d ignorable kinds and the fetch restarts on a match", len(kinds))
					} else if len(c.ignorableKinds(rel)) == 0 {
						c.Ok(rule, key, call.Pos(), "this grammar injects no tokens: nothing to filter")
					} else {
						c.Bad(rule, key, call.Pos(), "parser code calls (*Lexer).Next directly without filtering the injected (comment/invalid) tokens: %s must go through fetchNext/lookaheadNext", f.Name())
					}
				}
			}
		}
		// siblings agree
		var names []string
		for k := range filters {
			names = append(names, k)
		}
		sort.Strings(names)
		for i := 1; i < len(names); i++ {
			a, b := filters[names[0]], filters[names[i]]
			key := fmt.Sprintf("%s~%s:kinds", names[0], names[i])
			if fmt.Sprint(a) == fmt.Sprint(b) {
				c.Ok(rule, key, token.NoPos, "both filters skip the same token kinds %v", a)
			} else {
				c.Bad(rule, key, token.NoPos, "the two token filters disagree on the ignorable token kinds: %v vs %v (the parser and its lookahead see different token sequences)", a, b)
			}
		}
	}
	if n < 5 {
		c.add(rule, "count:", token.NoPos, CountDropped, true, "only %d calls of (*Lexer).Next from parser code found (5 confirmed by hand)", n)
	}
}

// ignorableKinds: token kinds some filter of the package skips (empty when the grammar has no
// injected tokens, e.g. parsers/simple).
func (c *Ctx) ignorableKinds(rel string) []int64 {
	var out []int64
	for _, name := range []string{"lookaheadNext", "(*Parser).fetchNext"} {
		f := c.SSAFunc(rel, name)
		if f == nil {
			continue
		}
		for _, b := range f.Blocks {
			for _, ins := range b.Instrs {
				if bo, ok := ins.(*ssa.BinOp); ok && bo.Op == token.EQL {
					if k, ok := bo.Y.(*ssa.Const); ok && k.Value != nil {
						if _, isCall := bo.X.(*ssa.Call); isCall {
							out = append(out, k.Int64())
						}
					}
				}
			}
		}
	}
	return out
}
