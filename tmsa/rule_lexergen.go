package main

import (
	"fmt"
	"go/token"
	"go/types"
	"strings"

	"golang.org/x/tools/go/ssa"
)

// Rules on generated lexers and their hand-written action code (C11, C12).

var lexerPkgs = []string{"parsers/js", "parsers/tm", "parsers/test", "parsers/json", "parsers/simple"}

// lexerField: is the address a field `name` of a *Lexer receiver/value?
func lexerField(v ssa.Value) (string, bool) {
	fa, ok := v.(*ssa.FieldAddr)
	if !ok {
		return "", false
	}
	t := fa.X.Type()
	if p, ok := t.Underlying().(*types.Pointer); ok {
		t = p.Elem()
	}
	if n, ok := t.(*types.Named); !ok || n.Obj().Name() != "Lexer" {
		return "", false
	}
	return fieldName(fa.X.Type(), fa.Field), true
}

// loadsField: v is a load of Lexer field name.
func loadsField(v ssa.Value, name string) bool {
	u, ok := stripConv(v).(*ssa.UnOp)
	if !ok || u.Op != token.MUL {
		return false
	}
	n, ok := lexerField(u.X)
	return ok && n == name
}

func ruleLINECOL(c *Ctx) {
	const rule = "LINECOL"
	nLine, nLO, nRewind := 0, 0, 0
	for _, rel := range lexerPkgs {
		for _, f := range c.SrcFuncs(rel) {
			fk := ssaFuncKey(f)
			writesLine, writesLO, callsRewind := false, false, false
			var linePos token.Pos
			ord := map[string]int{}
			for _, b := range f.Blocks {
				for _, ins := range b.Instrs {
					switch x := ins.(type) {
					case *ssa.Call:
						if g := x.Common().StaticCallee(); g != nil && g.Name() == "rewind" {
							callsRewind = true
						}
					case *ssa.Store:
						name, ok := lexerField(x.Addr)
						if !ok {
							continue
						}
						switch name {
						case "line":
							writesLine = true
							linePos = x.Pos()
							nLine++
							// (d) in rewind: sign agrees with the direction
							if f.Name() == "rewind" {
								nRewind++
								bo, isB := x.Val.(*ssa.BinOp)
								p := ""
								if isB {
									p = vpath(bo.Y)
								}
								back := false
								fwd := false
								for _, g := range flattenConds(governing(b)) {
									l, op, r, ok := cmpNorm(g.V, g.Pol)
									if !ok {
										continue
									}
									if op == "<" && l == "offset" && r == "l.offset" {
										back = true
									}
									if op == "<=" && l == "l.offset" && r == "offset" {
										fwd = true
									}
								}
								key := ordKey(ord, fk+":line")
								switch {
								case !isB || !strings.HasPrefix(p, "strings.Count(l.source["):
									c.Undec(rule, key, x.Pos(), "rewind adjusts l.line by %s; expected ± strings.Count(l.source[a:b], \"\\n\")", vpath(x.Val))
								case back && bo.Op == token.SUB && strings.Contains(p, "l.source[offset:l.offset]"):
									c.Ok(rule, key, x.Pos(), "moving backwards subtracts the newlines in source[offset:l.offset]")
								case fwd && bo.Op == token.ADD && strings.Contains(normalizePhi(p), "l.source[l.offset:"):
									c.Ok(rule, key, x.Pos(), "moving forwards adds the newlines in source[l.offset:offset]")
								default:
									c.Bad(rule, key, x.Pos(), "rewind: l.line %s %s under {backwards=%v, forwards=%v}; moving backwards must subtract the newlines of source[offset:l.offset], moving forwards must add those of source[l.offset:offset]", bo.Op, normalizePhi(p), back, fwd)
								}
							}
						case "lineOffset":
							writesLO = true
							nLO++
							key := ordKey(ord, fk+":lineOffset")
							p := normalizePhi(vpath(x.Val))
							nl := hasCond(governing(b), func(path string, pol bool) bool { return pol && path == "(l.ch == 10)" })
							switch {
							case p == "0":
								c.Ok(rule, key, x.Pos(), "start of input")
							case strings.HasPrefix(p, "(1 + strings.LastIndexByte(l.source[:") || strings.HasPrefix(p, "(strings.LastIndexByte(l.source[:") && strings.HasSuffix(p, " + 1)"):
								c.Ok(rule, key, x.Pos(), "first byte after the last newline before the new offset")
							case nl && (loadsField(x.Val, "scanOffset") || p == "(l.offset + 1)" || p == "(1 + l.offset)"):
								c.Ok(rule, key, x.Pos(), "under l.ch == '\\n' the next line starts at %s = offset of the newline + 1", p)
							case nl:
								c.Bad(rule, key, x.Pos(), "under l.ch == '\\n' lineOffset is set to %s, which is the offset of the newline itself; the line starts one byte later (l.scanOffset): the first token of every following line reports column+1", p)
							default:
								c.Bad(rule, key, x.Pos(), "lineOffset = %s is none of the forms that equal the offset of the first byte of the current line", p)
							}
						}
					}
				}
			}
			// (a) pairing: a function of a lexer that tracks columns and bumps l.line must keep lineOffset in step
			if writesLine && !writesLO && !callsRewindOnly(f) && f.Name() != "Init" && f.Name() != "rewind" {
				hasLO := false
				if recv := f.Signature.Recv(); recv != nil {
					t := recv.Type()
					if p, ok := t.(*types.Pointer); ok {
						t = p.Elem()
					}
					if st, ok := t.Underlying().(*types.Struct); ok {
						for i := 0; i < st.NumFields(); i++ {
							if st.Field(i).Name() == "lineOffset" {
								hasLO = true
							}
						}
					}
				}
				key := fk + ":line/lineOffset"
				if hasLO {
					c.Bad(rule, key, linePos, "%s advances l.line without updating l.lineOffset (the lexer reports columns): columns after this code count from a stale line start", f.Name())
				} else {
					c.Trivial(rule, key, linePos, "lexer does not track columns")
				}
			}
			_ = callsRewind
			// (c) every cycle through the cursor advance passes a newline test
			if writesLine && f.Name() != "rewind" && f.Name() != "Init" {
				var adv *ssa.BasicBlock
				for _, b := range f.Blocks {
					for _, ins := range b.Instrs {
						if st, ok := ins.(*ssa.Store); ok {
							if n, ok := lexerField(st.Addr); ok && n == "offset" && loadsField(st.Val, "scanOffset") {
								adv = b
							}
						}
					}
				}
				if adv != nil {
					for i, lp := range naturalLoops(f) {
						if !lp.Body[adv] {
							continue
						}
						tests := false
						for b := range lp.Body {
							if len(b.Instrs) == 0 {
								continue
							}
							if ifi, ok := b.Instrs[len(b.Instrs)-1].(*ssa.If); ok && strings.Contains(vpath(ifi.Cond), "(l.ch == 10)") {
								tests = true
							}
						}
						key := fmt.Sprintf("%s:advance-loop#%d", fk, i+1)
						if tests {
							c.Ok(rule, key, lp.Header.Instrs[0].Pos(), "the loop that advances the cursor tests l.ch == '\\n' on each round")
						} else {
							c.Bad(rule, key, lp.Header.Instrs[0].Pos(), "a cycle advances the cursor (l.offset = l.scanOffset) without passing the l.ch == '\\n' test: a newline consumed on this cycle (an escaped newline inside a quoted string) is not counted")
						}
					}
				}
			}
		}
	}
	if nLine < 15 || nLO < 3 || nRewind < 8 {
		c.add(rule, "count:", token.NoPos, CountDropped, true, "line stores=%d (>=15), lineOffset stores=%d (>=3), rewind adjustments=%d (>=8)", nLine, nLO, nRewind)
	}
}

func callsRewindOnly(f *ssa.Function) bool { return false }

// CURSOR: reads of l.source[e] are dominated by e < len(l.source); the scan offset advances
// only under l.offset < len(l.source).
func ruleCURSOR(c *Ctx) {
	const rule = "CURSOR"
	nIdx, nAdv := 0, 0
	for _, rel := range lexerPkgs {
		for _, f := range c.SrcFuncs(rel) {
			fk := ssaFuncKey(f)
			ord := map[string]int{}
			for _, b := range f.Blocks {
				for _, ins := range b.Instrs {
					switch x := ins.(type) {
					case *ssa.Lookup, *ssa.Index: // string indexing
						var xX, xIndex ssa.Value
						switch y := x.(type) {
						case *ssa.Lookup:
							if y.CommaOk {
								continue
							}
							xX, xIndex = y.X, y.Index
						case *ssa.Index:
							xX, xIndex = y.X, y.Index
						}
						if !loadsField(xX, "source") {
							continue
						}
						nIdx++
						key := ordKey(ord, fk+":source["+normalizePhi(vpath(xIndex))+"]")
						ok := false
						for _, g := range flattenConds(governing(b)) {
							l, op, r, isC := cmpNormV(g.V, g.Pol)
							if isC && op == "<" && vpath(l) == vpath(xIndex) && vpath(r) == "len(l.source)" {
								ok = true
							}
						}
						if ok {
							c.Ok(rule, key, x.(ssa.Instruction).Pos(), "index < len(l.source) holds on every path to this read")
						} else {
							c.Bad(rule, key, x.(ssa.Instruction).Pos(), "l.source[%s] is read without a dominating test %s < len(l.source): an input ending here panics with index out of range", normalizePhi(vpath(xIndex)), normalizePhi(vpath(xIndex)))
						}
					case *ssa.Store:
						n, isF := lexerField(x.Addr)
						if !isF || n != "scanOffset" {
							continue
						}
						bo, isB := x.Val.(*ssa.BinOp)
						if !isB || bo.Op != token.ADD || !loadsField(bo.X, "scanOffset") {
							continue
						}
						nAdv++
						key := ordKey(ord, fk+":scanOffset+=")
						ok := false
						for _, g := range flattenConds(governing(b)) {
							l, op, r, isC := cmpNorm(g.V, g.Pol)
							if isC && op == "<" && (l == "l.offset" || l == "l.scanOffset") && r == "len(l.source)" {
								ok = true
							}
						}
						if ok {
							c.Ok(rule, key, x.Pos(), "the scan offset advances only while l.offset < len(l.source)")
						} else {
							c.Bad(rule, key, x.Pos(), "l.scanOffset is advanced without the guard l.offset < len(l.source): the cursor can pass the end of the input (token ranges outside the text, slice bounds panic in rewind)")
						}
					}
				}
			}
		}
	}
	if nIdx < 10 || nAdv < 8 {
		c.add(rule, "count:", token.NoPos, CountDropped, true, "source index reads=%d (>=10), scan offset advances=%d (>=8)", nIdx, nAdv)
	}
}

// PROGRESS: on the no-match path with an empty token the lexer forces progress.
func rulePROGRESS(c *Ctx) {
	const rule = "PROGRESS"
	n := 0
	for _, rel := range lexerPkgs {
		f := c.SSAFunc(rel, "(*Lexer).Next")
		if f == nil {
			continue
		}
		n++
		key := rel + ".Lexer.Next:no-match"
		ok := false
		var pos token.Pos = f.Pos()
		for _, b := range f.Blocks {
			for _, ins := range b.Instrs {
				call, isC := ins.(*ssa.Call)
				if !isC {
					continue
				}
				g := call.Common().StaticCallee()
				if g == nil || g.Name() != "rewind" || len(call.Common().Args) != 2 || !loadsField(call.Common().Args[1], "scanOffset") {
					continue
				}
				if hasCond(governing(b), func(p string, pol bool) bool { return pol && p == "(l.offset == l.tokenOffset)" }) {
					ok = true
					pos = call.Pos()
				}
			}
		}
		if ok {
			c.Ok(rule, key, pos, "an empty invalid token is extended with l.rewind(l.scanOffset): every call consumes at least one unit or reports end of input")
		} else {
			c.Bad(rule, key, pos, "on the no-match path with l.offset == l.tokenOffset the lexer must skip one unit (l.rewind(l.scanOffset)); otherwise Next returns the same empty token forever")
		}
	}
	if n < 5 {
		c.add(rule, "count:", token.NoPos, CountDropped, true, "only %d generated Lexer.Next functions found (5 shipped)", n)
	}
}

// AGREE(hash): the keyword hash computed at generation time (gen.stringHash) iterates the same
// unit and uses the same multiplier as the hash the generated lexer accumulates per scanned unit.
func ruleHASHAGREE(c *Ctx) {
	const rule = "AGREE(hash)"
	f := c.SSAFunc("gen", "stringHash")
	if f == nil {
		c.Lost(rule, "gen.stringHash", "function not found")
		return
	}
	// generator side: unit and multiplier
	genUnit, genMul := "", ""
	dependsOnMode := false
	for _, p := range f.Params {
		if strings.Contains(strings.ToLower(p.Name()), "byte") {
			dependsOnMode = true
		}
	}
	for _, b := range f.Blocks {
		for _, ins := range b.Instrs {
			switch x := ins.(type) {
			case *ssa.Range:
				if bt, ok := x.X.Type().Underlying().(*types.Basic); ok && bt.Info()&types.IsString != 0 {
					genUnit = "rune"
				}
			case *ssa.Lookup:
				if bt, ok := x.X.Type().Underlying().(*types.Basic); ok && bt.Info()&types.IsString != 0 && genUnit == "" {
					genUnit = "byte"
				}
			case *ssa.BinOp:
				if x.Op == token.MUL {
					genMul = vpath(x.Y)
				}
			}
		}
	}
	// lexer side
	lexMul := map[string]bool{}
	nLex := 0
	for _, rel := range lexerPkgs {
		g := c.SSAFunc(rel, "(*Lexer).Next")
		if g == nil {
			continue
		}
		for _, b := range g.Blocks {
			for _, ins := range b.Instrs {
				if bo, ok := ins.(*ssa.BinOp); ok && bo.Op == token.ADD {
					if m, ok := bo.X.(*ssa.BinOp); ok && m.Op == token.MUL && loadsField(bo.Y, "ch") {
						lexMul[vpath(m.Y)] = true
						nLex++
					}
				}
			}
		}
	}
	if nLex == 0 {
		c.Lost(rule, "Lexer.Next:hash", "no hash accumulation hash*M + uint32(l.ch) found in the generated lexers")
		return
	}
	if len(lexMul) == 1 && lexMul[genMul] {
		c.Ok(rule, "gen.stringHash:multiplier", f.Pos(), "generator and %d generated lexers multiply by %s", nLex, genMul)
	} else {
		c.Bad(rule, "gen.stringHash:multiplier", f.Pos(), "gen.stringHash multiplies by %s, generated lexers by %v: no keyword is ever recognised", genMul, lexMul)
	}
	// rune mode: l.ch is a rune
	if genUnit == "rune" || dependsOnMode {
		c.Ok(rule, "gen.stringHash:unit[mode=rune]", f.Pos(), "in rune mode the lexer hashes runes (l.ch) and stringHash ranges over runes")
	} else {
		c.Bad(rule, "gen.stringHash:unit[mode=rune]", f.Pos(), "in rune mode the generated lexer hashes one rune per step (uint32(l.ch)) but stringHash iterates %ss: a keyword with a non-ASCII rune under a (class) rule is never recognised", genUnit)
	}
	// bytes mode: l.ch is a byte
	if dependsOnMode {
		c.Ok(rule, "gen.stringHash:unit[mode=bytes]", f.Pos(), "stringHash is told the scan unit")
	} else if genUnit == "byte" {
		c.Ok(rule, "gen.stringHash:unit[mode=bytes]", f.Pos(), "stringHash iterates bytes")
	} else {
		c.Bad(rule, "gen.stringHash:unit[mode=bytes]", f.Pos(), "with scanBytes the generated lexer hashes one byte per step, stringHash always ranges over runes and neither it nor asStringSwitch nor the template call string_switch depends on Options.ScanBytes: a non-ASCII keyword is never recognised in bytes mode")
	}
}
