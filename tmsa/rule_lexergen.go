package main

import (
	"fmt"
	"go/ast"
	"go/token"
	"go/types"
	"strconv"
	"strings"
	"text/template/parse"

	"golang.org/x/tools/go/ssa"
)

// Rules on generated lexers and their hand-written action code (C11, C12).

var lexerPkgs = []string{"parsers/js", "parsers/tm", "parsers/test", "parsers/json", "parsers/simple"}

// lexerField: is the address a field `name` of a *Lexer receiver/value?
func lexerField(v ssa.Value) (string, bool) {
	fa, ok := v.(*ssa.FieldAddr)
	if !ok {
		return "", false
	}
	t := fa.X.Type()
	if p, ok := t.Underlying().(*types.Pointer); ok {
		t = p.Elem()
	}
	if n, ok := t.(*types.Named); !ok || n.Obj().Name() != "Lexer" {
		return "", false
	}
	return fieldName(fa.X.Type(), fa.Field), true
}

// loadsField: v is a load of Lexer field name.
func loadsField(v ssa.Value, name string) bool {
	u, ok := stripConv(v).(*ssa.UnOp)
	if !ok || u.Op != token.MUL {
		return false
	}
	n, ok := lexerField(u.X)
	return ok && n == name
}

func ruleLINECOL(c *Ctx) {
	const rule = "LINECOL"
	nLine, nLO, nRewind := 0, 0, 0
	for _, rel := range lexerPkgs {
		for _, f := range c.SrcFuncs(rel) {
			fk := ssaFuncKey(f)
			writesLine, writesLO, callsRewind := false, false, false
			var linePos token.Pos
			ord := map[string]int{}
			for _, b := range f.Blocks {
				for _, ins := range b.Instrs {
					switch x := ins.(type) {
					case *ssa.Call:
						if g := x.Common().StaticCallee(); g != nil && g.Name() == "rewind" {
							callsRewind = true
						}
					case *ssa.Store:
						name, ok := lexerField(x.Addr)
						if !ok {
							continue
						}
						switch name {
						case "line":
							writesLine = true
							linePos = x.Pos()
							nLine++
							// (d) in rewind: sign agrees with the direction
							if f.Name() == "rewind" {
								nRewind++
								bo, isB := x.Val.(*ssa.BinOp)
								p := ""
								if isB {
									p = vpath(bo.Y)
								}
								back := false
								fwd := false
								for _, g := range flattenConds(governing(b)) {
									l, op, r, ok := cmpNorm(g.V, g.Pol)
									if !ok {
										continue
									}
									if op == "<" && l == "offset" && r == "l.offset" {
										back = true
									}
									if op == "<=" && l == "l.offset" && r == "offset" {
										fwd = true
									}
								}
								key := ordKey(ord, fk+":line")
								switch {
								case !isB || !strings.HasPrefix(p, "strings.Count(l.source["):
									c.Undec(rule, key, x.Pos(), "rewind adjusts l.line by %s; expected ± strings.Count(l.source[a:b], \"\\n\")", vpath(x.Val))
								case back && bo.Op == token.SUB && strings.Contains(p, "l.source[offset:l.offset]"):
									c.Ok(rule, key, x.Pos(), "moving backwards subtracts the newlines in source[offset:l.offset]")
								case fwd && bo.Op == token.ADD && strings.Contains(normalizePhi(p), "l.source[l.offset:"):
									c.Ok(rule, key, x.Pos(), "moving forwards adds the newlines in source[l.offset:offset]")
								default:
									c.Bad(rule, key, x.Pos(), "rewind: l.line %s %s under {backwards=%v, forwards=%v}; moving backwards must subtract the newlines of source[offset:l.offset], moving forwards must add those of source[l.offset:offset]", bo.Op, normalizePhi(p), back, fwd)
								}
							}
						case "lineOffset":
							writesLO = true
							nLO++
							key := ordKey(ord, fk+":lineOffset")
							p := normalizePhi(vpath(x.Val))
							nl := hasCond(governing(b), func(path string, pol bool) bool { return pol && path == "(l.ch == 10)" })
							switch {
							case p == "0":
								c.Ok(rule, key, x.Pos(), "start of input")
							case (strings.HasPrefix(p, "(1 + strings.LastIndexByte(l.source[:") || strings.HasPrefix(p, "(strings.LastIndexByte(l.source[:") && strings.HasSuffix(p, " + 1)")) &&
								strings.Contains(p, "l.source[:l.offset]") && storesOffsetLater(f, x):
								c.Bad(rule, key, x.Pos(), "lineOffset is computed from source[:l.offset], the position the lexer is about to leave (l.offset is assigned afterwards): after moving across a newline the line start is stale and columns are wrong")
							case strings.HasPrefix(p, "(1 + strings.LastIndexByte(l.source[:") || strings.HasPrefix(p, "(strings.LastIndexByte(l.source[:") && strings.HasSuffix(p, " + 1)"):
								c.Ok(rule, key, x.Pos(), "first byte after the last newline before the new offset")
							case nl && (loadsField(x.Val, "scanOffset") || p == "(l.offset + 1)" || p == "(1 + l.offset)"):
								c.Ok(rule, key, x.Pos(), "under l.ch == '\\n' the next line starts at %s = offset of the newline + 1", p)
							case nl:
								c.Bad(rule, key, x.Pos(), "under l.ch == '\\n' lineOffset is set to %s, which is the offset of the newline itself; the line starts one byte later (l.scanOffset): the first token of every following line reports column+1", p)
							default:
								c.Bad(rule, key, x.Pos(), "lineOffset = %s is none of the forms that equal the offset of the first byte of the current line", p)
							}
						}
					}
				}
			}
			// (a) pairing: a function of a lexer that tracks columns and bumps l.line must keep lineOffset in step
			if writesLine && !writesLO && !callsRewindOnly(f) && f.Name() != "Init" && f.Name() != "rewind" {
				hasLO := false
				if recv := f.Signature.Recv(); recv != nil {
					t := recv.Type()
					if p, ok := t.(*types.Pointer); ok {
						t = p.Elem()
					}
					if st, ok := t.Underlying().(*types.Struct); ok {
						for i := 0; i < st.NumFields(); i++ {
							if st.Field(i).Name() == "lineOffset" {
								hasLO = true
							}
						}
					}
				}
				key := fk + ":line/lineOffset"
				if hasLO {
					c.Bad(rule, key, linePos, "%s advances l.line without updating l.lineOffset (the lexer reports columns): columns after this code count from a stale line start", f.Name())
				} else {
					c.Trivial(rule, key, linePos, "lexer does not track columns")
				}
			}
			_ = callsRewind
			// (c) every cycle through the cursor advance passes a newline test
			if writesLine && f.Name() != "rewind" && f.Name() != "Init" {
				var adv *ssa.BasicBlock
				for _, b := range f.Blocks {
					for _, ins := range b.Instrs {
						if st, ok := ins.(*ssa.Store); ok {
							if n, ok := lexerField(st.Addr); ok && n == "offset" && loadsField(st.Val, "scanOffset") {
								adv = b
							}
						}
					}
				}
				if adv != nil {
					for i, lp := range naturalLoops(f) {
						if !lp.Body[adv] {
							continue
						}
						tests := false
						for b := range lp.Body {
							if len(b.Instrs) == 0 {
								continue
							}
							if ifi, ok := b.Instrs[len(b.Instrs)-1].(*ssa.If); ok && strings.Contains(vpath(ifi.Cond), "(l.ch == 10)") {
								tests = true
							}
						}
						key := fmt.Sprintf("%s:advance-loop#%d", fk, i+1)
						if tests {
							c.Ok(rule, key, lp.Header.Instrs[0].Pos(), "the loop that advances the cursor tests l.ch == '\\n' on each round")
						} else {
							c.Bad(rule, key, lp.Header.Instrs[0].Pos(), "a cycle advances the cursor (l.offset = l.scanOffset) without passing the l.ch == '\\n' test: a newline consumed on this cycle (an escaped newline inside a quoted string) is not counted")
						}
					}
				}
			}
		}
	}
	if nLine < 15 || nLO < 3 || nRewind < 8 {
		c.add(rule, "count:", token.NoPos, CountDropped, true, "line stores=%d (>=15), lineOffset stores=%d (>=3), rewind adjustments=%d (>=8)", nLine, nLO, nRewind)
	}
}

func callsRewindOnly(f *ssa.Function) bool { return false }

// CURSOR: reads of l.source[e] are dominated by e < len(l.source); the scan offset advances
// only under l.offset < len(l.source).
func ruleCURSOR(c *Ctx) {
	const rule = "CURSOR"
	nIdx, nAdv := 0, 0
	for _, rel := range lexerPkgs {
		for _, f := range c.SrcFuncs(rel) {
			fk := ssaFuncKey(f)
			ord := map[string]int{}
			for _, b := range f.Blocks {
				for _, ins := range b.Instrs {
					switch x := ins.(type) {
					case *ssa.Lookup, *ssa.Index: // string indexing
						var xX, xIndex ssa.Value
						switch y := x.(type) {
						case *ssa.Lookup:
							if y.CommaOk {
								continue
							}
							xX, xIndex = y.X, y.Index
						case *ssa.Index:
							xX, xIndex = y.X, y.Index
						}
						if !loadsField(xX, "source") {
							continue
						}
						nIdx++
						key := ordKey(ord, fk+":source["+normalizePhi(vpath(xIndex))+"]")
						ok := false
						for _, g := range flattenConds(governing(b)) {
							l, op, r, isC := cmpNormV(g.V, g.Pol)
							if isC && op == "<" && vpath(l) == vpath(xIndex) && vpath(r) == "len(l.source)" {
								ok = true
							}
						}
						if ok {
							c.Ok(rule, key, x.(ssa.Instruction).Pos(), "index < len(l.source) holds on every path to this read")
						} else {
							c.Bad(rule, key, x.(ssa.Instruction).Pos(), "l.source[%s] is read without a dominating test %s < len(l.source): an input ending here panics with index out of range", normalizePhi(vpath(xIndex)), normalizePhi(vpath(xIndex)))
						}
					case *ssa.Store:
						n, isF := lexerField(x.Addr)
						if !isF || n != "scanOffset" {
							continue
						}
						bo, isB := x.Val.(*ssa.BinOp)
						if !isB || bo.Op != token.ADD || !loadsField(bo.X, "scanOffset") {
							continue
						}
						nAdv++
						key := ordKey(ord, fk+":scanOffset+=")
						ok := false
						for _, g := range flattenConds(governing(b)) {
							l, op, r, isC := cmpNorm(g.V, g.Pol)
							if isC && op == "<" && (l == "l.offset" || l == "l.scanOffset") && r == "len(l.source)" {
								ok = true
							}
						}
						// the step is the width of the one character just decoded; longer jumps must go
						// through rewind(), which recounts the lines it passes
						stepOK, stepWhy := true, ""
						seenStep := map[ssa.Value]bool{}
						var walkStep func(v ssa.Value)
						walkStep = func(v ssa.Value) {
							if seenStep[v] {
								return
							}
							seenStep[v] = true
							switch y := v.(type) {
							case *ssa.Phi:
								for _, e := range y.Edges {
									walkStep(e)
								}
							case *ssa.Const:
								if y.Value == nil || y.Int64() != 1 {
									stepOK, stepWhy = false, "constant "+vpath(y)
								}
							case *ssa.Extract:
								if call, isCall := y.Tuple.(*ssa.Call); isCall && y.Index == 1 {
									if g := call.Call.StaticCallee(); g != nil && g.Pkg != nil && g.Pkg.Pkg.Path() == "unicode/utf8" && strings.HasPrefix(g.Name(), "DecodeRune") {
										return
									}
								}
								stepOK, stepWhy = false, vpath(v)
							default:
								stepOK, stepWhy = false, vpath(v)
							}
						}
						walkStep(bo.Y)
						if ok && !stepOK {
							c.Bad(rule, key, x.Pos(), "l.scanOffset is advanced by %s, not by the width of the character just decoded: the skipped text bypasses the newline accounting (use rewind, which recounts lines)", normalizePhi(stepWhy))
						} else if ok {
							c.Ok(rule, key, x.Pos(), "the scan offset advances only while l.offset < len(l.source), by the width of the decoded character")
						} else {
							c.Bad(rule, key, x.Pos(), "l.scanOffset is advanced without the guard l.offset < len(l.source): the cursor can pass the end of the input (token ranges outside the text, slice bounds panic in rewind)")
						}
					}
				}
			}
		}
	}
	if nIdx < 10 || nAdv < 8 {
		c.add(rule, "count:", token.NoPos, CountDropped, true, "source index reads=%d (>=10), scan offset advances=%d (>=8)", nIdx, nAdv)
	}
}

// PROGRESS: on the no-match path with an empty token the lexer forces progress.
func rulePROGRESS(c *Ctx) {
	const rule = "PROGRESS"
	n := 0
	for _, rel := range lexerPkgs {
		f := c.SSAFunc(rel, "(*Lexer).Next")
		if f == nil {
			continue
		}
		n++
		key := rel + ".Lexer.Next:no-match"
		ok := false
		var pos token.Pos = f.Pos()
		for _, b := range f.Blocks {
			for _, ins := range b.Instrs {
				call, isC := ins.(*ssa.Call)
				if !isC {
					continue
				}
				g := call.Common().StaticCallee()
				if g == nil || g.Name() != "rewind" || len(call.Common().Args) != 2 || !loadsField(call.Common().Args[1], "scanOffset") {
					continue
				}
				if hasCond(governing(b), func(p string, pol bool) bool { return pol && p == "(l.offset == l.tokenOffset)" }) {
					ok = true
					pos = call.Pos()
				}
			}
		}
		if ok {
			c.Ok(rule, key, pos, "an empty invalid token is extended with l.rewind(l.scanOffset): every call consumes at least one unit or reports end of input")
		} else {
			c.Bad(rule, key, pos, "on the no-match path with l.offset == l.tokenOffset the lexer must skip one unit (l.rewind(l.scanOffset)); otherwise Next returns the same empty token forever")
		}
	}
	if n < 5 {
		c.add(rule, "count:", token.NoPos, CountDropped, true, "only %d generated Lexer.Next functions found (5 shipped)", n)
	}
}

// hashUnits: which unit ("rune"/"byte") do the keyword-hash loops reachable from f iterate?
func hashUnits(f *ssa.Function, seen map[*ssa.Function]bool, out map[string]string) {
	if f == nil || seen[f] || f.Blocks == nil {
		return
	}
	seen[f] = true
	unit, mul := "", ""
	for _, b := range f.Blocks {
		for _, ins := range b.Instrs {
			switch x := ins.(type) {
			case *ssa.Range:
				if bt, ok := x.X.Type().Underlying().(*types.Basic); ok && bt.Info()&types.IsString != 0 {
					unit = "rune"
				}
			case *ssa.Lookup:
				if bt, ok := x.X.Type().Underlying().(*types.Basic); ok && bt.Info()&types.IsString != 0 && unit == "" {
					unit = "byte"
				}
			case *ssa.Index:
				if bt, ok := x.X.Type().Underlying().(*types.Basic); ok && bt.Info()&types.IsString != 0 && unit == "" {
					unit = "byte"
				}
			case *ssa.BinOp:
				if x.Op == token.MUL {
					if _, isConst := stripConv(x.Y).(*ssa.Const); isConst && strings.Contains(vpath(x.X), "φ") {
						mul = vpath(x.Y)
					}
				}
			case ssa.CallInstruction:
				if g := x.Common().StaticCallee(); g != nil && g.Pkg == f.Pkg {
					hashUnits(g, seen, out)
				}
				for _, a := range x.Common().Args {
					if g, ok := a.(*ssa.Function); ok && g.Pkg == f.Pkg {
						hashUnits(g, seen, out)
					}
				}
			}
		}
	}
	if unit != "" && mul != "" {
		out[unit] = mul
	}
}

// AGREE(hash): the keyword hash computed at generation time uses the multiplier and the scan
// unit (rune in rune mode, byte in bytes mode) of the hash the generated lexer accumulates.
func ruleHASHAGREE(c *Ctx) {
	const rule = "AGREE(hash)"
	// template functions that build keyword switches, by unit
	gp := c.Pkg("gen")
	if gp == nil {
		c.Lost(rule, "gen", "package not loaded")
		return
	}
	switchFuncs := map[string]map[string]string{} // template func name -> unit -> multiplier
	for _, file := range gp.Syntax {
		ast.Inspect(file, func(n ast.Node) bool {
			kv, ok := n.(*ast.KeyValueExpr)
			if !ok {
				return true
			}
			bl, ok := kv.Key.(*ast.BasicLit)
			if !ok || bl.Kind != token.STRING || !strings.Contains(bl.Value, "switch") {
				return true
			}
			id, ok := kv.Value.(*ast.Ident)
			if !ok {
				return true
			}
			if f := c.SSAFunc("gen", id.Name); f != nil {
				u := map[string]string{}
				hashUnits(f, map[*ssa.Function]bool{}, u)
				name, _ := strconv.Unquote(bl.Value)
				switchFuncs[name] = u
			}
			return true
		})
	}
	if len(switchFuncs) == 0 {
		c.Lost(rule, "gen.funcMap", "no *_switch template function found in gen.funcMap")
		return
	}
	// lexer side: multiplier
	lexMul := map[string]bool{}
	nLex := 0
	for _, rel := range lexerPkgs {
		g := c.SSAFunc(rel, "(*Lexer).Next")
		if g == nil {
			continue
		}
		for _, b := range g.Blocks {
			for _, ins := range b.Instrs {
				if bo, ok := ins.(*ssa.BinOp); ok && bo.Op == token.ADD {
					if m, ok := bo.X.(*ssa.BinOp); ok && m.Op == token.MUL && loadsField(bo.Y, "ch") {
						lexMul[vpath(m.Y)] = true
						nLex++
					}
				}
			}
		}
	}
	if nLex == 0 {
		c.Lost(rule, "Lexer.Next:hash", "no hash accumulation hash*M + uint32(l.ch) found in the generated lexers")
		return
	}
	genMul := map[string]bool{}
	for _, u := range switchFuncs {
		for _, m := range u {
			genMul[m] = true
		}
	}
	if len(lexMul) == 1 && len(genMul) == 1 && lexMul[keysOf(genMul)[0]] {
		c.Ok(rule, "gen:multiplier", token.NoPos, "generator and %d generated lexers multiply by %s", nLex, keysOf(genMul)[0])
	} else {
		c.Bad(rule, "gen:multiplier", token.NoPos, "the generator's keyword hash multiplies by %v, generated lexers by %v: no keyword is ever recognised", keysOf(genMul), keysOf(lexMul))
	}
	// template side: which switch function is in effect in which mode
	files, err := c.templates()
	if err != nil || files["go_lexer.go.tmpl"] == nil {
		c.Lost(rule, "go_lexer.go.tmpl", "template not available: %v", err)
		return
	}
	f := files["go_lexer.go.tmpl"]
	runeMode, bytesMode := map[string]bool{}, map[string]bool{}
	for _, tn := range sortedTreeKeys(f.Trees) {
		walkTmpl(f.Trees[tn].Root, nil, func(nd parse.Node, gs []tguard) {
			var pipe *parse.PipeNode
			switch x := nd.(type) {
			case *parse.ActionNode:
				pipe = x.Pipe
			case *parse.WithNode:
				pipe = x.Pipe
			case *parse.IfNode:
				pipe = x.Pipe
			case *parse.RangeNode:
				pipe = x.Pipe
			}
			if pipe == nil {
				return
			}
			underBytes, underNotBytes := false, false
			for _, g := range gs {
				if strings.Contains(g.Pipe, "ScanBytes") {
					if g.Pol && !strings.HasPrefix(strings.TrimSpace(g.Pipe), "not ") {
						underBytes = true
					} else {
						underNotBytes = true
					}
				}
			}
			for _, cmd := range pipe.Cmds {
				for _, a := range cmd.Args {
					id, ok := a.(*parse.IdentifierNode)
					if !ok {
						continue
					}
					units, ok := switchFuncs[id.Ident]
					if !ok {
						continue
					}
					for u := range units {
						if !underBytes {
							runeMode[u] = true
						}
						if !underNotBytes {
							if underBytes {
								bytesMode = map[string]bool{u: true} // an assignment under ScanBytes overrides the default
							} else if len(bytesMode) == 0 {
								bytesMode[u] = true
							}
						}
					}
				}
			}
		})
	}
	pos := "gen/templates/go_lexer.go.tmpl"
	if len(runeMode) == 1 && runeMode["rune"] {
		c.addT(rule, "gen.stringHash:unit[mode=rune]", pos, OK, "in rune mode the lexer hashes runes (uint32(l.ch)) and the switch constants come from a hash that ranges over runes")
	} else {
		c.addT(rule, "gen.stringHash:unit[mode=rune]", pos, Violation, "in rune mode the generated lexer hashes one rune per step (uint32(l.ch)) but the switch constants are computed over %v: a keyword with a non-ASCII rune under a (class) rule is never recognised", keysOf(runeMode))
	}
	if len(bytesMode) == 1 && bytesMode["byte"] {
		c.addT(rule, "gen.stringHash:unit[mode=bytes]", pos, OK, "under .Options.ScanBytes the switch constants come from a hash that iterates bytes, like the byte-mode lexer")
	} else {
		c.addT(rule, "gen.stringHash:unit[mode=bytes]", pos, Violation, "with scanBytes the generated lexer hashes one byte per step, but the switch constants in effect under .Options.ScanBytes are computed over %v: a non-ASCII keyword is never recognised in bytes mode", keysOf(bytesMode))
	}
}

// storesOffsetLater: is a store to the receiver's offset field reachable after st?
func storesOffsetLater(f *ssa.Function, st *ssa.Store) bool {
	isOff := func(ins ssa.Instruction) bool {
		s, ok := ins.(*ssa.Store)
		if !ok {
			return false
		}
		fa, ok := s.Addr.(*ssa.FieldAddr)
		return ok && fieldName(fa.X.Type(), fa.Field) == "offset"
	}
	after := false
	for _, ins := range st.Block().Instrs {
		if ins == ssa.Instruction(st) {
			after = true
			continue
		}
		if after && isOff(ins) {
			return true
		}
	}
	for _, b := range f.Blocks {
		if b == st.Block() || !reachesWithout(st.Block(), b, nil) {
			continue
		}
		for _, ins := range b.Instrs {
			if isOff(ins) {
				return true
			}
		}
	}
	return false
}
