package main

import (
	"fmt"
	"go/ast"
	"go/token"
	"go/types"
	"strings"

	"golang.org/x/tools/go/ssa"
)

// DTX(expr-equal): (*syntax.Expr).Equal is what keeps Expand from reusing an extracted
// nonterminal for a different expression. For every kind, a difference in any component that
// belongs to the kind makes Equal false, and identical components make it true.
func ruleEXPREQUAL(c *Ctx) {
	const rule = "DTX(expr-equal)"
	f := c.SSAFunc("syntax", "(*Expr).Equal")
	if f == nil || len(f.Params) != 2 {
		c.Lost(rule, "syntax.Expr.Equal", "method not found")
		return
	}
	kinds := map[string][]string{ // kind -> components that must be compared
		"Reference": {"Symbol", "len(Args)", "Args[0]", "Args[1]"},
		"Optional":  {"Sub[0]"}, "LookaheadNot": {"Sub[0]"},
		"Choice": {"len(Sub)", "Sub[0]", "Sub[1]"}, "Sequence": {"len(Sub)", "Sub[0]", "Sub[1]"}, "Lookahead": {"len(Sub)", "Sub[0]", "Sub[1]"},
		"List":   {"len(Sub)", "Sub[0]", "Sub[1]", "ListFlags"},
		"Assign": {"Name", "Sub[0]"}, "Append": {"Name", "Sub[0]"},
		"Arrow": {"Name", "ArrowFlags", "Sub[0]"}, "Prec": {"Symbol", "Sub[0]"},
		"StateMarker": {"Name"}, "Command": {"Name"}, "Set": {"SetIndex"},
		"Conditional": {"Predicate", "Sub[0]"},
	}
	n := 0
	for _, kind := range sortedKeysU(kinds) {
		kv, ok := c.enumConst("syntax", kind)
		if !ok {
			c.Lost(rule, "syntax."+kind, "ExprKind constant not found")
			continue
		}
		run := func(diff string) []aiOutcome {
			cfg := &aiConfig{
				Load: func(path string, t types.Type) (AV, bool) {
					side, fld, ok := strings.Cut(path, ".")
					if !ok || (side != "e" && side != "oth") {
						return nil, false
					}
					other := side == "oth"
					switch fld {
					case "Kind":
						return avInt{kv, kv}, true
					case "Symbol", "SetIndex", "ListFlags", "Pos":
						if diff == fld && other {
							return avInt{2, 2}, true
						}
						return avInt{1, 1}, true
					case "Name":
						if diff == fld && other {
							return avStr{"b"}, true
						}
						return avStr{"a"}, true
					case "Sub", "Args":
						ln := int64(2)
						if diff == "len("+fld+")" && other {
							ln = 3
						}
						return avSym{Name: side + "." + fld, Len: avInt{ln, ln}}, true
					case "ArrowFlags", "Predicate":
						return avSym{Name: side + "." + fld}, true
					}
					return nil, false
				},
				Call: func(callee string, args []AV, site ssa.CallInstruction) (AV, bool, bool) {
					switch callee {
					case "syntax.Expr.Equal", "syntax.Arg.equal", "syntax.Predicate.equal", "syntax.sliceEqual":
						a := ""
						if len(args) > 0 {
							a = avStr2(args[0])
						}
						// e.Sub[1] / e.Args[0] / e.Predicate / e.ArrowFlags
						comp := strings.TrimPrefix(a, "e.")
						comp = strings.TrimPrefix(comp, "*")
						return avBool{comp != diff}, true, false
					}
					return nil, false, false
				},
			}
			return aiEval(f, []AV{avSym{Name: "e"}, avSym{Name: "oth"}}, cfg)
		}
		verdict := func(outs []aiOutcome) (string, bool) {
			seen := map[string]bool{}
			for _, o := range outs {
				if o.Kind != "return" || len(o.Ret) != 1 {
					return o.String(), false
				}
				seen[avStr2(o.Ret[0])] = true
			}
			if len(seen) == 1 {
				for k := range seen {
					return k, true
				}
			}
			return fmt.Sprint(keysOf(seen)), false
		}
		n++
		if v, ok := verdict(run("")); !ok || v != "true" {
			c.Bad(rule, "syntax.Expr.Equal["+kind+",identical]", f.Pos(), "two %s expressions with identical components must be equal; Equal yields %s", kind, v)
		} else {
			c.Ok(rule, "syntax.Expr.Equal["+kind+",identical]", f.Pos(), "identical components: true")
		}
		for _, d := range kinds[kind] {
			n++
			key := fmt.Sprintf("syntax.Expr.Equal[%s,differs:%s]", kind, d)
			if v, ok := verdict(run(d)); !ok || v != "false" {
				c.Bad(rule, key, f.Pos(), "two %s expressions that differ in %s compare as %s: Expand reuses the nonterminal extracted for one of them for the other (e.g. two lists with different separators share one nonterminal)", kind, d, v)
			} else {
				c.Ok(rule, key, f.Pos(), "a difference in %s makes Equal false", d)
			}
		}
	}
	if n < 40 {
		c.add(rule, "count:", 0, CountDropped, true, "only %d Equal scenarios evaluated", n)
	}
}

// DTX(predicate): the template predicate evaluator implements or / and / not / equals.
func rulePREDICATE(c *Ctx) {
	const rule = "DTX(predicate)"
	f := c.SSAFunc("syntax", "(*instantiator).check")
	if f == nil || len(f.Params) != 3 {
		c.Lost(rule, "syntax.instantiator.check", "method not found")
		return
	}
	ops := map[string]int64{}
	for _, n := range []string{"Or", "And", "Not", "Equals"} {
		v, ok := c.enumConst("syntax", n)
		if !ok {
			c.Lost(rule, "syntax."+n, "PredicateOp constant not found")
			return
		}
		ops[n] = v
	}
	eval := func(op string, subs []bool, eq bool) (string, bool) {
		cfg := &aiConfig{
			Load: func(path string, t types.Type) (AV, bool) {
				switch path {
				case "p.Op":
					return avInt{ops[op], ops[op]}, true
				case "p.Sub":
					return avSym{Name: "p.Sub", Len: avInt{int64(len(subs)), int64(len(subs))}}, true
				case "p.Value":
					return avStr{"v"}, true
				}
				return nil, false
			},
			Call: func(callee string, args []AV, site ssa.CallInstruction) (AV, bool, bool) {
				switch callee {
				case "syntax.instantiator.check":
					if len(args) == 3 {
						a := avStr2(args[2])
						for i, b := range subs {
							if a == fmt.Sprintf("p.Sub[%d]", i) {
								return avBool{b}, true, false
							}
						}
					}
					return nil, false, false
				case "syntax.instance.resolve":
					v := "other"
					if eq {
						v = "v"
					}
					return avStruct{F: []AV{avInt{0, 0}, avStr{v}}}, true, false
				}
				return nil, false, false
			},
		}
		outs := aiEval(f, []AV{avSym{Name: "i"}, avSym{Name: "context"}, avSym{Name: "p"}}, cfg)
		seen := map[string]bool{}
		for _, o := range outs {
			if o.Kind != "return" || len(o.Ret) != 1 {
				return o.String(), false
			}
			seen[avStr2(o.Ret[0])] = true
		}
		if len(seen) == 1 {
			for k := range seen {
				return k, true
			}
		}
		return fmt.Sprint(keysOf(seen)), false
	}
	bools := [][]bool{{false, false}, {false, true}, {true, false}, {true, true}}
	for _, bs := range bools {
		for _, op := range []string{"Or", "And"} {
			want := bs[0] || bs[1]
			if op == "And" {
				want = bs[0] && bs[1]
			}
			key := fmt.Sprintf("syntax.instantiator.check[%s(%v,%v)]", op, bs[0], bs[1])
			if v, ok := eval(op, bs, false); ok && v == fmt.Sprint(want) {
				c.Ok(rule, key, f.Pos(), "= %v", want)
			} else {
				c.Bad(rule, key, f.Pos(), "%s(%v, %v) must be %v; the evaluator yields %s", op, bs[0], bs[1], want, v)
			}
		}
	}
	for _, b := range []bool{false, true} {
		key := fmt.Sprintf("syntax.instantiator.check[Not(%v)]", b)
		if v, ok := eval("Not", []bool{b}, false); ok && v == fmt.Sprint(!b) {
			c.Ok(rule, key, f.Pos(), "= %v", !b)
		} else {
			c.Bad(rule, key, f.Pos(), "Not(%v) must be %v; the evaluator yields %s", b, !b, v)
		}
		key = fmt.Sprintf("syntax.instantiator.check[Equals,bound value equal=%v]", b)
		if v, ok := eval("Equals", nil, b); ok && v == fmt.Sprint(b) {
			c.Ok(rule, key, f.Pos(), "= %v", b)
		} else {
			c.Bad(rule, key, f.Pos(), "Equals must compare the bound parameter value with the predicate's value (expected %v); the evaluator yields %s", b, v)
		}
	}
}

// SIBLING(list-recursion): every branch of Expand that emits the recursive rule of a list puts
// the recursive reference last when the list is right-recursive and first otherwise (left
// recursion: elements are reduced, and their events reported, in source order).
func ruleLISTRECURSION(c *Ctx) {
	const rule = "SIBLING(list-recursion)"
	p, fd := c.FuncDecl("syntax", "Expand")
	if fd == nil {
		c.Lost(rule, "syntax.Expand", "function not found")
		return
	}
	n := 0
	isRec := func(e ast.Expr) bool {
		switch x := ast.Unparen(e).(type) {
		case *ast.Ident:
			return x.Name == "rec"
		case *ast.CompositeLit:
			return len(x.Elts) == 1 && types.ExprString(x.Elts[0]) == "rec"
		}
		return false
	}
	visited := map[*ast.CallExpr]bool{}
	check := func(body *ast.BlockStmt, rightRec bool, ifPos token.Pos) {
		ast.Inspect(body, func(nd ast.Node) bool {
			call, ok := nd.(*ast.CallExpr)
			if !ok {
				return true
			}
			visited[call] = true
			id, ok := call.Fun.(*ast.Ident)
			if !ok || (id.Name != "concat" && id.Name != "multiConcat") || len(call.Args) < 3 {
				return true
			}
			args := call.Args[1:]
			pos := -1
			for i, a := range args {
				if isRec(a) {
					pos = i
				}
			}
			if pos < 0 {
				return true
			}
			n++
			key := fmt.Sprintf("syntax.Expand:list-rule#%d[rightRecursive=%v]", n, rightRec)
			want := 0
			if rightRec {
				want = len(args) - 1
			}
			if pos == want {
				c.Ok(rule, key, call.Pos(), "the recursive reference is argument %d of %d (rightRecursive=%v)", pos+1, len(args), rightRec)
			} else {
				c.Bad(rule, key, call.Pos(), "with rightRecursive=%v the recursive rule is built as %s: the list reference must come %s; otherwise elements are reduced (and reported to the listener) in reverse order", rightRec, types.ExprString(call), map[bool]string{true: "last", false: "first"}[rightRec])
			}
			return true
		})
	}
	ast.Inspect(fd.Body, func(nd ast.Node) bool {
		is, ok := nd.(*ast.IfStmt)
		if !ok {
			return true
		}
		id, ok := is.Cond.(*ast.Ident)
		if !ok || id.Name != "rr" {
			return true
		}
		// rr must be the RightRecursive flag
		if obj := p.TypesInfo.ObjectOf(id); obj != nil {
			_ = obj
		}
		check(is.Body, true, is.Pos())
		if eb, ok := is.Else.(*ast.BlockStmt); ok {
			check(eb, false, is.Pos())
		}
		return true
	})
	// every rule that places the recursive reference next to something else does so under `if rr`
	ast.Inspect(fd.Body, func(nd ast.Node) bool {
		call, ok := nd.(*ast.CallExpr)
		if !ok || visited[call] {
			return true
		}
		id, ok := call.Fun.(*ast.Ident)
		if !ok || (id.Name != "concat" && id.Name != "multiConcat") || len(call.Args) < 3 {
			return true
		}
		for _, a := range call.Args[1:] {
			if isRec(a) {
				n++
				c.Bad(rule, fmt.Sprintf("syntax.Expand:list-rule#%d[unconditional]", n), call.Pos(), "%s places the recursive list reference without consulting the RightRecursive flag: one of the two recursion directions gets its elements or separators on the wrong side", types.ExprString(call))
			}
		}
		return true
	})
	if n < 6 {
		c.add(rule, "count:", token.NoPos, CountDropped, true, "only %d recursive list rules under `if rr` found in syntax.Expand (6 confirmed by hand: separator, reference, choice and generic element, each in both directions)", n)
	}
}

// DTX(nullable): isNullable is the decision table of "can this expression derive the empty
// string": Empty, Optional, state markers, commands and lookaheads can; sets, (unexpected)
// conditionals and negative lookaheads cannot; a `*` list can, a `+` list and the transparent
// wrappers Assign/Append/Arrow/Prec are as nullable as their operand; a Choice is nullable iff
// some alternative is (an empty Choice is), a Sequence iff all parts are; a Reference iff the
// symbol is in the nullable set. The function is evaluated for every kind and every valuation
// of (up to two) operands; first/last/follow/precede sets and lookahead propagation are built on it.
func ruleNULLABLEDTX(c *Ctx) {
	const rule = "DTX(nullable)"
	f := c.SSAFunc("syntax", "isNullable")
	if f == nil || len(f.Params) != 2 {
		c.Lost(rule, "syntax.isNullable", "function not found")
		return
	}
	kinds := map[string]int64{}
	for _, n := range []string{"Empty", "Optional", "StateMarker", "Command", "Lookahead", "Set", "List", "Assign", "Append", "Arrow", "Prec", "Choice", "Sequence", "Reference", "Conditional", "LookaheadNot"} {
		v, ok := c.enumConst("syntax", n)
		if !ok {
			c.Lost(rule, "syntax."+n, "ExprKind constant not found")
			return
		}
		kinds[n] = v
	}
	oneOrMore, ok := c.enumConst("syntax", "OneOrMore")
	if !ok {
		c.Lost(rule, "syntax.OneOrMore", "constant not found")
		return
	}
	eval := func(kind string, subs []bool, flags int64, inSet bool) (string, bool) {
		cfg := &aiConfig{
			Load: func(path string, t types.Type) (AV, bool) {
				switch path {
				case "expr.Kind":
					return avInt{kinds[kind], kinds[kind]}, true
				case "expr.Sub":
					return avSym{Name: "expr.Sub", Len: avInt{int64(len(subs)), int64(len(subs))}}, true
				case "expr.ListFlags":
					return avInt{flags, flags}, true
				}
				return nil, false
			},
			Call: func(callee string, args []AV, site ssa.CallInstruction) (AV, bool, bool) {
				switch {
				case callee == "syntax.isNullable" && len(args) == 2:
					a := avStr2(args[0])
					for i, b := range subs {
						if a == fmt.Sprintf("expr.Sub[%d]", i) {
							return avBool{b}, true, false
						}
					}
					return nil, false, false
				case strings.HasSuffix(callee, "BitSet.Get"):
					return avBool{inSet}, true, false
				}
				return nil, false, false
			},
		}
		outs := aiEval(f, []AV{avSym{Name: "expr"}, avSym{Name: "nullable"}}, cfg)
		seen := map[string]bool{}
		for _, o := range outs {
			if o.Kind != "return" || len(o.Ret) != 1 {
				return o.String(), false
			}
			seen[avStr2(o.Ret[0])] = true
		}
		if len(seen) == 1 {
			for k := range seen {
				return k, true
			}
		}
		return fmt.Sprint(keysOf(seen)), false
	}
	check := func(key string, got string, ok bool, want bool) {
		key = "syntax.isNullable[" + key + "]"
		if ok && got == fmt.Sprint(want) {
			c.Ok(rule, key, f.Pos(), "= %v", want)
		} else if ok {
			c.Bad(rule, key, f.Pos(), "isNullable must be %v here; the code yields %s: nullable symbols are the base of first/last/follow/precede sets and of lookahead-flag propagation", want, got)
		} else {
			c.Undec(rule, key, f.Pos(), "not decided: %s", got)
		}
	}
	for _, k := range []string{"Empty", "Optional", "StateMarker", "Command", "Lookahead"} {
		g, ok := eval(k, []bool{false}, 0, false)
		check(k, g, ok, true)
	}
	for _, k := range []string{"Set", "Conditional", "LookaheadNot"} {
		g, ok := eval(k, []bool{true}, 0, true)
		check(k, g, ok, false)
	}
	for _, b := range []bool{false, true} {
		for _, k := range []string{"Assign", "Append", "Arrow", "Prec"} {
			g, ok := eval(k, []bool{b}, 0, false)
			check(fmt.Sprintf("%s(%v)", k, b), g, ok, b)
		}
		g, ok := eval("List", []bool{b}, oneOrMore, false)
		check(fmt.Sprintf("List+(%v)", b), g, ok, b)
		g, ok = eval("List", []bool{b}, 0, false)
		check(fmt.Sprintf("List*(%v)", b), g, ok, true)
		g, ok = eval("Reference", nil, 0, b)
		check(fmt.Sprintf("Reference(inSet=%v)", b), g, ok, b)
	}
	for _, bs := range [][]bool{{false, false}, {false, true}, {true, false}, {true, true}} {
		g, ok := eval("Choice", bs, 0, false)
		check(fmt.Sprintf("Choice(%v,%v)", bs[0], bs[1]), g, ok, bs[0] || bs[1])
		g, ok = eval("Sequence", bs, 0, false)
		check(fmt.Sprintf("Sequence(%v,%v)", bs[0], bs[1]), g, ok, bs[0] && bs[1])
	}
	g, ok2 := eval("Choice", nil, 0, false)
	check("Choice()", g, ok2, true)
	g, ok2 = eval("Sequence", nil, 0, false)
	check("Sequence()", g, ok2, true)
}
