package main

import (
	"fmt"
	"go/constant"
	"go/token"
	"sort"
	"strings"

	"golang.org/x/tools/go/callgraph"
	"golang.org/x/tools/go/ssa"
)

// exitSite is a reachable process-exit / panic call.
type exitSite struct {
	Key  string
	Fn   *ssa.Function
	Pos  token.Pos
	What string
	Msg  string
}

func isExitCall(call ssa.CallInstruction) (string, bool) {
	cc := call.Common()
	if bi, ok := cc.Value.(*ssa.Builtin); ok && bi.Name() == "panic" {
		return "panic", true
	}
	if g := cc.StaticCallee(); g != nil {
		n := calleeName(g)
		switch n {
		case "log.Fatal", "log.Fatalf", "log.Fatalln", "log.Panic", "log.Panicf", "log.Panicln", "os.Exit":
			return n, true
		case "lex.MustParse":
			return n, true
		}
	}
	return "", false
}

func firstStringArg(call ssa.CallInstruction) string {
	for _, a := range call.Common().Args {
		// variadic ...any: look into the varargs array
		if sl, ok := a.(*ssa.Slice); ok {
			if al, ok := sl.X.(*ssa.Alloc); ok && al.Referrers() != nil {
				for _, r := range *al.Referrers() {
					if ia, ok := r.(*ssa.IndexAddr); ok && ia.Referrers() != nil {
						for _, r2 := range *ia.Referrers() {
							if st, ok := r2.(*ssa.Store); ok {
								if mi, ok := st.Val.(*ssa.MakeInterface); ok {
									if c, ok := mi.X.(*ssa.Const); ok && c.Value != nil && c.Value.Kind() == constant.String {
										return constant.StringVal(c.Value)
									}
								}
							}
						}
					}
				}
			}
		}
		if c, ok := a.(*ssa.Const); ok && c.Value != nil && c.Value.Kind() == constant.String {
			return constant.StringVal(c.Value)
		}
		if mi, ok := a.(*ssa.MakeInterface); ok {
			if c, ok := mi.X.(*ssa.Const); ok && c.Value != nil && c.Value.Kind() == constant.String {
				return constant.StringVal(c.Value)
			}
		}
	}
	return ""
}

// reachableFrom returns the functions reachable from the roots in the call graph.
func reachableFrom(g *callgraph.Graph, roots ...*ssa.Function) map[*ssa.Function]bool {
	seen := map[*ssa.Function]bool{}
	var st []*ssa.Function
	for _, r := range roots {
		if r != nil {
			st = append(st, r)
		}
	}
	for len(st) > 0 {
		f := st[len(st)-1]
		st = st[:len(st)-1]
		if seen[f] {
			continue
		}
		seen[f] = true
		if n := g.Nodes[f]; n != nil {
			for _, e := range n.Out {
				if !seen[e.Callee.Func] {
					st = append(st, e.Callee.Func)
				}
			}
		}
		for _, a := range f.AnonFuncs {
			if !seen[a] {
				st = append(st, a)
			}
		}
	}
	return seen
}

func (c *Ctx) exitSites(roots ...*ssa.Function) []exitSite {
	g := c.CHA()
	if c.Tier == "thorough" {
		g = c.VTA()
	}
	reach := reachableFrom(g, roots...)
	// only code the compiler can link to: the import closure of package compiler
	inClosure := map[string]bool{}
	var visit func(p string)
	visit = func(p string) {
		if inClosure[p] {
			return
		}
		inClosure[p] = true
		if pk := c.Pkgs[p]; pk != nil {
			for ip := range pk.Imports {
				visit(ip)
			}
		}
	}
	visit(modPath + "/compiler")
	var out []exitSite
	var fns []*ssa.Function
	for f := range reach {
		if f.Pkg == nil {
			continue
		}
		if _, in := relPkg(f.Pkg.Pkg); !in || !inClosure[f.Pkg.Pkg.Path()] {
			continue
		}
		fns = append(fns, f)
	}
	sort.Slice(fns, func(i, j int) bool { return ssaFuncKey(fns[i]) < ssaFuncKey(fns[j]) })
	for _, f := range fns {
		ord := map[string]int{}
		for _, b := range f.Blocks {
			for _, ins := range b.Instrs {
				call, ok := ins.(ssa.CallInstruction)
				if !ok {
					continue
				}
				what, ok := isExitCall(call)
				if !ok {
					continue
				}
				msg := firstStringArg(call)
				short := msg
				if len(short) > 40 {
					short = short[:40]
				}
				key := ordKey(ord, fmt.Sprintf("%s:%s(%q)", ssaFuncKey(f), what, short))
				out = append(out, exitSite{Key: key, Fn: f, Pos: ins.Pos(), What: what, Msg: msg})
			}
		}
	}
	return out
}

// EXIT: the set of process-exit / panic sites reachable from compiler.Compile equals the
// audited table; a new site must be audited.
func ruleEXIT(c *Ctx) {
	const rule = "EXIT"
	root := c.SSAFunc("compiler", "Compile")
	if root == nil {
		c.Lost(rule, "compiler.Compile", "function not found")
		return
	}
	sites := c.exitSites(root)
	seen := map[string]bool{}
	for _, s := range sites {
		seen[s.Key] = true
		if why, ok := exitAudit[s.Key]; ok {
			c.Ok(rule, s.Key, s.Pos, "audited: %s", why)
		} else {
			c.Unaud(rule, s.Key, s.Pos, "%s is reachable from compiler.Compile and is not in the audited table: a grammar text must never terminate the process; report through status instead, or audit the invariant that makes the site unreachable", s.What)
		}
	}
	gone := 0
	for k := range exitAudit {
		if !seen[k] {
			gone++
		}
	}
	if gone > 0 {
		c.Note("EXIT: %d audited sites no longer exist (harmless; the table can be pruned)", gone)
	}
	c.MinCount(rule, "", 30)
	_ = strings.Join
}
