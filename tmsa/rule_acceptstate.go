package main

import (
	"strings"

	"golang.org/x/tools/go/ssa"
)

// GUARD(dedicated-accept): LR states are shared by core (the set of kernel items). Textmapper
// has no augmented production `$accept_i : Input eoi`; acceptance is "the parser reached state
// FinalStates[i]", where the accepting path is entry_i --Input--> last --eoi--> final. If `last`
// is an ordinary goto target found by core, the same state is reached wherever Input is
// reduced inside a larger sentence (an input nonterminal that is reachable from itself, e.g.
// `S: d c | A c; A: S | d A b`), and the end-of-input shift added to it accepts there too.
// Necessary condition: the state that receives the shift on EOI (and, for no-eoi inputs, the
// final state itself) is created for the input, not looked up among existing goto targets.
func ruleACCEPTSTATE(c *Ctx) {
	const rule = "GUARD(dedicated-accept)"
	f := c.SSAFunc("lalr", "(*compiler).computeStates")
	key := "lalr.compiler.computeStates:accept-state"
	if f == nil {
		c.Lost(rule, key, "function not found")
		return
	}
	// stores into finalStates[i]: which values can they be?
	found := false
	shared := false
	for _, b := range f.Blocks {
		for _, ins := range b.Instrs {
			st, ok := ins.(*ssa.Store)
			if !ok {
				continue
			}
			ia, ok := st.Addr.(*ssa.IndexAddr)
			if !ok {
				continue
			}
			if ms, ok := ia.X.(*ssa.MakeSlice); !ok || !strings.Contains(vpath(ms.Len), "Inputs") {
				continue
			}
			found = true
			// leaves of the stored state index: X.index where X is a fresh &state{} or a looked-up c.states[...]
			seen := map[ssa.Value]bool{}
			var walk func(v ssa.Value, d int)
			walk = func(v ssa.Value, d int) {
				if d > 8 || seen[v] {
					return
				}
				seen[v] = true
				switch y := v.(type) {
				case *ssa.Phi:
					for _, e := range y.Edges {
						walk(e, d+1)
					}
				case *ssa.UnOp:
					walk(y.X, d+1)
				case *ssa.FieldAddr:
					walk(y.X, d+1)
				case *ssa.IndexAddr:
					if strings.HasSuffix(vpath(y.X), ".states") {
						shared = true
					}
				}
			}
			walk(st.Val, 0)
		}
	}
	// a looked-up state may serve as the accept state only on the path where no other state has
	// a transition into it: a branch on a helper that scans every state's shifts for the target
	guarded := false
	for _, b := range f.Blocks {
		for _, ins := range b.Instrs {
			call, ok := ins.(*ssa.Call)
			if !ok {
				continue
			}
			g := call.Call.StaticCallee()
			if g == nil || g.Pkg != f.Pkg || len(g.Params) != 3 {
				continue
			}
			// the helper: a loop over c.states that tests membership of its last parameter in .shifts
			scans := false
			for _, gb := range g.Blocks {
				for _, gi := range gb.Instrs {
					if cc, ok := gi.(*ssa.Call); ok {
						if h := cc.Call.StaticCallee(); h != nil && strings.HasPrefix(h.Name(), "Contains") && len(cc.Call.Args) == 2 && strings.HasSuffix(vpath(cc.Call.Args[0]), ".shifts") && cc.Call.Args[1] == ssa.Value(g.Params[2]) {
							scans = true
						}
					}
				}
			}
			if !scans {
				continue
			}
			for _, r := range *call.Referrers() {
				if _, ok := r.(*ssa.If); ok {
					guarded = true
				}
			}
		}
	}
	switch {
	case !found:
		c.Lost(rule, key, "no store into the finalStates slice found")
	case shared && guarded:
		c.Ok(rule, key, f.Pos(), "a goto target found by core serves as the accept state only when no other state has a transition into it (checked by scanning every state's shifts); otherwise the input gets its own copy")
	case shared:
		c.Bad(rule, key, f.Pos(), "the state reached from the entry state on the input nonterminal is taken from the ordinary goto targets (c.states[target], shared by core) and then given the end-of-input shift / used as the final state: when the input nonterminal can be reduced inside a larger sentence the same state is reached there and the parser accepts a non-sentence")
	default:
		c.Ok(rule, key, f.Pos(), "accepting states are created per input")
	}
}
