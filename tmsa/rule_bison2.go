package main

import (
	"fmt"
	"go/token"
	"strings"

	"golang.org/x/tools/go/ssa"
)

// LOCKSTEP(bison-prec): a rule's explicit precedence lives in three places that the Bison
// export and the tables must agree on: the syntax tree (a Prec wrapper), lalr.Rule.Precedence
// (what the tables are built from) and the text ExprString prints (`... %prec T`).
//   (a) compiler.generateTables stores rule.Precedence in the very block that is entered when
//       expr.Kind == Prec (no further condition may filter the store);
//   (b) every return of grammar.(*Grammar).ExprString reached under e.Kind == Prec concatenates
//       the literal " %prec ".
func ruleBISONPREC(c *Ctx) {
	const rule = "LOCKSTEP(bison-prec)"
	precK, ok := c.enumConst("syntax", "Prec")
	if !ok {
		c.Lost(rule, "syntax.Prec", "constant not found")
		return
	}
	isPrecTest := func(g gcond) bool {
		l, op, r, ok := cmpNorm(g.V, g.Pol)
		return ok && op == "==" && ((strings.HasSuffix(l, ".Kind") && r == fmt.Sprint(precK)) || (strings.HasSuffix(r, ".Kind") && l == fmt.Sprint(precK)))
	}
	// (a)
	if f := c.SSAFunc("compiler", "generateTables"); f == nil {
		c.Lost(rule, "compiler.generateTables", "function not found")
	} else {
		found := false
		for _, b := range f.Blocks {
			for _, ins := range b.Instrs {
				st, ok := ins.(*ssa.Store)
				if !ok {
					continue
				}
				fa, ok := st.Addr.(*ssa.FieldAddr)
				if !ok || fieldName(fa.X.Type(), fa.Field) != "Precedence" || !isNamedType(fa.X.Type(), "lalr", "Rule") {
					continue
				}
				found = true
				key := "compiler.generateTables:rule.Precedence"
				gs := flattenConds(governing(b))
				// innermost governing condition must be the Kind == Prec test itself
				if len(gs) > 0 && isPrecTest(gs[0]) && gs[0].If.Block() == b.Idom() {
					c.Ok(rule, key, st.Pos(), "rule.Precedence is stored whenever the rule's expression is a Prec wrapper")
				} else {
					var cs []string
					if len(gs) > 0 {
						cs = condStrings(gs[:1])
					}
					c.Bad(rule, key, st.Pos(), "rule.Precedence is stored under an extra condition (%s) beyond expr.Kind == Prec: the tables then take the rule's precedence from its last terminal while the grammar (and the Bison export) says %%prec", strings.Join(cs, ""))
				}
			}
		}
		if !found {
			c.Lost(rule, "compiler.generateTables:rule.Precedence", "no store into lalr.Rule.Precedence found")
		}
	}
	// (b)
	if f := c.SSAFunc("grammar", "(*Grammar).ExprString"); f == nil {
		c.Lost(rule, "grammar.Grammar.ExprString", "function not found")
	} else {
		n := 0
		for _, b := range f.Blocks {
			if len(b.Instrs) == 0 {
				continue
			}
			ret, ok := b.Instrs[len(b.Instrs)-1].(*ssa.Return)
			if !ok || len(ret.Results) != 1 {
				continue
			}
			under := false
			for _, g := range flattenConds(governing(b)) {
				if isPrecTest(g) {
					under = true
				}
			}
			if !under {
				continue
			}
			n++
			key := fmt.Sprintf("grammar.Grammar.ExprString:case-Prec#%d", n)
			has := false
			var walk func(v ssa.Value, d int)
			walk = func(v ssa.Value, d int) {
				if d > 6 {
					return
				}
				switch y := v.(type) {
				case *ssa.BinOp:
					if y.Op == token.ADD {
						walk(y.X, d+1)
						walk(y.Y, d+1)
					}
				case *ssa.Const:
					if y.Value != nil && strings.Contains(y.Value.ExactString(), "%prec") {
						has = true
					}
				}
			}
			walk(ret.Results[0], 0)
			if has {
				c.Ok(rule, key, ret.Pos(), "the text of a Prec expression contains \" %%prec \" and the terminal's id")
			} else {
				c.Bad(rule, key, ret.Pos(), "a Prec expression can be printed without its %%prec clause: Bison then takes the precedence of the rule's last terminal, the tables that of the %%prec terminal")
			}
		}
		if n == 0 {
			c.Lost(rule, "grammar.Grammar.ExprString:case-Prec", "no return under e.Kind == Prec found")
		}
	}
}

// FIELDCOV(reference-model): a Reference expression prints its symbol through expr.Model
// (ExprString, error messages); without it the symbol number is printed. Every Reference
// literal built in package compiler sets Model.
func ruleREFMODEL(c *Ctx) {
	const rule = "FIELDCOV(reference-model)"
	refK, ok := c.enumConst("syntax", "Reference")
	if !ok {
		c.Lost(rule, "syntax.Reference", "constant not found")
		return
	}
	n := 0
	for _, f := range c.SrcFuncs("compiler") {
		ord := map[string]int{}
		for _, b := range f.Blocks {
			for _, ins := range b.Instrs {
				al, ok := ins.(*ssa.Alloc)
				if !ok || !isNamedType(al.Type(), "syntax", "Expr") {
					continue
				}
				fields := map[string]ssa.Value{}
				for _, ref := range *al.Referrers() {
					fa, ok := ref.(*ssa.FieldAddr)
					if !ok {
						continue
					}
					for _, r2 := range *fa.Referrers() {
						if st, ok := r2.(*ssa.Store); ok && st.Addr == ssa.Value(fa) {
							fields[fieldName(fa.X.Type(), fa.Field)] = st.Val
						}
					}
				}
				k, ok := fields["Kind"].(*ssa.Const)
				if !ok || k.Value == nil || k.Int64() != refK {
					continue
				}
				n++
				key := ordKey(ord, ssaFuncKey(f)+":Reference")
				if _, has := fields["Model"]; has {
					c.Ok(rule, key, al.Pos(), "the Reference literal sets Model")
				} else {
					c.Bad(rule, key, al.Pos(), "a Reference expression is built without Model: it prints as a bare symbol number (`semicolonopt : 3` in the Bison export) unless a later pass happens to fill the field")
				}
			}
		}
	}
	if n < 3 {
		c.add(rule, "count:", token.NoPos, CountDropped, true, "only %d Reference literals found in package compiler", n)
	}
}

// AGREE(bison-namespace): the Bison export prints terminals by their ID (`%token {{.ID}}`,
// references through Symbol.ID) and nonterminals by their name, so a nonterminal whose *name*
// is a token's *ID* is one word for two symbols and the file does not describe the grammar.
// When the option is on, resolver.addNonterms must look the nonterminal's name up among the
// registered IDs (c.ids[name]) and reach a diagnostic on a hit.
func ruleBISONNS(c *Ctx) {
	const rule = "AGREE(bison-namespace)"
	key := "compiler.resolver.addNonterms:name-vs-token-id"
	f := c.SSAFunc("compiler", "(*resolver).addNonterms")
	if f == nil {
		c.Lost(rule, key, "function not found")
		return
	}
	// template side: both namespaces are in use
	usesID, usesName := false, false
	if files, err := c.templates(); err == nil && files["bison.go.tmpl"] != nil {
		bf := files["bison.go.tmpl"]
		for _, tn := range sortedTreeKeys(bf.Trees) {
			src := bf.Trees[tn].Root.String()
			if strings.Contains(src, "%token {{.ID}}") {
				usesID = true
			}
			if strings.Contains(src, ".Nonterm.Name") {
				usesName = true
			}
		}
	}
	if !usesID || !usesName {
		c.Lost(rule, "gen/templates/bison.go.tmpl:namespaces", "the template no longer prints tokens by .ID and left-hand sides by .Nonterm.Name (ID=%v name=%v): restate the rule", usesID, usesName)
		return
	}
	for _, b := range f.Blocks {
		for _, ins := range b.Instrs {
			lk, ok := ins.(*ssa.Lookup)
			if !ok || !lk.CommaOk || !strings.HasSuffix(vpath(lk.X), ".ids") || !strings.HasSuffix(vpath(lk.Index), ".Name") {
				continue
			}
			// a hit reaches Errorf
			for _, ref := range *lk.Referrers() {
				ex, ok := ref.(*ssa.Extract)
				if !ok || ex.Index != 1 {
					continue
				}
				for _, b2 := range f.Blocks {
					for _, in2 := range b2.Instrs {
						call, ok := in2.(*ssa.Call)
						if !ok {
							continue
						}
						if g := call.Call.StaticCallee(); g == nil || g.Name() != "Errorf" {
							continue
						}
						hit := false
						wrongSide := ""
						for _, g := range flattenConds(governing(b2)) {
							if g.V == ssa.Value(ex) && g.Pol {
								hit = true
							}
							// a further condition may restrict the report to hits on *tokens*:
							// index of the previous symbol < NumTokens - and nothing else about NumTokens
							if l, op, r, ok := cmpNorm(g.V, g.Pol); ok && (strings.Contains(l, "NumTokens") || strings.Contains(r, "NumTokens")) {
								if !(op == "<" && strings.HasSuffix(r, ".NumTokens") && strings.Contains(l, ".syms[")) {
									wrongSide = normalizePhi(l) + " " + op + " " + normalizePhi(r)
								}
							}
						}
						if hit && wrongSide != "" {
							c.Bad(rule, key, lk.Pos(), "the report of a nonterminal named like a registered ID is restricted by %s: it has to fire when the earlier symbol is a token (index < NumTokens)", wrongSide)
							return
						}
						if hit {
							c.Ok(rule, key, lk.Pos(), "a nonterminal whose name is a registered token ID is reported (the export would use one word for two symbols)")
							return
						}
					}
				}
			}
		}
	}
	c.Bad(rule, key, f.Pos(), "no lookup of the nonterminal's name among the registered token IDs leads to a diagnostic: with writeBison a nonterminal FOO_BAR and a token foo_bar (ID FOO_BAR) are printed as the same word")
}

// MUSTPASS(all-rules-listed): the export iterates .Parser.RulesByNonterm; every rule of
// Parser.Rules must end up in exactly one group, so in the grouping loop every iteration passes
// through the store that appends the rule to its group (no path from the loop body back to the
// header avoids it) and the loop is only left through its header.
func ruleALLRULES(c *Ctx) {
	const rule = "MUSTPASS(all-rules-listed)"
	key := "grammar.Parser.RulesByNonterm:append"
	f := c.SSAFunc("grammar", "(*Parser).RulesByNonterm")
	if f == nil {
		c.Lost(rule, key, "function not found")
		return
	}
	loops := naturalLoops(f)
	if len(loops) != 1 {
		c.Lost(rule, key, "expected one loop over p.Rules, found %d", len(loops))
		return
	}
	lp := loops[0]
	// the append of the rule: a store into the Rules field of an element of ret
	var ab *ssa.BasicBlock
	var pos token.Pos
	for b := range lp.Body {
		for _, ins := range b.Instrs {
			if st, ok := ins.(*ssa.Store); ok {
				if fa, ok := st.Addr.(*ssa.FieldAddr); ok && fieldName(fa.X.Type(), fa.Field) == "Rules" {
					ab, pos = b, st.Pos()
				}
			}
		}
	}
	if ab == nil {
		c.Lost(rule, key, "no store into NontermRules.Rules inside the loop")
		return
	}
	var body *ssa.BasicBlock
	for _, s := range lp.Header.Succs {
		if lp.Body[s] {
			body = s
		}
	}
	early := false
	for b := range lp.Body {
		if b == lp.Header {
			continue
		}
		for _, s := range b.Succs {
			if !lp.Body[s] {
				early = true
			}
		}
	}
	switch {
	case body == nil:
		c.Lost(rule, key, "loop body not found")
	case body != ab && reachesWithout(body, lp.Header, ab):
		c.Bad(rule, key, pos, "an iteration of the grouping loop can return to the header without appending its rule: the export lists fewer productions than the tables were built from and later rule numbers shift")
	case early:
		c.Bad(rule, key, pos, "the grouping loop can be left before all rules were visited")
	default:
		c.Ok(rule, key, pos, "every rule of Parser.Rules is appended to the group of its left-hand side")
	}
}
