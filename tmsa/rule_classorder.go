package main

import (
	"fmt"
	"strings"

	"golang.org/x/tools/go/ssa"
)

// MUSTPASS(class-order): a bracket class is assembled in a fixed order: the listed ranges, minus
// the subtracted classes, then closed under case folding, then complemented. Folding before
// subtracting removes only one case of a subtracted letter ((?i)[a-z-[aeiou]] would keep
// A, E, I, O, U); complementing before either changes what is subtracted or folded. In
// (*parser).parseClass no call of an earlier stage may be reachable from a call of a later one.
func ruleCLASSORDER(c *Ctx) {
	const rule = "MUSTPASS(class-order)"
	f := c.SSAFunc("lex", "(*parser).parseClass")
	if f == nil {
		c.Lost(rule, "lex.parser.parseClass", "function not found")
		return
	}
	stages := []string{"subtract", "fold", "invert"}
	at := map[string][]ssa.Instruction{}
	for _, b := range f.Blocks {
		for _, ins := range b.Instrs {
			call, ok := ins.(*ssa.Call)
			if !ok {
				continue
			}
			g := call.Call.StaticCallee()
			if g == nil || g.Signature.Recv() == nil || !strings.HasSuffix(g.Signature.Recv().Type().String(), "lex.charset") {
				continue
			}
			at[g.Name()] = append(at[g.Name()], ins)
		}
	}
	for _, s := range stages {
		if len(at[s]) == 0 {
			c.Lost(rule, "lex.parser.parseClass:"+s, "parseClass no longer calls (*charset).%s", s)
		}
	}
	before := func(a, b ssa.Instruction) bool { // can b execute after a?
		if a.Block() == b.Block() {
			for _, ins := range a.Block().Instrs {
				if ins == a {
					return true
				}
				if ins == b {
					break
				}
			}
			// b precedes a in the block: b after a only through a cycle
			for _, s := range a.Block().Succs {
				if reachesWithout(s, b.Block(), nil) {
					return true
				}
			}
			return false
		}
		return reachesWithout(a.Block(), b.Block(), nil)
	}
	for i := 0; i < len(stages); i++ {
		for j := i + 1; j < len(stages); j++ {
			early, late := stages[i], stages[j]
			if len(at[early]) == 0 || len(at[late]) == 0 {
				continue
			}
			key := fmt.Sprintf("lex.parser.parseClass:%s<%s", early, late)
			bad := false
			for _, l := range at[late] {
				for _, e := range at[early] {
					if before(l, e) {
						bad = true
					}
				}
			}
			if bad {
				c.Bad(rule, key, at[late][0].Pos(), "(*charset).%s can run after (*charset).%s in parseClass: the class is no longer (ranges − subtracted) folded, then complemented", early, late)
			} else {
				c.Ok(rule, key, at[late][0].Pos(), "no call of %s is reachable from a call of %s", early, late)
			}
		}
	}
}
