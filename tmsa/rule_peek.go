package main

import (
	"fmt"
	"go/token"
	"go/types"
	"strings"

	"golang.org/x/tools/go/ssa"
)

// TYPESTATE(lookahead): p.next is "consumed" after `p.next.symbol = noToken` (and at entry of
// parse), "fetched" after a store into p.next / a fetching method of p, and on the edge of a
// test that establishes p.next.symbol != noToken. Reads of the token's position (offset,
// endoffset) or of the whole token while it may be consumed use the position of a token that
// was already shifted.
func rulePEEK(c *Ctx) {
	const rule = "TYPESTATE(lookahead)"
	for _, rel := range parserPkgs {
		f := c.SSAFunc(rel, "(*Parser).parse")
		if f == nil || len(f.Params) == 0 {
			continue
		}
		noTok, ok := c.enumConst(rel, "noToken")
		if !ok {
			c.Lost(rule, rel+":noToken", "constant noToken not found in %s", rel)
			continue
		}
		recv := f.Params[0]
		recvStruct := recv.Type().(*types.Pointer).Elem().Underlying().(*types.Struct)
		// nextPath: "" if v is not an address inside p.next, else the field path below next ("" → ".")
		nextPath := func(v ssa.Value) (string, bool) {
			path := ""
			for {
				fa, ok := v.(*ssa.FieldAddr)
				if !ok {
					return "", false
				}
				st := fa.X.Type().(*types.Pointer).Elem().Underlying().(*types.Struct)
				name := st.Field(fa.Field).Name()
				if fa.X == ssa.Value(recv) {
					if st == recvStruct && name == "next" {
						return path, true
					}
					return "", false
				}
				path = "." + name + path
				v = fa.X
			}
		}
		fetchers := map[*ssa.Function]bool{}
		isFetcher := func(g *ssa.Function) bool {
			if g == nil || g.Blocks == nil || len(g.Params) == 0 {
				return false
			}
			if w, ok := fetchers[g]; ok {
				return w
			}
			w := false
			r0 := g.Params[0]
			for _, b := range g.Blocks {
				for _, ins := range b.Instrs {
					st, ok := ins.(*ssa.Store)
					if !ok {
						continue
					}
					v := st.Addr
					for {
						fa, ok := v.(*ssa.FieldAddr)
						if !ok {
							break
						}
						if fa.X == ssa.Value(r0) {
							s := fa.X.Type().(*types.Pointer).Elem().Underlying().(*types.Struct)
							if s.Field(fa.Field).Name() == "next" {
								w = true
							}
							break
						}
						v = fa.X
					}
				}
			}
			fetchers[g] = w
			return w
		}
		// transfer over one block; report(b, i) is called for tainted position reads
		type rd struct {
			pos  token.Pos
			what string
			b    *ssa.BasicBlock
		}
		in := map[*ssa.BasicBlock]bool{f.Blocks[0]: true}
		transfer := func(b *ssa.BasicBlock, t bool, rep func(rd)) bool {
			for _, ins := range b.Instrs {
				switch y := ins.(type) {
				case *ssa.Store:
					if p, ok := nextPath(y.Addr); ok {
						if p == ".symbol" {
							if k, ok := y.Val.(*ssa.Const); ok && k.Value != nil && k.Int64() == noTok {
								t = true
							} else {
								t = false
							}
						} else if p == "" {
							t = false
						}
					}
				case *ssa.Call:
					if g := resolveCallee(y); g != nil && len(y.Call.Args) > 0 && y.Call.Args[0] == ssa.Value(recv) && isFetcher(g) {
						t = false
					}
				case *ssa.UnOp:
					if y.Op != token.MUL {
						continue
					}
					if p, ok := nextPath(y.X); ok && p != ".symbol" && t && rep != nil {
						if p == "" {
							p = " (whole token)"
						}
						rep(rd{y.Pos(), "p.next" + p, b})
					}
				}
			}
			return t
		}
		edgeKills := func(b *ssa.BasicBlock, si int) bool {
			if len(b.Instrs) == 0 {
				return false
			}
			ifi, ok := b.Instrs[len(b.Instrs)-1].(*ssa.If)
			if !ok {
				return false
			}
			l, op, r, ok := cmpNormV(ifi.Cond, si == 0)
			if !ok {
				return false
			}
			isSym := func(v ssa.Value) bool {
				u, ok := stripConv(v).(*ssa.UnOp)
				if !ok || u.Op != token.MUL {
					return false
				}
				p, ok := nextPath(u.X)
				return ok && p == ".symbol"
			}
			isNo := func(v ssa.Value) bool {
				k, ok := stripConv(v).(*ssa.Const)
				return ok && k.Value != nil && k.Int64() == noTok
			}
			if op == "!=" && (isSym(l) && isNo(r) || isSym(r) && isNo(l)) {
				return true
			}
			return false
		}
		for changed := true; changed; {
			changed = false
			for _, b := range f.Blocks {
				t, ok := in[b]
				if !ok {
					continue
				}
				out := transfer(b, t, nil)
				for si, s := range b.Succs {
					o := out && !edgeKills(b, si)
					if old, seen := in[s]; !seen || (o && !old) {
						in[s] = o || old
						changed = true
					}
				}
			}
		}
		var bad []rd
		nreads := 0
		for _, b := range f.Blocks {
			for _, ins := range b.Instrs {
				if u, ok := ins.(*ssa.UnOp); ok && u.Op == token.MUL {
					if p, ok := nextPath(u.X); ok && p != ".symbol" {
						nreads++
					}
				}
			}
			if t, ok := in[b]; ok {
				transfer(b, t, func(r rd) { bad = append(bad, r) })
			}
		}
		key := ssaFuncKey(f) + ":p.next"
		if nreads == 0 {
			c.Lost(rule, key, "parse no longer reads the position of p.next; re-audit")
			continue
		}
		// reads on the shift path are justified by the table invariant (a shift action is only
		// produced by a lookup that consulted the lookahead) and are reported as such
		var real []rd
		exempt := 0
		for _, r := range bad {
			sh := false
			for _, g := range flattenConds(governing(r.b)) {
				l, op, rr, ok := cmpNormV(g.V, g.Pol)
				if !ok || op != "<" {
					continue
				}
				if k, isK := stripConv(rr).(*ssa.Const); !isK || k.Value == nil || k.Int64() != -1 {
					continue
				}
				// the shift branch decodes its target as -2-action
				for _, ref := range *stripConv(l).Referrers() {
					for _, v := range []ssa.Value{asValue(ref)} {
						if v == nil {
							continue
						}
						if bo, isB := v.(*ssa.BinOp); isB && bo.Op == token.SUB {
							if k, isK := bo.X.(*ssa.Const); isK && k.Value != nil && k.Int64() == -2 {
								sh = true
							}
						}
						if cv, isC := v.(*ssa.Convert); isC {
							for _, r2 := range *cv.Referrers() {
								if bo, isB := r2.(*ssa.BinOp); isB && bo.Op == token.SUB {
									if k, isK := bo.X.(*ssa.Const); isK && k.Value != nil && k.Int64() == -2 {
										sh = true
									}
								}
							}
						}
					}
				}
			}
			if sh {
				exempt++
			} else {
				real = append(real, r)
			}
		}
		if len(real) > 0 {
			var ps []string
			for _, r := range real {
				ps = append(ps, fmt.Sprintf("%s at %s", r.what, c.Fset.Position(r.pos)))
			}
			c.Bad(rule, key, real[0].pos, "%d read(s) of the lookahead's position happen while it may already be consumed (p.next.symbol == noToken after a shift, or stale from the previous parse) with no fetch in between: %s", len(real), strings.Join(ps, "; "))
			continue
		}
		c.Ok(rule, key, f.Pos(), "%d position reads of p.next: each is reached only with a fetched lookahead (fetch or symbol!=noToken test on every path from a consuming store and from entry); %d read(s) on the shift path rely on the table invariant that shifts come from a lookahead lookup", nreads, exempt)
	}
	c.MinCount(rule, "parsers/", 5)
}

func asValue(i ssa.Instruction) ssa.Value {
	v, _ := i.(ssa.Value)
	return v
}
