package main

import (
	"go/token"

	"golang.org/x/tools/go/ssa"
)

type natLoop struct {
	Header *ssa.BasicBlock
	Body   map[*ssa.BasicBlock]bool
}

// naturalLoops returns the natural loops of f (one per header, back edges merged).
func naturalLoops(f *ssa.Function) []*natLoop {
	byHeader := map[*ssa.BasicBlock]*natLoop{}
	var order []*natLoop
	for _, b := range f.Blocks {
		for _, s := range b.Succs {
			if s.Dominates(b) { // back edge b -> s
				l := byHeader[s]
				if l == nil {
					l = &natLoop{Header: s, Body: map[*ssa.BasicBlock]bool{s: true}}
					byHeader[s] = l
					order = append(order, l)
				}
				st := []*ssa.BasicBlock{b}
				for len(st) > 0 {
					x := st[len(st)-1]
					st = st[:len(st)-1]
					if l.Body[x] {
						continue
					}
					l.Body[x] = true
					st = append(st, x.Preds...)
				}
			}
		}
	}
	return order
}

// innermostLoop returns the smallest natural loop containing b (nil if none).
func innermostLoop(loops []*natLoop, b *ssa.BasicBlock) *natLoop {
	var best *natLoop
	for _, l := range loops {
		if l.Body[b] && (best == nil || len(l.Body) < len(best.Body)) {
			best = l
		}
	}
	return best
}

// induction describes the loop's induction variable: a header phi with an in-loop edge
// phi±const. dir is +1/-1, start the value entering from outside the loop.
func (l *natLoop) induction() (phi *ssa.Phi, dir int, start ssa.Value) {
	for _, ins := range l.Header.Instrs {
		p, ok := ins.(*ssa.Phi)
		if !ok {
			break
		}
		var st ssa.Value
		d := 0
		for i, e := range p.Edges {
			pred := l.Header.Preds[i]
			if !l.Body[pred] {
				st = e
				continue
			}
			if bo, ok := e.(*ssa.BinOp); ok && bo.X == ssa.Value(p) {
				if c, ok := bo.Y.(*ssa.Const); ok && c.Value != nil && c.Int64() == 1 {
					switch bo.Op {
					case token.ADD:
						d = 1
					case token.SUB:
						d = -1
					}
				}
			}
		}
		if d != 0 {
			return p, d, st
		}
	}
	return nil, 0, nil
}
