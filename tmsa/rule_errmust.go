package main

import (
	"fmt"
	"go/token"
	"go/types"
	"strings"

	"golang.org/x/tools/go/ssa"
)

// ERRFLOW(must-return): the generated ast.Parse wrappers call the parser and build a tree from
// the events seen so far. A non-nil parser error (a syntax error the handler refused, or
// ctx.Err() after a cancellation) must end the function with that error on *every* path: from the
// true edge of `err != nil` no return that yields a different error value may be reachable.
// Otherwise a truncated tree is returned with a nil error.
func ruleERRMUST(c *Ctx) {
	const rule = "ERRFLOW(must-return)"
	n := 0
	for _, rel := range parserPkgs {
		f := c.SSAFunc(rel+"/ast", "Parse")
		if f == nil {
			continue
		}
		for _, b := range f.Blocks {
			for _, ins := range b.Instrs {
				call, ok := ins.(*ssa.Call)
				if !ok {
					continue
				}
				g := call.Call.StaticCallee()
				if g == nil || g.Signature.Recv() == nil || !strings.HasPrefix(g.Name(), "Parse") || !strings.HasSuffix(g.Signature.Recv().Type().String(), ".Parser") {
					continue
				}
				// the error result
				var errv ssa.Value = call
				if tup, ok := call.Type().(*types.Tuple); ok {
					errv = nil
					for _, r := range *call.Referrers() {
						if ex, ok := r.(*ssa.Extract); ok && ex.Index == tup.Len()-1 {
							errv = ex
						}
					}
				}
				n++
				key := fmt.Sprintf("%s:%s", ssaFuncKey(f), g.Name())
				if errv == nil {
					c.Bad(rule, key, call.Pos(), "the error of %s is discarded", g.Name())
					continue
				}
				var test *ssa.If
				var onTrue *ssa.BasicBlock
				for _, r := range *errv.Referrers() {
					bo, ok := r.(*ssa.BinOp)
					if !ok || (bo.Op != token.NEQ && bo.Op != token.EQL) {
						continue
					}
					if k, ok := bo.Y.(*ssa.Const); !ok || !k.IsNil() {
						continue
					}
					for _, r2 := range *bo.Referrers() {
						if ifi, ok := r2.(*ssa.If); ok {
							test = ifi
							if bo.Op == token.NEQ {
								onTrue = ifi.Block().Succs[0]
							} else {
								onTrue = ifi.Block().Succs[1]
							}
						}
					}
				}
				if test == nil {
					c.Bad(rule, key, call.Pos(), "the error of %s is never compared with nil", g.Name())
					continue
				}
				// every return reachable from the non-nil edge yields errv
				bad := ""
				seen := map[*ssa.BasicBlock]bool{}
				st := []*ssa.BasicBlock{onTrue}
				for len(st) > 0 {
					x := st[len(st)-1]
					st = st[:len(st)-1]
					if seen[x] {
						continue
					}
					seen[x] = true
					if len(x.Instrs) > 0 {
						if ret, ok := x.Instrs[len(x.Instrs)-1].(*ssa.Return); ok {
							last := ret.Results[len(ret.Results)-1]
							if last != errv {
								bad = c.Fset.Position(ret.Pos()).String()
							}
						}
					}
					st = append(st, x.Succs...)
				}
				if bad != "" {
					c.Bad(rule, key, call.Pos(), "with a non-nil error from %s the function can still reach the return at %s, which does not yield that error: a cancelled or refused parse comes back as a (truncated) tree with a nil error", g.Name(), bad)
				} else {
					c.Ok(rule, key, call.Pos(), "a non-nil error of %s is returned on every path", g.Name())
				}
			}
		}
	}
	if n < 2 {
		c.add(rule, "count:", token.NoPos, CountDropped, true, "only %d ast.Parse wrappers found (tm and js confirmed by hand)", n)
	}
}
