package main

import (
	"fmt"
	"go/token"
	"regexp"
	"strings"

	"golang.org/x/tools/go/ssa"
)

// Rules for LALR(k) resolution (C07).
func ruleLALRK(c *Ctx) {
	// --- CODEC(deep-pointer): -3-offset encode / -action-3 decode agree in all writers and readers
	{
		const rule = "CODEC(deep-pointer)"
		encRe := regexp.MustCompile(`^\(-3 - .+\)$`)
		decRe := regexp.MustCompile(`^\(\(?-.+\)? - 3\)$|^\(\(0 - .+\) - 3\)$`)
		type site struct {
			pkg, fn string
			enc     bool
			min     int
		}
		sites := []site{
			{"lalr", "(*trieBuilder).emit$1", true, 1},
			{"lalr", "(*compiler).populateTables", true, 1},
			{"lalr", "(*compiler).resolveWithLookahead", true, 2},
			{"lalr", "Optimize", false, 1},
			{"lalr", "partitionStatesByAction$1", false, 1},
		}
		for _, rel := range parserPkgs {
			if c.SSAFunc(rel, "lalr") != nil {
				sites = append(sites, site{rel, "lalr", false, 1})
			}
		}
		for _, s := range sites {
			var f *ssa.Function
			if strings.Contains(s.fn, "$") {
				base := s.fn[:strings.Index(s.fn, "$")]
				if pf := c.SSAFunc(s.pkg, base); pf != nil && len(pf.AnonFuncs) > 0 {
					f = pf.AnonFuncs[0]
				}
			} else {
				f = c.SSAFunc(s.pkg, s.fn)
			}
			key := fmt.Sprintf("%s.%s", s.pkg, strings.Trim(s.fn, "(*)"))
			if f == nil {
				c.Lost(rule, key, "function not found")
				continue
			}
			n := 0
			var odd []string
			for _, b := range f.Blocks {
				for _, ins := range b.Instrs {
					bo, ok := ins.(*ssa.BinOp)
					if !ok || bo.Op != token.SUB {
						continue
					}
					p := vpath(bo)
					if s.enc {
						if vpath(bo.X) == "-3" {
							if encRe.MatchString(p) {
								n++
							}
						} else if k := vpath(bo.X); (k == "-2" || k == "-4") && strings.Contains(strings.ToLower(vpath(bo.Y)), "offset") {
							odd = append(odd, p)
						}
					} else {
						if vpath(bo.Y) == "3" {
							if decRe.MatchString(p) {
								n++
							} else {
								odd = append(odd, p)
							}
						} else if k := vpath(bo.Y); (k == "2" || k == "4") && strings.HasPrefix(vpath(bo.X), "-") {
							odd = append(odd, p)
						}
					}
				}
			}
			what := "decodes a lookahead pointer as -action-3"
			if s.enc {
				what = "encodes a lookahead pointer / Lalr offset as -3-offset"
			}
			switch {
			case len(odd) > 0:
				c.Bad(rule, key, f.Pos(), "%s uses %v where the Lalr pointer codec is -3-offset / -action-3", key, odd)
			case n < s.min:
				c.Bad(rule, key, f.Pos(), "%s: expected %d site(s) where it %s, found %d", key, s.min, what, n)
			default:
				c.Ok(rule, key, f.Pos(), "%s (%d sites)", what, n)
			}
		}
		// generated readers keep following pointers while action < -2
		for _, rel := range parserPkgs {
			f := c.SSAFunc(rel, "(*Parser).parse")
			if f == nil || c.SSAFunc(rel, "lalr") == nil {
				continue
			}
			okLoop := false
			for _, b := range f.Blocks {
				if len(b.Instrs) == 0 {
					continue
				}
				if ifi, ok := b.Instrs[len(b.Instrs)-1].(*ssa.If); ok {
					if _, op, r, ok := cmpNorm(ifi.Cond, true); ok && op == "<" && r == "-2" {
						okLoop = true
					}
				}
			}
			key := rel + ".Parser.parse:lookahead-class"
			if okLoop {
				c.Ok(rule, key, f.Pos(), "actions below -2 are treated as Lalr pointers")
			} else {
				c.Bad(rule, key, f.Pos(), "the parse loop must treat action < -2 as a pointer into tmLalr")
			}
		}
	}
	// --- MUSTPASS(trie-id): a minimized node gets its id before it is published in the cache
	{
		const rule = "MUSTPASS(trie-id)"
		pf := c.SSAFunc("lalr", "(*trieBuilder).minimize")
		key := "lalr.trieBuilder.minimize:id-before-publish"
		if pf == nil || len(pf.AnonFuncs) == 0 {
			c.Lost(rule, key, "function not found")
		} else {
			f := pf.AnonFuncs[0]
			var idStore, publish ssa.Instruction
			for _, b := range f.Blocks {
				for _, ins := range b.Instrs {
					st, ok := ins.(*ssa.Store)
					if !ok {
						continue
					}
					if strings.HasSuffix(vpath(st.Addr), ".id") {
						idStore = st
					}
					// *ret = *n : whole-node store into the cached node
					if ld, ok := st.Val.(*ssa.UnOp); ok && ld.Op == token.MUL && strings.HasSuffix(ld.Type().String(), "lalr.trieNode") {
						publish = st
					}
				}
			}
			// the id counter lives as long as the cache: both are fields of the builder
			if st, ok := idStore.(*ssa.Store); ok {
				key2 := "lalr.trieBuilder.minimize:id-scope"
				src := st.Val
				if ld, ok := src.(*ssa.UnOp); ok && ld.Op == token.MUL {
					if fa, ok := ld.X.(*ssa.FieldAddr); ok && strings.HasSuffix(fa.X.Type().String(), "lalr.trieBuilder") {
						c.Ok(rule, key2, st.Pos(), "node ids come from a counter field of the trie builder, which also owns the cross-conflict cache")
					} else {
						c.Bad(rule, key2, st.Pos(), "node ids come from %s, which does not live as long as the builder's cache: ids restart for every conflict while cached nodes of earlier conflicts keep theirs, so parents of different conflicts collide in the cache", normalizePhi(vpath(ld.X)))
					}
				} else {
					c.Bad(rule, key2, st.Pos(), "node ids are not read from a counter field of the trie builder (%s)", normalizePhi(vpath(src)))
				}
			}
			switch {
			case idStore == nil || publish == nil:
				c.Undec(rule, key, f.Pos(), "id assignment (%v) or node publication *ret = *n (%v) not found", idStore != nil, publish != nil)
			case instrDominates(idStore, publish):
				c.Ok(rule, key, idStore.Pos(), "n.id is assigned before the node is copied into the shared cache entry (parents key their children by id)")
			default:
				c.Bad(rule, key, publish.Pos(), "the node is copied into the shared cache before its id is assigned: every cached node keeps id 0, parents with equal edge terminals but different children collide in the cache and a conflict state is wired to another state's automaton")
			}
		}
	}
	// --- DTX(resolved-flag): a conflict counts as resolved only if every lookahead terminal was resolved
	{
		const rule = "DTX(resolved-flag)"
		f := c.SSAFunc("lalr", "(*compiler).resolveWithLookahead")
		key := "lalr.compiler.resolveWithLookahead:resolved"
		if f == nil {
			c.Lost(rule, key, "function not found")
		} else {
			found := false
			// the flag: the boolean that governs `conflict.Resolved = true`
			flagPhis := map[*ssa.Phi]bool{}
			for _, b := range f.Blocks {
				for _, ins := range b.Instrs {
					st, ok := ins.(*ssa.Store)
					if !ok || !strings.HasSuffix(vpath(st.Addr), ".Resolved") || vpath(st.Val) != "true" {
						continue
					}
					for _, g := range flattenConds(governing(b)) {
						if ph, ok := g.V.(*ssa.Phi); ok && g.Pol {
							var collect func(p *ssa.Phi, d int)
							collect = func(p *ssa.Phi, d int) {
								if flagPhis[p] || d > 4 {
									return
								}
								flagPhis[p] = true
								for _, e := range p.Edges {
									if q, ok := e.(*ssa.Phi); ok {
										collect(q, d+1)
									}
								}
							}
							collect(ph, 0)
						}
					}
				}
			}
			for ph := range flagPhis {
				found = true
				var bad []string
				for _, e := range ph.Edges {
					switch x := e.(type) {
					case *ssa.Const:
					case *ssa.Phi:
						if !flagPhis[x] {
							bad = append(bad, vpath(e))
						}
					default:
						bad = append(bad, normalizePhi(vpath(e)))
					}
				}
				if len(bad) > 0 {
					c.Bad(rule, key, ph.Pos(), "the per-conflict flag that decides `conflict.Resolved = true` is overwritten with %v inside the loop over lookahead terminals: a later resolvable terminal hides an earlier unresolvable one and the conflict is silently dropped", bad)
				}
			}
			if !found {
				c.Undec(rule, key, f.Pos(), "flag `resolved` not found")
			} else {
				ok := true
				for _, o := range c.obs {
					if o.Rule == rule && o.Key == key && o.Status != OK {
						ok = false
					}
				}
				if ok {
					c.Ok(rule, key, f.Pos(), "`resolved` only ever changes from true to false inside the loop over lookahead terminals")
				}
			}
		}
	}
	// UsedLADepth is the maximum of trie.depth+1
	{
		const rule = "DTX(resolved-flag)"
		f := c.SSAFunc("lalr", "(*compiler).resolveWithLookahead")
		if f != nil {
			ok := false
			for _, b := range f.Blocks {
				for _, ins := range b.Instrs {
					if st, isSt := ins.(*ssa.Store); isSt && strings.HasSuffix(vpath(st.Addr), "UsedLADepth") {
						p := normalizePhi(vpath(st.Val))
						if strings.HasPrefix(p, "max(") && strings.Contains(p, "UsedLADepth") && strings.Contains(p, ".depth + 1)") {
							ok = true
						}
					}
				}
			}
			if ok {
				c.Ok(rule, "lalr.compiler.resolveWithLookahead:UsedLADepth", f.Pos(), "UsedLADepth = max(UsedLADepth, trie.depth+1): templates emit the deep-lookahead loop whenever a pointer exists")
			} else {
				c.Bad(rule, "lalr.compiler.resolveWithLookahead:UsedLADepth", f.Pos(), "UsedLADepth must be raised to trie.depth+1 whenever a lookahead pointer is patched into Lalr (templates and lalr.Compile branch on it)")
			}
		}
	}
}

// PROPAGATE(unresolved): trieBuilder.resolve answers nil when the conflict cannot be decided
// within the remaining depth. A node is decided only if *every* terminal that can follow is: a
// nil answer of the recursive call for one terminal must make the whole node nil (return nil).
// Skipping that terminal instead marks the conflict as resolved although one continuation has
// no entry - the parser then reports a syntax error on a valid sentence and the conflict is not
// reported at compile time.
func ruleTRIEUNRESOLVED(c *Ctx) {
	const rule = "PROPAGATE(unresolved)"
	f := c.SSAFunc("lalr", "(*trieBuilder).resolve")
	if f == nil {
		c.Lost(rule, "lalr.trieBuilder.resolve", "function not found")
		return
	}
	n := 0
	for _, b := range f.Blocks {
		for _, ins := range b.Instrs {
			call, ok := ins.(*ssa.Call)
			if !ok || call.Call.StaticCallee() != f {
				continue
			}
			n++
			key := fmt.Sprintf("lalr.trieBuilder.resolve:child-nil#%d", n)
			verdict := ""
			if call.Referrers() != nil {
				for _, r := range *call.Referrers() {
					bo, ok := r.(*ssa.BinOp)
					if !ok || (bo.Op != token.EQL && bo.Op != token.NEQ) || bo.Referrers() == nil {
						continue
					}
					other := bo.Y
					if other == ssa.Value(call) {
						other = bo.X
					}
					if k, ok := other.(*ssa.Const); !ok || k.Value != nil {
						continue
					}
					for _, r2 := range *bo.Referrers() {
						ifi, ok := r2.(*ssa.If)
						if !ok {
							continue
						}
						nilSucc := ifi.Block().Succs[0]
						if bo.Op == token.NEQ {
							nilSucc = ifi.Block().Succs[1]
						}
						ret, isRet := nilSucc.Instrs[len(nilSucc.Instrs)-1].(*ssa.Return)
						if isRet && len(ret.Results) == 1 {
							if k, ok := ret.Results[0].(*ssa.Const); ok && k.Value == nil {
								verdict = "ok"
								continue
							}
						}
						verdict = "the nil (unresolvable) answer of the recursive call does not make resolve return nil"
					}
				}
			}
			switch verdict {
			case "ok":
				c.Ok(rule, key, call.Pos(), "an unresolvable continuation makes the whole node unresolved (return nil)")
			case "":
				c.Bad(rule, key, call.Pos(), "the result of the recursive resolve call is not tested for nil")
			default:
				c.Bad(rule, key, call.Pos(), "%s: the conflict counts as resolved although one continuation has no entry (valid sentences are rejected, the conflict is not reported)", verdict)
			}
		}
	}
	if n < 1 {
		c.Lost(rule, "lalr.trieBuilder.resolve:child-nil", "no recursive call found")
	}
}
